(* C17: registrations are independent of each other in Workflow.process_nglob_changes, and a
   per-batch memo of will_change is harmless iff its key determines the registration.

   1. [process_rows_independent]: the row written for a registration is process_reg of that
      registration alone; it does not depend on which other registrations exist, nor on their order.
   2. [memo_sound]: memoising under a key that determines (matcher, recorded results) on the list
      of registrations changes nothing.
   3. [memo_by_pattern_refuted]: memoising under the pattern string alone is wrong: two
      registrations of `data_${*i}.txt` with i = [0-9] and i = [a-z], the file data_b.txt appears:
      the second registration receives the first one's answer (None) and misses its new match. *)
From Coq Require Import List NArith Bool Arith Lia.
From SV Require Import lib.Bytes.
From SV Require Import lib.Regex.
From SV Require Import model.Nglob.
From SV Require Import model.NglobBatch.
From SV Require Import model.NglobRegs.
From SV Require Import proofs.NglobProofs.
From SV Require Import proofs.NglobBatchProofs.
Import ListNotations.
Open Scope N_scope.

Section Independence.
  Variable K : Type.
  Variable keqb : K -> K -> bool.

  Theorem process_rows_independent :
    forall (regs : list (reg K)) (deleted updated : list str) (out : list (reg K * bool)),
      process_nglob_changes keqb regs deleted updated = Some out ->
      length out = length regs
      /\ forall i r, nth_error regs i = Some r -> nth_error out i = Some (process_reg keqb deleted updated r).
  Proof.
    intros regs deleted updated out H. unfold process_nglob_changes in H.
    destruct (overlap deleted updated); [discriminate|]. inversion H; subst out. split; [apply map_length|].
    intros i r Hr. rewrite nth_error_map, Hr. reflexivity.
  Qed.

  (* the same registration in two different lists of registrations gets the same row *)
  Corollary process_row_ignores_other_registrations :
    forall (pre post pre' post' : list (reg K)) (r : reg K) (deleted updated : list str) out out',
      process_nglob_changes keqb (pre ++ r :: post) deleted updated = Some out ->
      process_nglob_changes keqb (pre' ++ r :: post') deleted updated = Some out' ->
      nth_error out (length pre) = nth_error out' (length pre')
      /\ nth_error out (length pre) = Some (process_reg keqb deleted updated r).
  Proof.
    intros pre post pre' post' r deleted updated out out' H H'.
    destruct (process_rows_independent _ _ _ _ H) as [_ Hi]. destruct (process_rows_independent _ _ _ _ H') as [_ Hi'].
    assert (E : nth_error (pre ++ r :: post) (length pre) = Some r) by (rewrite nth_error_app2, Nat.sub_diag by lia; reflexivity).
    assert (E' : nth_error (pre' ++ r :: post') (length pre') = Some r) by (rewrite nth_error_app2, Nat.sub_diag by lia; reflexivity).
    rewrite (Hi _ _ E), (Hi' _ _ E'). split; reflexivity.
  Qed.

  (* ---- the memo ---- *)
  Variable P : Type.
  Variable peqb : P -> P -> bool.
  Hypothesis peqb_spec : forall a b, peqb a b = true <-> a = b.

  Definition plain_row (deleted updated : list str) (r : reg K) : reg K * bool :=
    match evolve keqb deleted updated r with Some e => (e, true) | None => (r, false) end.

  Lemma plain_row_process_reg deleted updated r : plain_row deleted updated r = process_reg keqb deleted updated r.
  Proof.
    unfold plain_row, evolve, process_reg. destruct (will_change keqb (fst r) (snd r) deleted updated); reflexivity.
  Qed.

  (* the cache only holds answers that are the registration's own *)
  Definition cache_ok (deleted updated : list str) (regs : list (kreg K P)) (c : list (P * option (reg K))) : Prop :=
    forall k v, cache_get K P peqb k c = Some v ->
      forall r, In (k, r) regs -> v = evolve keqb deleted updated r.

  Lemma memo_loop_sound deleted updated : forall (regs : list (kreg K P)) c,
    (forall k r1 r2, In (k, r1) regs -> In (k, r2) regs -> r1 = r2) ->
    (forall k v, cache_get K P peqb k c = Some v -> forall r, In (k, r) regs -> v = evolve keqb deleted updated r) ->
    memo_loop keqb peqb deleted updated regs c = map (fun kr => plain_row deleted updated (snd kr)) regs.
  Proof.
    induction regs as [|[k r] rest IH]; intros c Hinj Hc; [reflexivity|].
    cbn [memo_loop map snd].
    assert (Hinj' : forall k0 r1 r2, In (k0, r1) rest -> In (k0, r2) rest -> r1 = r2)
      by (intros k0 r1 r2 H1 H2; apply (Hinj k0); right; assumption).
    destruct (cache_get K P peqb k c) as [v|] eqn:Eg.
    - rewrite (Hc k v Eg r (or_introl eq_refl)). unfold plain_row at 1. f_equal.
      apply IH; [exact Hinj'|]. intros k0 v0 H0 r0 Hin. apply (Hc k0 v0 H0). right. exact Hin.
    - unfold plain_row at 1. f_equal. apply IH; [exact Hinj'|].
      intros k0 v0 H0 r0 Hin. cbn [cache_get] in H0. destruct (peqb k0 k) eqn:Ek.
      + apply peqb_spec in Ek. subst k0. inversion H0; subst v0.
        rewrite (Hinj k r0 r (or_intror Hin) (or_introl eq_refl)). reflexivity.
      + apply (Hc k0 v0 H0). right. exact Hin.
  Qed.

  Theorem memo_sound :
    forall (regs : list (kreg K P)) (deleted updated : list str),
      (forall k r1 r2, In (k, r1) regs -> In (k, r2) regs -> r1 = r2) ->
      process_memo keqb peqb regs deleted updated = process_nglob_changes keqb (map snd regs) deleted updated.
  Proof.
    intros regs deleted updated Hinj. unfold process_memo, process_nglob_changes.
    destruct (overlap deleted updated); [reflexivity|]. f_equal.
    rewrite (memo_loop_sound deleted updated regs [] Hinj) by (intros k v H; discriminate).
    rewrite map_map. apply map_ext. intros [k r]. apply plain_row_process_reg.
  Qed.
End Independence.

(* ---- memo keyed by the pattern string alone ---- *)

Definition rg_pat : str := [100;97;116;97;95;36;123;42;105;125;46;116;120;116].          (* data_${*i}.txt *)
Definition rg_digits : subs_t := [([105], [91;48;45;57;93])].                              (* i = [0-9] *)
Definition rg_letters : subs_t := [([105], [91;97;45;122;93])].                            (* i = [a-z] *)
Definition rg_1 : str := [100;97;116;97;95;49;46;116;120;116].                            (* data_1.txt *)
Definition rg_a : str := [100;97;116;97;95;97;46;116;120;116].                            (* data_a.txt *)
Definition rg_b : str := [100;97;116;97;95;98;46;116;120;116].                            (* data_b.txt *)

Definition rg_mv (subs : subs_t) : str -> option key :=
  match ng_make rg_pat subs with COk g => ng_mv g | CErr _ => fun _ => None end.

Definition rg_regs : list (kreg key str) :=
  [ (rg_pat, (rg_mv rg_digits, scan key_eqb (rg_mv rg_digits) [rg_1; rg_a]));
    (rg_pat, (rg_mv rg_letters, scan key_eqb (rg_mv rg_letters) [rg_1; rg_a])) ].

Definition rows_view (o : option (list (reg key * bool))) : option (list (list str * bool)) :=
  option_map (map (fun x => (files (snd (fst x)), snd x))) o.

Theorem memo_by_pattern_refuted :
  rows_view (process_memo key_eqb str_eqb rg_regs [] [rg_b]) = Some [([rg_1], false); ([rg_a], false)]
  /\ rows_view (process_nglob_changes key_eqb (map snd rg_regs) [] [rg_b]) = Some [([rg_1], false); ([rg_a; rg_b], true)]
  /\ files (scan key_eqb (rg_mv rg_letters) [rg_1; rg_a; rg_b]) = [rg_a; rg_b].
Proof. vm_compute. repeat split. Qed.

(* and when the first registration changes, the second row receives the first one's object:
   the digits' match set under the letters' registration *)
Theorem memo_by_pattern_persists_foreign_object :
  rows_view (process_memo key_eqb str_eqb rg_regs [rg_1] []) = Some [([], true); ([], true)]
  /\ rows_view (process_nglob_changes key_eqb (map snd rg_regs) [rg_1] []) = Some [([], true); ([rg_a], false)].
Proof. vm_compute. repeat split. Qed.

(* ---- every registration's row after a watch-phase commit equals ITS OWN fresh scan ---- *)
Theorem watch_commit_every_row :
  forall (K : Type) (keqb : K -> K -> bool), (forall a b, keqb a b = true <-> a = b) ->
  forall (rel : bool -> str -> bool) (under : bool -> str -> list str)
         (regs : list (reg K)) (fs : list str) (tr : list (item * list str)) (unchanged : list str),
  exists out,
    watch_commit keqb rel under regs (map fst tr) unchanged = Some out
    /\ length out = length regs
    /\ forall i mv old,
         nth_error regs i = Some (mv, old) ->
         (forall db p, mv p <> None -> rel db p = true) ->
         trace_ok K mv under fs tr ->
         (forall p, In p unchanged -> mv p <> None -> In p fs) ->
         reachable K keqb mv old ->
         results_eqb keqb old (scan keqb mv fs) = true ->
         exists new changed,
           nth_error out i = Some ((mv, new), changed)
           /\ (changed = false <-> results_eqb keqb old (scan keqb mv (trace_final fs tr)) = true)
           /\ (changed = true -> results_eqb keqb new (scan keqb mv (trace_final fs tr)) = true)
           /\ (changed = false -> new = old).
Proof.
  intros K keqb Hk rel under regs fs tr unchanged.
  destruct (watch_commit keqb rel under regs (map fst tr) unchanged) as [out|] eqn:E;
    [|exfalso; exact (watch_commit_never_raises rel under K keqb regs (map fst tr) unchanged E)].
  exists out. split; [reflexivity|]. unfold watch_commit in E.
  destruct (process_rows_independent K keqb _ _ _ _ E) as [Hlen Hrow]. split; [exact Hlen|].
  intros i mv old Hi Hrel Htr Hpr Hreach Hold. rewrite (Hrow i (mv, old) Hi).
  set (st := prune unchanged (fold_changes rel under (map fst tr) ws_empty)) in *.
  destruct (process_reg keqb (ws_deleted st) (ws_updated st) (mv, old)) as [[mv' new] changed] eqn:Ep.
  assert (Hmv : mv' = mv).
  { unfold process_reg in Ep. cbn [fst snd] in Ep.
    destruct (will_change keqb mv old (ws_deleted st) (ws_updated st)); inversion Ep; reflexivity. }
  subst mv'. exists new, changed. split; [reflexivity|].
  exact (watch_commit_row K keqb Hk mv rel under Hrel fs tr unchanged old Htr Hpr Hreach Hold new changed Ep).
Qed.
