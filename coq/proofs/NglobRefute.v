(* C17: the full statement is false of the faithful model.  Five witnesses, each a closed
   computation; each is replayed on the real implementation by the oracle of harness/p_c17.py. *)
From Coq Require Import List NArith Bool.
From SV Require Import lib.Bytes.
From SV Require Import lib.Regex.
From SV Require Import model.Nglob.
From SV Require Import model.GlobSem.
Import ListNotations.
Open Scope N_scope.

(* What NamedGlob(p, subs).glob() records on a tree, what its matcher accepts among the existing
   paths, and what the standard glob returns for the translated pattern. *)
Definition recorded (t : list entry) (p : str) (subs : subs_t) : option (list str) :=
  match ng_make p subs, conv_glob p subs with
  | COk g, COk gp => Some (files (scan key_eqb (ng_mv g) (glob_paths t gp)))
  | _, _ => None
  end.

Definition accepted_existing (t : list entry) (p : str) (subs : subs_t) : option (list str) :=
  match ng_make p subs with
  | COk g => Some (filter (ng_accepts g) (all_paths t))
  | CErr _ => None
  end.

Definition std_glob (t : list entry) (p : str) (subs : subs_t) : option (list str) :=
  match conv_glob p subs with COk gp => Some (glob_paths t gp) | CErr _ => None end.

Definition same_set (a b : option (list str)) : bool :=
  match a, b with
  | Some x, Some y => forallb (fun p => mem_str p y) x && forallb (fun p => mem_str p x) y
  | _, _ => false
  end.

(* D5a: `*[!a]` on a tree with one directory a/: the regex [^/]*[^a]/? accepts "a/" (the negated
   class matches the separator); glob does not return it. *)
Lemma negated_class_accepts_separator_refuted :
  exists t p subs path,
    recorded t p subs = Some [] /\ accepted_existing t p subs = Some [path]
    /\ nglob_ref false p subs path = Some false /\ nglob_ref true p subs path = Some false.
Proof. exists [([97], Dir [])], [42;91;33;97;93], [], [97;47]. vm_compute. repeat split. Qed.

(* D5a continued: the update law needs the recorded set to be the accepted existing paths; here
   will_change after creating a/ reports a new match while a rescan finds none. *)
Lemma update_differs_from_rescan_refuted :
  exists p subs g t',
    ng_make p subs = COk g
    /\ recorded [] p subs = Some []
    /\ recorded t' p subs = Some []
    /\ will_change key_eqb (ng_mv g) [] [] (all_paths t') <> None.
Proof.
  exists [42;91;33;97;93], [].
  destruct (ng_make [42;91;33;97;93] []) as [g|] eqn:E; [|vm_compute in E; discriminate].
  exists g, [([97], Dir [])]. split; [reflexivity|].
  vm_compute in E. inversion E; subst. vm_compute. repeat split; discriminate.
Qed.

(* D5b: the pattern `a` on a tree with the directory a/: glob returns the directory, the regex
   `a` does not accept "a/", so the recorded set is not what the standard glob returns. *)
Lemma directory_dropped_refuted :
  exists t p subs, recorded t p subs = Some [] /\ std_glob t p subs = Some [[97; 47]].
Proof. exists [([97], Dir [])], [97], []. vm_compute. split; reflexivity. Qed.

(* D5c (fixed in 203e57e).  `f/**` where f is a regular file: glob still yields "f/" (the recursive
   component yields its own directory unchecked) and the regex f/.* accepts it; glob() now skips a
   result that ends with a separator but is no directory, so nothing is recorded. *)
Lemma nonexistent_directory_filtered :
  exists t p subs gp path,
    conv_glob p subs = COk gp /\ In path (glob_paths_raw t gp) /\ mem_str path (all_paths t) = false
    /\ recorded t p subs = Some [] /\ accepted_existing t p subs = Some [].
Proof.
  exists [([102], File)], [102;47;42;42], [], [102;47;42;42], [102;47]. vm_compute.
  repeat split. left. reflexivity.
Qed.

(* what the filter guarantees, for every candidate: one that ends with a separator is a directory *)
Lemma kept_slash_is_directory :
  forall pn, kept pn = true -> ends_slash (canon pn) = true -> is_dir_opt (snd pn) = true.
Proof.
  intros [path nd]. unfold kept, canon. cbn [fst snd]. destruct (is_dir_opt nd); [reflexivity|].
  cbn. intros H1 H2. rewrite H2 in H1. discriminate.
Qed.

(* the variant before the fix (no filter): the non-existing path "f/" was recorded *)
Definition recorded_unfiltered (t : list entry) (p : str) (subs : subs_t) : option (list str) :=
  match ng_make p subs, conv_glob p subs with
  | COk g, COk gp => Some (files (scan key_eqb (ng_mv g) (glob_paths_raw t gp)))
  | _, _ => None
  end.

Lemma nonexistent_directory_recorded_before_fix :
  exists t p subs path,
    recorded_unfiltered t p subs = Some [path] /\ mem_str path (all_paths t) = false.
Proof. exists [([102], File)], [102;47;42;42], [], [102;47]. vm_compute. split; reflexivity. Qed.

(* D5d: `d/*${*n}`: the last component consists of two wildcards that may both be empty; the
   trailing rule only looks at the part before the last one, so the regex accepts "d/". *)
Lemma empty_component_accepted_refuted :
  exists t p subs path,
    recorded t p subs = Some [] /\ accepted_existing t p subs = Some [path]
    /\ nglob_ref false p subs path = Some false.
Proof. exists [([100], Dir [])], [100;47;42;36;123;42;110;125], [], [100;47]. vm_compute. repeat split. Qed.

(* D5e (fixed in 5ed14b3).  `d/**` and a file whose name contains a newline: every compile site now
   passes re.DOTALL, so the recorded set is what the standard glob returns. *)
Lemma recursive_wildcard_matches_newline :
  exists t p subs path,
    std_glob t p subs = Some [[100;47]; path] /\ recorded t p subs = Some [[100;47]; path]
    /\ nglob_ref false p subs path = Some true.
Proof. exists [([100], Dir [([110;10;108], File)])], [100;47;42;42], [], [100;47;110;10;108]. vm_compute. repeat split. Qed.

(* `.*` compiled with DOTALL accepts every string *)
Lemma dstar_accepts_all : forall s, accepted re_dstar s.
Proof.
  intros s. exists []. unfold re_dstar, dotall. induction s as [|c s IH]; [constructor|].
  change (c :: s) with ([c] ++ s). econstructor; [|exact IH]. constructor. left. reflexivity.
Qed.

(* the variant before the fix: the same regex text without DOTALL rejects the path *)
Lemma newline_not_matched_before_fix :
  let old := rcat [RStr [100;47]; RStar (RAny false)] in
  let new := rcat [RStr [100;47]; RStar (RAny true)] in
  pr old = pr new /\ conv_regex [100;47;42;42] [] = COk [RStr [100;47]; RStar (RAny true)]
  /\ accepts old [100;47;110;10;108] = false /\ accepts new [100;47;110;10;108] = true.
Proof. vm_compute. repeat split. Qed.

(* D5d, second trigger: `d/**/*`: the part before the last wildcard is (?:.*/|), which does not
   "end with a separator" as text, so the last `*` may stay empty and "d/" is accepted. *)
Lemma empty_component_after_recursive_refuted :
  exists t p subs path,
    recorded t p subs = Some [] /\ accepted_existing t p subs = Some [path]
    /\ nglob_ref false p subs path = Some false.
Proof. exists [([100], Dir [])], [100;47;42;42;47;42], [], [100;47]. vm_compute. repeat split. Qed.

(* D5f: `*${*n}aa` with the sub-pattern n = `**`: the sub-pattern is compiled on its own to `.*`,
   which crosses separators, while the glob translation merges it into `**aa`, a single component. *)
Lemma recursive_sub_pattern_refuted :
  exists t p subs path,
    recorded t p subs = Some [] /\ accepted_existing t p subs = Some [path].
Proof.
  exists [([97;97], Dir [([97;97], File)])], [42;36;123;42;110;125;97;97], [([110], [42;42])], [97;97;47;97;97].
  vm_compute. repeat split.
Qed.

(* ---- The full statement of C17 (kept visible, not proved; refuted on the current code) ---- *)

Fixpoint name_occurrences (ts : list tok) : list str :=
  match ts with
  | [] => []
  | TName n :: r => n :: name_occurrences r
  | _ :: r => name_occurrences r
  end.

Definition C17_full_statement : Prop :=
  forall (p : str) (subs : subs_t) (g : ng) (gp : str),
    ng_make p subs = COk g -> conv_glob p subs = COk gp ->
    (* the matcher is the documented semantics (standard glob reading of directories) *)
    (forall path b, wf_path path = true -> nglob_ref true p subs path = Some b -> ng_accepts g path = b)
    (* recorded = existing paths the matcher accepts, on every finite tree *)
    /\ (forall t q, In q (files (scan key_eqb (ng_mv g) (glob_paths t gp)))
                    <-> In q (all_paths t) /\ ng_accepts g q = true)
    (* ... which without repeated names is what the standard recursive glob returns *)
    /\ (NoDup (name_occurrences (tokenize p)) ->
        forall t q, In q (files (scan key_eqb (ng_mv g) (glob_paths t gp))) <-> In q (glob_paths t gp))
    (* replacing an anonymous `*` by a fresh named wildcard never changes which paths match *)
    /\ (forall p2 g2 pre post n,
          tokenize p = pre ++ TStar :: post -> tokenize p2 = pre ++ TName n :: post ->
          ~ In n (name_occurrences (tokenize p)) -> subs_get n subs = None ->
          ng_make p2 subs = COk g2 -> forall path, ng_accepts g2 path = ng_accepts g path).

Lemma C17_full_statement_refuted : ~ C17_full_statement.
Proof.
  intros H.
  destruct (ng_make [42;91;33;97;93] []) as [g|] eqn:E; [|vm_compute in E; discriminate].
  destruct (H [42;91;33;97;93] [] g [42;91;33;97;93] E eq_refl) as [_ [H2 _]].
  specialize (H2 [([97], Dir [])] [97;47]).
  vm_compute in E. inversion E; subst g. clear E.
  destruct H2 as [_ H2]. assert (Hin : In [97;47] []); [|destruct Hin].
  apply H2. vm_compute. split; [left; reflexivity|reflexivity].
Qed.

Lemma empty_component_accepted_both_refuted :
  (exists t p subs path,
     recorded t p subs = Some [] /\ accepted_existing t p subs = Some [path]
     /\ nglob_ref false p subs path = Some false)
  /\ (exists t p subs path,
     recorded t p subs = Some [] /\ accepted_existing t p subs = Some [path]
     /\ nglob_ref false p subs path = Some false /\ p = [100;47;42;42;47;42]).
Proof.
  split; [exact empty_component_accepted_refuted|].
  destruct empty_component_after_recursive_refuted as [t [p [subs [path H]]]].
  exists [([100], Dir [])], [100;47;42;42;47;42], [], [100;47]. vm_compute. repeat split.
Qed.

(* D5d, third trigger: `a${*n}/${*n}`: with n = "" the back-reference is empty and "a/" is accepted. *)
Lemma empty_component_backref_refuted :
  exists t p subs path,
    recorded t p subs = Some [] /\ accepted_existing t p subs = Some [path]
    /\ nglob_ref false p subs path = Some false.
Proof. exists [([97], Dir [])], [97;36;123;42;110;125;47;36;123;42;110;125], [], [97;47]. vm_compute. repeat split. Qed.
