(* C04: the cone invariant over the transactions of a rebuild that CHANGE nodes and edges
   (reset_for_rerun, define_step incl. full / partial recycle, declare_static, amend_step, failed
   completions, _reset_step_to_pending), relative to the evolving graph.

   Method: a frame FR s s' relative to a set D of keys ("the cone"): whatever a transaction changes
   about (a) which nodes are attached, (b) step states, (c) dependency rows, (d) creator links,
   (e) BUILT file rows, it changes only for keys of D.  Every function of model/Graph.v on the
   path of the covered transactions gets one lemma `wpg false (f s) (FR s)` (lax: only the Ok result
   is constrained, so guards `if .. then Internal/Usage ..` added in front of a body are peeled by
   the tactic [guards] and do not break the proofs). *)
From Coq Require Import List NArith Bool Lia PeanoNat.
From SV Require Import lib.Bytes lib.Closure model.Graph model.GraphInv model.GraphDump model.Noop
  proofs.GraphBase proofs.GraphFrames proofs.GraphTreeSim proofs.NoopProofs.
Import ListNotations.
Open Scope N_scope.

(* peel guards and binds of a goal [wpg false r Q] *)
Ltac guard1 :=
  match goal with
  | |- wpg _ (Usage _) _ => exact I
  | |- wpg false (Internal _) _ => exact I
  | |- wpg _ (if ?c then Internal _ else _) _ => let E := fresh "Hg" in destruct c eqn:E; [exact I|]
  | |- wpg _ (if ?c then Usage _ else _) _ => let E := fresh "Hg" in destruct c eqn:E; [exact I|]
  end.
Ltac guards := repeat guard1.

Lemma wpg_false_ok {A} (r : res A) (Q : A -> Prop) a : wpg false r Q -> r = Ok a -> Q a.
Proof. intros H ->. exact H. Qed.

Section Frame.
  Variable D : key -> Prop.

  (* new creator links never start at a file *)
  Definition link_ok (a : key) : Prop := fst a <> KFile.

  Record FR (s s' : st) : Prop := {
    fr_att : forall k, attached k s' = true -> attached k s = true \/ D k;
    fr_sst : forall l x, sstate_of l s' = Some x -> sstate_of l s = Some x \/ D (KStep, l);
    fr_dep : forall a b, has_dep a b s' = true -> has_dep a b s = true \/ D b;
    fr_prod : forall n' a, In n' (nodes s') -> ncre n' = Some a ->
                (exists n, In n (nodes s) /\ nk n = nk n' /\ ncre n = Some a) \/ (D (nk n') /\ link_ok a);
    fr_cre : forall b, creator_of b s' = creator_of b s \/ D b;
    fr_nb : forall f, fstate_of f s' = Some FBuilt -> fstate_of f s = Some FBuilt \/ D (KFile, f) }.

  (* the cone is closed under the dependency rows and the creator links of the state; no node has
     a file as its creator *)
  Record Good (s : st) : Prop := {
    gd_dep : forall a b, D a -> has_dep a b s = true -> D b;
    gd_prod : forall n a, In n (nodes s) -> ncre n = Some a -> D a -> D (nk n);
    gd_nfc : forall n a, In n (nodes s) -> ncre n = Some a -> link_ok a }.

  Lemma FR_refl s : FR s s.
  Proof.
    constructor; intros; try (left; assumption); try (left; reflexivity).
    left. exists n'. auto.
  Qed.

  Lemma FR_trans s1 s2 s3 : FR s1 s2 -> FR s2 s3 -> FR s1 s3.
  Proof.
    intros A B. constructor.
    - intros k H. destruct (fr_att _ _ B k H) as [H2|H2]; [|right; exact H2]. apply (fr_att _ _ A k H2).
    - intros l x H. destruct (fr_sst _ _ B l x H) as [H2|H2]; [|right; exact H2]. apply (fr_sst _ _ A l x H2).
    - intros a b H. destruct (fr_dep _ _ B a b H) as [H2|H2]; [|right; exact H2]. apply (fr_dep _ _ A a b H2).
    - intros n3 a Hin Hc. destruct (fr_prod _ _ B n3 a Hin Hc) as [[n2 [Hin2 [Hk2 Hc2]]]|H2]; [|right; exact H2].
      destruct (fr_prod _ _ A n2 a Hin2 Hc2) as [[n1 [Hin1 [Hk1 Hc1]]]|[H1 H1']].
      + left. exists n1. repeat split; [exact Hin1 | congruence | exact Hc1].
      + right. rewrite <- Hk2. auto.
    - intros b. destruct (fr_cre _ _ B b) as [H2|H2]; [|right; exact H2].
      destruct (fr_cre _ _ A b) as [H1|H1]; [left; congruence | right; exact H1].
    - intros f H. destruct (fr_nb _ _ B f H) as [H2|H2]; [|right; exact H2]. apply (fr_nb _ _ A f H2).
  Qed.

  Lemma Good_FR s s' : Good s -> FR s s' -> Good s'.
  Proof.
    intros G F. constructor.
    - intros a b Ha Hab. destruct (fr_dep _ _ F a b Hab) as [H|H]; [exact (gd_dep _ G a b Ha H) | exact H].
    - intros n' a Hin Hc Ha. destruct (fr_prod _ _ F n' a Hin Hc) as [[n [Hn [Hk Hcn]]]|[H _]]; [|exact H].
      rewrite <- Hk. exact (gd_prod _ G n a Hn Hcn Ha).
    - intros n' a Hin Hc. destruct (fr_prod _ _ F n' a Hin Hc) as [[n [Hn [Hk Hcn]]]|[_ H]]; [|exact H].
      exact (gd_nfc _ G n a Hn Hcn).
  Qed.

  (* ---- wpg plumbing ---------------------------------------------------------------------- *)
  Lemma wpg_FR_bind (r : res st) (f : st -> res st) s :
    wpg false r (FR s) -> (forall s1, FR s s1 -> wpg false (f s1) (FR s1)) -> wpg false (bind r f) (FR s).
  Proof.
    intros H1 H2. apply wpg_bind. eapply wpg_weaken; [exact H1|]. intros s1 F1.
    eapply wpg_weaken; [apply H2; exact F1|]. intros s2 F2. eapply FR_trans; eassumption.
  Qed.

  Lemma wpg_FR_pre s0 (r : res st) s : FR s0 s -> wpg false r (FR s) -> wpg false r (FR s0).
  Proof. intros F H. eapply wpg_weaken; [exact H|]. intros s' F'. eapply FR_trans; eassumption. Qed.

  Lemma foldM_FR {A} (f : st -> A -> res st) (l : list A) s :
    (forall s0 a, In a l -> FR s s0 -> wpg false (f s0 a) (FR s0)) -> wpg false (foldM f l s) (FR s).
  Proof.
    intros Hf. apply (wpg_foldM false f (FR s)); [|apply FR_refl].
    intros s0 a Ha F0. eapply wpg_weaken; [apply Hf; assumption|]. intros s1 F1. eapply FR_trans; eassumption.
  Qed.

  (* ---- states that differ in rows only --------------------------------------------------- *)
  Lemma creator_of_nodes' k s s' : nodes s' = nodes s -> creator_of k s' = creator_of k s.
  Proof. intros H. unfold creator_of, find_node. rewrite H. reflexivity. Qed.

  Lemma FR_rows s s' :
    nodes s' = nodes s -> deps s' = deps s ->
    (forall l x, sstate_of l s' = Some x -> sstate_of l s = Some x \/ D (KStep, l)) ->
    (forall f, fstate_of f s' = Some FBuilt -> fstate_of f s = Some FBuilt \/ D (KFile, f)) ->
    FR s s'.
  Proof.
    intros Hn Hd Hs Hf. constructor.
    - intros k H. left. rewrite <- (attached_nodes k s s' Hn). exact H.
    - exact Hs.
    - intros a b H. left. rewrite <- (has_dep_deps a b s s' Hd). exact H.
    - intros n' a Hin Hc. left. exists n'. rewrite <- Hn. auto.
    - intros b. left. apply creator_of_nodes'. exact Hn.
    - exact Hf.
  Qed.

  Lemma FR_same_rows s s' :
    nodes s' = nodes s -> deps s' = deps s -> steps s' = steps s -> files s' = files s -> FR s s'.
  Proof.
    intros Hn Hd Hs Hf. apply FR_rows; try assumption.
    - intros l x H. left. rewrite <- (sstate_of_steps l s s' Hs). exact H.
    - intros f H. left. rewrite <- (fstate_of_files f s s' Hf). exact H.
  Qed.

  (* set_sstate on a step of the cone *)
  Lemma set_sstate_FR l new d s : D (KStep, l) -> wpg false (set_sstate l new d s) (FR s).
  Proof.
    intros HD. apply wpg_of_ok. intros s' H.
    destruct (NoopProofs.set_sstate_spec _ _ _ _ _ H) as [Hn [Hf [Hd [_ [_ [_ Hs]]]]]].
    apply FR_rows; try assumption.
    - intros l' x Hx. destruct (Hs l') as [He|[-> _]]; [left; rewrite <- He; exact Hx | right; exact HD].
    - intros f Hb. left. rewrite <- (fstate_of_files f s s' Hf). exact Hb.
  Qed.

  (* set_fstate_hash: no step, node or edge changes; a row that becomes BUILT must be in the cone *)
  Lemma set_fstate_hash_FR f new nh s :
    (new = FBuilt -> D (KFile, f)) -> wpg false (set_fstate_hash f new nh s) (FR s).
  Proof.
    intros HD. apply wpg_of_ok. intros s' H.
    destruct (NoopProofs.set_fstate_hash_spec _ _ _ _ _ H) as [Hn [Hst [Hd [_ Hfl]]]].
    apply FR_rows; try assumption.
    - intros l x Hx. left. rewrite <- (sstate_of_steps l s s' Hst). exact Hx.
    - intros f' Hb. destruct (Hfl f') as [He|[-> He]]; [left; rewrite <- He; exact Hb|].
      right. apply HD. rewrite He in Hb. congruence.
  Qed.

  (* ---- the state propagation of workflow.py stays inside the cone -------------------------- *)
  Lemma Good_good s : Good s -> good D [] s.
  Proof. intros G. split; [exact (gd_dep _ G) | intros f []]. Qed.

  Lemma P_FR s s' : P D s s' -> FR s s'.
  Proof.
    intros [[Hn [Hd [_ [_ Hs]]]] Hf]. apply FR_rows; try assumption.
    - intros l x Hx. destruct (Hs l) as [He|[HD _]]; [left; rewrite <- He; exact Hx | right; exact HD].
    - intros f Hb. destruct (Hf f) as [He|He]; left; [rewrite <- He; exact Hb | exact He].
  Qed.

  Lemma mark_step_pending_FR l s : Good s -> D (KStep, l) -> wpg false (mark_step_pending l s) (FR s).
  Proof.
    intros G HD. apply wpg_of_ok. intros s' H. apply P_FR.
    exact (mark_step_pending_P D [] l s s' HD (Good_good s G) H).
  Qed.
  Lemma mark_file_outdated_FR f s : Good s -> D (KFile, f) -> wpg false (mark_file_outdated f s) (FR s).
  Proof.
    intros G HD. apply wpg_of_ok. intros s' H. apply P_FR.
    exact (proj2 (mark_spec D [] (fuel_of s)) f s s' HD (Good_good s G) H).
  Qed.
  Lemma mark_consumers_pending_FR f s : Good s -> D (KFile, f) -> wpg false (mark_consumers_pending f s) (FR s).
  Proof.
    intros G HD. apply wpg_of_ok. intros s' H. apply P_FR.
    exact (mark_consumers_P D [] f s s' HD (Good_good s G) H).
  Qed.

  (* ---- node table: maps that keep the keys ------------------------------------------------- *)
  Lemma find_node_map g k s : (forall n, nk (g n) = nk n) ->
    find_node k (set_nodes s (map g (nodes s))) = option_map g (find_node k s).
  Proof.
    intros Hg. unfold find_node. cbn [nodes set_nodes]. apply find_map_key. intros n. rewrite Hg. reflexivity.
  Qed.

  Lemma find_node_in k s n : find_node k s = Some n -> In n (nodes s) /\ nk n = k.
  Proof.
    unfold find_node. intros H. apply find_some in H. destruct H as [H1 H2]. apply key_eqb_eq in H2. auto.
  Qed.

  Lemma FR_map_nodes g s :
    (forall n, nk (g n) = nk n) ->
    (forall n, In n (nodes s) -> ndet (g n) = false -> ndet n = false \/ D (nk n)) ->
    (forall n a, In n (nodes s) -> ncre (g n) = Some a -> ncre n = Some a \/ (D (nk n) /\ link_ok a)) ->
    (forall b n, find_node b s = Some n -> ncre (g n) = ncre n \/ D b) ->
    FR s (set_nodes s (map g (nodes s))).
  Proof.
    intros Hk Hd Hc Hc'. constructor.
    - intros k H. unfold attached, is_detached in *. rewrite (find_node_map g k s Hk) in H.
      destruct (find_node k s) as [n|] eqn:Hf; cbn [option_map] in H; [|discriminate].
      destruct (find_node_in _ _ _ Hf) as [Hin <-]. apply negb_true_iff in H.
      destruct (Hd n Hin H) as [H0|H0]; [left; rewrite H0; reflexivity | right; exact H0].
    - intros l x H. left. exact H.
    - intros a b H. left. exact H.
    - intros n' a Hin Hcn. cbn [nodes set_nodes] in Hin. apply in_map_iff in Hin. destruct Hin as [n [<- Hin]].
      destruct (Hc n a Hin Hcn) as [H0|H0].
      + left. exists n. rewrite Hk. auto.
      + right. rewrite Hk. exact H0.
    - intros b. unfold creator_of. rewrite (find_node_map g b s Hk).
      destruct (find_node b s) as [n|] eqn:Hf; cbn [option_map]; [|left; reflexivity].
      exact (Hc' b n Hf).
    - intros f H. left. exact H.
  Qed.

  Lemma set_detached_rec_FR k b s :
    (b = false -> forall x, In x (rec_products k s) -> D x) -> FR s (set_detached_rec k b s).
  Proof.
    intros HD. unfold set_detached_rec.
    apply (FR_map_nodes (fun n => if mem_key (nk n) (rec_products k s) then mkNode (nk n) (ncre n) b else n)).
    - intros n. destruct (mem_key (nk n) (rec_products k s)); reflexivity.
    - intros n _ H. destruct (mem_key (nk n) (rec_products k s)) eqn:Hm; [|left; exact H].
      cbn [ndet] in H. right. apply HD; [exact H | apply mem_key_In; exact Hm].
    - intros n a _ H. left. destruct (mem_key (nk n) (rec_products k s)); exact H.
    - intros b0 n _. left. destruct (mem_key (nk n) (rec_products k s)); reflexivity.
  Qed.

  Lemma in_prod_edges s a b : In (a, b) (prod_edges s) -> exists n, In n (nodes s) /\ ncre n = Some a /\ nk n = b.
  Proof.
    unfold prod_edges. intros H. apply in_flat_map in H. destruct H as [n [Hin H]].
    destruct (ncre n) as [c|] eqn:Hc; [|destruct H]. destruct (key_eqb (nk n) c); [destruct H|].
    destruct H as [H|[]]. injection H as <- <-. exists n. auto.
  Qed.

  Lemma rec_products_D k s : Good s -> D k -> forall x, In x (rec_products k s) -> D x.
  Proof.
    intros G Hk x Hx. unfold rec_products, rec_products_from in Hx. apply filter_In in Hx. destruct Hx as [Hx _].
    apply (memb_In key_eqb key_eqb_eq) in Hx.
    apply (closure_sound key_eqb key_eqb_eq) in Hx. destruct Hx as [a [[<-|[]] Hp]].
    induction Hp as [a|a b c He Hp IH]; [exact Hk|]. apply IH.
    apply in_prod_edges in He. destruct He as [n [Hin [Hc <-]]]. exact (gd_prod _ G n a Hin Hc Hk).
  Qed.

  Lemma upd_node_eq k f s :
    upd_node k f s = set_nodes s (map (fun n => if key_eqb (nk n) k then f n else n) (nodes s)).
  Proof. reflexivity. Qed.

  (* Node.detach of a node of the cone: its creator link is cut, it and its products are detached *)
  Lemma node_detach_FR k s : D k -> wpg false (node_detach k s) (FR s).
  Proof.
    intros HD. unfold node_detach. destruct (find_node k s) as [n|]; [|exact I].
    destruct (ncre n) as [c|]; [|apply FR_refl]. cbn [wpg].
    set (s1 := upd_node k (fun n0 => mkNode (nk n0) None true) s).
    assert (F1 : FR s s1).
    { unfold s1. rewrite upd_node_eq. apply FR_map_nodes.
      - intros n0. destruct (key_eqb (nk n0) k); reflexivity.
      - intros n0 _ H. destruct (key_eqb (nk n0) k); [discriminate H | left; exact H].
      - intros n0 a _ H. destruct (key_eqb (nk n0) k); [discriminate H | left; exact H].
      - intros b0 n0 Hb. destruct (find_node_in _ _ _ Hb) as [_ <-].
        destruct (key_eqb (nk n0) k) eqn:He; [right; apply key_eqb_eq in He; rewrite He; exact HD | left; reflexivity]. }
    destruct (ndet n); [exact F1|]. eapply FR_trans; [exact F1|]. apply set_detached_rec_FR. intros H; discriminate.
  Qed.

  Lemma after_lost_product_FR oc s : wpg false (after_lost_product oc s) (FR s).
  Proof.
    unfold after_lost_product. destruct (fst oc); try exact I; cbn [wpg]; [|apply FR_refl].
    apply FR_same_rows; reflexivity.
  Qed.

  (* Node.reattach under a new creator (full recycle): the node and its recursive products are
     in the cone *)
  Lemma node_reattach_FR k c s : Good s -> D k -> link_ok c -> wpg false (node_reattach k c s) (FR s).
  Proof.
    intros G HD Hl. unfold node_reattach.
    destruct (find_node k s) as [n|]; [|exact I]. destruct (find_node c s) as [cn|]; [|exact I]. guards.
    set (s1 := upd_node k (fun n0 => mkNode (nk n0) (Some c) (ndet cn)) s).
    assert (F1 : FR s s1).
    { unfold s1. rewrite upd_node_eq. apply FR_map_nodes.
      - intros n0. destruct (key_eqb (nk n0) k); reflexivity.
      - intros n0 _ H. destruct (key_eqb (nk n0) k) eqn:He; [right; apply key_eqb_eq in He; rewrite He; exact HD | left; exact H].
      - intros n0 a _ H. destruct (key_eqb (nk n0) k) eqn:He; [|left; exact H].
        right. apply key_eqb_eq in He. rewrite He. cbn [ncre] in H. injection H as <-. auto.
      - intros b0 n0 Hb. destruct (find_node_in _ _ _ Hb) as [_ <-].
        destruct (key_eqb (nk n0) k) eqn:He; [right; apply key_eqb_eq in He; rewrite He; exact HD | left; reflexivity]. }
    cbn zeta. fold s1. apply wpg_FR_bind.
    - destruct (ncre n) as [oc|]; [|exact F1]. guards.
      eapply wpg_weaken; [apply after_lost_product_FR|]. intros s2 F2. eapply FR_trans; eassumption.
    - intros s2 F2. cbn [wpg]. apply set_detached_rec_FR. intros _.
      apply rec_products_D; [exact (Good_FR s s2 G F2) | exact HD].
  Qed.

  (* ---- dependency rows, new nodes, new rows -------------------------------------------------- *)
  Lemma del_deps_where_FR p s : FR s (del_deps_where p s).
  Proof.
    constructor; try (intros; left; first [assumption | reflexivity]).
    - intros a b H. left. apply has_dep_in in H. destruct H as [d [Hd He]]. apply has_dep_in. exists d.
      unfold del_deps_where in Hd. cbn [deps set_deps] in Hd. apply filter_In in Hd. tauto.
    - intros n' a Hin Hc. left. exists n'. auto.
  Qed.

  Lemma append_node_FR k cre det s :
    find_node k s = None ->
    (det = false -> D k) -> (forall a, cre = Some a -> D k /\ link_ok a) ->
    FR s (set_nodes s (nodes s ++ [mkNode k cre det])).
  Proof.
    intros Hnone Hd Hc.
    assert (Hfind : forall b, find_node b (set_nodes s (nodes s ++ [mkNode k cre det])) =
                              match find_node b s with
                              | Some n => Some n
                              | None => if key_eqb k b then Some (mkNode k cre det) else None end).
    { intros b. unfold find_node. cbn [nodes set_nodes]. rewrite find_app. cbn [find nk]. reflexivity. }
    constructor; try (intros; left; first [assumption | reflexivity]).
    - intros b H. unfold attached, is_detached in *. rewrite Hfind in H.
      destruct (find_node b s) as [n|]; [left; exact H|].
      destruct (key_eqb k b) eqn:He; [|discriminate]. apply key_eqb_eq in He. subst b. right. apply Hd.
      cbn [ndet] in H. apply negb_true_iff in H. exact H.
    - intros n' a Hin Hcn. cbn [nodes set_nodes] in Hin. apply in_app_or in Hin. destruct Hin as [Hin|[<-|[]]].
      + left. exists n'. auto.
      + right. cbn [nk ncre] in *. apply Hc. exact Hcn.
    - intros b. unfold creator_of. rewrite Hfind. destruct (find_node b s) as [n|] eqn:Hb; [left; reflexivity|].
      destruct (key_eqb k b) eqn:He; [|left; reflexivity]. apply key_eqb_eq in He. subst b. cbn [ncre].
      destruct cre as [a|]; [right; exact (proj1 (Hc a eq_refl)) | left; reflexivity].
  Qed.

  Lemma append_file_FR l x h s : (x = FBuilt -> D (KFile, l)) -> FR s (set_files s (files s ++ [mkF l x h])).
  Proof.
    intros HD. apply FR_rows; try reflexivity.
    - intros l' y H. left. exact H.
    - intros f H. unfold fstate_of, find_file in *. cbn [files set_files] in H. rewrite find_app in H.
      destruct (find (fun r => str_eqb (fl r) f) (files s)) as [r|]; [left; exact H|].
      cbn [find fl] in H. destruct (str_eqb l f) eqn:He; [|discriminate]. apply str_eqb_eq in He. subst f.
      cbn [fstt] in H. right. apply HD. congruence.
  Qed.

  Lemma file_initialize_row_FR l req s :
    Good s -> (fstate_of l s = Some FBuilt -> D (KFile, l)) -> req <> FBuilt ->
    wpg false (file_initialize_row l req s) (FR s).
  Proof.
    intros G HD Hreq. unfold file_initialize_row.
    set (state := match req, find_file l s with
                  | FUndeclared, Some r => _ | FPlanned, Some r => _ | _, _ => req end).
    assert (Hst : state = FBuilt -> D (KFile, l)).
    { intros Hs. apply HD. unfold fstate_of. unfold state in Hs.
      destruct (find_file l s) as [r|]; [|destruct req; congruence].
      destruct req; try congruence; destruct (fstt r); try discriminate Hs; reflexivity. }
    clearbody state. apply wpg_FR_bind.
    - destruct (find_file l s) as [r|].
      + unfold set_fstate. apply set_fstate_hash_FR. exact Hst.
      + guards. cbn [wpg]. apply append_file_FR. exact Hst.
    - intros s1 F1. destruct state; try apply FR_refl.
      apply mark_file_outdated_FR; [exact (Good_FR s s1 G F1) | apply Hst; reflexivity].
  Qed.

  Lemma step_initialize_row_FR l nd s : D (KStep, l) -> wpg false (step_initialize_row l nd s) (FR s).
  Proof.
    intros HD. unfold step_initialize_row. cbn [wpg]. apply FR_rows; try reflexivity.
    - intros l' x H. destruct (str_eqb l' l) eqn:He; [apply str_eqb_eq in He; subst l'; right; exact HD|].
      left. unfold sstate_of, find_step in *. cbn [steps set_steps] in H. rewrite find_app, find_filter in H.
      assert (Hext : find (fun r => negb (str_eqb (sl r) l) && str_eqb (sl r) l') (steps s)
                     = find (fun r => str_eqb (sl r) l') (steps s)).
      { apply find_ext. intros r _. destruct (str_eqb (sl r) l') eqn:H1; [|apply andb_false_r].
        apply str_eqb_eq in H1. rewrite H1, He. reflexivity. }
      rewrite Hext in H. destruct (find (fun r => str_eqb (sl r) l') (steps s)) as [r|]; [exact H|].
      cbn [find sl] in H. rewrite str_eqb_sym, He in H. discriminate.
    - intros f H. left. exact H.
  Qed.

  Lemma in_products a b s : In b (products a s) -> exists n, In n (nodes s) /\ nk n = b /\ ncre n = Some a.
  Proof.
    unfold products. intros H. apply in_map_iff in H. destruct H as [n [Hk Hin]]. apply filter_In in Hin.
    destruct Hin as [Hin Hc]. apply andb_true_iff in Hc. destruct Hc as [Hc _]. apply okey_eqb_eq in Hc.
    exists n. auto.
  Qed.

  Lemma products_D a b s : Good s -> D a -> In b (products a s) -> D b.
  Proof.
    intros G Ha H. apply in_products in H. destruct H as [n [Hin [<- Hc]]]. exact (gd_prod _ G n a Hin Hc Ha).
  Qed.

  Lemma products_of_file_nil l s : Good s -> products (KFile, l) s = [].
  Proof.
    intros G. destruct (products (KFile, l) s) as [|b ps] eqn:Hp; [reflexivity|]. exfalso.
    assert (Hb : In b (products (KFile, l) s)) by (rewrite Hp; left; reflexivity).
    apply in_products in Hb. destruct Hb as [n [Hin [_ Hc]]]. exact (gd_nfc _ G n _ Hin Hc eq_refl).
  Qed.

  (* Trellis.create.  With a creator: the created key is in the cone.  Without one (an input that
     has no node or no creator yet): a file, and in the cone when its old row is BUILT. *)
  Lemma create_FR k creator arg s :
    Good s ->
    (forall c, creator = Some c -> D k /\ link_ok c) ->
    (creator = None -> fst k = KFile /\ creator_of k s = None /\ (fstate_of (snd k) s = Some FBuilt -> D k)) ->
    match arg with
    | InitFile req => fst k = KFile /\ req <> FBuilt
    | InitStep _ => fst k = KStep /\ creator <> None
    | InitTree => True end ->
    wpg false (create k creator arg s) (FR s).
  Proof.
    intros G Hsome Hnone Harg. unfold create. apply wpg_bind.
    destruct (creator_ok k creator s) as [u| |]; cbn [wpg]; try exact I.
    apply wpg_FR_bind.
    - destruct (find_node k s) as [n|] eqn:Hf.
      + guards.
        set (cdet := match creator with None => true | Some c => is_detached c s end).
        set (s1 := upd_node k (fun n0 => mkNode (nk n0) creator cdet) s).
        assert (F1 : FR s s1).
        { unfold s1. rewrite upd_node_eq. apply FR_map_nodes.
          - intros n0. destruct (key_eqb (nk n0) k); reflexivity.
          - intros n0 _ H. destruct (key_eqb (nk n0) k) eqn:He; [|left; exact H].
            apply key_eqb_eq in He. rewrite He. cbn [ndet] in H. unfold cdet in H.
            destruct creator as [c|]; [right; exact (proj1 (Hsome c eq_refl)) | discriminate].
          - intros n0 a _ H. destruct (key_eqb (nk n0) k) eqn:He; [|left; exact H].
            apply key_eqb_eq in He. rewrite He. cbn [ncre] in H. right. apply Hsome. exact H.
          - intros b0 n0 Hb. destruct (find_node_in _ _ _ Hb) as [_ Hk0].
            destruct (key_eqb (nk n0) k) eqn:He; [|left; reflexivity].
            apply key_eqb_eq in He. rewrite Hk0 in He. cbn [ncre].
            destruct creator as [c|]; [right; rewrite He; exact (proj1 (Hsome c eq_refl))|].
            left. destruct (Hnone eq_refl) as [_ [Hc _]]. unfold creator_of in Hc. rewrite <- He, Hb in Hc. symmetry. exact Hc. }
        cbn zeta. fold cdet. fold s1. apply wpg_FR_bind.
        * destruct (ncre n) as [oc|]; [|exact F1]. guards.
          eapply wpg_weaken; [apply after_lost_product_FR|]. intros s2 F2. eapply FR_trans; eassumption.
        * intros s2 F2. apply (wpg_FR_pre s2 _ (del_all_sources k s2)); [apply del_deps_where_FR|].
          assert (G3 : Good (del_all_sources k s2)).
          { apply (Good_FR s2); [exact (Good_FR s s2 G F2) | apply del_deps_where_FR]. }
          apply foldM_FR. intros s0 p Hp _. unfold detach_any. apply node_detach_FR.
          destruct creator as [c|].
          -- exact (products_D k p _ G3 (proj1 (Hsome c eq_refl)) Hp).
          -- exfalso. destruct (Hnone eq_refl) as [Hkf _]. destruct k as [kk kl]. cbn [fst] in Hkf. subst kk.
             rewrite (products_of_file_nil kl _ G3) in Hp. destruct Hp.
      + cbn [wpg]. apply append_node_FR; [exact Hf | |exact Hsome].
        intros Hd. destruct creator as [c|]; [exact (proj1 (Hsome c eq_refl)) | discriminate].
    - intros s1 F1. destruct arg as [req|nd|].
      + destruct Harg as [Hkf Hreq]. destruct k as [kk kl]. cbn [fst snd] in *. subst kk.
        apply file_initialize_row_FR; [exact (Good_FR s s1 G F1) | | exact Hreq].
        intros Hb. destruct (fr_nb _ _ F1 kl Hb) as [H0|H0]; [|exact H0].
        destruct creator as [c|]; [exact (proj1 (Hsome c eq_refl)) | exact (proj2 (proj2 (Hnone eq_refl)) H0)].
      + destruct Harg as [Hks Hcr]. destruct k as [kk kl]. cbn [fst snd] in *. subst kk.
        apply step_initialize_row_FR. destruct creator as [c|]; [exact (proj1 (Hsome c eq_refl)) | congruence].
      + apply FR_refl.
  Qed.

  (* ---- declarations ------------------------------------------------------------------------- *)
  Lemma wpg_bind_any {A B} (r : res A) (f : A -> res B) (Q : B -> Prop) :
    (forall a, wpg false (f a) Q) -> wpg false (bind r f) Q.
  Proof. intros H. destruct r; cbn; auto. Qed.

  Lemma add_dep_FR a b dyn s : D b -> wpg false (add_dep a b dyn s) (FR s).
  Proof.
    intros HD. unfold add_dep. guards. cbn [wpg].
    constructor; try (intros; left; first [assumption | reflexivity]).
    - intros a' b' H. apply has_dep_in in H. destruct H as [d [Hd [Ha Hb]]]. cbn [deps set_deps] in Hd.
      apply in_app_or in Hd. destruct Hd as [Hd|[<-|[]]].
      + left. apply has_dep_in. exists d. auto.
      + right. cbn [dsnk] in Hb. rewrite <- Hb. exact HD.
    - intros n' a0 Hin Hc. left. exists n'. auto.
  Qed.

  Lemma add_env_FR step name dyn rep s : FR s (add_env step name dyn rep s).
  Proof.
    unfold add_env. destruct (existsb _ (envs s)); [destruct rep|]; try apply FR_refl; apply FR_same_rows; reflexivity.
  Qed.

  Lemma fold_add_env_FR step dyn rep env : forall s, FR s (fold_left (fun s e => add_env step e dyn rep s) env s).
  Proof.
    induction env as [|e env IH]; intros s; cbn [fold_left]; [apply FR_refl|].
    eapply FR_trans; [apply add_env_FR | apply IH].
  Qed.

  Lemma upd_step_FR l g s : (forall r, sl (g r) = sl r) -> D (KStep, l) -> FR s (upd_step l g s).
  Proof.
    intros Hg HD. apply FR_rows; try reflexivity.
    - intros l' x H. destruct (str_eqb l' l) eqn:He; [apply str_eqb_eq in He; subst l'; right; exact HD|].
      left. unfold sstate_of, find_step, upd_step in *. cbn [steps set_steps] in H.
      rewrite (find_map_upd sl (steps s) l l' g Hg) in H.
      destruct (find (fun r => str_eqb (sl r) l') (steps s)) as [r|] eqn:Hf; cbn [option_map] in H; [|discriminate].
      apply find_some in Hf. destruct Hf as [_ Hl]. apply str_eqb_eq in Hl. rewrite Hl, He in H. exact H.
    - intros f H. left. exact H.
  Qed.

  (* an input path: if it is about to be (re)created as a creator-less node while its old row is
     BUILT, it has to be in the cone (File.initialize_row then marks its consumers PENDING) *)
  Definition InOK (s : st) (l : str) : Prop :=
    creator_of (KFile, l) s = None -> fstate_of l s = Some FBuilt -> D (KFile, l).

  Lemma InOK_FR s s' l : FR s s' -> InOK s l -> InOK s' l.
  Proof.
    intros F H Hc Hb. destruct (fr_cre _ _ F (KFile, l)) as [Hc'|HD]; [|exact HD].
    destruct (fr_nb _ _ F l Hb) as [Hb'|HD]; [|exact HD]. apply H; [congruence | exact Hb'].
  Qed.

  Lemma resolve_supply_file_FR step l rn s :
    Good s -> InOK s l -> wpg false (resolve_supply_file step l rn s) (fun x => FR s (fst x)).
  Proof.
    intros G Hin. unfold resolve_supply_file. apply wpg_bind.
    assert (Hcr : creator_of (KFile, l) s = None ->
                  wpg false (create (KFile, l) None (InitFile FUndeclared) s) (FR s)).
    { intros Hc. apply create_FR; [exact G | intros c H; discriminate | | split; [reflexivity | discriminate]].
      intros _. split; [reflexivity|]. split; [exact Hc|]. cbn [snd]. exact (Hin Hc). }
    assert (H1 : wpg false
                   match find_node (KFile, l) s with
                   | None => create (KFile, l) None (InitFile FUndeclared) s
                   | Some n => match ncre n with
                               | None => create (KFile, l) None (InitFile FUndeclared) s
                               | Some _ => match fstate_of l s with
                                           | Some FVolatile => Usage 204
                                           | Some _ => Ok s
                                           | None => Internal 117 end end end (FR s)).
    { destruct (find_node (KFile, l) s) as [n|] eqn:Hf.
      - destruct (ncre n) as [c|] eqn:Hc.
        + destruct (fstate_of l s) as [[]|]; try exact I; apply FR_refl.
        + apply Hcr. unfold creator_of. rewrite Hf. exact Hc.
      - apply Hcr. unfold creator_of. rewrite Hf. reflexivity. }
    eapply wpg_weaken; [exact H1|]. intros s1 F1. cbn zeta.
    destruct (negb (negb (has_dep (KFile, l) (KStep, step) s1)) && rn); [exact I | exact F1].
  Qed.

  Lemma supply_files_FR step paths rn dyn s :
    Good s -> D (KStep, step) -> (forall l, In l paths -> InOK s l) ->
    wpg false (supply_files step paths rn dyn s) (FR s).
  Proof.
    intros G HD Hin. unfold supply_files. apply wpg_bind.
    eapply wpg_weaken.
    - apply (wpg_foldM false _ (fun acc : st * list str => FR s (fst acc))); [|apply FR_refl].
      intros acc l Hl Facc. apply wpg_bind.
      eapply wpg_weaken; [apply (resolve_supply_file_FR step l rn (fst acc));
                          [exact (Good_FR s _ G Facc) | exact (InOK_FR s _ l Facc (Hin l Hl))]|].
      intros x Fx. cbn [wpg fst]. eapply FR_trans; eassumption.
    - intros r Fr. cbn zeta.
      match goal with |- wpg _ (if ?c then _ else _) _ => destruct c end; [exact I|].
      apply (wpg_FR_pre s _ (fst r) Fr). apply foldM_FR. intros s0 l _ _. apply add_dep_FR. exact HD.
  Qed.

  Lemma declare_file_FR c l f s :
    Good s -> D (KFile, l) -> link_ok c -> wpg false (declare_file c l f s) (FR s).
  Proof.
    intros G HD Hl. unfold declare_file.
    assert (Hc : forall f0, f0 <> FBuilt -> wpg false (create (KFile, l) (Some c) (InitFile f0) s) (FR s)).
    { intros f0 Hf0. apply create_FR; [exact G | | intros H; discriminate | split; [reflexivity | exact Hf0]].
      intros c0 H. injection H as <-. auto. }
    destruct f; try exact I; (apply wpg_FR_bind; [apply Hc; discriminate|]); intros s1 F1; try apply FR_refl.
    destruct (attached_step_sinks l s1); [apply FR_refl | exact I].
  Qed.

  Lemma add_output_edge_FR step l dyn s : D (KFile, l) -> wpg false (add_output_edge step l dyn s) (FR s).
  Proof. intros HD. unfold add_output_edge. guards. apply add_dep_FR. exact HD. Qed.

  Lemma declare_output_fold_FR (k : key) step f dyn (ls : list str) s :
    Good s -> link_ok k -> (forall l, In l ls -> D (KFile, l)) ->
    wpg false (foldM (fun s l => do s' <- declare_file k l f s; add_output_edge step l dyn s') ls s) (FR s).
  Proof.
    intros G Hk HD. apply foldM_FR. intros s0 l Hl F0. apply wpg_FR_bind.
    - apply declare_file_FR; [exact (Good_FR s s0 G F0) | apply HD; exact Hl | exact Hk].
    - intros s1 _. apply add_output_edge_FR. apply HD. exact Hl.
  Qed.

  (* the "which paths are new" folds return sublists of their input *)
  Lemma filter_fold_incl (chk : str -> res bool) (paths : list str) : forall acc,
    wpg false (foldM (fun acc l => do isnew <- chk l; Ok (if isnew : bool then acc ++ [l] else acc)) paths acc)
        (fun out => forall x, In x out -> In x acc \/ In x paths).
  Proof.
    induction paths as [|p paths IH]; intros acc; cbn [foldM]; [cbn; auto|].
    apply wpg_bind. apply wpg_bind. destruct (chk p) as [b| |]; cbn [wpg]; try exact I.
    eapply wpg_weaken; [apply IH|]. intros out H x Hx. destruct (H x Hx) as [H0|H0]; [|right; right; exact H0].
    destruct b; [|left; exact H0]. apply in_app_or in H0. destruct H0 as [H0|[<-|[]]]; [left; exact H0 | right; left; reflexivity].
  Qed.

  Lemma declare_static_files_FR c paths s :
    Good s -> link_ok c -> (forall l, In l paths -> D (KFile, l)) ->
    wpg false (declare_static_files c paths s) (FR s).
  Proof.
    intros G Hc HD. unfold declare_static_files. guards. apply wpg_bind.
    eapply wpg_weaken; [apply (filter_fold_incl (fun l => check_declaration_node c l 61 s) paths [])|].
    intros todo Htodo. apply foldM_FR. intros s0 l Hl F0.
    apply declare_file_FR; [exact (Good_FR s s0 G F0) | | exact Hc].
    apply HD. destruct (Htodo l Hl) as [[]|H]; exact H.
  Qed.

  Lemma define_step_new_FR creator label inp env out vol nd s :
    Good s -> D (KStep, label) -> link_ok creator ->
    (forall l, In l inp -> InOK s l) -> (forall l, In l (out ++ vol) -> D (KFile, l)) ->
    wpg false (define_step_new creator label inp env out vol nd s) (FR s).
  Proof.
    intros G HD Hc Hin Hout. unfold define_step_new.
    apply wpg_bind_any. intros _. apply wpg_bind_any. intros _. guards.
    assert (Hk : link_ok (KStep, label)) by (intros H; discriminate H).
    apply wpg_FR_bind.
    { apply create_FR; [exact G | | intros H; discriminate | split; [reflexivity | discriminate]].
      intros c0 H. injection H as <-. auto. }
    intros s1 F1. apply wpg_FR_bind.
    { apply supply_files_FR; [exact (Good_FR s s1 G F1) | exact HD |].
      intros l Hl. exact (InOK_FR s s1 l F1 (Hin l Hl)). }
    intros s2 F2. cbn zeta.
    set (s3 := fold_left (fun s0 e => add_env label e false true s0) env s2).
    assert (F3 : FR s2 s3) by apply fold_add_env_FR.
    assert (G3 : Good s3).
    { apply (Good_FR s2); [|exact F3]. apply (Good_FR s1); [|exact F2]. exact (Good_FR s s1 G F1). }
    apply (wpg_FR_pre s2 _ s3 F3). apply wpg_FR_bind.
    { apply declare_output_fold_FR; [exact G3 | exact Hk |]. intros l Hl. apply Hout. apply in_or_app. left. exact Hl. }
    intros s4 F4. apply declare_output_fold_FR; [exact (Good_FR s3 s4 G3 F4) | exact Hk |].
    intros l Hl. apply Hout. apply in_or_app. right. exact Hl.
  Qed.

  Lemma define_step_FR creator label inp env out vol nd s :
    Good s -> D (KStep, label) -> link_ok creator ->
    (forall l, In l inp -> InOK s l) -> (forall l, In l (out ++ vol) -> D (KFile, l)) ->
    wpg false (define_step creator label inp env out vol nd s) (FR s).
  Proof.
    intros G HD Hc Hin Hout. unfold define_step. guards.
    pose proof (define_step_new_FR creator label inp env out vol nd s G HD Hc Hin Hout) as Hnew.
    destruct (find_node (KStep, label) s) as [n|]; [|exact Hnew].
    destruct (ndet n && can_recycle label inp env out vol s).
    - apply wpg_FR_bind; [apply node_reattach_FR; assumption|]. intros s1 F1. cbn zeta.
      set (s2 := upd_step label _ s1).
      assert (F2 : FR s1 s2) by (apply upd_step_FR; [reflexivity | exact HD]).
      apply (wpg_FR_pre s1 _ s2 F2).
      destruct (sstate_of label s2) as [[]|]; try apply FR_refl.
      apply mark_step_pending_FR; [|exact HD]. apply (Good_FR s1); [|exact F2]. exact (Good_FR s s1 G F1).
    - guards. exact Hnew.
  Qed.

  Lemma amend_step_FR label inp env out vol s :
    Good s -> D (KStep, label) ->
    (forall l, In l inp -> InOK s l) -> (forall l, In l (out ++ vol) -> D (KFile, l)) ->
    wpg false (amend_step label inp env out vol s) (FR s).
  Proof.
    intros G HD Hin Hout. unfold amend_step. guards.
    assert (Hk : link_ok (KStep, label)) by (intros H; discriminate H).
    apply wpg_FR_bind; [apply supply_files_FR; assumption|]. intros s1 F1. cbn zeta.
    set (s2 := fold_left (fun s0 e => add_env label e true false s0) env s1).
    assert (F2 : FR s1 s2) by apply fold_add_env_FR.
    assert (G2 : Good s2) by (apply (Good_FR s1); [exact (Good_FR s s1 G F1) | exact F2]).
    apply (wpg_FR_pre s1 _ s2 F2).
    apply wpg_bind. eapply wpg_weaken; [apply (filter_fold_incl (fun l => check_declaration_node (KStep, label) l 62 s2) out [])|].
    intros out' Hout'.
    apply wpg_bind. eapply wpg_weaken; [apply (filter_fold_incl (fun l => check_declaration_node (KStep, label) l 63 s2) vol [])|].
    intros vol' Hvol'. guards.
    apply wpg_FR_bind.
    { apply declare_output_fold_FR; [exact G2 | exact Hk |]. intros l Hl. apply Hout. apply in_or_app. left.
      destruct (Hout' l Hl) as [[]|H]; exact H. }
    intros s3 F3. apply declare_output_fold_FR; [exact (Good_FR s2 s3 G2 F3) | exact Hk |].
    intros l Hl. apply Hout. apply in_or_app. right. destruct (Hvol' l Hl) as [[]|H]; exact H.
  Qed.

  (* ---- hash updates ------------------------------------------------------------------------- *)
  Definition FRN (s s' : st) : Prop := FR s s' /\ nodes s' = nodes s.
  Lemma FRN_refl s : FRN s s. Proof. split; [apply FR_refl | reflexivity]. Qed.
  Lemma FRN_trans a b c : FRN a b -> FRN b c -> FRN a c.
  Proof. intros [F1 N1] [F2 N2]. split; [eapply FR_trans; eassumption | congruence]. Qed.

  Lemma foldM_FRN {A} (f : st -> A -> res st) (l : list A) s :
    (forall s0 a, In a l -> FRN s s0 -> wpg false (f s0 a) (FRN s0)) -> wpg false (foldM f l s) (FRN s).
  Proof.
    intros Hf. apply (wpg_foldM false f (FRN s)); [|apply FRN_refl].
    intros s0 a Ha F0. eapply wpg_weaken; [apply Hf; assumption|]. intros s1 F1. eapply FRN_trans; eassumption.
  Qed.

  Lemma wpg_FRN_bind (r : res st) (f : st -> res st) s :
    wpg false r (FRN s) -> (forall s1, FRN s s1 -> wpg false (f s1) (FRN s1)) -> wpg false (bind r f) (FRN s).
  Proof.
    intros H1 H2. apply wpg_bind. eapply wpg_weaken; [exact H1|]. intros s1 F1.
    eapply wpg_weaken; [apply H2; exact F1|]. intros s2 F2. eapply FRN_trans; eassumption.
  Qed.

  Lemma mark_step_pending_FRN l s : Good s -> D (KStep, l) -> wpg false (mark_step_pending l s) (FRN s).
  Proof. intros G HD. apply wpg_conj; [apply mark_step_pending_FR; assumption | apply mark_step_pending_nodes]. Qed.
  Lemma mark_consumers_pending_FRN f s : Good s -> D (KFile, f) -> wpg false (mark_consumers_pending f s) (FRN s).
  Proof. intros G HD. apply wpg_conj; [apply mark_consumers_pending_FR; assumption | apply mark_consumers_pending_nodes]. Qed.

  (* the paths of a hash update are in the cone, and so are the steps that created them *)
  Definition path_ok (s : st) (p : str) : Prop :=
    D (KFile, p) /\ forall cr, step_creator_of_file p s = Some cr -> D (KStep, cr).

  Lemma path_ok_nodes s s' p : nodes s' = nodes s -> path_ok s p -> path_ok s' p.
  Proof.
    intros Hn [H1 H2]. split; [exact H1|]. intros cr Hc. apply H2.
    unfold step_creator_of_file in *. rewrite (creator_of_nodes' _ s s' Hn) in Hc. exact Hc.
  Qed.

  Lemma creator_pending_FRN p s :
    Good s -> path_ok s p ->
    wpg false (match step_creator_of_file p s with Some c => mark_step_pending c s | None => Ok s end) (FRN s).
  Proof.
    intros G [_ Hc]. destruct (step_creator_of_file p s) as [c|]; [|apply FRN_refl].
    apply mark_step_pending_FRN; [exact G | apply Hc; reflexivity].
  Qed.

  Lemma handle_updated_file_FRN p s : Good s -> path_ok s p -> wpg false (handle_updated_file p s) (FRN s).
  Proof.
    intros G Hp. unfold handle_updated_file.
    destruct (fstate_of p s) as [[]|]; try apply FRN_refl; try (apply creator_pending_FRN; assumption).
    apply mark_consumers_pending_FRN; [exact G | exact (proj1 Hp)].
  Qed.

  Lemma handle_deleted_file_FRN p s : Good s -> path_ok s p -> wpg false (handle_deleted_file p s) (FRN s).
  Proof.
    intros G Hp. unfold handle_deleted_file. apply wpg_FRN_bind.
    - destruct (fstate_of p s) as [[]|]; try apply FRN_refl. apply creator_pending_FRN; assumption.
    - intros s1 [F1 N1]. apply mark_consumers_pending_FRN; [exact (Good_FR s s1 G F1) | exact (proj1 Hp)].
  Qed.

  Lemma plan_paths (Q : str -> Prop) c s hs : (forall ph, In ph hs -> Q (fst ph)) -> forall acc,
    (forall x, In x acc -> Q (p_path x)) ->
    wpg false (foldM (fun acc ph =>
                  match find_file (fst ph) s with
                  | None => Internal 118
                  | Some r =>
                    match transition c (fstt r) (is_some (snd ph)) with
                    | None => Internal 119
                    | Some (ns, act) => Ok (acc ++ [mkP (fst ph) (snd ph) ns act])
                    end
                  end) hs acc)
        (fun plan => forall x, In x plan -> Q (p_path x)).
  Proof.
    induction hs as [|ph hs IH]; intros HQ acc Hacc; cbn [foldM]; [exact Hacc|].
    apply wpg_bind. destruct (find_file (fst ph) s) as [r|]; [|exact I].
    destruct (transition c (fstt r) (is_some (snd ph))) as [[ns act]|]; [|exact I].
    cbn [wpg]. apply IH; [intros p Hp; apply HQ; right; exact Hp|].
    intros x Hx. apply in_app_or in Hx. destruct Hx as [Hx|[<-|[]]]; [auto|]. cbn [p_path]. apply HQ. left. reflexivity.
  Qed.

  Lemma update_file_hashes_FRN c hs s :
    Good s -> (forall ph, In ph hs -> path_ok s (fst ph)) -> wpg false (update_file_hashes c hs s) (FRN s).
  Proof.
    intros G Hhs. unfold update_file_hashes. apply wpg_bind.
    eapply wpg_weaken; [apply (plan_paths (path_ok s) c s hs Hhs []); intros x []|].
    intros plan Hplan.
    assert (Hact : forall a l,
               In l (map p_path (filter (fun x => match p_act x with Some b => action_eqb a b | None => false end) plan)) ->
               path_ok s l).
    { intros a l Hl. apply in_map_iff in Hl. destruct Hl as [x [<- Hx]]. apply filter_In in Hx. apply Hplan. tauto. }
    apply wpg_FRN_bind.
    { apply foldM_FRN. intros s0 x Hx _. apply wpg_conj.
      - apply set_fstate_hash_FR. intros _. exact (proj1 (Hplan x Hx)).
      - apply wpg_of_ok. intros s1 H1. eapply set_fstate_hash_nodes; exact H1. }
    intros s1 [F1 N1]. apply wpg_FRN_bind.
    { apply foldM_FRN. intros s0 l Hl [F0 N0]. apply handle_updated_file_FRN.
      - apply (Good_FR s1); [exact (Good_FR s s1 G F1) | exact F0].
      - apply (path_ok_nodes s); [congruence | exact (Hact _ l Hl)]. }
    intros s2 [F2 N2]. apply wpg_FRN_bind.
    { apply foldM_FRN. intros s0 l Hl [F0 N0]. apply handle_deleted_file_FRN.
      - apply (Good_FR s2); [|exact F0]. apply (Good_FR s1); [exact (Good_FR s s1 G F1) | exact F2].
      - apply (path_ok_nodes s); [congruence | exact (Hact _ l Hl)]. }
    intros s3 [F3 N3]. apply foldM_FRN. intros s0 l Hl [F0 N0]. apply mark_consumers_pending_FRN.
    - apply (Good_FR s3); [|exact F0]. apply (Good_FR s2); [|exact F3]. apply (Good_FR s1); [exact (Good_FR s s1 G F1) | exact F2].
    - exact (proj1 (Hact _ l Hl)).
  Qed.

  (* ---- step lifecycle ----------------------------------------------------------------------- *)
  Lemma file_products_D step p s l : Good s -> D (KStep, step) -> In l (file_products_in step p s) -> D (KFile, l).
  Proof.
    intros G HD H. apply file_product_in in H. destruct H as [H _]. exact (products_D _ _ s G HD H).
  Qed.

  Lemma detach_created_steps_FR step s : Good s -> D (KStep, step) -> wpg false (detach_created_steps step s) (FR s).
  Proof.
    intros G HD. unfold detach_created_steps. apply foldM_FR. intros s0 k Hk _. apply node_detach_FR.
    apply filter_In in Hk. exact (products_D _ _ s G HD (proj1 Hk)).
  Qed.

  Lemma delete_hash_FR l s : FR s (delete_hash l s).
  Proof. apply FR_same_rows; reflexivity. Qed.
  Lemma store_hash_FR l s : FR s (store_hash l s).
  Proof. unfold store_hash. destruct (has_hash l s); [apply FR_refl | apply FR_same_rows; reflexivity]. Qed.

  Lemma mark_completed_FR step ok wd s : Good s -> D (KStep, step) -> wpg false (mark_completed step ok wd s) (FR s).
  Proof.
    intros G HD. unfold mark_completed. guards. destruct ok.
    - apply wpg_FR_bind; [apply set_sstate_FR; exact HD|]. intros s1 F1.
      assert (G1 : Good s1) by exact (Good_FR s s1 G F1).
      apply wpg_FR_bind.
      { apply foldM_FR. intros s0 l Hl F0.
        assert (HDl : D (KFile, l)) by exact (file_products_D step _ s1 l G1 HD Hl).
        apply wpg_FR_bind; [unfold set_fstate; apply set_fstate_hash_FR; intros _; exact HDl|].
        intros s2 F2. apply mark_consumers_pending_FR; [|exact HDl].
        apply (Good_FR s0); [exact (Good_FR s1 s0 G1 F0) | exact F2]. }
      intros s2 F2. cbn [wpg]. apply store_hash_FR.
    - apply wpg_FR_bind.
      { apply foldM_FR. intros s0 l _ _. unfold set_fstate. apply set_fstate_hash_FR. intros H; discriminate. }
      intros s1 F1. assert (G1 : Good s1) by exact (Good_FR s s1 G F1).
      apply wpg_FR_bind.
      { destruct wd; [|apply set_sstate_FR; exact HD].
        destruct (find_step step s1) as [r|]; [|exact I]. cbn zeta.
        set (s' := upd_step step _ s1).
        assert (F' : FR s1 s') by (apply upd_step_FR; [reflexivity | exact HD]).
        destruct (sdc r + 1 <=? defer_cap s); apply (wpg_FR_pre s1 _ s' F'); apply set_sstate_FR; exact HD. }
      intros s2 F2. assert (G2 : Good s2) by exact (Good_FR s1 s2 G1 F2).
      apply wpg_FR_bind.
      { destruct (sstate_of step s2) as [[]|]; try apply FR_refl. apply detach_created_steps_FR; assumption. }
      intros s3 _. cbn [wpg]. apply delete_hash_FR.
  Qed.

  Lemma reset_for_rerun_FR step s : Good s -> D (KStep, step) -> wpg false (reset_for_rerun step s) (FR s).
  Proof.
    intros G HD. unfold reset_for_rerun.
    set (s1 := del_deps_where _ s).
    set (s2 := set_envs s1 _).
    assert (F2 : FR s s2).
    { eapply FR_trans; [apply del_deps_where_FR | apply FR_same_rows; reflexivity]. }
    assert (G2 : Good s2) by exact (Good_FR s s2 G F2).
    cbn zeta. apply (wpg_FR_pre s _ s2 F2).
    apply wpg_FR_bind.
    { apply foldM_FR. intros s0 x Hx _.
      eapply wpg_FR_pre; [apply del_deps_where_FR|]. apply node_detach_FR.
      apply in_map_iff in Hx. destruct Hx as [d [<- Hd]]. apply filter_In in Hd. destruct Hd as [Hd Hc].
      apply andb_true_iff in Hc. destruct Hc as [Hsrc _]. apply key_eqb_eq in Hsrc.
      apply (gd_dep _ G2 (KStep, step) (dsnk d) HD). apply has_dep_in. exists d. auto. }
    intros s3 F3. assert (G3 : Good s3) by exact (Good_FR s2 s3 G2 F3).
    apply wpg_FR_bind; [apply detach_created_steps_FR; assumption|].
    intros s4 F4. assert (G4 : Good s4) by exact (Good_FR s3 s4 G3 F4).
    apply wpg_FR_bind.
    { apply foldM_FR. intros s0 l Hl _. apply node_detach_FR. exact (file_products_D step _ s4 l G4 HD Hl). }
    intros s5 F5. assert (G5 : Good s5) by exact (Good_FR s4 s5 G4 F5).
    apply wpg_FR_bind.
    { apply foldM_FR. intros s0 x Hx _. apply node_detach_FR. apply filter_In in Hx.
      exact (products_D _ _ s5 G5 HD (proj1 Hx)). }
    intros s6 F6. assert (G6 : Good s6) by exact (Good_FR s5 s6 G5 F6).
    apply foldM_FR. intros s0 l Hl F0. apply mark_file_outdated_FR; [exact (Good_FR s6 s0 G6 F0)|].
    exact (file_products_D step _ s6 l G6 HD Hl).
  Qed.

  Lemma upd_step_same_sst_FR l g s : (forall r, sl (g r) = sl r /\ sst (g r) = sst r) -> FR s (upd_step l g s).
  Proof.
    intros Hg. apply FR_rows; try reflexivity.
    - intros l' x H. left. unfold sstate_of, find_step, upd_step in *. cbn [steps set_steps] in H.
      rewrite (find_map_upd sl (steps s) l l' g (fun r => proj1 (Hg r))) in H.
      destruct (find (fun r => str_eqb (sl r) l') (steps s)) as [r|]; cbn [option_map] in *; [|discriminate].
      destruct (str_eqb (sl r) l); [rewrite (proj2 (Hg r)) in H|]; exact H.
    - intros f H. left. exact H.
  Qed.
End Frame.

(* ------------------------------------------------------------------------------------------ *)
(* The cone of model/Noop.v (tcone) along a rebuild                                            *)
(* ------------------------------------------------------------------------------------------ *)
Lemma tcone_mono E G h h' k : incl h h' -> tcone E G h k -> tcone E G h' k.
Proof.
  intros Hi H. induction H.
  - apply tc_edited; assumption.
  - apply tc_glob; assumption.
  - eapply tc_dep; [apply Hi; eassumption | eassumption | assumption].
  - eapply tc_created; [apply Hi; eassumption | eassumption | assumption | assumption].
  - eapply tc_defined; [apply Hi; eassumption | assumption].
  - eapply tc_outputs; [apply Hi; eassumption | assumption | assumption].
  - eapply tc_static; [apply Hi; eassumption | assumption | assumption].
  - eapply tc_amended; [apply Hi; eassumption | assumption | assumption].
Qed.

Lemma rebuild_hist_incl ops : forall h s, incl h (rebuild_hist h s ops).
Proof.
  induction ops as [|o ops IH]; intros h s; cbn [rebuild_hist]; [apply incl_refl|].
  eapply incl_tran; [|apply IH]. apply incl_tl. apply incl_refl.
Qed.

Lemma executed_dispatched ops : forall s l, In l (executed ops s) -> In l (dispatched ops).
Proof.
  induction ops as [|o ops IH]; intros s l H; cbn [executed] in H; [destruct H|].
  apply in_app_or in H. destruct H as [H|H].
  - destruct o; try destruct H. destruct (has_hash label s); [destruct H|]. destruct H as [<-|[]]. left. reflexivity.
  - specialize (IH _ _ H). destruct o; cbn [dispatched]; try exact IH. right. exact IH.
Qed.

Definition no_file_creator (s : st) : Prop :=
  forall n a, In n (nodes s) -> ncre n = Some a -> fst a <> KFile.

Section Top.
  Variables (q : st) (E G : list str).
  Hypothesis Hq : quiescent_success_b q = true.

  Record Inv2 (h : list (st * op)) (s : st) : Prop := {
    i2_sst : forall l x, sstate_of l s = Some x -> sstate_of l q = Some x \/ tcone E G h (KStep, l);
    i2_att : forall k, attached k s = true -> attached k q = true \/ tcone E G h k;
    i2_nfc : no_file_creator s }.

  Lemma Inv2_mono h h' s : incl h h' -> Inv2 h s -> Inv2 h' s.
  Proof.
    intros Hi [A B C]. constructor; [| |exact C].
    - intros l x H. destruct (A l x H) as [H0|H0]; [left; exact H0 | right; exact (tcone_mono E G h h' _ Hi H0)].
    - intros k H. destruct (B k H) as [H0|H0]; [left; exact H0 | right; exact (tcone_mono E G h h' _ Hi H0)].
  Qed.

  Lemma Good_tcone h s o : In (s, o) h -> no_file_creator s -> Good (tcone E G h) s.
  Proof.
    intros Hin Hn. constructor.
    - intros a b Ha Hab. exact (tc_dep E G h s o a b Hin Ha Hab).
    - intros n a Hn' Hc Ha. exact (tc_created E G h s o a n Hin Ha Hn' Hc).
    - exact Hn.
  Qed.

  (* a job in flight belongs to a cone step: the quiescent state has no job *)
  Lemma no_job_state l x : sstate_of l q = Some x -> x <> SRunning /\ x <> SChecking.
  Proof.
    intros H. unfold sstate_of in H. destruct (find_step l q) as [r|] eqn:Hr; [|discriminate]. injection H as <-.
    destruct (find_step_in _ _ _ Hr) as [Hin _]. destruct (quiescent_parts q Hq) as [Hjob _].
    unfold q_no_job_b in Hjob. rewrite forallb_forall in Hjob. specialize (Hjob r Hin).
    apply andb_true_iff in Hjob. destruct Hjob as [H1 H2]. split; intros He; rewrite He in *; discriminate.
  Qed.

  Lemma in_flight_cone h s l : Inv2 h s -> in_flight l s -> tcone E G h (KStep, l).
  Proof.
    intros HI [H|H]; destruct (i2_sst _ _ HI l _ H) as [H0|H0]; try exact H0;
      destruct (no_job_state l _ H0) as [H1 H2]; congruence.
  Qed.

  Lemma dispatch_in_cone h s l :
    Inv2 h s -> dispatch_guard l s = true -> idle_optional_b q l = false \/ tcone E G h (KStep, l) ->
    tcone E G h (KStep, l).
  Proof.
    intros HI Hg [Hidle|Hc]; [|exact Hc]. unfold dispatch_guard in Hg.
    destruct (find_step l s) as [r|] eqn:Hf; [|discriminate].
    apply andb_true_iff in Hg. destruct Hg as [Hg _]. apply andb_true_iff in Hg. destruct Hg as [Hg _].
    apply andb_true_iff in Hg. destruct Hg as [Hg _]. apply andb_true_iff in Hg. destruct Hg as [Hatt Hp].
    apply sstate_eqb_eq in Hp.
    assert (Hs : sstate_of l s = Some SPending) by (unfold sstate_of; rewrite Hf, Hp; reflexivity).
    destruct (i2_sst _ _ HI l _ Hs) as [Hsq|Hc]; [|exact Hc].
    destruct (i2_att _ _ HI _ Hatt) as [Haq|Hc]; [|exact Hc].
    unfold idle_optional_b in Hidle. rewrite Haq, Hsq in Hidle. discriminate.
  Qed.

  (* one covered transaction, as a frame relative to the cone that includes it *)
  Lemma cone_op2_FR h' s o :
    Inv2 h' s -> In (s, o) h' -> cone_op2 q E G h' s o -> wpg false (step_op o s) (FR (tcone E G h') s).
  Proof.
    intros HI' Hin Hop.
    set (D := tcone E G h').
    assert (Hfl : forall l, in_flight l s -> D (KStep, l)) by (intros l H; exact (in_flight_cone h' s l HI' H)).
    revert Hin.
    assert (HG : forall o0, In (s, o0) h' -> Good D s).
    { intros o0 H0. exact (Good_tcone h' s o0 H0 (i2_nfc _ _ HI')). }
    destruct Hop as [Hs | hs HE Hst | hs Hp | l Hc | l Hg Hid | l Hf | l Hf | l Hf | l pre c hs ok wd Hf Hp
                     | c l i e o' v nd Hr Hinp | c ps Hr | l i e o' v Hr Hinp | l | l]; intros Hin;
      pose proof (HG _ Hin) as G0; cbn [step_op].
    - (* startup on q *)
      subst s. destruct (quiescent_parts q Hq) as [Hjob [Hsteps _]].
      rewrite (reset_interrupted_id q Hjob Hsteps). apply FR_refl.
    - (* EXTERNAL re-hash of edited sources *)
      apply wpg_of_ok. intros s' H.
      assert (Hgood : good D (map fst hs) s).
      { split; [exact (gd_dep _ _ G0)|]. intros f Hf. apply in_map_iff in Hf. destruct Hf as [ph [<- Hph]].
        unfold static_sources_b in Hst. rewrite forallb_forall in Hst. specialize (Hst ph Hph).
        destruct (fstate_of (fst ph) s) as [[]|]; try discriminate; auto. }
      destruct (external_update_P D (map fst hs)
                  (fun f Hf => match proj1 (in_map_iff fst hs f) Hf with
                               | ex_intro _ ph (conj He Hph) => eq_ind _ (fun x => D (KFile, x)) (tc_edited E G h' _ (HE ph Hph)) _ He
                               end)
                  s hs s' (fun ph Hph => in_map fst hs ph Hph) Hst Hgood H) as [[Hn [Hd [_ [_ Hs]]]] [_ Hnb]].
      apply FR_rows; try assumption.
      + intros l x Hx. destruct (Hs l) as [He|[HD _]]; [left; rewrite <- He; exact Hx | right; exact HD].
      + intros f Hb. left. exact (Hnb f Hb).
    - (* CONFIRMED results for files of the cone *)
      eapply wpg_weaken; [apply (update_file_hashes_FRN D CConfirmed hs s G0)|intros s' [F _]; exact F].
      intros ph Hph. exact (Hp ph Hph).
    - apply mark_step_pending_FR; [exact G0 | exact Hc].
    - apply set_sstate_FR. exact (dispatch_in_cone h' s l HI' Hg Hid).
    - apply set_sstate_FR. exact (Hfl l Hf).
    - apply reset_for_rerun_FR; [exact G0 | exact (Hfl l Hf)].
    - apply wpg_FR_bind; [apply reset_for_rerun_FR; [exact G0 | exact (Hfl l Hf)]|].
      intros s1 _. eapply wpg_FR_pre; [apply delete_hash_FR|]. apply set_sstate_FR. exact (Hfl l Hf).
    - (* completion of a job, successful or not *)
      assert (Hpre : forall ph, In ph pre -> path_ok D s (fst ph)).
      { intros ph Hph. apply (Hp ph). apply in_or_app. left. exact Hph. }
      assert (Hhs : forall ph, In ph hs -> path_ok D s (fst ph)).
      { intros ph Hph. apply (Hp ph). apply in_or_app. right. exact Hph. }
      apply wpg_bind. eapply wpg_weaken; [apply (update_file_hashes_FRN D CFailed pre s G0 Hpre)|].
      intros s0 [F0 N0]. assert (G1 : Good D s0) by exact (Good_FR D s s0 G0 F0).
      apply wpg_bind. eapply wpg_weaken; [apply (update_file_hashes_FRN D c hs s0 G1)|].
      + intros ph Hph. apply (path_ok_nodes D s s0 _ N0). exact (Hhs ph Hph).
      + intros s1 [F1 _]. eapply wpg_weaken; [apply (mark_completed_FR D l ok wd s1)|].
        * exact (Good_FR D s0 s1 G1 F1).
        * exact (Hfl l Hf).
        * intros s2 F2. eapply FR_trans; [exact F0|]. eapply FR_trans; eassumption.
    - (* define_step by a running cone step *)
      assert (Hcc : D (KStep, c)) by (apply Hfl; left; exact Hr).
      apply define_step_FR.
      + exact G0.
      + exact (tc_defined E G h' s _ l i e o' v nd Hin Hcc).
      + intros H; discriminate H.
      + intros f Hf Hcr Hb. destruct (Hinp f Hf) as [H|[H|H]]; [contradiction | contradiction | exact H].
      + intros f Hf. exact (tc_outputs E G h' s _ l i e o' v nd f Hin Hcc Hf).
    - (* declare_static by a running cone step *)
      assert (Hcc : D (KStep, c)) by (apply Hfl; left; exact Hr).
      apply declare_static_files_FR; [exact G0 | intros H; discriminate H|].
      intros f Hf. exact (tc_static E G h' s _ ps f Hin Hcc Hf).
    - (* amend_step by a running cone step *)
      assert (Hcc : D (KStep, l)) by (apply Hfl; left; exact Hr).
      apply amend_step_FR.
      + exact G0.
      + exact Hcc.
      + intros f Hf Hcr Hb. destruct (Hinp f Hf) as [H|[H|H]]; [contradiction | contradiction | exact H].
      + intros f Hf. exact (tc_amended E G h' s l i e o' v f Hin Hcc Hf).
    - unfold hold. guards. cbn [wpg]. apply upd_step_same_sst_FR. intros r. split; reflexivity.
    - unfold release. destruct (find_step l s) as [r|]; [|exact I]. guards. cbn [wpg].
      apply upd_step_same_sst_FR. intros r0. split; reflexivity.
  Qed.

  Lemma cone_op2_Inv2 h s o :
    Inv2 h s -> cone_op2 q E G ((s, o) :: h) s o -> Inv2 ((s, o) :: h) (apply_op s o).
  Proof.
    intros HI Hop.
    assert (HI' : Inv2 ((s, o) :: h) s) by (apply (Inv2_mono h); [apply incl_tl; apply incl_refl | exact HI]).
    pose proof (cone_op2_FR ((s, o) :: h) s o HI' (or_introl eq_refl) Hop) as Hw.
    unfold apply_op. destruct (step_op o s) as [s'| |]; try exact HI'. cbn [wpg] in Hw.
    constructor.
    - intros l x H. destruct (fr_sst _ _ _ Hw l x H) as [H0|H0]; [exact (i2_sst _ _ HI' l x H0) | right; exact H0].
    - intros k H. destruct (fr_att _ _ _ Hw k H) as [H0|H0]; [exact (i2_att _ _ HI' k H0) | right; exact H0].
    - assert (G0 : Good (tcone E G ((s, o) :: h)) s) by (apply (Good_tcone _ s o); [left; reflexivity | exact (i2_nfc _ _ HI)]).
      exact (gd_nfc _ _ (Good_FR _ s s' G0 Hw)).
  Qed.

  Lemma cone2_run ops : forall h s,
    Inv2 h s -> cone_ops2 q E G h s ops ->
    Inv2 (rebuild_hist h s ops) (run_ops ops s) /\
    (forall l, In l (dispatched ops) -> tcone E G (rebuild_hist h s ops) (KStep, l)).
  Proof.
    induction ops as [|o ops IH]; intros h s HI Hops; cbn [rebuild_hist run_ops fold_left dispatched].
    - split; [exact HI | intros l []].
    - destruct Hops as [Hop Hrest].
      destruct (IH _ _ (cone_op2_Inv2 h s o HI Hop) Hrest) as [HI' Hd]. split; [exact HI'|].
      intros l Hl.
      assert (Hd' : forall l0, In l0 (dispatched ops) -> tcone E G (rebuild_hist ((s, o) :: h) (apply_op s o) ops) (KStep, l0)) by exact Hd.
      destruct o; try (apply Hd'; exact Hl). destruct Hl as [<-|Hl]; [|apply Hd'; exact Hl].
      apply (tcone_mono E G ((s, OpDispatch label) :: h)); [apply rebuild_hist_incl|].
      inversion Hop as [| | | |l0 Hg Hid| | | | | | | | |]; subst.
      apply (dispatch_in_cone _ s label); [|exact Hg | exact Hid].
      apply (Inv2_mono h); [apply incl_tl; apply incl_refl | exact HI].
  Qed.

  Hypothesis Hnfc : no_file_creator q.

  Lemma Inv2_init : Inv2 [] q.
  Proof. constructor; [intros; left; assumption | intros; left; assumption | exact Hnfc]. Qed.

  Theorem cone_invariant_partial2 (ops : list op) :
    cone_ops2 q E G [] q ops ->
    let s := run_ops ops q in
    let h := rebuild_hist [] q ops in
    (forall l x, sstate_of l s = Some x -> sstate_of l q = Some x \/ tcone E G h (KStep, l)) /\
    (forall k, attached k s = true -> attached k q = true \/ tcone E G h k) /\
    (forall l, In l (dispatched ops) -> tcone E G h (KStep, l)) /\
    (forall l, In l (executed ops q) -> tcone E G h (KStep, l)).
  Proof.
    intros Hops. destruct (cone2_run ops [] q Inv2_init Hops) as [HI Hd]. cbn zeta.
    split; [exact (i2_sst _ _ HI)|]. split; [exact (i2_att _ _ HI)|]. split; [exact Hd|].
    intros l Hl. apply Hd. exact (executed_dispatched ops q l Hl).
  Qed.
End Top.

(* in a well-formed state (C09) no node has a file as its creator *)
Lemma inv_core_no_file_creator s : inv_core_b s = true -> no_file_creator s.
Proof.
  intros H. apply GraphInvP.inv_core_b_iff in H. pose proof (GraphInvP.inv_nw _ H) as HW.
  intros n a Hin Hc Hk.
  destruct (key_eq_dec (nk n) root_key) as [Hr|Hr].
  - pose proof (GraphNodes.In_findn _ _ (GraphNodes.nw_nodup _ HW) Hin) as Hf.
    rewrite Hr, (GraphNodes.nw_root _ HW) in Hf. injection Hf as <-. cbn in Hc. injection Hc as <-. discriminate Hk.
  - pose proof (GraphNodes.nw_local _ HW n Hin Hr) as Hl. unfold GraphNodes.local_ok in Hl. rewrite Hc in Hl.
    destruct Hl as [_ [Hck _]]. rewrite Hk in Hck. destruct (fst (nk n)); discriminate Hck.
Qed.

(* ------------------------------------------------------------------------------------------ *)
(* The executable cone and the executable protocol check are sound                               *)
(* ------------------------------------------------------------------------------------------ *)
Lemma in_dep_edges s a b : In (a, b) (dep_edges s) <-> has_dep a b s = true.
Proof.
  unfold dep_edges. rewrite in_map_iff, has_dep_in. split.
  - intros [d [He Hd]]. injection He as <- <-. exists d. auto.
  - intros [d [Hd [<- <-]]]. exists d. auto.
Qed.

Lemma in_link_edges s a b : In (a, b) (link_edges s) <-> exists n, In n (nodes s) /\ ncre n = Some a /\ nk n = b.
Proof.
  unfold link_edges. rewrite in_flat_map. split.
  - intros [n [Hin H]]. destruct (ncre n) as [c|] eqn:Hc; [|destruct H]. destruct H as [H|[]].
    injection H as <- <-. exists n. auto.
  - intros [n [Hin [Hc <-]]]. exists n. split; [exact Hin|]. rewrite Hc. left. reflexivity.
Qed.

Lemma in_cone_edges h a b :
  In (a, b) (cone_edges h) <->
  exists s o, In (s, o) h /\ (has_dep a b s = true \/ In (a, b) (link_edges s) \/ In (a, b) (decl_edges o)).
Proof.
  unfold cone_edges, step_edges. rewrite in_flat_map. split.
  - intros [[s o] [Hin H]]. cbn [fst snd] in H. exists s, o. split; [exact Hin|].
    apply in_app_or in H. destruct H as [H|H]; [left; apply in_dep_edges; exact H|].
    apply in_app_or in H. tauto.
  - intros [s [o [Hin H]]]. exists (s, o). split; [exact Hin|]. cbn [fst snd].
    apply in_or_app. destruct H as [H|[H|H]]; [left; apply in_dep_edges; exact H | right | right];
      apply in_or_app; tauto.
Qed.

Lemma tcone_edge E G h a b : In (a, b) (cone_edges h) -> tcone E G h a -> tcone E G h b.
Proof.
  intros He Ha. apply in_cone_edges in He. destruct He as [s [o [Hin [H|[H|H]]]]].
  - exact (tc_dep E G h s o a b Hin Ha H).
  - apply in_link_edges in H. destruct H as [n [Hn [Hc <-]]]. exact (tc_created E G h s o a n Hin Ha Hn Hc).
  - destruct o; cbn [decl_edges] in H; try (destruct H; fail).
    + apply in_map_iff in H. destruct H as [f [He Hf]]. injection He as <- <-.
      exact (tc_static E G h s _ _ f Hin Ha Hf).
    + destruct H as [H|H].
      * injection H as <- <-. exact (tc_defined E G h s _ _ _ _ _ _ _ Hin Ha).
      * apply in_map_iff in H. destruct H as [f [He Hf]]. injection He as <- <-.
        exact (tc_outputs E G h s _ _ _ _ _ _ _ f Hin Ha Hf).
    + apply in_map_iff in H. destruct H as [f [He Hf]]. injection He as <- <-.
      exact (tc_amended E G h s _ _ _ _ _ f Hin Ha Hf).
Qed.

Lemma tcone_b_iff E G h k : tcone_b E G h k = true <-> tcone E G h k.
Proof.
  unfold tcone_b, tcone_keys, tcone_keys_e. change (mem_key k) with (memb key_eqb k).
  rewrite (closure_spec key_eqb key_eqb_eq (cone_edges h) (length (cone_edges h)) (cone_seeds E G) k (Nat.le_refl _)).
  split.
  - intros [a [Ha Hp]].
    assert (Hs : tcone E G h a).
    { unfold cone_seeds in Ha. apply in_app_or in Ha. destruct Ha as [Ha|Ha]; apply in_map_iff in Ha;
        destruct Ha as [x [<- Hx]]; [apply tc_edited | apply tc_glob]; exact Hx. }
    clear Ha. induction Hp as [a|a b c He Hp IH]; [exact Hs|]. apply IH. exact (tcone_edge E G h a b He Hs).
  - intros H. induction H as [f Hf | l Hl | s o a b Hin Ha [x [Hx Hp]] Hab | s o a n Hin Ha [x [Hx Hp]] Hn Hc
                              | s c l i e ou v nd Hin Hc [x [Hx Hp]] | s c l i e ou v nd f Hin Hc [x [Hx Hp]] Hf
                              | s c ps f Hin Hc [x [Hx Hp]] Hf | s l i e ou v f Hin Hc [x [Hx Hp]] Hf].
    + exists (KFile, f). split; [|apply path_refl]. unfold cone_seeds. apply in_or_app. left. apply in_map. exact Hf.
    + exists (KStep, l). split; [|apply path_refl]. unfold cone_seeds. apply in_or_app. right. apply in_map. exact Hl.
    + exists x. split; [exact Hx|]. eapply path_snoc; [exact Hp|]. apply in_cone_edges. exists s, o. auto.
    + exists x. split; [exact Hx|]. eapply path_snoc; [exact Hp|]. apply in_cone_edges. exists s, o.
      split; [exact Hin|]. right. left. apply in_link_edges. exists n. auto.
    + exists x. split; [exact Hx|]. eapply path_snoc; [exact Hp|]. apply in_cone_edges. eexists _, _.
      split; [exact Hin|]. right. right. cbn [decl_edges]. left. reflexivity.
    + exists x. split; [exact Hx|]. eapply path_snoc; [exact Hp|]. apply in_cone_edges. eexists _, _.
      split; [exact Hin|]. right. right. cbn [decl_edges]. right. apply in_map_iff. exists f. auto.
    + exists x. split; [exact Hx|]. eapply path_snoc; [exact Hp|]. apply in_cone_edges. eexists _, _.
      split; [exact Hin|]. right. right. cbn [decl_edges]. apply in_map_iff. exists f. auto.
    + exists x. split; [exact Hx|]. eapply path_snoc; [exact Hp|]. apply in_cone_edges. eexists _, _.
      split; [exact Hin|]. right. right. cbn [decl_edges]. apply in_map_iff. exists f. auto.
Qed.

(* a cone computed from a subset of the edges of the history is inside the cone *)
Definition cone_sound (E G : list str) (h : list (st * op)) (cone : list key) : Prop :=
  forall k, mem_key k cone = true -> tcone E G h k.

Lemma tcone_keys_e_sound E G h edges : incl edges (cone_edges h) -> cone_sound E G h (tcone_keys_e E G edges).
Proof.
  intros Hi k H. apply tcone_b_iff. unfold tcone_b, tcone_keys, tcone_keys_e in *.
  change (mem_key k) with (memb key_eqb k) in *.
  apply (closure_sound key_eqb key_eqb_eq) in H. destruct H as [a [Ha Hp]].
  apply (closure_spec key_eqb key_eqb_eq _ _ _ k (Nat.le_refl _)). exists a. split; [exact Ha|].
  exact (path_incl _ _ _ _ Hi Hp).
Qed.

Lemma in_add_edges new : forall acc x, In x (add_edges new acc) -> In x new \/ In x acc.
Proof.
  unfold add_edges. induction new as [|e new IH]; intros acc x H; cbn [fold_left] in H; [right; exact H|].
  apply IH in H. destruct H as [H|H]; [left; right; exact H|].
  destruct (existsb (edge_eqb e) acc); [right; exact H|]. destruct H as [<-|H]; [left; left; reflexivity | right; exact H].
Qed.

Lemma in_flight_b_ok l s : in_flight_b l s = true -> in_flight l s.
Proof. unfold in_flight_b, in_flight. destruct (sstate_of l s) as [[]|]; intros H; try discriminate; auto. Qed.
Lemma is_running_b_ok l s : is_running_b l s = true -> is_running l s.
Proof. unfold is_running_b, is_running. destruct (sstate_of l s) as [[]|]; intros H; try discriminate; auto. Qed.

Lemma path_in_cone_b_ok E G h cone s p :
  cone_sound E G h cone -> path_in_cone_b cone s p = true -> path_in_cone E G h s p.
Proof.
  intros mem_cone. unfold path_in_cone_b, path_in_cone. intros H. apply andb_true_iff in H. destruct H as [H1 H2].
  split; [apply mem_cone; exact H1|]. intros cr Hcr. rewrite Hcr in H2. apply mem_cone. exact H2.
Qed.

Lemma input_in_cone_b_ok E G h cone s l :
  cone_sound E G h cone -> input_in_cone_b cone s l = true -> input_in_cone E G h s l.
Proof.
  intros mem_cone. unfold input_in_cone_b, input_in_cone. intros H. apply orb_true_iff in H. destruct H as [H|H].
  - apply orb_true_iff in H. destruct H as [H|H].
    + left. destruct (creator_of (KFile, l) s); [discriminate | discriminate H].
    + right. left. intros Hb. rewrite Hb in H. discriminate.
  - right. right. apply mem_cone. exact H.
Qed.

Lemma forallb_In {A} (p : A -> bool) l x : forallb p l = true -> In x l -> p x = true.
Proof. intros H Hx. rewrite forallb_forall in H. exact (H x Hx). Qed.

Lemma cone_op2_why_ok q E G h cone s o :
  cone_sound E G h cone -> cone_op2_why q E cone s o = 0 -> cone_op2 q E G h s o.
Proof.
  intros mem_cone.
  pose proof (fun p => path_in_cone_b_ok E G h cone s p mem_cone) as path_ok'.
  pose proof (fun l => input_in_cone_b_ok E G h cone s l mem_cone) as input_ok'.
  destruct o; cbn [cone_op2_why]; intros H; try discriminate H.
  - (* declare_static *)
    destruct creator as [[] c]; try discriminate H. destruct (is_running_b c s) eqn:Hr; [|discriminate H].
    apply c2_static. apply is_running_b_ok. exact Hr.
  - (* update_hashes *)
    destruct c; try discriminate H.
    + match type of H with (if ?b then _ else _) = _ => destruct b eqn:Hb end; [|discriminate H].
      apply andb_true_iff in Hb. destruct Hb as [H1 H2]. apply c2_external; [|exact H2].
      intros ph Hph. apply mem_str_In. exact (forallb_In _ _ ph H1 Hph).
    + match type of H with (if ?b then _ else _) = _ => destruct b eqn:Hb end; [|discriminate H].
      apply c2_confirm. intros ph Hph. apply path_ok'. exact (forallb_In _ _ ph Hb Hph).
  - (* define_step *)
    destruct creator as [[] c]; try discriminate H. destruct (is_running_b c s) eqn:Hr; cbn [negb] in H; [|discriminate H].
    match type of H with (if ?b then _ else _) = _ => destruct b eqn:Hb end; [|discriminate H].
    apply c2_define; [apply is_running_b_ok; exact Hr|].
    intros f Hf. apply input_ok'. exact (forallb_In _ _ f Hb Hf).
  - (* amend_step *)
    destruct (is_running_b label s) eqn:Hr; cbn [negb] in H; [|discriminate H].
    match type of H with (if ?b then _ else _) = _ => destruct b eqn:Hb end; [|discriminate H].
    apply c2_amend; [apply is_running_b_ok; exact Hr|].
    intros f Hf. apply input_ok'. exact (forallb_In _ _ f Hb Hf).
  - (* dispatch *)
    destruct (dispatch_guard label s) eqn:Hg; cbn [negb] in H; [|discriminate H].
    match type of H with (if ?b then _ else _) = _ => destruct b eqn:Hb end; [|discriminate H].
    apply c2_dispatch; [exact Hg|]. apply orb_true_iff in Hb. destruct Hb as [Hb|Hb].
    + left. apply negb_true_iff. exact Hb.
    + right. apply mem_cone. exact Hb.
  - destruct (in_flight_b label s) eqn:Hf; [|discriminate H]. apply c2_rerun. apply in_flight_b_ok. exact Hf.
  - (* exec_end *)
    destruct (in_flight_b label s) eqn:Hf; cbn [negb] in H; [|discriminate H].
    match type of H with (if ?b then _ else _) = _ => destruct b eqn:Hb end; [|discriminate H].
    apply c2_exec_end; [apply in_flight_b_ok; exact Hf|].
    intros ph Hph. apply path_ok'. exact (forallb_In _ _ ph Hb Hph).
  - destruct (in_flight_b label s) eqn:Hf; [|discriminate H]. apply c2_reset_pending. apply in_flight_b_ok. exact Hf.
  - destruct (in_flight_b label s) eqn:Hf; [|discriminate H]. apply c2_validate. apply in_flight_b_ok. exact Hf.
  - match type of H with (if ?b then _ else _) = _ => destruct b eqn:Hb end; [|discriminate H].
    apply c2_mark. apply mem_cone. exact Hb.
  - apply c2_hold.
  - apply c2_release.
Qed.

Lemma cone_ops2_first_bad_ok q E G ops : forall i edges h s,
  incl edges (cone_edges h) ->
  cone_ops2_first_bad q E G i edges s ops = None -> cone_ops2 q E G h s ops.
Proof.
  induction ops as [|o ops IH]; intros i edges h s Hi H; cbn [cone_ops2_first_bad cone_ops2] in *; [exact I|].
  assert (Hi' : incl (add_edges (step_edges s o) edges) (cone_edges ((s, o) :: h))).
  { intros x Hx. apply in_add_edges in Hx. unfold cone_edges. cbn [flat_map fst snd]. apply in_or_app.
    destruct Hx as [Hx|Hx]; [left; exact Hx | right; apply Hi; exact Hx]. }
  destruct (cone_op2_why q E (tcone_keys_e E G (add_edges (step_edges s o) edges)) s o) eqn:Hw; [|discriminate H].
  split.
  - apply (cone_op2_why_ok q E G _ _ s o (tcone_keys_e_sound E G _ _ Hi') Hw).
  - exact (IH _ _ _ _ Hi' H).
Qed.

Lemma cone_ops2_b_ok q E G ops : cone_ops2_b q E G q ops = true -> cone_ops2 q E G [] q ops.
Proof.
  unfold cone_ops2_b. intros H. apply (cone_ops2_first_bad_ok q E G ops 0 []); [intros x []|].
  destruct (cone_ops2_first_bad q E G 0 [] q ops); [discriminate | reflexivity].
Qed.

(* ------------------------------------------------------------------------------------------ *)
(* Non-vacuity: a rebuild in which an edited plan is rerun                                      *)
(* ------------------------------------------------------------------------------------------ *)
Module ExR.
  Definition plan_py : str := [112;108;97;110;46;112;121].
  Definition plan : str := [46;47;112;108;97;110;46;112;121].
  Definition a : str := [97]. Definition o : str := [111]. Definition p : str := [112].
  Definition r : str := [114]. Definition t : str := [116]. Definition u : str := [117].
  Definition w : str := [119].
  (* the first build: plan.py declares a, t (a -> o) and the optional u (o -> p) *)
  Definition hist : list xop :=
    map XOp
      [OpDeclareStatic root_key [plan_py]; OpUpdateHashes CConfirmed [(plan_py, Some 1)];
       OpDefineStep root_key plan [plan_py] [] [] [] NPlan;
       OpDispatch plan; OpResetForRerun plan;
       OpDeclareStatic (KStep, plan) [a]; OpUpdateHashes CConfirmed [(a, Some 2)];
       OpDefineStep (KStep, plan) t [a] [] [o] [] NDefault;
       OpDefineStep (KStep, plan) u [o] [] [p] [] NOptional;
       OpExecEnd plan [] CSucceeded [] true false;
       OpDispatch t; OpResetForRerun t; OpExecEnd t [] CSucceeded [(o, Some 3)] true false]
    ++ [XRevert; XOp OpDeleteDetached].
  Definition q : st := Eval vm_compute in run_xops hist (init_st 3).
  (* plan.py is edited: the plan step is checked, not skipped, rerun; it declares a and t as before
     (t is recycled as a whole), drops u and defines a new step w (o -> r); t is then only checked
     (skipped), w is executed *)
  Definition ops : list op :=
    [OpUpdateHashes CExternal [(plan_py, Some 11)];
     OpDispatch plan; OpResetToPending plan; OpDispatch plan; OpResetForRerun plan;
     OpDeclareStatic (KStep, plan) [a]; OpUpdateHashes CConfirmed [(a, Some 2)];
     OpDefineStep (KStep, plan) t [a] [] [o] [] NDefault;
     OpDefineStep (KStep, plan) w [o] [] [r] [] NDefault;
     OpExecEnd plan [] CSucceeded [] true false;
     OpDispatch t; OpExecEnd t [] CSucceeded [] true false;
     OpDispatch w; OpResetForRerun w; OpExecEnd w [] CSucceeded [(r, Some 5)] true false].

  Lemma facts :
    quiescent_success_b q = true /\ inv_core_b q = true /\
    executed ops q = [plan; w] /\ dispatched ops = [plan; plan; t; w] /\
    sstate_of t (run_ops ops q) = Some SSucceeded /\ sstate_of w (run_ops ops q) = Some SSucceeded /\
    attached (KStep, u) (run_ops ops q) = false /\ sstate_of plan (run_ops ops q) = Some SSucceeded.
  Proof. vm_compute. repeat split; reflexivity. Qed.

  Ltac solve_in := repeat (first [left; reflexivity | right]).

  Lemma plan_in h o0 : In (q, o0) h -> tcone [plan_py] [] h (KStep, plan).
  Proof.
    intros H. eapply tc_dep; [exact H | apply tc_edited; left; reflexivity | vm_compute; reflexivity].
  Qed.

  Lemma ok : cone_ops2 q [plan_py] [] [] q ops.
  Proof.
    unfold ops. cbn [cone_ops2].
    repeat match goal with |- _ /\ _ => split end; try exact I.
    - apply c2_external; [intros ph [<-|[]]; left; reflexivity | vm_compute; reflexivity].
    - apply c2_dispatch; [vm_compute; reflexivity | left; vm_compute; reflexivity].
    - apply c2_reset_pending. right. vm_compute. reflexivity.
    - apply c2_dispatch; [vm_compute; reflexivity | left; vm_compute; reflexivity].
    - apply c2_rerun. left. vm_compute. reflexivity.
    - apply c2_static. vm_compute. reflexivity.
    - apply c2_confirm. intros ph [<-|[]]. split.
      + eapply tc_static; [solve_in | eapply plan_in; solve_in | left; reflexivity].
      + intros cr Hcr. vm_compute in Hcr. injection Hcr as <-. eapply plan_in. solve_in.
    - apply c2_define; [vm_compute; reflexivity|]. intros f [<-|[]]. left. vm_compute. discriminate.
    - apply c2_define; [vm_compute; reflexivity|]. intros f [<-|[]]. left. vm_compute. discriminate.
    - apply c2_exec_end; [left; vm_compute; reflexivity | intros ph []].
    - apply c2_dispatch; [vm_compute; reflexivity | left; vm_compute; reflexivity].
    - apply c2_exec_end; [right; vm_compute; reflexivity | intros ph []].
    - apply c2_dispatch; [vm_compute; reflexivity | left; vm_compute; reflexivity].
    - apply c2_rerun. left. vm_compute. reflexivity.
    - apply c2_exec_end; [left; vm_compute; reflexivity|]. intros ph [<-|[]]. split.
      + eapply tc_outputs; [solve_in | eapply plan_in; solve_in | left; reflexivity].
      + intros cr Hcr. vm_compute in Hcr. injection Hcr as <-.
        eapply tc_defined; [solve_in | eapply plan_in; solve_in].
  Qed.
End ExR.

Lemma ExR_checker : cone_ops2_b ExR.q [ExR.plan_py] [] ExR.q ExR.ops = true.
Proof. vm_compute. reflexivity. Qed.

(* ------------------------------------------------------------------------------------------ *)
(* The clause about idle optional steps is needed                                              *)
(* ------------------------------------------------------------------------------------------ *)
(* Two plans.  plan.py declares the second plan plan2.py and an OPTIONAL step u (-> p) that nothing
   needs: after the first build u is PENDING (reverted).  plan2.py is edited and now defines a step x
   that consumes p: u becomes required, is dispatched and executed, although it neither consumes an
   edited file nor an output of an executed step, and was declared by plan.py, which is not rerun. *)
Module ExO.
  Definition plan_py : str := [112;108;97;110;46;112;121].
  Definition plan : str := [46;47;112;108;97;110;46;112;121].
  Definition p2_py : str := [112;50;46;112;121].
  Definition plan2 : str := [46;47;112;50;46;112;121].
  Definition p : str := [112]. Definition r : str := [114]. Definition u : str := [117]. Definition x : str := [120].
  Definition hist : list xop :=
    map XOp
      [OpDeclareStatic root_key [plan_py]; OpUpdateHashes CConfirmed [(plan_py, Some 1)];
       OpDefineStep root_key plan [plan_py] [] [] [] NPlan;
       OpDispatch plan; OpResetForRerun plan;
       OpDeclareStatic (KStep, plan) [p2_py]; OpUpdateHashes CConfirmed [(p2_py, Some 2)];
       OpDefineStep (KStep, plan) plan2 [p2_py] [] [] [] NPlan;
       OpDefineStep (KStep, plan) u [] [] [p] [] NOptional;
       OpExecEnd plan [] CSucceeded [] true false;
       OpDispatch plan2; OpResetForRerun plan2; OpExecEnd plan2 [] CSucceeded [] true false]
    ++ [XRevert; XOp OpDeleteDetached].
  Definition q : st := Eval vm_compute in run_xops hist (init_st 3).
  Definition ops : list op :=
    [OpUpdateHashes CExternal [(p2_py, Some 12)];
     OpDispatch plan2; OpResetToPending plan2; OpDispatch plan2; OpResetForRerun plan2;
     OpDefineStep (KStep, plan2) x [p] [] [r] [] NDefault;
     OpExecEnd plan2 [] CSucceeded [] true false;
     OpDispatch u].

  Lemma facts :
    successful_history 3 hist /\ quiescent_success_b q = true /\ inv_core_b q = true /\
    idle_optional_b q u = true /\
    (* every transaction satisfies its protocol clause, except the last: the dispatch of the idle
       optional step u (reason 6) *)
    cone_ops2_first_bad q [p2_py] [] 0 [] q ops = Some (7%nat, 6) /\
    dispatch_guard u (run_ops (removelast ops) q) = true /\
    In u (executed ops q) /\
    tcone_b [p2_py] [] (rebuild_hist [] q ops) (KStep, u) = false.
  Proof.
    split; [eexists; split; [unfold hist; reflexivity | vm_compute; reflexivity]|].
    vm_compute. repeat split; try reflexivity. right. left. reflexivity.
  Qed.

  Lemma u_outside_cone : ~ tcone [p2_py] [] (rebuild_hist [] q ops) (KStep, u).
  Proof.
    intros H. apply tcone_b_iff in H. destruct facts as [_ [_ [_ [_ [_ [_ [_ Hf]]]]]]]. congruence.
  Qed.
End ExO.

(* The full sentence (Definition C04_full, model/Noop.v) is false of the model: the witness is ExO. *)
Theorem full_refuted : ~ C04_full.
Proof.
  intros HF.
  assert (Hs : successful_history 3 ExO.hist) by exact (proj1 ExO.facts).
  destruct (HF 3 ExO.hist Hs) as [_ [_ H3]].
  change (run_xops ExO.hist (init_st 3)) with ExO.q in H3.
  specialize (H3 [(ExO.p2_py, Some 12)] [] (tl ExO.ops)).
  assert (Hst : forallb (fun ph : str * option N => match fstate_of (fst ph) ExO.q with
                                                  | Some FConfirmed | Some FMissing => true | _ => false end)
                        [(ExO.p2_py, Some 12)] = true) by (vm_compute; reflexivity).
  specialize (H3 Hst). cbn zeta in H3.
  assert (Hen : dispatch_enabled (tl ExO.ops)
                  (run_ops (map (fun ph => OpUpdateHashes CExternal [ph]) [(ExO.p2_py, Some 12)] ++ map OpMarkStepPending []) ExO.q)).
  { unfold ExO.ops. cbn [tl dispatch_enabled map app]. repeat split; vm_compute; reflexivity. }
  specialize (H3 Hen ExO.u).
  assert (Hex : In ExO.u (executed (tl ExO.ops)
                  (run_ops (map (fun ph => OpUpdateHashes CExternal [ph]) [(ExO.p2_py, Some 12)] ++ map OpMarkStepPending []) ExO.q))).
  { vm_compute. right. left. reflexivity. }
  specialize (H3 Hex).
  assert (Hexec : executed (tl ExO.ops)
                    (run_ops (map (fun ph => OpUpdateHashes CExternal [ph]) [(ExO.p2_py, Some 12)] ++ map OpMarkStepPending []) ExO.q)
                  = [ExO.plan2; ExO.u]) by (vm_compute; reflexivity).
  rewrite Hexec in H3. clear Hexec Hex Hen.
  set (s' := run_ops (tl ExO.ops) _) in H3.
  (* u consumes nothing, before or after *)
  assert (Hno : forall s0 f, deps s0 = deps ExO.q \/ s0 = s' -> consumes s0 ExO.u f -> False).
  { intros s0 f Hs0 Hc. unfold consumes in Hc. apply has_dep_in in Hc. destruct Hc as [d [Hd [_ Hk]]].
    destruct Hs0 as [Hs0|Hs0].
    - rewrite Hs0 in Hd. vm_compute in Hd.
      repeat (destruct Hd as [<-|Hd]; [discriminate Hk|]). exact Hd.
    - subst s0. vm_compute in Hd.
      repeat (destruct Hd as [<-|Hd]; [discriminate Hk|]). exact Hd. }
  destruct H3 as [[f [_ Hc]] | [[] | [[l' [f [_ [_ [_ [Hc|Hc]]]]]] | [l' [Hin Hcr]]]]].
  - exact (Hno ExO.q f (or_introl eq_refl) Hc).
  - exact (Hno ExO.q f (or_introl eq_refl) Hc).
  - exact (Hno s' f (or_intror eq_refl) Hc).
  - assert (Hq : creator_of (KStep, ExO.u) ExO.q = Some (KStep, ExO.plan)) by (vm_compute; reflexivity).
    assert (Hs' : creator_of (KStep, ExO.u) s' = Some (KStep, ExO.plan)) by (vm_compute; reflexivity).
    rewrite Hq, Hs' in Hcr.
    assert (Hl : l' = ExO.plan) by (destruct Hcr as [H|H]; injection H as <-; reflexivity).
    subst l'. destruct Hin as [H|[H|[]]]; discriminate H.
Qed.

(* ------------------------------------------------------------------------------------------ *)
(* The statements of props/C04.v                                                               *)
(* ------------------------------------------------------------------------------------------ *)
Theorem cone_invariant_partial2_b (q : st) (E G : list str) (ops : list op) :
  quiescent_success_b q = true -> inv_core_b q = true ->
  cone_ops2 q E G [] q ops ->
  let s := run_ops ops q in
  let h := rebuild_hist [] q ops in
  (forall l x, sstate_of l s = Some x -> sstate_of l q = Some x \/ tcone E G h (KStep, l)) /\
  (forall k, attached k s = true -> attached k q = true \/ tcone E G h k) /\
  (forall l, In l (dispatched ops) -> tcone E G h (KStep, l)) /\
  (forall l, In l (executed ops q) -> tcone E G h (KStep, l)).
Proof.
  intros Hq HI. exact (cone_invariant_partial2 q E G Hq (inv_core_no_file_creator q HI) ops).
Qed.

Theorem cone_idle_optional_clause_needed :
  exists (cap : N) (hist : list xop) (E : list str) (ops : list op) (l : str),
    successful_history cap hist /\
    let q := run_xops hist (init_st cap) in
    inv_core_b q = true /\
    cone_ops2_first_bad q E [] 0 [] q ops = Some (pred (length ops), 6) /\
    dispatch_guard l (run_ops (removelast ops) q) = true /\
    In l (executed ops q) /\
    ~ tcone E [] (rebuild_hist [] q ops) (KStep, l).
Proof.
  exists 3, ExO.hist, [ExO.p2_py], ExO.ops, ExO.u.
  destruct ExO.facts as [H1 [_ [H3 [_ [H5 [H6 [H7 _]]]]]]].
  split; [exact H1|]. change (run_xops ExO.hist (init_st 3)) with ExO.q.
  split; [exact H3|]. split; [exact H5|]. split; [exact H6|]. split; [exact H7 | exact ExO.u_outside_cone].
Qed.

Lemma ExR_example :
  quiescent_success_b ExR.q = true /\ inv_core_b ExR.q = true /\
  cone_ops2 ExR.q [ExR.plan_py] [] [] ExR.q ExR.ops /\
  cone_ops2_b ExR.q [ExR.plan_py] [] ExR.q ExR.ops = true /\
  executed ExR.ops ExR.q = [ExR.plan; ExR.w] /\ dispatched ExR.ops = [ExR.plan; ExR.plan; ExR.t; ExR.w] /\
  attached (KStep, ExR.u) (run_ops ExR.ops ExR.q) = false.
Proof.
  destruct ExR.facts as [H1 [H2 [H3 [H4 [_ [_ [H7 _]]]]]]].
  split; [exact H1|]. split; [exact H2|]. split; [exact ExR.ok|]. split; [exact ExR_checker|].
  split; [exact H3|]. split; [exact H4 | exact H7].
Qed.
