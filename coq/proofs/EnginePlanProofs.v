(* C01: proofs about model/EnginePlan.v (steps defined by steps while the build runs).

   finished_p_unique: the workflow that the plans define, the states of its steps and the outputs
   of its SUCCEEDED steps are DETERMINED by the sources and the environment: two states that
   satisfy the defining equations of a build from scratch ([Finished_p]: in the trusted region
   the links are what the creators define on the present contents, a step is SUCCEEDED with
   outputs run(inputs, variables) iff its inputs are available through trusted producers) and
   have the same sources and environment agree on all of it.  Induction along the universe
   (creators and producers first). *)
From Coq Require Import List NArith Bool Lia.
From SV Require Import model.Engine model.EnginePlan proofs.EngineProofs.
Import ListNotations.
Open Scope N_scope.

(* ------------------------------------------------------------------------------------------ *)
(* Universe structure                                                                          *)
(* ------------------------------------------------------------------------------------------ *)
Definition WFU (U : universe) : Prop :=
  WF (uproj U) /\
  forall done u todo, U = done ++ u :: todo ->
                      uid u <> 0 /\ (ucr u = 0 \/ In (ucr u) (map uid done)).

Lemma map_sid_uproj (U : universe) : map sid (uproj U) = map uid U.
Proof. unfold uproj. rewrite map_map. reflexivity. Qed.

Lemma creators_first_split (U : universe) :
  forall seen, creators_first seen U = true ->
  forall done u todo, U = done ++ u :: todo ->
    uid u <> 0 /\ (ucr u = 0 \/ In (ucr u) (map uid done) \/ In (ucr u) seen).
Proof.
  induction U as [|x U IH]; intros seen H done u todo E.
  - destruct done; discriminate.
  - cbn [creators_first] in H. apply andb_true_iff in H. destruct H as [H H3].
    apply andb_true_iff in H. destruct H as [H1 H2].
    destruct done as [|d done]; cbn in E; injection E as -> ->.
    + split.
      * apply negb_true_iff in H2. apply N.eqb_neq in H2. exact H2.
      * apply orb_true_iff in H1. destruct H1 as [H1|H1].
        -- left. apply N.eqb_eq in H1. exact H1.
        -- right. right. apply memN_In. exact H1.
    + destruct (IH (uid d :: seen) H3 done u todo eq_refl) as [Hn Hc]. split; [exact Hn|].
      destruct Hc as [Hc|[Hc|Hc]]; [left; exact Hc | right; left; right; exact Hc |].
      destruct Hc as [Hc|Hc]; [right; left; left; exact Hc | right; right; exact Hc].
Qed.

Lemma wf_u_WFU (U : universe) : wf_u U = true -> WFU U.
Proof.
  unfold wf_u. intros H. apply andb_true_iff in H. destruct H as [H1 H2]. split.
  - apply wf_WF. exact H1.
  - intros done u todo E. destruct (creators_first_split U [] H2 done u todo E) as [Hn Hc].
    split; [exact Hn|]. destruct Hc as [Hc|[Hc|[]]]; auto.
Qed.

Lemma uid_unique (U : universe) (u v : ustep) :
  NoDup (map uid U) -> In u U -> In v U -> uid u = uid v -> u = v.
Proof.
  induction U as [|x U IH]; intros Hnd Hu Hv He; [contradiction|].
  cbn in Hnd. inversion Hnd as [|? ? Hn Hnd']; subst.
  destruct Hu as [->|Hu], Hv as [->|Hv]; auto.
  - exfalso. apply Hn. rewrite He. apply in_map. exact Hv.
  - exfalso. apply Hn. rewrite <- He. apply in_map. exact Hu.
Qed.

(* ------------------------------------------------------------------------------------------ *)
(* The creator chain                                                                           *)
(* ------------------------------------------------------------------------------------------ *)
Lemma chain_rev_skip (pre X : universe) (lk okc : N -> bool) (id : N) :
  ~ In id (map uid pre) -> chain_rev (pre ++ X) lk okc id = chain_rev X lk okc id.
Proof.
  induction pre as [|x pre IH]; intros H; [reflexivity|].
  cbn [app chain_rev]. destruct (uid x =? id) eqn:E.
  - exfalso. apply H. left. apply N.eqb_eq in E. exact E.
  - apply IH. intros Hin. apply H. right. exact Hin.
Qed.

Lemma chain_unfold (U : universe) (lk okc : N -> bool) (done todo : universe) (u : ustep) :
  WFU U -> U = done ++ u :: todo ->
  chain_rev (rev U) lk okc (uid u) =
  lk (uid u) && ((ucr u =? 0) || (chain_rev (rev U) lk okc (ucr u) && okc (ucr u))).
Proof.
  intros [[Hid _] Hcf] E. destruct (Hcf done u todo E) as [Hn0 Hc].
  rewrite map_sid_uproj in Hid.
  assert (Hrev : rev U = rev todo ++ u :: rev done).
  { rewrite E. rewrite rev_app_distr. cbn [rev]. rewrite <- app_assoc. reflexivity. }
  rewrite Hrev.
  assert (Hnd : NoDup (map uid done ++ uid u :: map uid todo)).
  { rewrite E in Hid. rewrite map_app in Hid. exact Hid. }
  assert (Hu_todo : ~ In (uid u) (map uid (rev todo))).
  { rewrite map_rev. rewrite <- in_rev. intros Hin. apply NoDup_remove_2 in Hnd. apply Hnd.
    apply in_or_app. right. exact Hin. }
  rewrite (chain_rev_skip (rev todo) (u :: rev done) lk okc (uid u) Hu_todo).
  cbn [chain_rev]. rewrite N.eqb_refl.
  destruct Hc as [Hc|Hc].
  - rewrite Hc. cbn. reflexivity.
  - assert (Hc_todo : ~ In (ucr u) (map uid (rev todo))).
    { rewrite map_rev. rewrite <- in_rev. intros Hin.
      apply (NoDup_app_disjoint (map uid done) (uid u :: map uid todo) (ucr u) Hnd Hc).
      right. exact Hin. }
    rewrite (chain_rev_skip (rev todo) (u :: rev done) lk okc (ucr u) Hc_todo).
    cbn [chain_rev].
    assert (Hne : uid u =? ucr u = false).
    { apply N.eqb_neq. intros He.
      apply (NoDup_app_disjoint (map uid done) (uid u :: map uid todo) (ucr u) Hnd Hc).
      left. exact He. }
    rewrite Hne. reflexivity.
Qed.

(* ------------------------------------------------------------------------------------------ *)
(* Producers come first                                                                        *)
(* ------------------------------------------------------------------------------------------ *)
Lemma in_uproj (U : universe) (s : step) : In s (uproj U) -> exists u, In u U /\ ust u = s.
Proof. unfold uproj. intros H. apply in_map_iff in H. destruct H as (u & E & Hu). eauto. Qed.

Lemma inp_producer_before (U d1 r1 : universe) (v : ustep) (p q : N) :
  WFU U -> U = d1 ++ v :: r1 -> In p (inp (ust v)) -> producer (uproj U) p = Some q ->
  exists w, In w d1 /\ uid w = q /\ In p (out (ust w)).
Proof.
  intros [[_ [_ Htopo]] _] E Hp Hq.
  apply producer_some in Hq. destruct Hq as (s & Hs & <- & Hps).
  rewrite E in Hs, Htopo. unfold uproj in Hs, Htopo. rewrite map_app in Hs, Htopo.
  cbn [map] in Hs, Htopo. apply topo_app in Htopo. destruct Htopo as [Ht _].
  apply in_app_or in Hs. destruct Hs as [Hs|Hs].
  - apply in_map_iff in Hs. destruct Hs as (w & <- & Hw). exists w. auto.
  - exfalso. exact (topo_head (ust v) (map ust r1) Ht p s Hp Hs Hps).
Qed.

Section PlanProofs.
  Variable run : N -> list (option N) -> list (option N) -> N -> N.
  Variable plan : N -> list (option N) -> list (option N) -> list N.

  Notation defines := (defines plan).
  Notation Local_p := (Local_p run plan).
  Notation Finished_p := (Finished_p run plan).

  Lemma avail_t_some (U : universe) (y : psys) (p a : N) :
    avail_t U y p = Some a -> fs (pbase y) p = Some a.
  Proof.
    unfold avail_t. destruct (producer (uproj U) p) as [q|]; [|auto].
    destruct (trusted U y q && is_succ (stt (pbase y) q)); [auto|discriminate].
  Qed.

  Lemma ready_t_inputs (U : universe) (y : psys) (s : step) (p : N) :
    ready_t U y s = true -> In p (inp s) -> exists a, avail_t U y p = Some a.
  Proof.
    unfold ready_t. rewrite forallb_forall. intros H Hp. specialize (H p Hp).
    destruct (avail_t U y p) as [a|]; [eauto|discriminate].
  Qed.

  (* what is known about the steps that had their turn *)
  Definition Agree (U : universe) (y z : psys) (u : ustep) : Prop :=
    trusted U y (uid u) = trusted U z (uid u) /\
    (trusted U y (uid u) = true ->
     stt (pbase y) (uid u) = stt (pbase z) (uid u) /\
     (stt (pbase y) (uid u) = Succeeded ->
      forall p, In p (out (ust u)) -> fs (pbase y) p = fs (pbase z) p)).

  Lemma avail_t_agree (U : universe) (y z : psys) (done : universe) (p : N) :
    WFU U -> same_world_p U y z -> (forall w, In w done -> In w U) ->
    (forall w, In w done -> Agree U y z w) ->
    (forall q, producer (uproj U) p = Some q ->
               exists w, In w done /\ uid w = q /\ In p (out (ust w))) ->
    avail_t U y p = avail_t U z p.
  Proof.
    intros Hwf [Hsrc _] Hsub Hag Hprod. unfold avail_t.
    destruct (producer (uproj U) p) as [q|] eqn:E.
    - destruct (Hprod q eq_refl) as (w & Hw & <- & Hpw).
      destruct (Hag w Hw) as [Ht Hrest]. rewrite <- Ht.
      destruct (trusted U y (uid w)) eqn:Et; [|reflexivity].
      destruct (Hrest eq_refl) as [Hs Ho]. rewrite <- Hs.
      destruct (stt (pbase y) (uid w)) eqn:Es; cbn; [reflexivity|].
      apply Ho; [reflexivity|exact Hpw].
    - apply Hsrc. apply is_output_false. apply producer_none. exact E.
  Qed.

  Lemma contents_agree (U : universe) (y z : psys) (s : step) :
    (forall p, In p (inp s) -> avail_t U y p = avail_t U z p) ->
    ready_t U y s = true ->
    map (fs (pbase y)) (inp s) = map (fs (pbase z)) (inp s).
  Proof.
    intros Hav Hr. apply map_ext_in. intros p Hp.
    destruct (ready_t_inputs U y s p Hr Hp) as [a Ha].
    pose proof Ha as Hz. rewrite (Hav p Hp) in Hz.
    rewrite (avail_t_some U y p a Ha), (avail_t_some U z p a Hz). reflexivity.
  Qed.

  Lemma ready_t_ext (U : universe) (y z : psys) (s : step) :
    (forall p, In p (inp s) -> avail_t U y p = avail_t U z p) -> ready_t U y s = ready_t U z s.
  Proof.
    intros H. unfold ready_t. apply forallb_ext_in'. intros p Hp. rewrite (H p Hp). reflexivity.
  Qed.

  Lemma agree_step (U : universe) (y z : psys) (done todo : universe) (u : ustep) :
    WFU U -> Finished_p U y -> Finished_p U z -> same_world_p U y z ->
    U = done ++ u :: todo ->
    (forall w, In w done -> Agree U y z w) ->
    Agree U y z u.
  Proof.
    intros Hwf Fy Fz Hw E Hag.
    assert (Hsub : forall w, In w done -> In w U).
    { intros w Hin. rewrite E. apply in_or_app. left. exact Hin. }
    assert (Hu : In u U). { rewrite E. apply in_or_app. right. left. reflexivity. }
    (* the inputs of any step that is [u] or before it are produced before it *)
    assert (Hinp : forall v d1 r1, U = d1 ++ v :: r1 -> (forall w, In w d1 -> In w done) ->
                   forall p, In p (inp (ust v)) -> avail_t U y p = avail_t U z p).
    { intros v d1 r1 Ev Hd p Hp. apply (avail_t_agree U y z done p Hwf Hw Hsub Hag).
      intros q Hq. destruct (inp_producer_before U d1 r1 v p q Hwf Ev Hp Hq) as (w & Hw1 & Hw2 & Hw3).
      exists w. auto. }
    pose proof (Fy u Hu) as (Ly1 & Ly2 & Ly3). pose proof (Fz u Hu) as (Lz1 & Lz2 & Lz3).
    destruct Hw as [Hsrc Henv].
    (* trusted *)
    assert (Ht : trusted U y (uid u) = trusted U z (uid u)).
    { unfold trusted. rewrite (chain_unfold U (plk y) _ done todo u Hwf E).
      rewrite (chain_unfold U (plk z) _ done todo u Hwf E).
      destruct Hwf as [HW Hcf]. destruct (Hcf done u todo E) as [_ Hc].
      destruct Hc as [Hc|Hc].
      - rewrite Hc. cbn [N.eqb orb]. rewrite (Ly1 Hc), (Lz1 Hc). reflexivity.
      - apply in_map_iff in Hc. destruct Hc as (c & Hcid & Hcin).
        destruct (Hag c Hcin) as [Htc Hrc].
        destruct (in_split c done Hcin) as (d1 & m & Ed).
        assert (Ec : U = d1 ++ c :: (m ++ u :: todo)).
        { rewrite E, Ed. rewrite <- app_assoc. reflexivity. }
        destruct (Hcf d1 c _ Ec) as [Hc0 _].
        assert (Hz0 : (ucr u =? 0) = false).
        { apply N.eqb_neq. rewrite <- Hcid. exact Hc0. }
        rewrite Hz0. cbn [orb]. rewrite <- Hcid.
        fold (trusted U y (uid c)). fold (trusted U z (uid c)). rewrite <- Htc.
        destruct (trusted U y (uid c)) eqn:Etc.
        2:{ cbn [andb]. rewrite !andb_false_r. reflexivity. }
        destruct (Hrc eq_refl) as [Hsc _]. rewrite <- Hsc.
        destruct (stt (pbase y) (uid c)) eqn:Esc.
        1:{ cbn [is_succ andb]. rewrite !andb_false_r. reflexivity. }
        (* the creator is trusted and SUCCEEDED on both sides: it defines the same steps *)
        assert (Hc_in : In c U) by (apply Hsub; exact Hcin).
        assert (Etz : trusted U z (uid c) = true) by (rewrite <- Htc; reflexivity).
        assert (Esz : stt (pbase z) (uid c) = Succeeded) by (rewrite <- Hsc; reflexivity).
        rewrite (Ly2 c Hc_in Hcid Etc Esc), (Lz2 c Hc_in Hcid Etz Esz).
        assert (Hd1 : forall w, In w d1 -> In w done).
        { intros w Hin. rewrite Ed. apply in_or_app. left. exact Hin. }
        pose proof (Fy c Hc_in) as (_ & _ & Lc3). specialize (Lc3 Etc).
        destruct (ready_t U y (ust c)) eqn:Erc.
        2:{ rewrite Esc in Lc3. discriminate. }
        assert (Hdef : defines (pbase y) (ust c) = defines (pbase z) (ust c)).
        { unfold EnginePlan.defines. f_equal.
          - apply (contents_agree U y z (ust c) (Hinp c d1 _ Ec Hd1) Erc).
          - apply map_ext. intros n. apply Henv. }
        rewrite Hdef. reflexivity. }
    split; [exact Ht|]. intros Ety.
    assert (Etz : trusted U z (uid u) = true) by (rewrite <- Ht; exact Ety).
    specialize (Ly3 Ety). specialize (Lz3 Etz).
    assert (Hav : forall p, In p (inp (ust u)) -> avail_t U y p = avail_t U z p).
    { apply (Hinp u done todo E). auto. }
    rewrite <- (ready_t_ext U y z (ust u) Hav) in Lz3.
    destruct (ready_t U y (ust u)) eqn:Er.
    - destruct Ly3 as [Sy Oy], Lz3 as [Sz Oz]. split; [congruence|]. intros _ p Hp.
      rewrite (Oy p Hp), (Oz p Hp). f_equal. f_equal.
      + apply (contents_agree U y z (ust u) Hav Er).
      + apply map_ext. intros n. apply Henv.
    - split; [congruence|]. intros Hs. congruence.
  Qed.

  Lemma agree_all (U : universe) (y z : psys) :
    WFU U -> Finished_p U y -> Finished_p U z -> same_world_p U y z ->
    forall todo done, U = done ++ todo ->
      (forall w, In w done -> Agree U y z w) -> forall w, In w U -> Agree U y z w.
  Proof.
    intros Hwf Fy Fz Hw. induction todo as [|u todo IH]; intros done E Hag w Hin.
    - rewrite app_nil_r in E. subst. apply Hag. exact Hin.
    - apply (IH (done ++ [u])); [rewrite <- app_assoc; exact E | | exact Hin].
      intros v Hv. apply in_app_or in Hv. destruct Hv as [Hv|[<-|[]]]; [apply Hag; exact Hv|].
      apply (agree_step U y z done todo u Hwf Fy Fz Hw E Hag).
  Qed.

  Theorem finished_p_unique (U : universe) (y z : psys) :
    wf_u U = true -> Finished_p U y -> Finished_p U z -> same_world_p U y z ->
    same_result_p U y z.
  Proof.
    intros Hwf Fy Fz Hw u Hu.
    exact (agree_all U y z (wf_u_WFU U Hwf) Fy Fz Hw U [] eq_refl (fun w H => match H with end) u Hu).
  Qed.
End PlanProofs.

(* ------------------------------------------------------------------------------------------ *)
(* Witnesses: the other half (every build ends in a finished state) is false                   *)
(* ------------------------------------------------------------------------------------------ *)
Definition uF9 : universe :=
  [mkU (mkStep 1 [10] [] []) 0 [20; 11]; mkU (mkStep 2 [11; 30] [] []) 1 [];
   mkU (mkStep 3 [20] [] [40]) 2 []; mkU (mkStep 4 [40] [] [41]) 1 []].
Definition tabF9 : list (N * N * list N) := [(1, 1, [2; 4]); (2, 1, [3])].
Definition wF9a : world := (src_of [(10, 1); (11, 1); (20, 1); (30, 1)], fun _ => None).
Definition wF9b : world := (src_of [(10, 1); (11, 1); (20, 1)], fun _ => None).
Definition bwF9 := build_world_p mix_run (plan_tab tabF9) uF9.

Lemma wf_u_uF9 : wf_u uF9 = true.
Proof. vm_compute. reflexivity. Qed.

Lemma plan_memory_refuted :
  let inc := bwF9 wF9b (bwF9 wF9a (p_empty uF9)) in
  let scr := bwF9 wF9b (p_empty uF9) in
  map (fun id => (attached uF9 inc id, trusted uF9 inc id, is_succ (stt (pbase inc) id))) [1; 2; 3; 4]
  = [(true, true, true); (true, true, false); (true, false, true); (true, true, true)] /\
  map (fun id => (attached uF9 scr id, trusted uF9 scr id, is_succ (stt (pbase scr) id))) [1; 2; 3; 4]
  = [(true, true, true); (true, true, false); (false, false, false); (true, true, false)] /\
  same_result_pb uF9 inc scr = false.
Proof. vm_compute. repeat split; reflexivity. Qed.

Lemma plan_full_refuted :
  ~ (forall run plan U, wf_u U = true ->
       forall (ws : list world) (w : world),
         same_result_p U (build_world_p run plan U w
                            (fold_left (fun s x => build_world_p run plan U x s) ws (p_empty U)))
                         (build_world_p run plan U w (p_empty U))).
Proof.
  intros H. specialize (H mix_run (plan_tab tabF9) uF9 wf_u_uF9 [wF9a] wF9b).
  destruct (H (mkU (mkStep 4 [40] [] [41]) 1 [])) as [_ H2].
  - right. right. right. left. reflexivity.
  - assert (E : trusted uF9 (build_world_p mix_run (plan_tab tabF9) uF9 wF9b
                       (fold_left (fun s x => build_world_p mix_run (plan_tab tabF9) uF9 x s) [wF9a] (p_empty uF9)))
                       (uid (mkU (mkStep 4 [40] [] [41]) 1 [])) = true) by (vm_compute; reflexivity).
    destruct (H2 E) as [H3 _]. vm_compute in H3. discriminate.
Qed.

Definition tabD4 : list (N * N * list N) := [(1, 1, [2; 4]); (2, 1, [3]); (2, 2, [])].
Definition wD4 (v : N) : world := (src_of [(10, 1); (11, v); (20, 1); (30, 1)], fun _ => None).
Definition bwD4 := build_world_p mix_run (plan_tab tabD4) uF9.
Definition logD4 (w : world) (y : psys) :=
  p_build_log mix_run (plan_tab tabD4) uF9 uF9 (p_resync uF9 y w).

Lemma plan_D4_in_build_refuted :
  let y1 := bwD4 (wD4 1) (p_empty uF9) in
  let inc := bwD4 (wD4 2) y1 in
  let scr := bwD4 (wD4 2) (p_empty uF9) in
  logD4 (wD4 2) y1 = [(2, true)] /\
  map (fun id => (attached uF9 inc id, is_succ (stt (pbase inc) id))) [1; 2; 3; 4]
  = [(true, true); (true, true); (false, true); (true, true)] /\
  map (fun id => (attached uF9 scr id, is_succ (stt (pbase scr) id))) [1; 2; 3; 4]
  = [(true, true); (true, true); (false, false); (true, false)] /\
  same_result_pb uF9 inc scr = false /\
  logD4 (wD4 1) inc = [(2, true)] /\
  same_result_pb uF9 (bwD4 (wD4 1) inc) y1 = true.
Proof. vm_compute. repeat split; reflexivity. Qed.

Definition wOK (plan_v src : N) : world := (src_of [(10, plan_v); (11, 1); (20, src); (30, 1)], fun _ => None).
Definition tabOK : list (N * N * list N) := [(1, 1, [2; 4]); (1, 2, [2; 4]); (2, 1, [3])].
Definition bwOK := build_world_p mix_run (plan_tab tabOK) uF9.
