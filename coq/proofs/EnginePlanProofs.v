(* C01: proofs about model/EnginePlan.v (steps defined by steps while the build runs).

   finished_p_unique: the workflow that the plans define, the states of its steps and the outputs
   of its SUCCEEDED steps are DETERMINED by the sources and the environment: two states that
   satisfy the defining equations of a build from scratch ([Finished_p]: in the trusted region
   the links are what the creators define on the present contents, a step is SUCCEEDED with
   outputs run(inputs, variables) iff its inputs are available through trusted producers) and
   have the same sources and environment agree on all of it.  Induction along the universe
   (creators and producers first). *)
From Coq Require Import List NArith Bool Lia.
From SV Require Import model.Engine model.EnginePlan proofs.EngineProofs.
Import ListNotations.
Open Scope N_scope.

(* ------------------------------------------------------------------------------------------ *)
(* Universe structure                                                                          *)
(* ------------------------------------------------------------------------------------------ *)
Definition WFU (U : universe) : Prop :=
  WF (uproj U) /\
  forall done u todo, U = done ++ u :: todo ->
                      uid u <> 0 /\ (ucr u = 0 \/ In (ucr u) (map uid done)).

Lemma map_sid_uproj (U : universe) : map sid (uproj U) = map uid U.
Proof. unfold uproj. rewrite map_map. reflexivity. Qed.

Lemma creators_first_split (U : universe) :
  forall seen, creators_first seen U = true ->
  forall done u todo, U = done ++ u :: todo ->
    uid u <> 0 /\ (ucr u = 0 \/ In (ucr u) (map uid done) \/ In (ucr u) seen).
Proof.
  induction U as [|x U IH]; intros seen H done u todo E.
  - destruct done; discriminate.
  - cbn [creators_first] in H. apply andb_true_iff in H. destruct H as [H H3].
    apply andb_true_iff in H. destruct H as [H1 H2].
    destruct done as [|d done]; cbn in E; injection E as -> ->.
    + split.
      * apply negb_true_iff in H2. apply N.eqb_neq in H2. exact H2.
      * apply orb_true_iff in H1. destruct H1 as [H1|H1].
        -- left. apply N.eqb_eq in H1. exact H1.
        -- right. right. apply memN_In. exact H1.
    + destruct (IH (uid d :: seen) H3 done u todo eq_refl) as [Hn Hc]. split; [exact Hn|].
      destruct Hc as [Hc|[Hc|Hc]]; [left; exact Hc | right; left; right; exact Hc |].
      destruct Hc as [Hc|Hc]; [right; left; left; exact Hc | right; right; exact Hc].
Qed.

Lemma wf_u_WFU (U : universe) : wf_u U = true -> WFU U.
Proof.
  unfold wf_u. intros H. apply andb_true_iff in H. destruct H as [H1 H2]. split.
  - apply wf_WF. exact H1.
  - intros done u todo E. destruct (creators_first_split U [] H2 done u todo E) as [Hn Hc].
    split; [exact Hn|]. destruct Hc as [Hc|[Hc|[]]]; auto.
Qed.

Lemma uid_unique (U : universe) (u v : ustep) :
  NoDup (map uid U) -> In u U -> In v U -> uid u = uid v -> u = v.
Proof.
  induction U as [|x U IH]; intros Hnd Hu Hv He; [contradiction|].
  cbn in Hnd. inversion Hnd as [|? ? Hn Hnd']; subst.
  destruct Hu as [->|Hu], Hv as [->|Hv]; auto.
  - exfalso. apply Hn. rewrite He. apply in_map. exact Hv.
  - exfalso. apply Hn. rewrite <- He. apply in_map. exact Hu.
Qed.

(* ------------------------------------------------------------------------------------------ *)
(* The creator chain                                                                           *)
(* ------------------------------------------------------------------------------------------ *)
Lemma chain_rev_skip (pre X : universe) (lk okc : N -> bool) (id : N) :
  ~ In id (map uid pre) -> chain_rev (pre ++ X) lk okc id = chain_rev X lk okc id.
Proof.
  induction pre as [|x pre IH]; intros H; [reflexivity|].
  cbn [app chain_rev]. destruct (uid x =? id) eqn:E.
  - exfalso. apply H. left. apply N.eqb_eq in E. exact E.
  - apply IH. intros Hin. apply H. right. exact Hin.
Qed.

Lemma chain_unfold (U : universe) (lk okc : N -> bool) (done todo : universe) (u : ustep) :
  WFU U -> U = done ++ u :: todo ->
  chain_rev (rev U) lk okc (uid u) =
  lk (uid u) && ((ucr u =? 0) || (chain_rev (rev U) lk okc (ucr u) && okc (ucr u))).
Proof.
  intros [[Hid _] Hcf] E. destruct (Hcf done u todo E) as [Hn0 Hc].
  rewrite map_sid_uproj in Hid.
  assert (Hrev : rev U = rev todo ++ u :: rev done).
  { rewrite E. rewrite rev_app_distr. cbn [rev]. rewrite <- app_assoc. reflexivity. }
  rewrite Hrev.
  assert (Hnd : NoDup (map uid done ++ uid u :: map uid todo)).
  { rewrite E in Hid. rewrite map_app in Hid. exact Hid. }
  assert (Hu_todo : ~ In (uid u) (map uid (rev todo))).
  { rewrite map_rev. rewrite <- in_rev. intros Hin. apply NoDup_remove_2 in Hnd. apply Hnd.
    apply in_or_app. right. exact Hin. }
  rewrite (chain_rev_skip (rev todo) (u :: rev done) lk okc (uid u) Hu_todo).
  cbn [chain_rev]. rewrite N.eqb_refl.
  destruct Hc as [Hc|Hc].
  - rewrite Hc. cbn. reflexivity.
  - assert (Hc_todo : ~ In (ucr u) (map uid (rev todo))).
    { rewrite map_rev. rewrite <- in_rev. intros Hin.
      apply (NoDup_app_disjoint (map uid done) (uid u :: map uid todo) (ucr u) Hnd Hc).
      right. exact Hin. }
    rewrite (chain_rev_skip (rev todo) (u :: rev done) lk okc (ucr u) Hc_todo).
    cbn [chain_rev].
    assert (Hne : uid u =? ucr u = false).
    { apply N.eqb_neq. intros He.
      apply (NoDup_app_disjoint (map uid done) (uid u :: map uid todo) (ucr u) Hnd Hc).
      left. exact He. }
    rewrite Hne. reflexivity.
Qed.

(* ------------------------------------------------------------------------------------------ *)
(* Producers come first                                                                        *)
(* ------------------------------------------------------------------------------------------ *)
Lemma in_uproj (U : universe) (s : step) : In s (uproj U) -> exists u, In u U /\ ust u = s.
Proof. unfold uproj. intros H. apply in_map_iff in H. destruct H as (u & E & Hu). eauto. Qed.

Lemma inp_producer_before (U d1 r1 : universe) (v : ustep) (p q : N) :
  WFU U -> U = d1 ++ v :: r1 -> In p (inp (ust v)) -> producer (uproj U) p = Some q ->
  exists w, In w d1 /\ uid w = q /\ In p (out (ust w)).
Proof.
  intros [[_ [_ Htopo]] _] E Hp Hq.
  apply producer_some in Hq. destruct Hq as (s & Hs & <- & Hps).
  rewrite E in Hs, Htopo. unfold uproj in Hs, Htopo. rewrite map_app in Hs, Htopo.
  cbn [map] in Hs, Htopo. apply topo_app in Htopo. destruct Htopo as [Ht _].
  apply in_app_or in Hs. destruct Hs as [Hs|Hs].
  - apply in_map_iff in Hs. destruct Hs as (w & <- & Hw). exists w. auto.
  - exfalso. exact (topo_head (ust v) (map ust r1) Ht p s Hp Hs Hps).
Qed.

Section PlanProofs.
  Variable run : N -> list (option N) -> list (option N) -> N -> N.
  Variable plan : N -> list (option N) -> list (option N) -> list N.

  Notation defines := (defines plan).
  Notation Local_p := (Local_p run plan).
  Notation Finished_p := (Finished_p run plan).

  Lemma avail_t_some (U : universe) (y : psys) (p a : N) :
    avail_t U y p = Some a -> fs (pbase y) p = Some a.
  Proof.
    unfold avail_t. destruct (producer (uproj U) p) as [q|]; [|auto].
    destruct (trusted U y q && is_succ (stt (pbase y) q)); [auto|discriminate].
  Qed.

  Lemma ready_t_inputs (U : universe) (y : psys) (s : step) (p : N) :
    ready_t U y s = true -> In p (inp s) -> exists a, avail_t U y p = Some a.
  Proof.
    unfold ready_t. rewrite forallb_forall. intros H Hp. specialize (H p Hp).
    destruct (avail_t U y p) as [a|]; [eauto|discriminate].
  Qed.

  (* what is known about the steps that had their turn *)
  Definition Agree (U : universe) (y z : psys) (u : ustep) : Prop :=
    trusted U y (uid u) = trusted U z (uid u) /\
    (trusted U y (uid u) = true ->
     stt (pbase y) (uid u) = stt (pbase z) (uid u) /\
     (stt (pbase y) (uid u) = Succeeded ->
      forall p, In p (out (ust u)) -> fs (pbase y) p = fs (pbase z) p)).

  Lemma avail_t_agree (U : universe) (y z : psys) (done : universe) (p : N) :
    WFU U -> same_world_p U y z -> (forall w, In w done -> In w U) ->
    (forall w, In w done -> Agree U y z w) ->
    (forall q, producer (uproj U) p = Some q ->
               exists w, In w done /\ uid w = q /\ In p (out (ust w))) ->
    avail_t U y p = avail_t U z p.
  Proof.
    intros Hwf [Hsrc _] Hsub Hag Hprod. unfold avail_t.
    destruct (producer (uproj U) p) as [q|] eqn:E.
    - destruct (Hprod q eq_refl) as (w & Hw & <- & Hpw).
      destruct (Hag w Hw) as [Ht Hrest]. rewrite <- Ht.
      destruct (trusted U y (uid w)) eqn:Et; [|reflexivity].
      destruct (Hrest eq_refl) as [Hs Ho]. rewrite <- Hs.
      destruct (stt (pbase y) (uid w)) eqn:Es; cbn; [reflexivity|].
      apply Ho; [reflexivity|exact Hpw].
    - apply Hsrc. apply is_output_false. apply producer_none. exact E.
  Qed.

  Lemma contents_agree (U : universe) (y z : psys) (s : step) :
    (forall p, In p (inp s) -> avail_t U y p = avail_t U z p) ->
    ready_t U y s = true ->
    map (fs (pbase y)) (inp s) = map (fs (pbase z)) (inp s).
  Proof.
    intros Hav Hr. apply map_ext_in. intros p Hp.
    destruct (ready_t_inputs U y s p Hr Hp) as [a Ha].
    pose proof Ha as Hz. rewrite (Hav p Hp) in Hz.
    rewrite (avail_t_some U y p a Ha), (avail_t_some U z p a Hz). reflexivity.
  Qed.

  Lemma ready_t_ext (U : universe) (y z : psys) (s : step) :
    (forall p, In p (inp s) -> avail_t U y p = avail_t U z p) -> ready_t U y s = ready_t U z s.
  Proof.
    intros H. unfold ready_t. apply forallb_ext_in'. intros p Hp. rewrite (H p Hp). reflexivity.
  Qed.

  Lemma agree_step (U : universe) (y z : psys) (done todo : universe) (u : ustep) :
    WFU U -> Finished_p U y -> Finished_p U z -> same_world_p U y z ->
    U = done ++ u :: todo ->
    (forall w, In w done -> Agree U y z w) ->
    Agree U y z u.
  Proof.
    intros Hwf Fy Fz Hw E Hag.
    assert (Hsub : forall w, In w done -> In w U).
    { intros w Hin. rewrite E. apply in_or_app. left. exact Hin. }
    assert (Hu : In u U). { rewrite E. apply in_or_app. right. left. reflexivity. }
    (* the inputs of any step that is [u] or before it are produced before it *)
    assert (Hinp : forall v d1 r1, U = d1 ++ v :: r1 -> (forall w, In w d1 -> In w done) ->
                   forall p, In p (inp (ust v)) -> avail_t U y p = avail_t U z p).
    { intros v d1 r1 Ev Hd p Hp. apply (avail_t_agree U y z done p Hwf Hw Hsub Hag).
      intros q Hq. destruct (inp_producer_before U d1 r1 v p q Hwf Ev Hp Hq) as (w & Hw1 & Hw2 & Hw3).
      exists w. auto. }
    pose proof (Fy u Hu) as (Ly1 & Ly2 & Ly3). pose proof (Fz u Hu) as (Lz1 & Lz2 & Lz3).
    destruct Hw as [Hsrc Henv].
    (* trusted *)
    assert (Ht : trusted U y (uid u) = trusted U z (uid u)).
    { unfold trusted. rewrite (chain_unfold U (plk y) _ done todo u Hwf E).
      rewrite (chain_unfold U (plk z) _ done todo u Hwf E).
      destruct Hwf as [HW Hcf]. destruct (Hcf done u todo E) as [_ Hc].
      destruct Hc as [Hc|Hc].
      - rewrite Hc. cbn [N.eqb orb]. rewrite (Ly1 Hc), (Lz1 Hc). reflexivity.
      - apply in_map_iff in Hc. destruct Hc as (c & Hcid & Hcin).
        destruct (Hag c Hcin) as [Htc Hrc].
        destruct (in_split c done Hcin) as (d1 & m & Ed).
        assert (Ec : U = d1 ++ c :: (m ++ u :: todo)).
        { rewrite E, Ed. rewrite <- app_assoc. reflexivity. }
        destruct (Hcf d1 c _ Ec) as [Hc0 _].
        assert (Hz0 : (ucr u =? 0) = false).
        { apply N.eqb_neq. rewrite <- Hcid. exact Hc0. }
        rewrite Hz0. cbn [orb]. rewrite <- Hcid.
        fold (trusted U y (uid c)). fold (trusted U z (uid c)). rewrite <- Htc.
        destruct (trusted U y (uid c)) eqn:Etc.
        2:{ cbn [andb]. rewrite !andb_false_r. reflexivity. }
        destruct (Hrc eq_refl) as [Hsc _]. rewrite <- Hsc.
        destruct (stt (pbase y) (uid c)) eqn:Esc.
        1:{ cbn [is_succ andb]. rewrite !andb_false_r. reflexivity. }
        (* the creator is trusted and SUCCEEDED on both sides: it defines the same steps *)
        assert (Hc_in : In c U) by (apply Hsub; exact Hcin).
        assert (Etz : trusted U z (uid c) = true) by (rewrite <- Htc; reflexivity).
        assert (Esz : stt (pbase z) (uid c) = Succeeded) by (rewrite <- Hsc; reflexivity).
        rewrite (Ly2 c Hc_in Hcid Etc Esc), (Lz2 c Hc_in Hcid Etz Esz).
        assert (Hd1 : forall w, In w d1 -> In w done).
        { intros w Hin. rewrite Ed. apply in_or_app. left. exact Hin. }
        pose proof (Fy c Hc_in) as (_ & _ & Lc3). specialize (Lc3 Etc).
        destruct (ready_t U y (ust c)) eqn:Erc.
        2:{ rewrite Esc in Lc3. discriminate. }
        assert (Hdef : defines (pbase y) (ust c) = defines (pbase z) (ust c)).
        { unfold EnginePlan.defines. f_equal.
          - apply (contents_agree U y z (ust c) (Hinp c d1 _ Ec Hd1) Erc).
          - apply map_ext. intros n. apply Henv. }
        rewrite Hdef. reflexivity. }
    split; [exact Ht|]. intros Ety.
    assert (Etz : trusted U z (uid u) = true) by (rewrite <- Ht; exact Ety).
    specialize (Ly3 Ety). specialize (Lz3 Etz).
    assert (Hav : forall p, In p (inp (ust u)) -> avail_t U y p = avail_t U z p).
    { apply (Hinp u done todo E). auto. }
    rewrite <- (ready_t_ext U y z (ust u) Hav) in Lz3.
    destruct (ready_t U y (ust u)) eqn:Er.
    - destruct Ly3 as [Sy Oy], Lz3 as [Sz Oz]. split; [congruence|]. intros _ p Hp.
      rewrite (Oy p Hp), (Oz p Hp). f_equal. f_equal.
      + apply (contents_agree U y z (ust u) Hav Er).
      + apply map_ext. intros n. apply Henv.
    - split; [congruence|]. intros Hs. congruence.
  Qed.

  Lemma agree_all (U : universe) (y z : psys) :
    WFU U -> Finished_p U y -> Finished_p U z -> same_world_p U y z ->
    forall todo done, U = done ++ todo ->
      (forall w, In w done -> Agree U y z w) -> forall w, In w U -> Agree U y z w.
  Proof.
    intros Hwf Fy Fz Hw. induction todo as [|u todo IH]; intros done E Hag w Hin.
    - rewrite app_nil_r in E. subst. apply Hag. exact Hin.
    - apply (IH (done ++ [u])); [rewrite <- app_assoc; exact E | | exact Hin].
      intros v Hv. apply in_app_or in Hv. destruct Hv as [Hv|[<-|[]]]; [apply Hag; exact Hv|].
      apply (agree_step U y z done todo u Hwf Fy Fz Hw E Hag).
  Qed.

  Theorem finished_p_unique (U : universe) (y z : psys) :
    wf_u U = true -> Finished_p U y -> Finished_p U z -> same_world_p U y z ->
    same_result_p U y z.
  Proof.
    intros Hwf Fy Fz Hw u Hu.
    exact (agree_all U y z (wf_u_WFU U Hwf) Fy Fz Hw U [] eq_refl (fun w H => match H with end) u Hu).
  Qed.
End PlanProofs.


(* ------------------------------------------------------------------------------------------ *)
(* A build from scratch ends in a finished state                                               *)
(* ------------------------------------------------------------------------------------------ *)
Definition ustat_later (U : universe) : Prop :=
  forall done u todo, U = done ++ u :: todo ->
    forall z, In z (done ++ [u]) -> forall p, In p (inp (ust z)) -> ~ In p (ustat u).

Lemma ustat_later_from_split (U : universe) :
  forall seen, ustat_later_from seen U = true ->
  forall done u todo, U = done ++ u :: todo ->
    forall z, In z seen \/ In z (done ++ [u]) -> forall p, In p (inp (ust z)) -> ~ In p (ustat u).
Proof.
  induction U as [|x U IH]; intros seen H done u todo E z Hz p Hp.
  - destruct done; discriminate.
  - cbn [ustat_later_from] in H. apply andb_true_iff in H. destruct H as [H1 H2].
    destruct done as [|d done]; cbn in E; injection E as -> ->.
    + rewrite forallb_forall in H1.
      assert (Hin : In z (u :: seen)).
      { destruct Hz as [Hz|Hz]; [right; exact Hz|]. cbn in Hz. destruct Hz as [<-|[]]. left. reflexivity. }
      specialize (H1 z Hin). rewrite forallb_forall in H1. specialize (H1 p Hp).
      apply negb_true_iff in H1. apply memN_false in H1. exact H1.
    + apply (IH (d :: seen) H2 done u todo eq_refl z); [|exact Hp].
      destruct Hz as [Hz|Hz]; [left; right; exact Hz|]. cbn in Hz.
      destruct Hz as [<-|Hz]; [left; left; reflexivity|right; exact Hz].
Qed.

Lemma ustat_later_b_ok (U : universe) : ustat_later_b U = true -> ustat_later U.
Proof.
  intros H done u todo E z Hz p Hp.
  apply (ustat_later_from_split U [] H done u todo E z (or_intror Hz) p Hp).
Qed.

(* chain_rev: only the elements of the list are consulted *)
Lemma chain_rev_in (R : universe) (lk okc : N -> bool) (id : N) :
  chain_rev R lk okc id = true -> In id (map uid R).
Proof.
  induction R as [|x R IH]; cbn [chain_rev]; intros H; [discriminate|].
  destruct (uid x =? id) eqn:E.
  - left. apply N.eqb_eq in E. exact E.
  - right. apply IH. exact H.
Qed.

Lemma chain_rev_ext (R : universe) (lk lk' okc okc' : N -> bool) :
  (forall x, In x R -> lk (uid x) = lk' (uid x) /\ okc (uid x) = okc' (uid x)) ->
  forall id, chain_rev R lk okc id = chain_rev R lk' okc' id.
Proof.
  induction R as [|x R IH]; intros H id; [reflexivity|]. cbn [chain_rev].
  assert (HR : forall z, In z R -> lk (uid z) = lk' (uid z) /\ okc (uid z) = okc' (uid z)).
  { intros z Hz. apply H. right. exact Hz. }
  destruct (uid x =? id) eqn:E; [|apply IH; exact HR].
  apply N.eqb_eq in E. subst id. destruct (H x (or_introl eq_refl)) as [H1 _]. rewrite <- H1.
  rewrite <- (IH HR (ucr x)). f_equal. f_equal.
  destruct (chain_rev R lk okc (ucr x)) eqn:Ec; [|reflexivity]. cbn [andb].
  apply chain_rev_in in Ec. apply in_map_iff in Ec. destruct Ec as (c & Hc & Hin).
  rewrite <- Hc. apply (HR c Hin).
Qed.

Lemma chain_rev_mono (R : universe) (lk lk' okc okc' : N -> bool) :
  (forall id, lk id = true -> lk' id = true) -> (forall id, okc id = true -> okc' id = true) ->
  forall id, chain_rev R lk okc id = true -> chain_rev R lk' okc' id = true.
Proof.
  intros Hl Ho. induction R as [|x R IH]; intros id H; [discriminate|]. cbn [chain_rev] in *.
  destruct (uid x =? id); [|apply IH; exact H].
  apply andb_true_iff in H. destruct H as [H1 H2]. rewrite (Hl id H1). cbn [andb].
  apply orb_true_iff in H2. apply orb_true_iff. destruct H2 as [H2|H2]; [left; exact H2|right].
  apply andb_true_iff in H2. destruct H2 as [H3 H4]. rewrite (IH _ H3), (Ho _ H4). reflexivity.
Qed.

Lemma trusted_attached (U : universe) (y : psys) (id : N) :
  trusted U y id = true -> attached U y id = true.
Proof. unfold trusted, attached. apply chain_rev_mono; auto. Qed.

(* the chain of a step that had its turn lies in the part of the universe before it *)
Lemma chain_done_frame (U done rest : universe) (lk lk' okc okc' : N -> bool) (v : ustep) :
  NoDup (map uid U) -> U = done ++ rest -> In v done ->
  (forall x, In x done -> lk (uid x) = lk' (uid x) /\ okc (uid x) = okc' (uid x)) ->
  chain_rev (rev U) lk okc (uid v) = chain_rev (rev U) lk' okc' (uid v).
Proof.
  intros Hnd E Hv Hag. rewrite E, rev_app_distr.
  assert (Hn : ~ In (uid v) (map uid (rev rest))).
  { rewrite map_rev, <- in_rev. intros Hin. rewrite E, map_app in Hnd.
    apply (NoDup_app_disjoint _ _ (uid v) Hnd); [apply in_map; exact Hv|exact Hin]. }
  rewrite !(chain_rev_skip (rev rest) (rev done) _ _ (uid v) Hn).
  apply chain_rev_ext. intros x Hx. apply Hag. apply in_rev. exact Hx.
Qed.

(* pending propagation that finds nothing to do *)
Lemma mark_keeps (todo : project) (d de : N -> bool) (st : N -> sstate) :
  NoDup (map sid todo) ->
  (forall s, In s todo -> st (sid s) = Succeeded ->
             existsb d (inp s) = false /\ existsb de (envn s) = false) ->
  (forall s z, In s todo -> In z todo -> st (sid s) = Pending -> st (sid z) = Succeeded ->
               forall p, In p (inp z) -> ~ In p (out s)) ->
  forall z, In z todo -> st (sid z) = Succeeded -> mark todo d de st (sid z) = Succeeded.
Proof.
  revert d st. induction todo as [|x rest IH]; intros d st Hnd H1 H2 z Hz Sz; [contradiction|].
  pose proof (not_in_tail_ids x rest Hnd) as Hids.
  assert (Hnd' : NoDup (map sid rest)) by (cbn in Hnd; inversion Hnd; assumption).
  cbn [mark].
  destruct (existsb d (inp x) || existsb de (envn x) || negb (is_succ (st (sid x)))) eqn:Ec.
  - assert (Px : st (sid x) = Pending).
    { destruct (st (sid x)) eqn:Ex; [reflexivity|]. exfalso.
      destruct (H1 x (or_introl eq_refl) Ex) as [Ha Hb]. rewrite Ha, Hb in Ec. discriminate. }
    destruct Hz as [->|Hz]; [congruence|].
    apply IH; auto.
    + intros s Hs Ss. rewrite upd_other in Ss by (apply Hids; exact Hs).
      destruct (H1 s (or_intror Hs) Ss) as [Ha Hb]. split; [|exact Hb].
      apply not_true_is_false. intros Ht. apply existsb_exists in Ht. destruct Ht as (p & Hp & Hd).
      apply orb_true_iff in Hd. destruct Hd as [Hd|Hd].
      * pose proof (existsb_false_all _ _ Ha p Hp). congruence.
      * apply memN_In in Hd. exact (H2 x s (or_introl eq_refl) (or_intror Hs) Px Ss p Hp Hd).
    + intros s q Hs Hq Ps Sq. rewrite upd_other in Ps by (apply Hids; exact Hs).
      rewrite upd_other in Sq by (apply Hids; exact Hq).
      exact (H2 s q (or_intror Hs) (or_intror Hq) Ps Sq).
    + rewrite upd_other by (apply Hids; exact Hz). exact Sz.
  - destruct Hz as [->|Hz].
    + rewrite mark_elsewhere; [exact Sz|exact Hids].
    + apply IH; auto.
      * intros s Hs. apply H1. right. exact Hs.
      * intros s q Hs Hq. apply H2; right; assumption.
Qed.

Lemma mark_pointwise_id (todo : project) (d de : N -> bool) (st : N -> sstate) :
  NoDup (map sid todo) ->
  (forall s, In s todo -> st (sid s) = Succeeded ->
             existsb d (inp s) = false /\ existsb de (envn s) = false) ->
  (forall s z, In s todo -> In z todo -> st (sid s) = Pending -> st (sid z) = Succeeded ->
               forall p, In p (inp z) -> ~ In p (out s)) ->
  forall id, mark todo d de st id = st id.
Proof.
  intros Hnd H1 H2 id. destruct (st id) eqn:E.
  - destruct (mark todo d de st id) eqn:Em; [reflexivity|].
    apply mark_only_lowers in Em. congruence.
  - destruct (in_dec N.eq_dec id (map sid todo)) as [Hin|Hn].
    + apply in_map_iff in Hin. destruct Hin as (z & <- & Hz). apply mark_keeps; auto.
    + rewrite mark_elsewhere; [exact E|]. intros s Hs He. apply Hn. rewrite <- He. apply in_map. exact Hs.
Qed.


Lemma existsb_const_false {A} (l : list A) : existsb (fun _ => false) l = false.
Proof. induction l; cbn; auto. Qed.

Lemma avail_t_prod (U : universe) (y : psys) (p a q : N) :
  avail_t U y p = Some a -> producer (uproj U) p = Some q ->
  trusted U y q = true /\ stt (pbase y) q = Succeeded.
Proof.
  unfold avail_t. intros H E. rewrite E in H.
  destruct (trusted U y q) eqn:Et; cbn in H; [|discriminate].
  destruct (stt (pbase y) q) eqn:Es; cbn in H; [discriminate|]. auto.
Qed.

Lemma avail_p_prod (U : universe) (y : psys) (p a q : N) :
  avail_p U y p = Some a -> producer (uproj U) p = Some q ->
  attached U y q = true /\ stt (pbase y) q = Succeeded.
Proof.
  unfold avail_p. intros H E. rewrite E in H.
  destruct (attached U y q) eqn:Et; cbn in H; [|discriminate].
  destruct (stt (pbase y) q) eqn:Es; cbn in H; [discriminate|]. auto.
Qed.

Lemma relink_at (U : universe) (c : N) (kids : list N) (lk : N -> bool) (v : ustep) :
  NoDup (map uid U) -> In v U ->
  relink U c kids lk (uid v) = if ucr v =? c then memN (uid v) kids else lk (uid v).
Proof.
  intros Hnd Hv. unfold relink.
  destruct (existsb (fun u0 => (uid u0 =? uid v) && (ucr u0 =? c)) U) eqn:E.
  - apply existsb_exists in E. destruct E as (u0 & H0 & He). apply andb_true_iff in He.
    destruct He as [He1 He2]. apply N.eqb_eq in He1.
    rewrite (uid_unique U u0 v Hnd H0 Hv He1) in He2. rewrite He2. reflexivity.
  - destruct (ucr v =? c) eqn:Ec; [|reflexivity]. exfalso.
    assert (existsb (fun u0 => (uid u0 =? uid v) && (ucr u0 =? c)) U = true).
    { apply existsb_exists. exists v. split; [exact Hv|]. rewrite N.eqb_refl, Ec. reflexivity. }
    congruence.
Qed.

Section Scratch.
  Variable run : N -> list (option N) -> list (option N) -> N -> N.
  Variable plan : N -> list (option N) -> list (option N) -> list N.
  Variable U : universe.
  Hypothesis HW : WFU U.
  Hypothesis HS : ustat_later U.
  Variable w : world.

  Notation defines := (EnginePlan.defines plan).

  Lemma Hid : NoDup (map uid U).
  Proof. destruct HW as [[H _] _]. rewrite map_sid_uproj in H. exact H. Qed.

  Lemma Hnd : NoDup (outs (uproj U)).
  Proof. destruct HW as [[_ [H _]] _]. exact H. Qed.

  Definition Loc3 (y : psys) (u : ustep) : Prop :=
    trusted U y (uid u) = true ->
    if ready_t U y (ust u)
    then stt (pbase y) (uid u) = Succeeded /\
         forall p, In p (out (ust u)) ->
                   fs (pbase y) p = Some (run (uid u) (map (fs (pbase y)) (inp (ust u)))
                                              (map (ev (pbase y)) (envn (ust u))) p)
    else stt (pbase y) (uid u) = Pending.

  (* inputs of the steps up to [u] are no outputs of [u] *)
  Lemma inputs_before (done todo : universe) (u v : ustep) (p : N) :
    U = done ++ u :: todo -> In v (done ++ [u]) -> In p (inp (ust v)) -> ~ In p (out (ust u)).
  Proof.
    intros E Hv Hp. destruct HW as [[_ [_ Ht]] _]. rewrite E in Ht. unfold uproj in Ht.
    rewrite map_app in Ht. cbn [map] in Ht. apply in_app_or in Hv. destruct Hv as [Hv|[<-|[]]].
    - apply topo_app in Ht. destruct Ht as [_ Hd].
      apply (Hd (ust v) p (ust u)); [apply in_map; exact Hv|exact Hp|left; reflexivity].
    - apply topo_app in Ht. destruct Ht as [Ht _].
      apply (topo_head (ust u) (map ust todo) Ht p (ust u) Hp). left. reflexivity.
  Qed.

  Lemma outputs_disjoint (u v : ustep) (p : N) :
    In u U -> In v U -> uid v <> uid u -> In p (out (ust v)) -> ~ In p (out (ust u)).
  Proof.
    intros Hu Hv Hne Hp Hq. apply Hne.
    assert (E : ust v = ust u).
    { apply (out_unique (uproj U) (ust v) (ust u) p Hnd); auto; apply in_map; assumption. }
    unfold uid. rewrite E. reflexivity.
  Qed.

  (* a change at [u] (its outputs, its state, links of later steps) does not disturb the
     defining equation at a step that had its turn *)
  Lemma loc3_frame (done todo : universe) (u v : ustep) (y y' : psys) :
    U = done ++ u :: todo -> In v done ->
    (forall p, ~ In p (out (ust u)) -> fs (pbase y') p = fs (pbase y) p) ->
    (forall n, ev (pbase y') n = ev (pbase y) n) ->
    (forall x, In x done -> stt (pbase y') (uid x) = stt (pbase y) (uid x) /\
                            plk y' (uid x) = plk y (uid x)) ->
    Loc3 y v -> Loc3 y' v.
  Proof.
    intros E Hv Hfs Hev Hdone HL.
    assert (HvU : In v U). { rewrite E. apply in_or_app. left. exact Hv. }
    assert (HuU : In u U). { rewrite E. apply in_or_app. right. left. reflexivity. }
    assert (Htr : forall x, In x done -> trusted U y' (uid x) = trusted U y (uid x)).
    { intros x Hx. unfold trusted.
      apply (chain_done_frame U done (u :: todo) _ _ _ _ x Hid E Hx).
      intros z Hz. destruct (Hdone z Hz) as [H1 H2]. rewrite H1, H2. auto. }
    assert (Hinp : forall p, In p (inp (ust v)) -> ~ In p (out (ust u))).
    { intros p Hp. apply (inputs_before done todo u v p E); [apply in_or_app; left; exact Hv|exact Hp]. }
    assert (Hav : forall p, In p (inp (ust v)) -> avail_t U y' p = avail_t U y p).
    { intros p Hp. unfold avail_t. destruct (producer (uproj U) p) as [q|] eqn:Eq.
      - destruct (in_split v done Hv) as (d1 & m & Ed).
        assert (Ev : U = d1 ++ v :: (m ++ u :: todo)).
        { rewrite E, Ed. rewrite <- app_assoc. reflexivity. }
        destruct (inp_producer_before U d1 _ v p q HW Ev Hp Eq) as (x & Hx & <- & _).
        assert (Hxd : In x done). { rewrite Ed. apply in_or_app. left. exact Hx. }
        rewrite (Htr x Hxd). destruct (Hdone x Hxd) as [H1 _]. rewrite H1.
        rewrite (Hfs p (Hinp p Hp)). reflexivity.
      - apply Hfs. apply Hinp. exact Hp. }
    unfold Loc3 in *. rewrite (Htr v Hv). intros Ht. specialize (HL Ht).
    rewrite (ready_t_ext U y' y (ust v) Hav). destruct (Hdone v Hv) as [Hsv _]. rewrite Hsv.
    destruct (ready_t U y (ust v)); [|exact HL].
    destruct HL as [H1 H2]. split; [exact H1|]. intros p Hp.
    assert (Hne : uid v <> uid u).
    { intros He. pose proof Hid as Hid'. rewrite E in Hid'. rewrite map_app in Hid'.
      apply (NoDup_app_disjoint _ _ (uid v) Hid'); [apply in_map; exact Hv|].
      left. symmetry. exact He. }
    rewrite (Hfs p (outputs_disjoint u v p HuU HvU Hne Hp)). rewrite (H2 p Hp). f_equal. f_equal.
    - apply map_ext_in. intros x Hx. symmetry. apply Hfs. apply Hinp. exact Hx.
    - apply map_ext. intros n. symmetry. apply Hev.
  Qed.
  Record Inv (done todo : universe) (y : psys) : Prop := mkInv {
    i_src : forall p, is_output (uproj U) p = false -> fs (pbase y) p = fst w p;
    i_env : forall n, ev (pbase y) n = snd w n;
    i_todo : forall u, In u todo -> stt (pbase y) (uid u) = Pending /\ tr (pbase y) (uid u) = None;
    i_root : forall u, In u U -> ucr u = 0 -> plk y (uid u) = true;
    i_lk1 : forall u, In u U -> ucr u <> 0 -> plk y (uid u) = true ->
            exists c, In c done /\ uid c = ucr u /\ stt (pbase y) (uid c) = Succeeded;
    i_lk2 : forall u c, In u U -> In c done -> uid c = ucr u -> stt (pbase y) (uid c) = Succeeded ->
            plk y (uid u) = memN (uid u) (defines (pbase y) (ust c));
    i_tr : forall u, In u U -> stt (pbase y) (uid u) = Succeeded -> trusted U y (uid u) = true;
    i_loc : forall u, In u done -> Loc3 y u }.

  Lemma ready_t_p (y : psys) (s : step) : ready_t U y s = true -> ready_p U y s = true.
  Proof.
    unfold ready_t, ready_p. rewrite !forallb_forall. intros H p Hp. specialize (H p Hp).
    unfold avail_t, avail_p in *. destruct (producer (uproj U) p) as [q|]; [|exact H].
    destruct (trusted U y q) eqn:Et; cbn in H; [|discriminate].
    rewrite (trusted_attached U y q Et). exact H.
  Qed.

  (* nothing happens at [u] *)
  Lemma inv_none (done todo : universe) (u : ustep) (y : psys) :
    U = done ++ u :: todo -> Inv done (u :: todo) y -> Loc3 y u -> Inv (done ++ [u]) todo y.
  Proof.
    intros E I HL. destruct (i_todo _ _ _ I u (or_introl eq_refl)) as [Pu _].
    constructor.
    - apply (i_src _ _ _ I).
    - apply (i_env _ _ _ I).
    - intros v Hv. apply (i_todo _ _ _ I). right. exact Hv.
    - apply (i_root _ _ _ I).
    - intros v Hv Hc Hl. destruct (i_lk1 _ _ _ I v Hv Hc Hl) as (c & Hc1 & Hc2 & Hc3).
      exists c. split; [apply in_or_app; left; exact Hc1|auto].
    - intros v c Hv Hc He Hs. apply in_app_or in Hc. destruct Hc as [Hc|[<-|[]]].
      + apply (i_lk2 _ _ _ I v c Hv Hc He Hs).
      + congruence.
    - apply (i_tr _ _ _ I).
    - intros v Hv. apply in_app_or in Hv. destruct Hv as [Hv|[<-|[]]]; [apply (i_loc _ _ _ I v Hv)|exact HL].
  Qed.

  Lemma defines_frame (b b' : sys) (c : step) :
    (forall p, In p (inp c) -> fs b' p = fs b p) -> (forall n, ev b' n = ev b n) ->
    defines b' c = defines b c.
  Proof.
    intros H1 H2. unfold EnginePlan.defines. f_equal.
    - apply map_ext_in. exact H1.
    - apply map_ext. exact H2.
  Qed.

  (* [u] runs *)
  Lemma inv_run (done todo : universe) (u : ustep) (y : psys) :
    U = done ++ u :: todo -> Inv done (u :: todo) y ->
    trusted U y (uid u) = true -> ready_p U y (ust u) = true ->
    Inv (done ++ [u]) todo (p_run run plan U u y).
  Proof.
    intros E I Et Er. set (b := pbase y). set (y' := p_run run plan U u y).
    assert (HuU : In u U). { rewrite E. apply in_or_app. right. left. reflexivity. }
    assert (HdU : forall x, In x done -> In x U). { intros x Hx. rewrite E. apply in_or_app. left. exact Hx. }
    assert (HtU : forall x, In x todo -> In x U). { intros x Hx. rewrite E. apply in_or_app. right. right. exact Hx. }
    pose proof Hid as Hid'. rewrite E, map_app in Hid'. cbn [map] in Hid'.
    assert (Hnu_done : forall x, In x done -> uid x <> uid u).
    { intros x Hx He. apply (NoDup_app_disjoint _ _ (uid x) Hid'); [apply in_map; exact Hx|left; symmetry; exact He]. }
    assert (Hnu_todo : forall x, In x todo -> uid x <> uid u).
    { intros x Hx He. apply NoDup_remove_2 in Hid'. apply Hid'. apply in_or_app. right.
      rewrite <- He. apply in_map. exact Hx. }
    destruct (i_todo _ _ _ I u (or_introl eq_refl)) as [Pu Tu].
    (* the steps that are SUCCEEDED had their turn *)
    assert (Hsucc_done : forall z, In z U -> stt b (uid z) = Succeeded -> In z done).
    { intros z Hz Sz. rewrite E in Hz. apply in_app_or in Hz. destruct Hz as [Hz|Hz]; [exact Hz|].
      destruct (i_todo _ _ _ I z Hz) as [Pz _]. unfold b in Sz. congruence. }
    (* a SUCCEEDED step, and [u], read only outputs of SUCCEEDED steps *)
    assert (Hclosed : forall z, In z (done ++ [u]) -> (In z done -> stt b (uid z) = Succeeded) ->
                      forall p s, In p (inp (ust z)) -> In s U -> In p (out (ust s)) ->
                                  stt b (uid s) = Succeeded).
    { intros z Hz Sz p s Hp Hs Hps.
      assert (Eprod : producer (uproj U) p = Some (uid s)).
      { apply (producer_of_out (uproj U) (ust s) p Hnd); [apply in_map; exact Hs|exact Hps]. }
      apply in_app_or in Hz. destruct Hz as [Hz|[<-|[]]].
      - specialize (Sz Hz). pose proof (i_tr _ _ _ I z (HdU z Hz) Sz) as Tz.
        pose proof (i_loc _ _ _ I z Hz Tz) as L. fold b in L.
        destruct (ready_t U y (ust z)) eqn:Erz; [|congruence].
        destruct (ready_t_inputs U y (ust z) p Erz Hp) as [a Ha].
        apply (avail_t_prod U y p a (uid s) Ha Eprod).
      - unfold ready_p in Er. rewrite forallb_forall in Er. specialize (Er p Hp).
        destruct (avail_p U y p) as [a|] eqn:Ea; [|discriminate].
        apply (avail_p_prod U y p a (uid s) Ea Eprod). }
    (* states after the run: only [u] changed *)
    assert (Hst : forall id, stt (pbase y') id = upd (stt b) (uid u) Succeeded id).
    { intros id. unfold y', p_run. cbn [pbase set_stt stt do_run]. fold b.
      apply mark_pointwise_id.
      - destruct HW as [[H _] _]. exact H.
      - intros s Hs Ss. split; [|apply existsb_const_false].
        apply in_uproj in Hs. destruct Hs as (z & Hz & <-).
        assert (Hzd : In z (done ++ [u])).
        { fold (uid z) in Ss. destruct (N.eq_dec (uid z) (uid u)) as [He|Hne].
          - rewrite (uid_unique U z u Hid Hz HuU He). apply in_or_app. right. left. reflexivity.
          - rewrite upd_other in Ss by exact Hne. apply in_or_app. left. apply Hsucc_done; assumption. }
        apply not_true_is_false. intros Hex. apply existsb_exists in Hex. destruct Hex as (p & Hp & Hm).
        apply memN_In in Hm. exact (HS done u todo E z Hzd p Hp Hm).
      - intros s z Hs Hz Ps Sz p Hp Hps.
        apply in_uproj in Hs. destruct Hs as (s0 & Hs0 & <-). apply in_uproj in Hz. destruct Hz as (z0 & Hz0 & <-).
        fold (uid s0) in Ps. fold (uid z0) in Sz.
        assert (Hne : uid s0 <> uid u). { intros He. rewrite He, upd_same in Ps. discriminate. }
        rewrite upd_other in Ps by exact Hne.
        assert (Hzd : In z0 (done ++ [u]) /\ (In z0 done -> stt b (uid z0) = Succeeded)).
        { destruct (N.eq_dec (uid z0) (uid u)) as [He|Hnz].
          - rewrite (uid_unique U z0 u Hid Hz0 HuU He). split; [apply in_or_app; right; left; reflexivity|].
            intros Hin. exfalso. exact (Hnu_done u Hin eq_refl).
          - rewrite upd_other in Sz by exact Hnz. split; [apply in_or_app; left; apply Hsucc_done; assumption|auto]. }
        destruct Hzd as [Hzd Hzs].
        pose proof (Hclosed z0 Hzd Hzs p s0 Hp Hs0 Hps) as Hc. congruence. }
    assert (Hfs_o : forall p, ~ In p (out (ust u)) -> fs (pbase y') p = fs b p).
    { intros p Hp. unfold y', p_run. cbn [pbase set_stt fs]. apply (fs_do_run_other run). exact Hp. }
    assert (Hev : forall n, ev (pbase y') n = ev b n) by reflexivity.
    assert (Hlk : forall v, In v U ->
                  plk y' (uid v) = if ucr v =? uid u then memN (uid v) (defines b (ust u)) else plk y (uid v)).
    { intros v Hv. unfold y', p_run. cbn [plk]. apply (relink_at U _ _ _ v Hid Hv). }
    assert (Hinp_u : forall v, In v (done ++ [u]) -> forall p, In p (inp (ust v)) -> fs (pbase y') p = fs b p).
    { intros v Hv p Hp. apply Hfs_o. apply (inputs_before done todo u v p E Hv Hp). }
    assert (Hdef : forall c, In c (done ++ [u]) -> defines (pbase y') (ust c) = defines b (ust c)).
    { intros c Hc. apply defines_frame; [apply (Hinp_u c Hc)|exact Hev]. }
    (* the children of [u] were not linked before *)
    assert (Hkid0 : forall v, In v U -> ucr v = uid u -> plk y (uid v) = false).
    { intros v Hv Hc. destruct (plk y (uid v)) eqn:El; [|reflexivity]. exfalso.
      assert (Hcz : ucr v <> 0). { rewrite Hc. destruct HW as [_ Hcf]. apply (Hcf done u todo E). }
      destruct (i_lk1 _ _ _ I v Hv Hcz El) as (c & Hc1 & Hc2 & _). apply (Hnu_done c Hc1). congruence. }
    assert (Hdone_same : forall x, In x done -> stt (pbase y') (uid x) = stt b (uid x) /\ plk y' (uid x) = plk y (uid x)).
    { intros x Hx. split.
      - rewrite Hst. apply upd_other. apply Hnu_done. exact Hx.
      - rewrite (Hlk x (HdU x Hx)). destruct (ucr x =? uid u) eqn:Ec; [|reflexivity].
        apply N.eqb_eq in Ec. exfalso.
        destruct (in_split x done Hx) as (d1 & m & Ed).
        assert (Ex : U = d1 ++ x :: (m ++ u :: todo)). { rewrite E, Ed, <- app_assoc. reflexivity. }
        destruct HW as [_ Hcf]. destruct (Hcf d1 x _ Ex) as [_ [H0|Hin]].
        + destruct (Hcf done u todo E) as [Hu0 _]. congruence.
        + rewrite Ec in Hin. apply in_map_iff in Hin. destruct Hin as (c & Hc1 & Hc2).
          apply (Hnu_done c); [rewrite Ed; apply in_or_app; left; exact Hc2|exact Hc1]. }
    (* trusted only grows *)
    assert (Htmono : forall id, trusted U y id = true -> trusted U y' id = true).
    { intros id. unfold trusted. apply chain_rev_mono.
      - intros i Hi. destruct (in_dec N.eq_dec i (map uid U)) as [Hin|Hn].
        + apply in_map_iff in Hin. destruct Hin as (v & <- & Hv). rewrite (Hlk v Hv).
          destruct (ucr v =? uid u) eqn:Ec; [|exact Hi]. apply N.eqb_eq in Ec.
          rewrite (Hkid0 v Hv Ec) in Hi. discriminate.
        + unfold y', p_run. cbn [plk]. unfold relink.
          destruct (existsb (fun u0 => (uid u0 =? i) && (ucr u0 =? uid u)) U) eqn:Ex; [|exact Hi].
          exfalso. apply existsb_exists in Ex. destruct Ex as (u0 & H0 & He). apply andb_true_iff in He.
          destruct He as [He _]. apply N.eqb_eq in He. apply Hn. rewrite <- He. apply in_map. exact H0.
      - intros i Hi. rewrite Hst. unfold upd. destruct (i =? uid u); [reflexivity|exact Hi]. }
    constructor.
    - intros p Hp. rewrite Hfs_o; [apply (i_src _ _ _ I p Hp)|].
      intros Hin. apply is_output_false in Hp. apply Hp. apply in_outs. exists (ust u).
      split; [apply in_map; exact HuU|exact Hin].
    - intros n. rewrite Hev. apply (i_env _ _ _ I).
    - intros v Hv. destruct (i_todo _ _ _ I v (or_intror Hv)) as [Pv Tv]. split.
      + rewrite Hst, upd_other by (apply Hnu_todo; exact Hv). exact Pv.
      + unfold y', p_run. cbn [pbase set_stt tr do_run]. rewrite upd_other by (apply Hnu_todo; exact Hv). exact Tv.
    - intros v Hv Hc. rewrite (Hlk v Hv).
      destruct (ucr v =? uid u) eqn:Ec; [|apply (i_root _ _ _ I v Hv Hc)].
      apply N.eqb_eq in Ec. exfalso. destruct HW as [_ Hcf]. destruct (Hcf done u todo E) as [Hu0 _]. congruence.
    - intros v Hv Hc Hl. rewrite (Hlk v Hv) in Hl. destruct (ucr v =? uid u) eqn:Ec.
      + apply N.eqb_eq in Ec. exists u. split; [apply in_or_app; right; left; reflexivity|].
        split; [symmetry; exact Ec|]. rewrite Hst. apply upd_same.
      + destruct (i_lk1 _ _ _ I v Hv Hc Hl) as (c & Hc1 & Hc2 & Hc3). exists c.
        split; [apply in_or_app; left; exact Hc1|]. split; [exact Hc2|].
        rewrite (proj1 (Hdone_same c Hc1)). exact Hc3.
    - intros v c Hv Hc He Hs. rewrite (Hdef c Hc). rewrite (Hlk v Hv).
      apply in_app_or in Hc. destruct Hc as [Hc|[<-|[]]].
      + assert (Ec : ucr v =? uid u = false).
        { apply N.eqb_neq. rewrite <- He. apply Hnu_done. exact Hc. }
        rewrite Ec. rewrite (proj1 (Hdone_same c Hc)) in Hs. apply (i_lk2 _ _ _ I v c Hv Hc He Hs).
      + rewrite <- He, N.eqb_refl. reflexivity.
    - intros v Hv Sv. rewrite Hst in Sv. destruct (N.eq_dec (uid v) (uid u)) as [He|Hne].
      + rewrite He. apply Htmono. exact Et.
      + rewrite upd_other in Sv by exact Hne. apply Htmono. apply (i_tr _ _ _ I v Hv Sv).
    - intros v Hv. apply in_app_or in Hv. destruct Hv as [Hv|[<-|[]]].
      + apply (loc3_frame done todo u v y y' E Hv Hfs_o Hev Hdone_same). apply (i_loc _ _ _ I v Hv).
      + (* the equation at [u] itself *)
        intros _.
        assert (Hrt : ready_t U y' (ust u) = true).
        { unfold ready_t. rewrite forallb_forall. intros p Hp.
          unfold ready_p in Er. rewrite forallb_forall in Er. specialize (Er p Hp).
          destruct (avail_p U y p) as [a|] eqn:Ea; [|discriminate].
          assert (Hfp : fs (pbase y') p = fs b p).
          { apply (Hinp_u u); [apply in_or_app; right; left; reflexivity|exact Hp]. }
          unfold avail_t. destruct (producer (uproj U) p) as [q|] eqn:Eq.
          - destruct (avail_p_prod U y p a q Ea Eq) as [Hatt Hsq].
            assert (Hfb : fs b p = Some a).
            { unfold avail_p in Ea. rewrite Eq, Hatt, Hsq in Ea. exact Ea. }
            pose proof Eq as Eq'. apply producer_some in Eq'. destruct Eq' as (s & Hs & Hsq' & _).
            apply in_uproj in Hs. destruct Hs as (s0 & Hs0 & Hs1).
            assert (Hq : uid s0 = q). { unfold uid. rewrite Hs1. exact Hsq'. }
            assert (Htq : trusted U y' q = true).
            { apply Htmono. rewrite <- Hq. apply (i_tr _ _ _ I s0 Hs0). rewrite Hq. exact Hsq. }
            assert (Hsq2 : stt (pbase y') q = Succeeded).
            { rewrite Hst. unfold upd. destruct (q =? uid u); [reflexivity|exact Hsq]. }
            rewrite Htq, Hsq2, Hfp, Hfb. reflexivity.
          - unfold avail_p in Ea. rewrite Eq in Ea. rewrite Hfp. fold b in Ea. rewrite Ea. reflexivity. }
        rewrite Hrt. split; [rewrite Hst; apply upd_same|].
        intros p Hp.
        assert (Hndu : NoDup (out (ust u))). { apply (out_nodup (uproj U) (ust u) Hnd). apply in_map. exact HuU. }
        assert (Hout : fs (pbase y') p = fs (do_run run (ust u) b) p) by reflexivity.
        rewrite Hout, (fs_do_run_out run (ust u) b p Hndu Hp). f_equal. f_equal.
        apply map_ext_in. intros x Hx. symmetry.
        apply (Hinp_u u); [apply in_or_app; right; left; reflexivity|exact Hx].
  Qed.
  Lemma inv_step (done todo : universe) (u : ustep) (y : psys) :
    U = done ++ u :: todo -> Inv done (u :: todo) y ->
    Inv (done ++ [u]) todo (p_step_build run plan U u y).
  Proof.
    intros E I. destruct (i_todo _ _ _ I u (or_introl eq_refl)) as [Pu Tu].
    unfold p_step_build, p_decide.
    destruct (trusted U y (uid u)) eqn:Et; cbn [negb].
    2:{ apply inv_none; auto. intros Ht. congruence. }
    rewrite Pu. cbn [is_succ].
    destruct (ready_p U y (ust u)) eqn:Er; cbn [negb].
    2:{ apply inv_none; auto. intros _. destruct (ready_t U y (ust u)) eqn:Ert; [|exact Pu].
        apply ready_t_p in Ert. congruence. }
    unfold can_skip. change (sid (ust u)) with (uid u). rewrite Tu. apply inv_run; auto.
  Qed.

  Lemma inv_pass (todo : universe) : forall done y,
    U = done ++ todo -> Inv done todo y ->
    Inv U [] (fold_left (fun y u => p_step_build run plan U u y) todo y).
  Proof.
    induction todo as [|u todo IH]; intros done y E I.
    - rewrite app_nil_r in E. subst done. exact I.
    - cbn [fold_left]. apply (IH (done ++ [u])); [rewrite <- app_assoc; exact E|].
      apply inv_step; assumption.
  Qed.

  Lemma inv_start : Inv [] U (p_resync U (p_empty U) w).
  Proof.
    assert (Hp : forall id, stt (pbase (p_resync U (p_empty U) w)) id = Pending).
    { intros id. cbn. destruct (mark (uproj U) _ _ (fun _ => Pending) id) eqn:Em; [reflexivity|].
      apply mark_only_lowers in Em. discriminate. }
    constructor.
    - intros p Hpo. cbn. rewrite Hpo. reflexivity.
    - reflexivity.
    - intros u _. split; [apply Hp|reflexivity].
    - intros u Hu Hc. cbn. apply existsb_exists. exists u. split; [exact Hu|].
      rewrite N.eqb_refl, Hc. reflexivity.
    - intros u Hu Hc Hl. exfalso. cbn in Hl. apply existsb_exists in Hl. destruct Hl as (u0 & H0 & He).
      apply andb_true_iff in He. destruct He as [He1 He2]. apply N.eqb_eq in He1, He2.
      rewrite (uid_unique U u0 u Hid H0 Hu He1) in He2. contradiction.
    - intros u c _ [].
    - intros u _ Hs. rewrite Hp in Hs. discriminate.
    - intros u [].
  Qed.

  Lemma inv_finished (y : psys) : Inv U [] y -> Finished_p run plan U y.
  Proof.
    intros I u Hu. unfold Local_p. cbv zeta. split; [|split].
    - apply (i_root _ _ _ I u Hu).
    - intros c Hc He _ Hs. apply (i_lk2 _ _ _ I u c Hu Hc He Hs).
    - apply (i_loc _ _ _ I u Hu).
  Qed.

  (* the defining equations only look at files, environment, and the states and links of the
     steps of the universe *)
  Lemma finished_ext (y z : psys) :
    (forall p, fs (pbase z) p = fs (pbase y) p) -> (forall n, ev (pbase z) n = ev (pbase y) n) ->
    (forall u, In u U -> stt (pbase z) (uid u) = stt (pbase y) (uid u) /\ plk z (uid u) = plk y (uid u)) ->
    Finished_p run plan U y -> Finished_p run plan U z.
  Proof.
    intros Hf He Hs F.
    assert (Htr : forall id, trusted U z id = trusted U y id).
    { intros id. unfold trusted. apply chain_rev_ext. intros x Hx. apply in_rev in Hx.
      destruct (Hs x Hx) as [H1 H2]. rewrite H1, H2. auto. }
    assert (Hav : forall p, avail_t U z p = avail_t U y p).
    { intros p. unfold avail_t. destruct (producer (uproj U) p) as [q|] eqn:Eq; [|apply Hf].
      apply producer_some in Eq. destruct Eq as (s & Hin & <- & _). apply in_uproj in Hin.
      destruct Hin as (s0 & H0 & <-). fold (uid s0). rewrite Htr, (proj1 (Hs s0 H0)), Hf. reflexivity. }
    assert (Hdef : forall c, defines (pbase z) c = defines (pbase y) c).
    { intros c. apply defines_frame; auto. }
    intros u Hu. destruct (F u Hu) as (L1 & L2 & L3). unfold Local_p. cbv zeta.
    destruct (Hs u Hu) as [Su Lu]. split; [|split].
    - intros Hc. rewrite Lu. auto.
    - intros c Hc Hce Ht Hsc. rewrite Lu, Hdef. rewrite Htr in Ht. rewrite (proj1 (Hs c Hc)) in Hsc. auto.
    - rewrite Htr. intros Ht. specialize (L3 Ht).
      rewrite (ready_t_ext U z y (ust u) (fun p _ => Hav p)). rewrite Su.
      destruct (ready_t U y (ust u)); [|exact L3]. destruct L3 as [H1 H2]. split; [exact H1|].
      intros p Hp. rewrite Hf, (H2 p Hp). f_equal. f_equal.
      + apply map_ext. intros x. symmetry. apply Hf.
      + apply map_ext. intros n. symmetry. apply He.
  Qed.

  Lemma alive_in (V : universe) (att : N -> bool) (u : ustep) :
    In u V -> att (uid u) = true -> In (uid u) (alive V att).
  Proof.
    induction V as [|x V IH]; intros Hu Ha; [contradiction|]. cbn [alive].
    destruct Hu as [->|Hu].
    - rewrite Ha. cbn [orb]. left. reflexivity.
    - specialize (IH Hu Ha).
      destruct (att (uid x) || existsb (fun c => memN (uid c) (alive V att) &&
                 existsb (fun p => memN p (out (ust x))) (inp (ust c))) V); [right|]; exact IH.
  Qed.

  Lemma attached_unfold (y : psys) (done todo : universe) (u : ustep) :
    U = done ++ u :: todo ->
    attached U y (uid u) = plk y (uid u) && ((ucr u =? 0) || attached U y (ucr u)).
  Proof.
    intros E. unfold attached. rewrite (chain_unfold U (plk y) _ done todo u HW E).
    rewrite andb_true_r. reflexivity.
  Qed.

  Lemma cleanup_finished (y : psys) : Inv U [] y -> Finished_p run plan U (p_cleanup U y).
  Proof.
    intros I. pose proof (inv_finished y I) as F. unfold p_cleanup.
    destruct (p_ok U y); [|exact F].
    set (al := alive U (attached U y)).
    assert (Hatt_al : forall v, In v U -> attached U y (uid v) = true -> memN (uid v) al = true).
    { intros v Hv Ha. apply memN_In. apply alive_in; assumption. }
    assert (Hsucc_att : forall v, In v U -> stt (pbase y) (uid v) = Succeeded -> attached U y (uid v) = true).
    { intros v Hv Sv. apply trusted_attached. apply (i_tr _ _ _ I v Hv Sv). }
    apply (finished_ext y); [reflexivity|reflexivity| |exact F].
    intros u Hu. cbn [pbase stt plk]. split.
    - destruct (memN (uid u) al) eqn:Em; [reflexivity|].
      destruct (stt (pbase y) (uid u)) eqn:Es; [reflexivity|].
      rewrite (Hatt_al u Hu (Hsucc_att u Hu Es)) in Em. discriminate.
    - destruct (plk y (uid u)) eqn:El; [|rewrite andb_false_r; reflexivity].
      destruct (in_split u U Hu) as (done & todo & E).
      assert (Hcr : ucr u = 0 \/ exists c, In c U /\ uid c = ucr u /\ attached U y (uid c) = true).
      { destruct (N.eq_dec (ucr u) 0) as [H0|Hn0]; [left; exact H0|right].
        destruct (i_lk1 _ _ _ I u Hu Hn0 El) as (c & Hc & Hce & Hcs). exists c.
        split; [exact Hc|]. split; [exact Hce|]. apply Hsucc_att; assumption. }
      assert (Hau : attached U y (uid u) = true).
      { rewrite (attached_unfold y done todo u E), El. cbn [andb].
        destruct Hcr as [H0|(c & _ & Hce & Hca)]; [rewrite H0; reflexivity|].
        rewrite <- Hce, Hca. apply orb_true_r. }
      rewrite (Hatt_al u Hu Hau). cbn [andb]. apply forallb_forall. intros x Hx.
      destruct (uid x =? uid u) eqn:Ex; [|reflexivity]. cbn [negb orb].
      apply N.eqb_eq in Ex. rewrite (uid_unique U x u Hid Hx Hu Ex).
      destruct Hcr as [H0|(c & Hc & Hce & Hca)]; [rewrite H0; reflexivity|].
      rewrite <- Hce, (Hatt_al c Hc Hca). apply orb_true_r.
  Qed.

  (* the world is what the build was given *)
  Lemma cleanup_world (y : psys) :
    Inv U [] y ->
    (forall p, is_output (uproj U) p = false -> fs (pbase (p_cleanup U y)) p = fst w p) /\
    (forall n, ev (pbase (p_cleanup U y)) n = snd w n).
  Proof.
    intros I. unfold p_cleanup. destruct (p_ok U y); cbn [pbase fs ev]; split;
      first [apply (i_src _ _ _ I) | apply (i_env _ _ _ I)].
  Qed.

  Theorem scratch_finished :
    Finished_p run plan U (build_world_p run plan U w (p_empty U)) /\
    (forall p, is_output (uproj U) p = false ->
               fs (pbase (build_world_p run plan U w (p_empty U))) p = fst w p) /\
    (forall n, ev (pbase (build_world_p run plan U w (p_empty U))) n = snd w n).
  Proof.
    unfold build_world_p, p_build, p_pass.
    pose proof (inv_pass U [] _ eq_refl inv_start) as I.
    split; [apply cleanup_finished; exact I|apply cleanup_world; exact I].
  Qed.
End Scratch.

(* every build leaves the sources and the environment of the world it was given *)
Section World.
  Variable run : N -> list (option N) -> list (option N) -> N -> N.
  Variable plan : N -> list (option N) -> list (option N) -> list N.
  Variable U : universe.

  Definition has_world (w : world) (y : psys) : Prop :=
    (forall p, is_output (uproj U) p = false -> fs (pbase y) p = fst w p) /\
    (forall n, ev (pbase y) n = snd w n).

  Lemma step_build_world (w : world) (u : ustep) (y : psys) :
    In u U -> has_world w y -> has_world w (p_step_build run plan U u y).
  Proof.
    intros Hu [H1 H2]. unfold p_step_build. destruct (p_decide U u y); [split; assumption| |].
    - split; assumption.
    - split; [|exact H2]. intros p Hp. unfold p_run. cbn [pbase set_stt fs].
      rewrite (fs_do_run_other run); [apply H1; exact Hp|].
      intros Hin. apply is_output_false in Hp. apply Hp. apply in_outs. exists (ust u).
      split; [apply in_map; exact Hu|exact Hin].
  Qed.

  Lemma pass_world (w : world) (todo : universe) : forall y,
    (forall u, In u todo -> In u U) -> has_world w y ->
    has_world w (fold_left (fun y u => p_step_build run plan U u y) todo y).
  Proof.
    induction todo as [|u todo IH]; intros y Hs H; [exact H|]. cbn [fold_left]. apply IH.
    - intros v Hv. apply Hs. right. exact Hv.
    - apply step_build_world; [apply Hs; left; reflexivity|exact H].
  Qed.

  Lemma build_world_p_world (w : world) (y : psys) : has_world w (build_world_p run plan U w y).
  Proof.
    unfold build_world_p, p_build, p_pass.
    assert (H0 : has_world w (p_resync U y w)).
    { split; [|reflexivity]. intros p Hp. cbn. rewrite Hp. reflexivity. }
    pose proof (pass_world w U _ (fun u H => H) H0) as [H1 H2].
    unfold p_cleanup. destruct (p_ok U _); split; assumption.
  Qed.
End World.

(* A state with the defining equations of a finished build and the sources and environment of [w]
   IS the result of building [w] from scratch (up to the observable result). *)
Theorem finished_is_scratch run plan (U : universe) (w : world) (y : psys) :
  wf_u U = true -> ustat_later_b U = true ->
  Finished_p run plan U y -> has_world U w y ->
  same_result_p U y (build_world_p run plan U w (p_empty U)).
Proof.
  intros Hwf Hus F [H1 H2].
  destruct (scratch_finished run plan U (wf_u_WFU U Hwf) (ustat_later_b_ok U Hus) w) as (Fs & S1 & S2).
  apply (finished_p_unique run plan U y _ Hwf F Fs). split.
  - intros p Hp. rewrite (H1 p Hp), (S1 p Hp). reflexivity.
  - intros n. rewrite H2, S2. reflexivity.
Qed.

(* The full statement, conditionally: after ANY history of worlds, if the last build ends in a
   state with the defining equations, its result is the one of a build from scratch. *)
Theorem plan_history_finished_implies_scratch run plan (U : universe) :
  wf_u U = true -> ustat_later_b U = true ->
  forall (ws : list world) (w : world),
    let inc := build_world_p run plan U w
                 (fold_left (fun s x => build_world_p run plan U x s) ws (p_empty U)) in
    Finished_p run plan U inc ->
    same_result_p U inc (build_world_p run plan U w (p_empty U)).
Proof.
  intros Hwf Hus ws w inc F. apply (finished_is_scratch run plan U w inc Hwf Hus F).
  apply build_world_p_world.
Qed.

(* ------------------------------------------------------------------------------------------ *)
(* Witnesses: the other half (every build ends in a finished state) is false                   *)
(* ------------------------------------------------------------------------------------------ *)
Definition uF9 : universe :=
  [mkU (mkStep 1 [10] [] []) 0 [20; 11]; mkU (mkStep 2 [11; 30] [] []) 1 [];
   mkU (mkStep 3 [20] [] [40]) 2 []; mkU (mkStep 4 [40] [] [41]) 1 []].
Definition tabF9 : list (N * N * list N) := [(1, 1, [2; 4]); (2, 1, [3])].
Definition wF9a : world := (src_of [(10, 1); (11, 1); (20, 1); (30, 1)], fun _ => None).
Definition wF9b : world := (src_of [(10, 1); (11, 1); (20, 1)], fun _ => None).
Definition bwF9 := build_world_p mix_run (plan_tab tabF9) uF9.

Lemma wf_u_uF9 : wf_u uF9 = true.
Proof. vm_compute. reflexivity. Qed.

Lemma plan_memory_refuted :
  let inc := bwF9 wF9b (bwF9 wF9a (p_empty uF9)) in
  let scr := bwF9 wF9b (p_empty uF9) in
  map (fun id => (attached uF9 inc id, trusted uF9 inc id, is_succ (stt (pbase inc) id))) [1; 2; 3; 4]
  = [(true, true, true); (true, true, false); (true, false, true); (true, true, true)] /\
  map (fun id => (attached uF9 scr id, trusted uF9 scr id, is_succ (stt (pbase scr) id))) [1; 2; 3; 4]
  = [(true, true, true); (true, true, false); (false, false, false); (true, true, false)] /\
  same_result_pb uF9 inc scr = false.
Proof. vm_compute. repeat split; reflexivity. Qed.

Lemma plan_full_refuted :
  ~ (forall run plan U, wf_u U = true ->
       forall (ws : list world) (w : world),
         same_result_p U (build_world_p run plan U w
                            (fold_left (fun s x => build_world_p run plan U x s) ws (p_empty U)))
                         (build_world_p run plan U w (p_empty U))).
Proof.
  intros H. specialize (H mix_run (plan_tab tabF9) uF9 wf_u_uF9 [wF9a] wF9b).
  destruct (H (mkU (mkStep 4 [40] [] [41]) 1 [])) as [_ H2].
  - right. right. right. left. reflexivity.
  - assert (E : trusted uF9 (build_world_p mix_run (plan_tab tabF9) uF9 wF9b
                       (fold_left (fun s x => build_world_p mix_run (plan_tab tabF9) uF9 x s) [wF9a] (p_empty uF9)))
                       (uid (mkU (mkStep 4 [40] [] [41]) 1 [])) = true) by (vm_compute; reflexivity).
    destruct (H2 E) as [H3 _]. vm_compute in H3. discriminate.
Qed.

Definition tabD4 : list (N * N * list N) := [(1, 1, [2; 4]); (2, 1, [3]); (2, 2, [])].
Definition wD4 (v : N) : world := (src_of [(10, 1); (11, v); (20, 1); (30, 1)], fun _ => None).
Definition bwD4 := build_world_p mix_run (plan_tab tabD4) uF9.
Definition logD4 (w : world) (y : psys) :=
  p_build_log mix_run (plan_tab tabD4) uF9 uF9 (p_resync uF9 y w).

Lemma plan_D4_in_build_refuted :
  let y1 := bwD4 (wD4 1) (p_empty uF9) in
  let inc := bwD4 (wD4 2) y1 in
  let scr := bwD4 (wD4 2) (p_empty uF9) in
  logD4 (wD4 2) y1 = [(2, true)] /\
  map (fun id => (attached uF9 inc id, is_succ (stt (pbase inc) id))) [1; 2; 3; 4]
  = [(true, true); (true, true); (false, true); (true, true)] /\
  map (fun id => (attached uF9 scr id, is_succ (stt (pbase scr) id))) [1; 2; 3; 4]
  = [(true, true); (true, true); (false, false); (true, false)] /\
  same_result_pb uF9 inc scr = false /\
  logD4 (wD4 1) inc = [(2, true)] /\
  same_result_pb uF9 (bwD4 (wD4 1) inc) y1 = true.
Proof. vm_compute. repeat split; reflexivity. Qed.

Definition wOK (plan_v src : N) : world := (src_of [(10, plan_v); (11, 1); (20, src); (30, 1)], fun _ => None).
Definition tabOK : list (N * N * list N) := [(1, 1, [2; 4]); (1, 2, [2; 4]); (2, 1, [3])].
Definition bwOK := build_world_p mix_run (plan_tab tabOK) uF9.
