(* C01: the boolean check of model/EnginePlanCheck.v is sound for [Finished_p]. *)
From Coq Require Import List NArith Bool.
From SV Require Import model.Engine model.EnginePlan model.EnginePlanCheck proofs.EngineProofs.
Import ListNotations.
Open Scope N_scope.

Lemma is_succ_true (s : sstate) : is_succ s = true -> s = Succeeded.
Proof. destruct s; [discriminate|reflexivity]. Qed.
Lemma is_succ_false (s : sstate) : negb (is_succ s) = true -> s = Pending.
Proof. destruct s; [reflexivity|discriminate]. Qed.

Lemma finished_pb_sound run plan (U : universe) (y : psys) :
  finished_pb run plan U y = true -> Finished_p run plan U y.
Proof.
  unfold finished_pb. rewrite forallb_forall. intros H u Hu. specialize (H u Hu).
  unfold local_pb in H. cbv zeta in H.
  apply andb_true_iff in H. destruct H as [H H3]. apply andb_true_iff in H. destruct H as [H1 H2].
  unfold Local_p. cbv zeta. split; [|split].
  - intros Hc. rewrite Hc in H1. cbn in H1. exact H1.
  - intros c Hc He Ht Hs. rewrite forallb_forall in H2. specialize (H2 c Hc).
    assert (E1 : (uid c =? ucr u) = true) by (apply N.eqb_eq; exact He).
    rewrite E1, Ht, Hs in H2. cbn in H2. apply eqb_prop in H2. exact H2.
  - intros Ht. rewrite Ht in H3. cbn [negb orb] in H3.
    destruct (ready_t U y (ust u)).
    + apply andb_true_iff in H3. destruct H3 as [Ha Hb]. split; [apply is_succ_true; exact Ha|].
      intros p Hp. rewrite forallb_forall in Hb. apply oN_eqb_eq. apply Hb. exact Hp.
    + apply is_succ_false. exact H3.
Qed.

From SV Require Import proofs.EnginePlanProofs.

Lemma fold_left_map {A B C} (f : B -> C) (g : A -> C -> A) (l : list B) (a : A) :
  fold_left (fun s x => g s (f x)) l a = fold_left g (map f l) a.
Proof. revert a. induction l as [|x l IH]; intros a; [reflexivity|]. cbn. apply IH. Qed.

Lemma hist_fold_eq (tab : list (N * N * list N)) (U : universe) (ws : list (list (N * N))) :
  forall a, fold_left (fun y src => build_world_p mix_run (plan_tab tab) U (src_of src, src_of []) y) ws a
            = fold_left (fun s x => build_world_p mix_run (plan_tab tab) U x s)
                        (map (fun src : list (N * N) => ((src_of src, src_of []) : world)) ws) a.
Proof. induction ws as [|x l IH]; intros a; [reflexivity|]. cbn [fold_left map]. apply IH. Qed.

Lemma checked_history_equals_scratch
      (tab : list (N * N * list N)) (U : universe) (ws : list (list (N * N))) (w : list (N * N)) :
  wf_u U = true -> ustat_later_b U = true ->
  final_finished_p tab U (ws ++ [w]) = true ->
  same_result_p U (final_hist_p tab U (ws ++ [w]))
                (build_world_p mix_run (plan_tab tab) U (src_of w, src_of []) (p_empty U)).
Proof.
  intros Hwf Hus Hf. unfold final_finished_p in Hf. apply finished_pb_sound in Hf.
  unfold final_hist_p in *. rewrite fold_left_app in *. cbn [fold_left] in *.
  rewrite hist_fold_eq in *.
  exact (plan_history_finished_implies_scratch mix_run (plan_tab tab) U Hwf Hus _ (src_of w, src_of []) Hf).
Qed.
