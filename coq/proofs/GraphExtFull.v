(* C09: the full invariant inv_full_b (I4b: a product of a SUCCEEDED step is not PLANNED / OUTDATED;
   I5c: a RUNNING step has no stored hash) for the alphabet op_x of model/GraphExt.v, within the
   build-loop protocol of the older layers (the new operations need no hypothesis).  Frame GG for every
   new operation, for both forms of the re-attachment trigger. *)
From Coq Require Import List NArith Bool Lia.
From SV Require Import lib.Bytes lib.Closure model.Graph model.GraphDump model.GraphInv model.GraphTree model.GraphTreeInv
  model.GraphCheck model.GraphExt
  proofs.GraphBase proofs.GraphNodes proofs.GraphInvP proofs.GraphPrims proofs.GraphFrames proofs.GraphCreate
  proofs.GraphOps proofs.GraphLife proofs.GraphSucc proofs.GraphTrans proofs.GraphTreeSim proofs.GraphNodeFrame
  proofs.GraphProofs proofs.GraphTreeT1 proofs.GraphTreeOps proofs.GraphExtP.
Import ListNotations.
Open Scope N_scope.

Section HH.
Context {hh : bool}.

Definition IG (s s' : st) : Prop := Inv hh s' /\ GG s s'.

Lemma mark_one_IG s0 l s : Inv hh s -> GG s0 s -> wpg false (mark_step_pending l s) (IG s0).
Proof.
  intros HI HG. eapply wpg_weaken.
  - apply wpg_conj; [apply (@mark_step_pending_spec hh); [exact HI | intros H; discriminate H] | apply (@mark_step_pending_GG hh); exact HI].
  - intros s' [[I' _] G']. split; [exact I' | eapply GG_trans; eassumption].
Qed.

Lemma mark_steps_pending_IG ls s : Inv hh s -> wpg false (mark_steps_pending ls s) (IG s).
Proof.
  intros HI. unfold mark_steps_pending. apply (wpg_foldM false _ (IG s)); [|split; [exact HI | apply GG_refl]].
  intros s1 l _ [I1 G1]. apply mark_one_IG; assumption.
Qed.

Lemma check_consistency_IG s : Inv hh s -> wpg false (check_consistency s) (IG s).
Proof.
  intros HI. unfold check_consistency. destruct (negb (trellis_consistent_b s)); [exact I|].
  apply (wpg_foldM false _ (IG s)); [|split; [exact HI | apply GG_refl]].
  intros s1 l _ [I1 G1]. apply mark_one_IG; assumption.
Qed.

Lemma invalidate_steps_IG ls s : Inv hh s -> wpg false (invalidate_steps ls s) (IG s).
Proof.
  intros HI. unfold invalidate_steps. apply (wpg_foldM false _ (IG s)); [|split; [exact HI | apply GG_refl]].
  intros s1 l _ [I1 G1]. unfold invalidate_step. apply mark_one_IG.
  - apply (@delete_hash_inv hh). exact I1.
  - eapply GG_trans; [exact G1 | apply G3_GG; apply delete_hash_G3].
Qed.

Lemma skip_overtaken_IG l s : Inv hh s -> wpg false (skip_overtaken l s) (IG s).
Proof.
  intros HI. unfold skip_overtaken. destruct (set_sstate l SPending false s) as [s'|t|t] eqn:Es; try exact I.
  pose proof (@set_sstate_spec hh false l SPending false s HI (fun H _ => False_ind _ (diff_false_true H))) as Hs.
  rewrite Es in Hs. cbn in Hs. destruct Hs as [I' _]. cbn. split; [exact I'|].
  apply G3_GG. eapply set_sstate_G3; [| |exact Es]; discriminate.
Qed.

Lemma validate_IG l d s : Inv hh s -> wpg false (set_sstate l SPending d s) (IG s).
Proof.
  intros HI. destruct (set_sstate l SPending d s) as [s'|t|t] eqn:Es; try exact I.
  pose proof (@set_sstate_spec hh false l SPending d s HI (fun H _ => False_ind _ (diff_false_true H))) as Hs.
  rewrite Es in Hs. cbn in Hs. destruct Hs as [I' _]. cbn. split; [exact I'|].
  apply G3_GG. eapply set_sstate_G3; [| |exact Es]; discriminate.
Qed.

Lemma raw_fold_IG (p : sstate -> bool) new rows s :
  new <> SSucceeded -> new <> SRunning -> Inv hh s ->
  wpg false (foldM (fun s r => if p (sst r) then set_sstate_raw (sl r) new s else Ok s) rows s)
      (fun s' => Inv hh s' /\ G3 s s').
Proof.
  intros N1 N2 HI. apply (wpg_foldM false _ (fun s' => Inv hh s' /\ G3 s s')); [|split; [exact HI | apply G3_refl]].
  intros s1 r _ [I1 G1]. destruct (p (sst r)); [|cbn; split; assumption]. eapply wpg_weaken.
  - apply wpg_conj; [apply (@set_sstate_raw_spec hh); exact I1|]. apply wpg_of_ok. intros s2 H2.
    eapply set_sstate_raw_G3; [exact N1 | exact N2 | exact H2].
  - intros s2 [I2 G2]. split; [exact I2 | eapply G3_trans; eassumption].
Qed.

Lemma reset_interrupted_raw_IG s : Inv hh s -> wpg false (reset_interrupted_raw s) (IG s).
Proof.
  intros HI. unfold reset_interrupted_raw.
  apply wpg_bind. eapply wpg_weaken.
  { apply (wpg_foldM false _ (fun s' => Inv hh s' /\ G3 s s')); [|split; [exact HI | apply G3_refl]].
    intros s1 r _ [I1 G1]. destruct (sst r); try (cbn; split; assumption). eapply wpg_weaken.
    - apply wpg_conj; [apply (@set_sstate_raw_spec hh); exact I1|]. apply wpg_of_ok. intros s2 H2.
      eapply set_sstate_raw_G3; [| |exact H2]; discriminate.
    - intros s2 [I2 G2]. split; [exact I2 | eapply G3_trans; eassumption]. }
  intros s1 [I1 G01]. eapply wpg_weaken.
  { apply (wpg_foldM false _ (fun s' => Inv hh s' /\ G3 s1 s')); [|split; [exact I1 | apply G3_refl]].
    intros s2 r _ [I2 G2]. destruct (sst r); try (cbn; split; assumption). eapply wpg_weaken.
    - apply wpg_conj; [apply (@set_sstate_raw_spec hh); exact I2|]. apply wpg_of_ok. intros s3 H3.
      eapply set_sstate_raw_G3; [| |exact H3]; discriminate.
    - intros s3 [I3 G3']. split; [exact I3 | eapply G3_trans; eassumption]. }
  intros s2 [I2 G12]. split; [exact I2 | apply G3_GG; eapply G3_trans; eassumption].
Qed.

Lemma undefer_fold_G3 ls : forall a, G3 a (fold_left (fun a l => upd_step l undefer_row a) ls a).
Proof.
  induction ls as [|l ls IH]; intros a; cbn [fold_left]; [apply G3_refl|].
  eapply G3_trans; [|apply IH]. apply upd_step_G3; [intros r; reflexivity | intros r; left; reflexivity].
Qed.

Lemma undefer_post_with_IG refined s0 s s' : Inv hh s' -> GG s0 s' -> IG s0 (undefer_post_with refined s s').
Proof.
  intros HI HG. split; [apply undefer_post_with_inv; exact HI|].
  eapply GG_trans; [exact HG | apply G3_GG; apply undefer_fold_G3].
Qed.

Lemma init_boot_IG h s : Inv hh s -> wpg false (init_boot h s) (IG s).
Proof.
  intros HI. unfold init_boot. destruct (boot_present s); [split; [exact HI | apply GG_refl]|].
  apply wpg_bind. eapply wpg_weaken.
  { apply (@detach_list_spec hh false); [exact HI|]. intros p Hp. apply products_members. exact Hp. }
  intros s1 [I1 [_ G01]]. apply wpg_bind. eapply wpg_weaken; [apply (@declare_static_files_t_spec hh); exact I1|].
  intros s2 [I2 [G12 _]].
  assert (G02 : GG s s2) by (eapply GG_trans; [apply G3_GG; exact G01 | exact G12]).
  apply wpg_bind.
  assert (Hdef : forall s3, Inv hh s3 -> GG s s3 ->
            wpg false (define_step_t root_key boot_label [plan_py] [] [] [] NPlan s3) (IG s)).
  { intros s3 I3 G03. eapply wpg_weaken; [apply (@define_step_t_spec hh); exact I3|].
    intros s' [I' [G' _]]. split; [exact I' | eapply GG_trans; eassumption]. }
  assert (Hupd : wpg false (update_file_hashes CConfirmed [(plan_py, h)] s2) (IG s)).
  { eapply wpg_weaken.
    - apply wpg_conj; [apply (@update_file_hashes_spec hh); [exact I2 | intros H; discriminate H] | apply (@update_file_hashes_GG hh); exact I2].
    - intros s' [[I' _] G']. split; [exact I' | eapply GG_trans; eassumption]. }
  destruct (fstate_of plan_py s2) as [[]|];
    try (cbn [wpg]; apply Hdef; assumption);
    (eapply wpg_weaken; [exact Hupd | intros s3 [I3 G3']; apply Hdef; assumption]).
Qed.

End HH.
