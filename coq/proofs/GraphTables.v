(* C09: the hand-written constant tables of model/Graph.v equal, FOR ALL ARGUMENTS, the tables that
   translator/gen_graph.py re-reads from the source on every run (gen/GenGraph.v): enum values,
   _HASH_TRANSITIONS, the file_clear_hash WHEN clause, the hash CHECK, FILE_ROLE_BY_STATE, the
   creator-kind and dependency-kind triggers, the step triggers / CHECKs used by set_sstate, the
   UNDECLARED-implies-detached triggers and _DECLARABLE_STATES.

   All domains are finite; the proofs are case analyses over the constructors of the model's
   enumerations (closed by vm_compute / reflexivity) and, for "no extra row" statements, boolean
   sweeps over the generated lists lifted with forallb_forall.  A new enum member, a changed row, a
   changed trigger state set ... regenerates a different GenGraph.v and one of the lemmas below
   stops compiling.

   The only definitions here are the coding functions (kind_code, action_code), the complete
   lists of constructors and the evaluators of the generated tables (specifications, not part of
   the executable model). *)
From Coq Require Import List NArith Bool.
From SV Require Import lib.Bytes model.Graph gen.GenGraph.
Import ListNotations.
Open Scope N_scope.

(* ------------------------------------------------------------------------------------------ *)
(* Codings, complete constructor lists, evaluators of the generated tables                     *)
(* ------------------------------------------------------------------------------------------ *)
Definition memN (x : N) (l : list N) : bool := existsb (N.eqb x) l.

(* kinds: root = 0, file = 1, step = 2, st (static tree) = 3; actions: "updated" = 1,
   "deleted" = 2, "completed" = 3 (the codings used by translator/gen_graph.py) *)
Definition kind_code (k : kind) : N :=
  match k with KRoot => 0 | KFile => 1 | KStep => 2 | KTree => 3 end.
Definition action_code (a : action) : N :=
  match a with AUpdated => 1 | ADeleted => 2 | ACompleted => 3 end.

Definition all_kinds : list kind := [KRoot; KFile; KStep; KTree].
Definition all_fstates : list fstate :=
  [FUndeclared; FUnconfirmed; FMissing; FConfirmed; FPlanned; FBuilt; FOutdated; FVolatile].
Definition all_sstates : list sstate := [SPending; SRunning; SSucceeded; SFailed; SChecking].
Definition all_needs : list need := [NOptional; NDefault; NPlan].
Definition all_causes : list cause := [CExternal; CSucceeded; CFailed; CConfirmed].
Definition all_actions : list action := [AUpdated; ADeleted; ACompleted].

(* _HASH_TRANSITIONS.get((cause, old_state, hash_known)) on codes *)
Definition gen_transition_lookup (c o : N) (k : bool) : option (N * option N) :=
  match find (fun row => match fst row with (c', o', k') => (c' =? c) && (o' =? o) && Bool.eqb k' k end)
             gen_hash_transitions with
  | Some row => Some (snd row)
  | None => None
  end.
Definition code_transition (r : option (fstate * option action)) : option (N * option N) :=
  option_map (fun p => (fstate_code (fst p), option_map action_code (snd p))) r.

(* the disjunction of the file_clear_hash WHEN clause on (OLD.state, NEW.state) codes *)
Definition gen_clears_hash_eval (old new : N) : bool :=
  existsb (fun d => memN new (fst d) && match snd d with None => true | Some os => memN old os end)
          gen_clear_hash_disjuncts.

(* FILE_ROLE_BY_STATE[state]; None = KeyError *)
Definition gen_role_lookup (c : N) : option N :=
  option_map snd (find (fun p => fst p =? c) gen_file_role_by_state).

(* NOT (...) part of node_check_creator_kind_ins/_upd: is (child kind, creator kind) listed *)
Definition gen_creator_allows (child parent : N) : bool :=
  match find (fun r => fst r =? child) gen_creator_kinds with
  | Some r => memN parent (snd r)
  | None => false
  end.
(* NOT (...) part of dependency_check_kinds_ins *)
Definition gen_dependency_allows (src snk : N) : bool :=
  existsb (fun p => (fst p =? src) && (snd p =? snk)) gen_dependency_kinds.

(* UPDATE step SET state = new, deferred = d, written from the generated trigger state sets:
   CHECK (NOT deferred OR state = k); step_reset_holding; step_clear_deferred;
   step_reset_defer_count *)
Definition set_sstate_spec (l : str) (new : sstate) (d : bool) (s : st) : res st :=
  match find_step l s with
  | None => Ok s
  | Some r =>
    let c := sstate_code new in
    if d && negb (c =? gen_step_deferred_check_state) then Internal 103
    else
      let hold := if negb (c =? gen_step_reset_holding_kept_state) && negb (shold r =? 0)
                  then 0 else shold r in
      let d' := if memN c gen_step_clear_deferred_states then false else d in
      let dc := if c =? gen_step_reset_defer_count_state then 0 else sdc r in
      Ok (upd_step l (fun r => mkS (sl r) new (sneed r) d' dc hold) s)
  end.

(* ------------------------------------------------------------------------------------------ *)
(* Completeness of the constructor lists                                                       *)
(* ------------------------------------------------------------------------------------------ *)
Lemma all_kinds_complete : forall k, In k all_kinds.
Proof. destruct k; cbn; tauto. Qed.
Lemma all_fstates_complete : forall f, In f all_fstates.
Proof. destruct f; cbn; tauto. Qed.
Lemma all_sstates_complete : forall x, In x all_sstates.
Proof. destruct x; cbn; tauto. Qed.
Lemma all_needs_complete : forall n, In n all_needs.
Proof. destruct n; cbn; tauto. Qed.
Lemma all_causes_complete : forall c, In c all_causes.
Proof. destruct c; cbn; tauto. Qed.
Lemma all_actions_complete : forall a, In a all_actions.
Proof. destruct a; cbn; tauto. Qed.

(* ------------------------------------------------------------------------------------------ *)
(* a. enum values                                                                              *)
(* ------------------------------------------------------------------------------------------ *)
(* Each constructor has the value of the member it stands for, and the complete (sorted) list of
   the values of the Python enum is exactly the image of the constructors: no member beyond. *)
Lemma fstate_codes_match :
  fstate_code FUndeclared = gen_FileState_UNDECLARED /\
  fstate_code FUnconfirmed = gen_FileState_UNCONFIRMED /\
  fstate_code FMissing = gen_FileState_MISSING /\
  fstate_code FConfirmed = gen_FileState_CONFIRMED /\
  fstate_code FPlanned = gen_FileState_PLANNED /\
  fstate_code FBuilt = gen_FileState_BUILT /\
  fstate_code FOutdated = gen_FileState_OUTDATED /\
  fstate_code FVolatile = gen_FileState_VOLATILE /\
  gen_FileState_codes = map fstate_code all_fstates.
Proof. repeat split. Qed.

Lemma sstate_codes_match :
  sstate_code SPending = gen_StepState_PENDING /\
  sstate_code SRunning = gen_StepState_RUNNING /\
  sstate_code SSucceeded = gen_StepState_SUCCEEDED /\
  sstate_code SFailed = gen_StepState_FAILED /\
  sstate_code SChecking = gen_StepState_CHECKING /\
  gen_StepState_codes = map sstate_code all_sstates.
Proof. repeat split. Qed.

(* Need.TARGET is the one member of these five enums without a constructor: it is a derived value
   that only lives in step._implied_need (a scheduling cache outside this model).  The column
   step.need, which the model describes, is CHECKed to hold exactly the three modelled values. *)
Lemma need_codes_match :
  need_code NOptional = gen_Need_OPTIONAL /\
  need_code NDefault = gen_Need_DEFAULT /\
  need_code NPlan = gen_Need_PLAN /\
  gen_Need_codes = [need_code NOptional; need_code NDefault; gen_Need_TARGET; need_code NPlan] /\
  gen_step_need_column_values = map need_code all_needs.
Proof. repeat split. Qed.

Lemma cause_codes_match :
  cause_code CExternal = gen_HashUpdateCause_EXTERNAL /\
  cause_code CSucceeded = gen_HashUpdateCause_SUCCEEDED /\
  cause_code CFailed = gen_HashUpdateCause_FAILED /\
  cause_code CConfirmed = gen_HashUpdateCause_CONFIRMED /\
  gen_HashUpdateCause_codes = map cause_code all_causes.
Proof. repeat split. Qed.

(* the role numbers written as literals in model/Graph.v (role_of, declare_static_files: 61,
   amend_step: 62 and 63) *)
Lemma role_codes_match :
  gen_FileRole_STATIC = 61 /\ gen_FileRole_OUTPUT = 62 /\ gen_FileRole_VOLATILE = 63 /\
  gen_FileRole_codes = [61; 62; 63].
Proof. repeat split. Qed.

Lemma kind_codes_match :
  kind_code KRoot = gen_kind_Root /\ kind_code KFile = gen_kind_File /\
  kind_code KStep = gen_kind_Step /\ kind_code KTree = gen_kind_StaticTree /\
  gen_kind_codes = map kind_code all_kinds.
Proof. repeat split. Qed.

(* the codes are injective, so tables on codes determine tables on constructors *)
Lemma fstate_code_inj : forall a b, fstate_code a = fstate_code b -> a = b.
Proof. destruct a, b; cbn; intros H; try reflexivity; discriminate H. Qed.
Lemma sstate_code_inj : forall a b, sstate_code a = sstate_code b -> a = b.
Proof. destruct a, b; cbn; intros H; try reflexivity; discriminate H. Qed.
Lemma cause_code_inj : forall a b, cause_code a = cause_code b -> a = b.
Proof. destruct a, b; cbn; intros H; try reflexivity; discriminate H. Qed.
Lemma kind_code_inj : forall a b, kind_code a = kind_code b -> a = b.
Proof. destruct a, b; cbn; intros H; try reflexivity; discriminate H. Qed.

(* ------------------------------------------------------------------------------------------ *)
(* c. _HASH_TRANSITIONS                                                                        *)
(* ------------------------------------------------------------------------------------------ *)
Lemma transition_matches : forall c old known,
  code_transition (transition c old known) = gen_transition_lookup (cause_code c) (fstate_code old) known.
Proof. destruct c, old, known; vm_compute; reflexivity. Qed.

(* boolean equality of rows, sound *)
Definition oN_eqb (a b : option N) : bool :=
  match a, b with Some x, Some y => x =? y | None, None => true | _, _ => false end.
Definition trow_eqb (a b : (N * N * bool) * (N * option N)) : bool :=
  match a, b with
  | ((c, o, k), (n, x)), ((c', o', k'), (n', x')) =>
    (c =? c') && (o =? o') && Bool.eqb k k' && (n =? n') && oN_eqb x x'
  end.
Lemma oN_eqb_eq : forall a b, oN_eqb a b = true -> a = b.
Proof.
  intros [x|] [y|] H; cbn in H; try discriminate H; try reflexivity.
  apply N.eqb_eq in H. now subst.
Qed.
Lemma trow_eqb_eq : forall a b, trow_eqb a b = true -> a = b.
Proof.
  intros [[[c o] k] [n x]] [[[c' o'] k'] [n' x']] H. cbn in H.
  repeat (apply andb_prop in H; destruct H as [H ?H]).
  apply N.eqb_eq in H. apply N.eqb_eq in H3. apply Bool.eqb_prop in H2. apply N.eqb_eq in H1.
  apply oN_eqb_eq in H0. now subst.
Qed.

Definition all_triples : list (cause * fstate * bool) :=
  flat_map (fun c => flat_map (fun o => [(c, o, true); (c, o, false)]) all_fstates) all_causes.
Definition coded_row (t : cause * fstate * bool) : option ((N * N * bool) * (N * option N)) :=
  match t with
  | (c, o, k) => match code_transition (transition c o k) with
                 | Some v => Some ((cause_code c, fstate_code o, k), v)
                 | None => None
                 end
  end.

(* every row of the source table is a row of the model's table: no extra rows *)
Lemma transition_no_extra_rows : forall row, In row gen_hash_transitions ->
  exists c old known, fst row = (cause_code c, fstate_code old, known) /\
                      code_transition (transition c old known) = Some (snd row).
Proof.
  assert (H : forallb (fun row => existsb (fun t => match coded_row t with
                                                    | Some r => trow_eqb row r | None => false end)
                                          all_triples) gen_hash_transitions = true)
    by (vm_compute; reflexivity).
  intros row Hin. rewrite forallb_forall in H. specialize (H row Hin).
  apply existsb_exists in H. destruct H as [[[c o] k] [_ H]].
  unfold coded_row in H. destruct (code_transition (transition c o k)) as [v|] eqn:E; [|discriminate H].
  apply trow_eqb_eq in H. subst row. exists c, o, k. cbn [fst snd]. split; [reflexivity|exact E].
Qed.

(* the keys of the source table are pairwise distinct (first match = the dict lookup) *)
Definition tkey_eqb (a b : N * N * bool) : bool :=
  match a, b with (c, o, k), (c', o', k') => (c =? c') && (o =? o') && Bool.eqb k k' end.
Fixpoint nodupb {A} (eqb : A -> A -> bool) (l : list A) : bool :=
  match l with [] => true | x :: l' => negb (existsb (eqb x) l') && nodupb eqb l' end.
Lemma transition_keys_distinct : nodupb tkey_eqb (map fst gen_hash_transitions) = true.
Proof. vm_compute; reflexivity. Qed.

(* ------------------------------------------------------------------------------------------ *)
(* d, e. file_clear_hash, the hash CHECK, UNDECLARED implies detached                          *)
(* ------------------------------------------------------------------------------------------ *)
Lemma clears_hash_matches : forall old new,
  clears_hash old new = gen_clears_hash_eval (fstate_code old) (fstate_code new).
Proof. destruct old, new; vm_compute; reflexivity. Qed.

(* the trigger as a whole, including its `AND NEW.hash IS NOT NULL` conjunct when present: the
   model's `if clears_hash old new then None else h` is the hash after the trigger *)
Lemma clear_hash_trigger_matches : forall old new (h : option N),
  (if clears_hash old new then None else h) =
  (if gen_clears_hash_eval (fstate_code old) (fstate_code new)
      && (negb gen_clear_hash_requires_hash || is_some h) then None else h).
Proof.
  intros old new h. rewrite <- clears_hash_matches.
  destruct (clears_hash old new), h; reflexivity.
Qed.

Lemma needs_hash_matches : forall f, needs_hash f = memN (fstate_code f) gen_needs_hash_states.
Proof. destruct f; vm_compute; reflexivity. Qed.

(* file_check_undeclared_detached_ins/_upd fire for the state the model tests with
   `fstate_eqb new FUndeclared` (set_fstate_hash, file_initialize_row) *)
Lemma undeclared_detached_state_matches : forall f,
  fstate_eqb f FUndeclared = (fstate_code f =? gen_undeclared_detached_state).
Proof. destruct f; vm_compute; reflexivity. Qed.

(* ------------------------------------------------------------------------------------------ *)
(* b. FILE_ROLE_BY_STATE                                                                       *)
(* ------------------------------------------------------------------------------------------ *)
Lemma role_of_matches : forall f, role_of f = gen_role_lookup (fstate_code f).
Proof. destruct f; vm_compute; reflexivity. Qed.

Lemma role_of_none_iff : forall f, role_of f = None <-> f = FUndeclared.
Proof. destruct f; cbn; split; intros H; try reflexivity; discriminate H. Qed.

(* every entry of the source dict is about a modelled state and gives a FileRole value *)
Lemma role_table_no_extra : forall p, In p gen_file_role_by_state ->
  (exists f, fst p = fstate_code f /\ role_of f = Some (snd p)) /\ In (snd p) gen_FileRole_codes.
Proof.
  intros p Hin. cbv [gen_file_role_by_state] in Hin. cbn [In] in Hin.
  repeat (destruct Hin as [<-|Hin]); try contradiction; cbn [fst snd];
    (split; [|vm_compute; tauto]).
  - exists FUnconfirmed; split; reflexivity.
  - exists FMissing; split; reflexivity.
  - exists FConfirmed; split; reflexivity.
  - exists FPlanned; split; reflexivity.
  - exists FBuilt; split; reflexivity.
  - exists FOutdated; split; reflexivity.
  - exists FVolatile; split; reflexivity.
Qed.

(* ------------------------------------------------------------------------------------------ *)
(* g. kind tables                                                                              *)
(* ------------------------------------------------------------------------------------------ *)
Lemma dep_kinds_ok_matches : forall a b : key,
  dep_kinds_ok a b = gen_dependency_allows (kind_code (fst a)) (kind_code (fst b)).
Proof. intros [ka la] [kb lb]; destruct ka, kb; vm_compute; reflexivity. Qed.

(* The triggers are exempt for a child of kind root (WHEN ... AND NEW.kind != 'root'); a second
   root can never be stored (TRELLIS_SCHEMA: CHECK (kind != 'root' OR i = 1)), and the model
   rejects every creator of a root-kind child. *)
Lemma creator_kind_ok_matches : forall child parent,
  creator_kind_ok child parent = gen_creator_allows (kind_code child) (kind_code parent).
Proof. destruct child, parent; vm_compute; reflexivity. Qed.

Lemma creator_kind_exempt_matches : gen_creator_kind_exempt = [kind_code KRoot].
Proof. reflexivity. Qed.

(* ------------------------------------------------------------------------------------------ *)
(* f. step triggers and CHECK used by set_sstate                                               *)
(* ------------------------------------------------------------------------------------------ *)
Lemma deferred_check_state_matches : forall new,
  sstate_eqb new SPending = (sstate_code new =? gen_step_deferred_check_state).
Proof. destruct new; vm_compute; reflexivity. Qed.

Lemma reset_holding_state_matches : forall new,
  sstate_eqb new SRunning = (sstate_code new =? gen_step_reset_holding_kept_state).
Proof. destruct new; vm_compute; reflexivity. Qed.

Lemma clear_deferred_states_match : forall new,
  match new with SSucceeded | SFailed => true | _ => false end
  = memN (sstate_code new) gen_step_clear_deferred_states.
Proof. destruct new; vm_compute; reflexivity. Qed.

Lemma reset_defer_count_state_matches : forall new,
  match new with SSucceeded => true | _ => false end
  = (sstate_code new =? gen_step_reset_defer_count_state).
Proof. destruct new; vm_compute; reflexivity. Qed.

Lemma set_sstate_matches : forall l new d s, set_sstate l new d s = set_sstate_spec l new d s.
Proof.
  intros l new d s. unfold set_sstate, set_sstate_spec.
  destruct (find_step l s) as [r|]; [|reflexivity].
  rewrite <- deferred_check_state_matches, <- reset_holding_state_matches,
          <- clear_deferred_states_match, <- reset_defer_count_state_matches.
  destruct (d && negb (sstate_eqb new SPending)); [reflexivity|].
  assert (Hh : (if sstate_eqb new SRunning then shold r else 0)
               = (if negb (sstate_eqb new SRunning) && negb (shold r =? 0) then 0 else shold r)).
  { destruct (sstate_eqb new SRunning); cbn [negb andb]; [reflexivity|].
    destruct (shold r =? 0) eqn:E; cbn [negb]; [|reflexivity].
    apply N.eqb_eq in E. now rewrite E. }
  rewrite Hh. destruct new; reflexivity.
Qed.

(* ------------------------------------------------------------------------------------------ *)
(* h. _DECLARABLE_STATES                                                                       *)
(* ------------------------------------------------------------------------------------------ *)
Lemma declare_file_undeclarable : forall c l f s,
  memN (fstate_code f) gen_declarable_states = false -> declare_file c l f s = Internal 116.
Proof. intros c l f s H; destruct f; try reflexivity; vm_compute in H; discriminate H. Qed.

(* ... and for a declarable state the guard does not fire: declare_file is the rest of
   _declare_file *)
Lemma declare_file_declarable : forall c l f s,
  memN (fstate_code f) gen_declarable_states = true ->
  declare_file c l f s =
  bind (create (KFile, l) (Some c) (InitFile f) s)
       (fun s1 => match f with
                  | FVolatile => match attached_step_sinks l s1 with [] => Ok s1 | _ => Usage 203 end
                  | _ => Ok s1
                  end).
Proof. intros c l f s H; destruct f; try reflexivity; vm_compute in H; discriminate H. Qed.

Lemma declarable_states_no_extra : forall n, In n gen_declarable_states ->
  exists f, n = fstate_code f.
Proof.
  intros n Hin. cbv [gen_declarable_states] in Hin. cbn [In] in Hin.
  repeat (destruct Hin as [<-|Hin]); try contradiction.
  - exists FUnconfirmed; reflexivity.
  - exists FPlanned; reflexivity.
  - exists FVolatile; reflexivity.
Qed.

(* ------------------------------------------------------------------------------------------ *)
(* Everything together                                                                         *)
(* ------------------------------------------------------------------------------------------ *)
Theorem model_tables_match_source :
  (* enum values, no member beyond the constructors *)
  (gen_FileState_codes = map fstate_code all_fstates /\ (forall f, In f all_fstates)) /\
  (gen_StepState_codes = map sstate_code all_sstates /\ (forall x, In x all_sstates)) /\
  (gen_Need_codes = [need_code NOptional; need_code NDefault; gen_Need_TARGET; need_code NPlan] /\
   gen_step_need_column_values = map need_code all_needs /\ (forall n, In n all_needs)) /\
  (gen_HashUpdateCause_codes = map cause_code all_causes /\ (forall c, In c all_causes)) /\
  (gen_FileRole_codes = [61; 62; 63]) /\
  (gen_kind_codes = map kind_code all_kinds /\ (forall k, In k all_kinds)) /\
  (* _HASH_TRANSITIONS *)
  (forall c old known,
     code_transition (transition c old known)
     = gen_transition_lookup (cause_code c) (fstate_code old) known) /\
  (forall row, In row gen_hash_transitions ->
     exists c old known, fst row = (cause_code c, fstate_code old, known) /\
                         code_transition (transition c old known) = Some (snd row)) /\
  nodupb tkey_eqb (map fst gen_hash_transitions) = true /\
  (* file_clear_hash, hash CHECK, UNDECLARED implies detached *)
  (forall old new, clears_hash old new = gen_clears_hash_eval (fstate_code old) (fstate_code new)) /\
  (forall old new (h : option N),
     (if clears_hash old new then None else h) =
     (if gen_clears_hash_eval (fstate_code old) (fstate_code new)
         && (negb gen_clear_hash_requires_hash || is_some h) then None else h)) /\
  (forall f, needs_hash f = memN (fstate_code f) gen_needs_hash_states) /\
  (forall f, fstate_eqb f FUndeclared = (fstate_code f =? gen_undeclared_detached_state)) /\
  (* FILE_ROLE_BY_STATE *)
  (forall f, role_of f = gen_role_lookup (fstate_code f)) /\
  (forall f, role_of f = None <-> f = FUndeclared) /\
  (forall p, In p gen_file_role_by_state ->
     (exists f, fst p = fstate_code f /\ role_of f = Some (snd p)) /\ In (snd p) gen_FileRole_codes) /\
  (* kind triggers *)
  (forall a b : key,
     dep_kinds_ok a b = gen_dependency_allows (kind_code (fst a)) (kind_code (fst b))) /\
  (forall child parent,
     creator_kind_ok child parent = gen_creator_allows (kind_code child) (kind_code parent)) /\
  gen_creator_kind_exempt = [kind_code KRoot] /\
  (* step triggers and CHECK *)
  (forall l new d s, set_sstate l new d s = set_sstate_spec l new d s) /\
  (* _DECLARABLE_STATES *)
  (forall c l f s,
     memN (fstate_code f) gen_declarable_states = false -> declare_file c l f s = Internal 116) /\
  (forall c l f s,
     memN (fstate_code f) gen_declarable_states = true ->
     declare_file c l f s =
     bind (create (KFile, l) (Some c) (InitFile f) s)
          (fun s1 => match f with
                     | FVolatile => match attached_step_sinks l s1 with [] => Ok s1 | _ => Usage 203 end
                     | _ => Ok s1
                     end)) /\
  (forall n, In n gen_declarable_states -> exists f, n = fstate_code f).
Proof.
  repeat match goal with |- _ /\ _ => split end.
  - apply fstate_codes_match.
  - exact all_fstates_complete.
  - apply sstate_codes_match.
  - exact all_sstates_complete.
  - apply need_codes_match.
  - apply need_codes_match.
  - exact all_needs_complete.
  - apply cause_codes_match.
  - exact all_causes_complete.
  - apply role_codes_match.
  - apply kind_codes_match.
  - exact all_kinds_complete.
  - exact transition_matches.
  - exact transition_no_extra_rows.
  - exact transition_keys_distinct.
  - exact clears_hash_matches.
  - exact clear_hash_trigger_matches.
  - exact needs_hash_matches.
  - exact undeclared_detached_state_matches.
  - exact role_of_matches.
  - exact role_of_none_iff.
  - exact role_table_no_extra.
  - exact dep_kinds_ok_matches.
  - exact creator_kind_ok_matches.
  - exact creator_kind_exempt_matches.
  - exact set_sstate_matches.
  - exact declare_file_undeclarable.
  - exact declare_file_declarable.
  - exact declarable_states_no_extra.
Qed.
