(* Proofs for C12 (model/Limits.v). *)
From Coq Require Import List Arith NArith ZArith Bool Lia.
From SV Require Import gen.GenLimits model.Limits.
Import ListNotations.
Open Scope bool_scope.

(* ------------------------------------------------------------------------------------------ *)
(* Part A: the job loop                                                                        *)
(* ------------------------------------------------------------------------------------------ *)

Definition linv (l : loop) : Prop :=
  length (running l) + (if popping l then 1 else 0) <= njob l.

(* A slot test is sound when it admits a start only if fewer than njob tasks are tracked, WHATEVER
   the number of tasks parked in amend() is. *)
Definition sound_test (g : slot_test) : Prop :=
  forall r w n : Z, (0 <= r)%Z -> (0 <= w)%Z -> g r w n = true -> (r < n)%Z.

Ltac guard_to_prop H :=
  repeat (rewrite ?andb_true_iff, ?orb_true_iff, ?negb_true_iff, ?Z.ltb_lt, ?Z.leb_le, ?Z.gtb_lt,
                  ?Z.geb_le, ?Z.eqb_eq, ?Z.eqb_neq, ?Z.ltb_ge, ?Z.leb_gt in H).

(* These two lemmas are where a changed test of Builder.job_loop shows: a test that discounts the
   parked tasks (nrunning - nwaiting < njob) is translated all the same, and then the proof fails
   (and model.Limits.shortest_overrun finds the history, see lend_test_refuted). *)
Lemma hash_slot_free_sound : sound_test hash_slot_free.
Proof. intros r w n Hr Hw H. unfold hash_slot_free in H. guard_to_prop H. lia. Qed.

Lemma job_slot_free_sound : sound_test job_slot_free.
Proof. intros r w n Hr Hw H. unfold job_slot_free in H. guard_to_prop H. lia. Qed.

Lemma guard_of_lt : forall g l, sound_test g -> guard_of g l = true -> length (running l) < njob l.
Proof.
  intros g l Hs H. unfold guard_of, zlen in H. apply Hs in H; lia.
Qed.

Lemma remove_first_length : forall t l, length (remove_first t l) <= length l.
Proof.
  intros t l. induction l as [|x r IH]; simpl; [lia|].
  destruct (task_eqb t x); simpl; lia.
Qed.

Lemma lstep_njob : forall hg jg l e, njob (lstep_gen hg jg l e) = njob l.
Proof.
  intros hg jg l e. destruct e as [h| |[j|]|t|j|j| | | |]; simpl; try reflexivity.
  - destruct (negb (popping l) && guard_of hg l); reflexivity.
  - destruct (negb (popping l) && guard_of jg l); reflexivity.
  - destruct (popping l && negb (draining l)); reflexivity.
  - destruct (existsb (task_eqb (TJob j)) (running l)); reflexivity.
Qed.

Lemma lstep_inv : forall hg jg, sound_test hg -> sound_test jg ->
  forall l e, linv l -> linv (lstep_gen hg jg l e).
Proof.
  intros hg jg Hh Hj l e H. unfold linv in *.
  destruct e as [h| |[j|]|t|j|j| | | |]; simpl; try exact H.
  - destruct (popping l) eqn:Ep; simpl; [rewrite Ep; exact H|].
    destruct (guard_of hg l) eqn:Eg; simpl; [apply (guard_of_lt hg l Hh) in Eg; lia|rewrite Ep; exact H].
  - destruct (popping l) eqn:Ep; simpl; [rewrite Ep; exact H|].
    destruct (guard_of jg l) eqn:Eg; simpl; [apply (guard_of_lt jg l Hj) in Eg; lia|rewrite Ep; exact H].
  - destruct (popping l) eqn:Ep; simpl; [destruct (draining l); simpl; lia|lia].
  - destruct (popping l); lia.
  - pose proof (remove_first_length t (running l)). destruct (popping l); lia.
  - destruct (existsb (task_eqb (TJob j)) (running l)); simpl; exact H.
Qed.

Lemma lrun_inv : forall hg jg, sound_test hg -> sound_test jg ->
  forall evs l, linv l -> linv (lrun_gen hg jg l evs) /\ njob (lrun_gen hg jg l evs) = njob l.
Proof.
  intros hg jg Hh Hj. induction evs as [|e r IH]; intros l H; simpl; [split; [exact H|reflexivity]|].
  destruct (IH (lstep_gen hg jg l e) (lstep_inv hg jg Hh Hj l e H)) as [A B]. split; [exact A|].
  change (lrun_gen hg jg l (e :: r)) with (lrun_gen hg jg (lstep_gen hg jg l e) r).
  rewrite B. apply lstep_njob.
Qed.

Lemma filter_length_le : forall {A} (f : A -> bool) l, length (filter f l) <= length l.
Proof. intros A f l. induction l as [|x r IH]; simpl; [lia|]. destruct (f x); simpl; lia. Qed.

Lemma linv_no_overrun : forall l, linv l -> overrun l = false.
Proof.
  intros l H. unfold overrun, command_tasks. apply negb_false_iff. apply Nat.leb_le.
  unfold linv in H. pose proof (filter_length_le is_job (running l)). destruct (popping l); lia.
Qed.

(* Event alphabet: hash start, pop begin/end, task done, amend begin/end (a running step task
   parks in / leaves run_promoted_hash_jobs), promoted hash start/done, drain, wake.
   For ANY pair of sound tests. *)
Theorem running_le_njob_of_sound :
  forall hg jg, sound_test hg -> sound_test jg ->
  forall (n : nat) (evs : list lev),
    let l := lrun_gen hg jg (loop_init n) evs in
    length (running l) <= n /\ command_tasks l <= n /\ njob l = n /\ overrun l = false.
Proof.
  intros hg jg Hh Hj n evs l.
  assert (H0 : linv (loop_init n)) by (unfold linv; simpl; lia).
  destruct (lrun_inv hg jg Hh Hj evs (loop_init n) H0) as [A B]. fold l in A, B. simpl in B.
  pose proof (linv_no_overrun l A) as C.
  unfold linv in A. rewrite B in A.
  assert (length (running l) <= n) by (destruct (popping l); lia).
  repeat split; [assumption| |assumption|assumption].
  unfold command_tasks. pose proof (filter_length_le is_job (running l)). lia.
Qed.

Theorem running_le_njob_proof :
  forall (n : nat) (evs : list lev),
    let l := lrun (loop_init n) evs in
    length (running l) <= n /\ command_tasks l <= n /\ njob l = n /\ overrun l = false.
Proof. exact (running_le_njob_of_sound _ _ hash_slot_free_sound job_slot_free_sound). Qed.

(* For the bound on step COMMANDS alone the test in front of pop_next_job / start_task suffices:
   whatever test guards start_hash_task (hash tasks execute no command). *)
Definition cinv (l : loop) : Prop :=
  command_tasks l + (if popping l then 1 else 0) <= njob l.

Lemma command_tasks_remove : forall t r, length (filter is_job (remove_first t r)) <= length (filter is_job r).
Proof.
  intros t r. induction r as [|x r IH]; simpl; [lia|].
  destruct (task_eqb t x); simpl; [destruct (is_job x); simpl; lia|].
  destruct (is_job x); simpl; lia.
Qed.

Lemma lstep_cinv : forall hg jg, sound_test jg -> forall l e, cinv l -> cinv (lstep_gen hg jg l e).
Proof.
  intros hg jg Hj l e H. unfold cinv, command_tasks in *.
  destruct e as [h| |[j|]|t|j|j| | | |]; simpl; try exact H.
  - destruct (popping l) eqn:Ep; simpl; [rewrite Ep; exact H|].
    destruct (guard_of hg l); simpl; [lia|rewrite Ep; exact H].
  - destruct (popping l) eqn:Ep; simpl; [rewrite Ep; exact H|].
    destruct (guard_of jg l) eqn:Eg; simpl; [|rewrite Ep; exact H].
    apply (guard_of_lt jg l Hj) in Eg. pose proof (filter_length_le is_job (running l)). lia.
  - destruct (popping l) eqn:Ep; simpl; [destruct (draining l); simpl; lia|lia].
  - destruct (popping l); lia.
  - pose proof (command_tasks_remove t (running l)). destruct (popping l); lia.
  - destruct (existsb (task_eqb (TJob j)) (running l)); simpl; exact H.
Qed.

Theorem commands_le_njob_of_sound_job_test :
  forall hg jg, sound_test jg ->
  forall (n : nat) (evs : list lev),
    let l := lrun_gen hg jg (loop_init n) evs in command_tasks l <= n /\ overrun l = false.
Proof.
  intros hg jg Hj n evs.
  assert (G : forall evs l, cinv l -> cinv (lrun_gen hg jg l evs) /\ njob (lrun_gen hg jg l evs) = njob l).
  { induction evs0 as [|e r IH]; intros l H; simpl; [split; [exact H|reflexivity]|].
    destruct (IH (lstep_gen hg jg l e) (lstep_cinv hg jg Hj l e H)) as [A B]. split; [exact A|].
    change (lrun_gen hg jg l (e :: r)) with (lrun_gen hg jg (lstep_gen hg jg l e) r).
    rewrite B. apply lstep_njob. }
  assert (H0 : cinv (loop_init n)) by (unfold cinv, command_tasks; simpl; lia).
  destruct (G evs (loop_init n) H0) as [A B]. simpl in B. intros l. fold l in A, B.
  unfold cinv in A. rewrite B in A.
  assert (C : command_tasks l <= n) by (destruct (popping l); lia).
  split; [exact C|]. unfold overrun. apply negb_false_iff. apply Nat.leb_le. rewrite B. exact C.
Qed.

(* the commands parked in amend() are among the counted ones: the bound is on ALL step commands
   that have started and not ended, parked or not *)
Theorem parked_commands_counted :
  forall (n : nat) (evs : list lev),
    let l := lrun (loop_init n) evs in
    forall j, existsb (task_eqb (TJob j)) (running l) = true -> 1 <= command_tasks l <= n.
Proof.
  intros n evs l j Hj.
  destruct (running_le_njob_proof n evs) as [_ [H _]]. fold l in H. split; [|exact H].
  unfold command_tasks. apply existsb_exists in Hj. destruct Hj as [t [Hin Ht]].
  destruct t as [x|x]; simpl in Ht; [|discriminate].
  assert (Hf : In (TJob x) (filter is_job (running l))) by (apply filter_In; split; [exact Hin|reflexivity]).
  destruct (filter is_job (running l)); [contradiction|simpl; lia].
Qed.

(* the counterexample search of the model finds nothing, at any depth, from any state within the
   invariant (so a hit of the search is exactly an unsound slot test) *)
Lemma first_some_none : forall {A B} (f : A -> option B) l,
  (forall x, In x l -> f x = None) -> first_some f l = None.
Proof.
  intros A B f l H. induction l as [|x r IH]; simpl; [reflexivity|].
  rewrite (H x (or_introl eq_refl)). apply IH. intros y Hy. apply H. right. exact Hy.
Qed.

Lemma find_overrun_unfold : forall hg jg d l k acc,
  find_overrun_gen hg jg (S d) l k acc =
  if overrun l then Some (rev acc)
  else first_some (fun e => find_overrun_gen hg jg d (lstep_gen hg jg l e) (S k) (e :: acc)) (next_events l k).
Proof. reflexivity. Qed.

Theorem find_overrun_none : forall hg jg, sound_test hg -> sound_test jg ->
  forall d l k acc, linv l -> find_overrun_gen hg jg d l k acc = None.
Proof.
  intros hg jg Hh Hj. induction d as [|d IH]; intros l k acc H.
  - unfold find_overrun_gen. rewrite (linv_no_overrun l H). reflexivity.
  - rewrite find_overrun_unfold. rewrite (linv_no_overrun l H).
    apply first_some_none. intros e _. apply IH. apply lstep_inv; assumption.
Qed.

Theorem shortest_overrun_none : forall n t d, shortest_overrun n d t = None.
Proof.
  intros n t. unfold shortest_overrun. induction t as [|t IH]; intros d; simpl; [reflexivity|].
  rewrite (find_overrun_none _ _ hash_slot_free_sound job_slot_free_sound);
    [apply IH|unfold linv; simpl; lia].
Qed.

(* promoted hash jobs never occupy a slot and never become a command task *)
Lemma promoted_separate : forall l, lstep l LPromotedStart = mkLoop (njob l) (running l) (amending l) (popping l) (S (promoted l)) (draining l).
Proof. reflexivity. Qed.

(* The variant test that lends the slot of a step parked in amend() to the job loop
   (len(running_tasks) - waiting_tasks < njob) is NOT sound, and the loop built from it exceeds the
   job limit: with njob = 1, job 1 starts, parks in amend(), and job 4 is started next to it. The
   witness is what the search returns. *)
Theorem lend_test_unsound : ~ sound_test lend_slot_free.
Proof.
  intros H. specialize (H 1%Z 1%Z 1%Z). unfold lend_slot_free in H. simpl in H.
  assert (1 < 1)%Z by (apply H; [lia|lia|reflexivity]). lia.
Qed.

Definition lend_witness : list lev := [LPopBegin; LPopEnd (Some 2); LAmendBegin 2; LPopBegin; LPopEnd (Some 5)].

Theorem lend_test_refuted :
  shortest_overrun_gen lend_slot_free lend_slot_free 1 0 8 = Some lend_witness /\
  command_tasks (lrun_gen lend_slot_free lend_slot_free (loop_init 1) lend_witness) = 2 /\
  (* it is enough that the test in front of pop_next_job lends the slot *)
  overrun (lrun_gen hash_slot_free lend_slot_free (loop_init 1) lend_witness) = true.
Proof. vm_compute. repeat split; reflexivity. Qed.

(* ------------------------------------------------------------------------------------------ *)
(* Facts about the generated fragments (each breaks when the source shape changes)             *)
(* ------------------------------------------------------------------------------------------ *)

Lemma gc_running : guard_counted (code Running) = true.
Proof. vm_compute. reflexivity. Qed.

Lemma dispatch_running : of_code (dispatch_code false) = Running.
Proof. vm_compute. reflexivity. Qed.

Lemma dispatch_checking : of_code (dispatch_code true) = Checking.
Proof. vm_compute. reflexivity. Qed.

Lemma partial_state_pending : of_code partial_recycle_state = Pending.
Proof. vm_compute. reflexivity. Qed.

Lemma code_inj : forall a b, code a = code b -> a = b.
Proof. intros a b; destruct a, b; vm_compute; intro H; try reflexivity; discriminate. Qed.

Lemma sstate_eqb_eq : forall a b, sstate_eqb a b = true <-> a = b.
Proof.
  intros a b. unfold sstate_eqb. rewrite N.eqb_eq. split; [apply code_inj|intros ->; reflexivity].
Qed.

Lemma holding_reset_spec : forall s h,
  holding_reset (code s) h = negb (sstate_eqb s Running) && negb (N.eqb h 0).
Proof. intros s h. destruct s; reflexivity. Qed.

Lemma res_blocked_undefined : forall a u q, res_blocked true a u q = true.
Proof. reflexivity. Qed.

Lemma res_blocked_defined : forall a u q, res_blocked false a u q = false -> (u + q <= a)%Z.
Proof. intros a u q H. unfold res_blocked in H. simpl in H. apply Z.ltb_ge in H. lia. Qed.

Lemma release_guard_spec : forall h, release_guard h = true <-> h <> 0%N.
Proof. intros h. unfold release_guard. rewrite N.ltb_lt. lia. Qed.

Definition ok_code (c : N) : Prop := c = code_RUNNING \/ c = code_SUCCEEDED.

Lemma dispatch_where_nohash : forall c sf snh df nd rd,
  dispatch_where c sf false snh df nd rd = true -> c = code_PENDING /\ sf = true.
Proof.
  intros c sf snh df nd rd H. unfold dispatch_where in H.
  repeat (apply andb_prop in H; destruct H as [H ?]).
  rewrite andb_false_l, orb_false_r in *. apply N.eqb_eq in H. split; assumption.
Qed.

Lemma dispatch_where_pending : forall c sf hh snh df nd rd,
  dispatch_where c sf hh snh df nd rd = true -> c = code_PENDING /\ (sf = true \/ (hh = true /\ snh = true)).
Proof.
  intros c sf hh snh df nd rd H. unfold dispatch_where in H.
  repeat (apply andb_prop in H; destruct H as [H ?]).
  apply N.eqb_eq in H. split; [assumption|].
  match goal with X : (sf || _) = true |- _ => apply orb_prop in X; destruct X as [X|X] end;
    [left; assumption|right; apply andb_prop in H3; assumption].
Qed.

Lemma select_extra_spec : forall nd th det hh ru,
  select_extra nd th det hh ru = true -> det = false /\ (hh = true \/ ru = false).
Proof.
  intros nd th det hh ru H. unfold select_extra in H.
  repeat (apply andb_prop in H; destruct H as [H ?]).
  split.
  - destruct det; [discriminate|reflexivity].
  - match goal with X : (hh || _) = true |- _ => apply orb_prop in X; destruct X as [X|X] end;
      [left; assumption|right; destruct ru; [discriminate|reflexivity]].
Qed.

Lemma rec_safe_spec : forall ch chn a b, rec_safe ch chn a b = ch.
Proof. reflexivity. Qed.

Lemma ok_code_of_eqbs : forall c, (N.eqb c 22 || N.eqb c 23) = true -> ok_code c.
Proof.
  intros c H. apply orb_prop in H. destruct H as [H|H]; apply N.eqb_eq in H; [left|right]; exact H.
Qed.

Lemma rec_chain_spec : forall ch chn ps ph,
  rec_chain ch chn ps ph = true -> ch = true /\ ok_code ps /\ ph = 0%N.
Proof.
  intros ch chn ps ph H. unfold rec_chain in H.
  repeat (apply andb_prop in H; destruct H as [H ?]).
  repeat split; [assumption|apply ok_code_of_eqbs; assumption|apply N.eqb_eq; assumption].
Qed.

Lemma seed_chain_root_spec : forall a b c d cs hs,
  seed_chain true a b c d cs hs = true -> ok_code cs /\ hs = 0%N.
Proof.
  intros a b c d cs hs H. unfold seed_chain in H. simpl in H.
  repeat (apply andb_prop in H; destruct H as [H ?]).
  split; [apply ok_code_of_eqbs; assumption|apply N.eqb_eq; assumption].
Qed.

(* the seed expressions (from a creator's cached values) agree with the recursive ones *)
Lemma seed_rec_consistent : forall cs csn cst ch sst sh,
  seed_safe false cs csn cst ch sst sh = rec_chain cs csn cst ch /\
  seed_safe_nh false cs csn cst ch sst sh = rec_chain_nh cs csn cst ch /\
  seed_chain false cs csn cst ch sst sh = rec_chain (rec_chain cs csn cst ch) false sst sh /\
  seed_chain_nh false cs csn cst ch sst sh = rec_chain_nh false (rec_chain_nh cs csn cst ch) sst sh.
Proof. intros. repeat split; reflexivity. Qed.

(* _safe_ignoring_hold is never stricter than _safe *)
Lemma chain_nh_weaker : forall fuel d i, fst (chain fuel d i) = true -> snd (chain fuel d i) = true.
Proof.
  induction fuel as [|f IH]; intros d i H; simpl in *; [discriminate|].
  destruct (nth_error d i) as [x|]; [|discriminate].
  destruct (creator x) as [c|]; simpl in *.
  - apply rec_chain_spec in H. destruct H as [H1 [H2 H3]].
    apply IH in H1. unfold rec_chain_nh. rewrite H1. simpl.
    destruct H2 as [H2|H2]; rewrite H2; reflexivity.
  - apply seed_chain_root_spec in H. destruct H as [H2 H3]. unfold seed_chain_nh. simpl.
    destruct H2 as [H2|H2]; rewrite H2; reflexivity.
Qed.

(* ------------------------------------------------------------------------------------------ *)
(* Lists                                                                                       *)
(* ------------------------------------------------------------------------------------------ *)

Lemma sumN_app : forall a b, sumN (a ++ b) = (sumN a + sumN b)%N.
Proof. induction a as [|x r IH]; intros b; simpl; [reflexivity|]. rewrite IH. lia. Qed.

Lemma nth_error_upd_same : forall {A} (l : list A) i f x,
  nth_error l i = Some x -> nth_error (upd l i f) i = Some (f x).
Proof.
  induction l as [|y r IH]; intros i f x H; destruct i; simpl in *; try discriminate.
  - inversion H. reflexivity.
  - apply IH. exact H.
Qed.

Lemma nth_error_upd_other : forall {A} (l : list A) i j f,
  i <> j -> nth_error (upd l i f) j = nth_error l j.
Proof.
  induction l as [|y r IH]; intros i j f H; destruct i, j; simpl; try reflexivity.
  - congruence.
  - apply IH. congruence.
Qed.

Lemma upd_none : forall {A} (l : list A) i f, nth_error l i = None -> upd l i f = l.
Proof.
  induction l as [|y r IH]; intros i f H; destruct i; simpl in *; try reflexivity; try discriminate.
  rewrite IH; [reflexivity|exact H].
Qed.

Lemma upd_length : forall {A} (l : list A) i f, length (upd l i f) = length l.
Proof. induction l as [|y r IH]; intros i f; destruct i; simpl; try reflexivity. rewrite IH. reflexivity. Qed.

Lemma map_upd_ext : forall {A B} (g : A -> B) (l : list A) i f,
  (forall x, nth_error l i = Some x -> g (f x) = g x) -> map g (upd l i f) = map g l.
Proof.
  intros A B g. induction l as [|y r IH]; intros i f H; destruct i; simpl; try reflexivity.
  - rewrite (H y); reflexivity.
  - rewrite IH; [reflexivity|]. intros x Hx. apply H. exact Hx.
Qed.

Lemma Forall_upd : forall {A} (P : A -> Prop) (l : list A) i f,
  Forall P l -> (forall x, nth_error l i = Some x -> P x -> P (f x)) -> Forall P (upd l i f).
Proof.
  intros A P. induction l as [|y r IH]; intros i f H Hf; destruct i; simpl; try constructor.
  - inversion H; subst. apply Hf; [reflexivity|assumption].
  - inversion H; assumption.
  - inversion H; assumption.
  - inversion H; subst. apply IH; [assumption|]. intros x Hx. apply Hf. exact Hx.
Qed.

Lemma sum_upd : forall {A} (g : A -> N) (l : list A) i f x,
  nth_error l i = Some x ->
  (sumN (map g (upd l i f)) + g x = sumN (map g l) + g (f x))%N.
Proof.
  intros A g. induction l as [|y r IH]; intros i f x H; destruct i; simpl in *; try discriminate.
  - inversion H; subst. lia.
  - specialize (IH i f x H). lia.
Qed.

Lemma map_mapi_from_ext : forall {A B} (g : A -> B) (f : nat -> A -> A) l n,
  (forall j x, g (f j x) = g x) -> map g (mapi_from n f l) = map g l.
Proof.
  intros A B g f. induction l as [|y r IH]; intros n H; simpl; [reflexivity|].
  rewrite H, IH; [reflexivity|exact H].
Qed.

Lemma Forall_nth : forall {A} (P : A -> Prop) l i x, Forall P l -> nth_error l i = Some x -> P x.
Proof. intros A P l i x H Hn. rewrite Forall_forall in H. apply H. eapply nth_error_In; eassumption. Qed.

(* ------------------------------------------------------------------------------------------ *)
(* The core of a row: what the invariants read                                                 *)
(* ------------------------------------------------------------------------------------------ *)

Definition core (x : row) := (st x, holding x, rclaims x, cmds x).

Lemma core_inv : forall x y, core x = core y ->
  st x = st y /\ holding x = holding y /\ rclaims x = rclaims y /\ cmds x = cmds y.
Proof. intros x y H. unfold core in H. inversion H. repeat split; assumption. Qed.

Lemma core_nth : forall d d' i x, map core d' = map core d -> nth_error d i = Some x ->
  exists x', nth_error d' i = Some x' /\ core x' = core x.
Proof.
  intros d d' i x H Hn.
  assert (E : nth_error (map core d') i = Some (core x)) by (rewrite H; apply map_nth_error; exact Hn).
  destruct (nth_error d' i) as [x'|] eqn:E'.
  - exists x'. split; [reflexivity|]. rewrite (map_nth_error core i d' E') in E. congruence.
  - apply nth_error_None in E'. assert (nth_error (map core d') i = None) by (apply nth_error_None; rewrite map_length; exact E').
    congruence.
Qed.

Lemma cons_inj : forall {A} (a b : A) l m, a :: l = b :: m -> a = b /\ l = m.
Proof. intros A a b l m H. injection H as H1 H2. split; assumption. Qed.

Lemma Forall_core : forall (P : row -> Prop) d d',
  (forall x y, core x = core y -> P x -> P y) ->
  map core d' = map core d -> Forall P d -> Forall P d'.
Proof.
  intros P d. induction d as [|x r IH]; intros d' HP H HF; destruct d'; simpl in H; try discriminate; constructor.
  - apply cons_inj in H. destruct H as [H1 H2]. inversion HF; subst. eapply HP; [symmetry; exact H1|assumption].
  - apply cons_inj in H. destruct H as [H1 H2]. inversion HF; subst. apply IH; assumption.
Qed.

Lemma sum_core : forall (g : row -> N) d d',
  (forall x y, core x = core y -> g x = g y) ->
  map core d' = map core d -> sumN (map g d') = sumN (map g d).
Proof.
  intros g d. induction d as [|x r IH]; intros d' Hg H; destruct d'; simpl in H; try discriminate; simpl; [reflexivity|].
  apply cons_inj in H. destruct H as [H1 H2]. rewrite (Hg _ _ H1). rewrite (IH d' Hg H2). reflexivity.
Qed.

Lemma row_cmd_used_core : forall r x y, core x = core y -> row_cmd_used r x = row_cmd_used r y.
Proof. intros r x y H. apply core_inv in H. destruct H as [_ [_ [_ H]]]. unfold row_cmd_used. rewrite H. reflexivity. Qed.

Lemma row_used_core : forall r x y, core x = core y -> row_used r x = row_used r y.
Proof. intros r x y H. apply core_inv in H. destruct H as [H1 [_ [H3 _]]]. unfold row_used. rewrite H1, H3. reflexivity. Qed.

Lemma cmd_used_core : forall r d d', map core d' = map core d -> cmd_used r d' = cmd_used r d.
Proof. intros r d d' H. unfold cmd_used. apply sum_core; [apply row_cmd_used_core|exact H]. Qed.

Lemma used_core : forall r d d', map core d' = map core d -> used r d' = used r d.
Proof. intros r d d' H. unfold used. apply sum_core; [apply row_used_core|exact H]. Qed.

(* bulk operations only touch creator / attached / has_hash *)
Lemma set_attached_in_core : forall js b d, map core (set_attached_in js b d) = map core d.
Proof.
  intros js b d. unfold set_attached_in, mapi. apply map_mapi_from_ext.
  intros j x. destruct (memb j js); reflexivity.
Qed.

Lemma detach_one_core : forall d j, map core (detach_one d j) = map core d.
Proof.
  intros d j. unfold detach_one. destruct (nth_error d j) as [x|]; [|reflexivity].
  destruct (creator x); [|reflexivity].
  assert (E : map core (upd d j (fun y => set_attached false (set_creator None y))) = map core d)
    by (apply map_upd_ext; intros; reflexivity).
  destruct (attached x); [rewrite set_attached_in_core|]; exact E.
Qed.

Lemma fold_detach_core : forall js d, map core (fold_left detach_one js d) = map core d.
Proof.
  induction js as [|j r IH]; intros d; simpl; [reflexivity|]. rewrite IH. apply detach_one_core.
Qed.

Lemma detach_created_core : forall d i, map core (detach_created d i) = map core d.
Proof. intros d i. unfold detach_created. apply fold_detach_core. Qed.

Lemma lose_product_core : forall d x d0, lose_product d x = Some d0 -> map core d0 = map core d.
Proof.
  intros d x d0 H. unfold lose_product in H. destruct (creator x) as [c|]; [|inversion H; reflexivity].
  destruct (nth_error d c) as [cx|]; [|inversion H; reflexivity].
  destruct (attached cx); [discriminate|]. inversion H. apply map_upd_ext. intros; reflexivity.
Qed.

(* ------------------------------------------------------------------------------------------ *)
(* Invariants                                                                                  *)
(* ------------------------------------------------------------------------------------------ *)

(* K: the tables agree with what is really executing. *)
Definition Krow (x : row) : Prop :=
  match cmds x with
  | [] => st x <> Running /\ holding x = 0%N
  | [m] => st x = Running /\ held m = rclaims x /\ depth m = holding x
  | _ => False
  end.

Definition Vrow (x : row) : Prop := NoDup (map fst (rclaims x)).

Definition Inv (s : sys) : Prop :=
  Forall Krow (db s) /\ Forall Vrow (db s) /\ forall r, (cmd_used r (db s) <= availz (avail s) r)%N.

(* U: every executing command holds only defined resources. *)
Definition Urow (a : claims) (x : row) : Prop :=
  forall m, In m (cmds x) -> forall e, In e (held m) -> lookup (fst e) a <> None.

Lemma Krow_core : forall x y, core x = core y -> Krow x -> Krow y.
Proof.
  intros x y H. apply core_inv in H. destruct H as [H1 [H2 [H3 H4]]]. unfold Krow.
  rewrite H1, H2, H3, H4. tauto.
Qed.

Lemma Vrow_core : forall x y, core x = core y -> Vrow x -> Vrow y.
Proof. intros x y H. apply core_inv in H. destruct H as [_ [_ [H3 _]]]. unfold Vrow. rewrite H3. tauto. Qed.

Lemma Urow_core : forall a x y, core x = core y -> Urow a x -> Urow a y.
Proof. intros a x y H. apply core_inv in H. destruct H as [_ [_ [_ H4]]]. unfold Urow. rewrite H4. tauto. Qed.

Lemma Inv_ext : forall d d' a t, map core d' = map core d -> Inv (mkSys d a t) -> Inv (mkSys d' a t).
Proof.
  intros d d' a t H [HK [HV HR]]. simpl in *. repeat split; simpl.
  - eapply Forall_core; [apply Krow_core|exact H|exact HK].
  - eapply Forall_core; [apply Vrow_core|exact H|exact HV].
  - intro r. rewrite (cmd_used_core r d d' H). apply HR.
Qed.

(* a single-row change that does not start a command *)
Lemma Inv_local : forall d a t i f x,
  Inv (mkSys d a t) -> nth_error d i = Some x ->
  Krow (f x) -> Vrow (f x) -> (forall r, (row_cmd_used r (f x) <= row_cmd_used r x)%N) ->
  Inv (mkSys (upd d i f) a t).
Proof.
  intros d a t i f x [HK [HV HR]] Hn HK' HV' Hle. simpl in *. repeat split; simpl.
  - apply Forall_upd; [exact HK|]. intros y Hy _. rewrite Hn in Hy. inversion Hy; subst. exact HK'.
  - apply Forall_upd; [exact HV|]. intros y Hy _. rewrite Hn in Hy. inversion Hy; subst. exact HV'.
  - intro r. unfold cmd_used. pose proof (sum_upd (row_cmd_used r) d i f x Hn) as E.
    specialize (HR r). unfold cmd_used in HR. specialize (Hle r). lia.
Qed.

Lemma set_state_tr_fields : forall s x,
  st (set_state_tr s x) = s /\ rclaims (set_state_tr s x) = rclaims x /\ cmds (set_state_tr s x) = cmds x
  /\ has_hash (set_state_tr s x) = has_hash x /\ creator (set_state_tr s x) = creator x
  /\ attached (set_state_tr s x) = attached x.
Proof. intros s x. unfold set_state_tr. destruct (holding_reset (code s) (holding x)); repeat split; reflexivity. Qed.

Lemma set_state_tr_holding : forall s x, s <> Running -> holding (set_state_tr s x) = 0%N.
Proof.
  intros s x Hs. unfold set_state_tr. destruct (holding_reset (code s) (holding x)) eqn:E; [reflexivity|].
  rewrite holding_reset_spec in E. simpl.
  destruct (sstate_eqb s Running) eqn:E1; [apply sstate_eqb_eq in E1; contradiction|].
  simpl in E. destruct (N.eqb_spec (holding x) 0); [assumption|discriminate].
Qed.

Lemma set_state_tr_running : forall x, holding (set_state_tr Running x) = holding x.
Proof.
  intros x. unfold set_state_tr. rewrite holding_reset_spec.
  replace (sstate_eqb Running Running) with true by (symmetry; apply sstate_eqb_eq; reflexivity).
  reflexivity.
Qed.

Lemma Krow_nil : forall x, cmds x = [] -> st x <> Running -> holding x = 0%N -> Krow x.
Proof. intros x H1 H2 H3. unfold Krow. rewrite H1. split; assumption. Qed.

Lemma Krow_not_running : forall x, Krow x -> st x <> Running -> cmds x = [] /\ holding x = 0%N.
Proof.
  intros x HK Hs. unfold Krow in HK. destruct (cmds x) as [|m [|m2 r]].
  - split; [reflexivity|tauto].
  - destruct HK as [HK _]. contradiction.
  - contradiction.
Qed.

Lemma Krow_cmd : forall x k m, Krow x -> nth_error (cmds x) k = Some m ->
  cmds x = [m] /\ k = 0 /\ st x = Running /\ held m = rclaims x /\ depth m = holding x.
Proof.
  intros x k m HK Hn. unfold Krow in HK. destruct (cmds x) as [|m1 [|m2 r]].
  - destruct k; discriminate.
  - destruct k; simpl in Hn; [inversion Hn; subst; tauto|destruct k; discriminate].
  - contradiction.
Qed.

(* claims with distinct names *)
Lemma claim_notin : forall r cl, ~ In r (map fst cl) -> claim r cl = 0%N.
Proof.
  intros r cl. induction cl as [|[n u] t IH]; intro H; simpl; [reflexivity|].
  simpl in H. destruct (N.eqb_spec n r); [exfalso; apply H; left; assumption|].
  rewrite IH; [reflexivity|]. intro; apply H; right; assumption.
Qed.

Lemma claim_in : forall r u cl, NoDup (map fst cl) -> In (r, u) cl -> claim r cl = u.
Proof.
  intros r u cl. induction cl as [|[n v] t IH]; intros Hnd Hin; simpl in *; [contradiction|].
  inversion Hnd; subst. destruct Hin as [Hin|Hin].
  - inversion Hin; subst. rewrite N.eqb_refl. rewrite claim_notin; [lia|assumption].
  - destruct (N.eqb_spec n r).
    + subst. exfalso. apply H1. change r with (fst (r, u)). apply in_map. exact Hin.
    + rewrite IH; [lia|assumption|assumption].
Qed.

Lemma claim_pos_in : forall r cl, claim r cl <> 0%N -> exists u, In (r, u) cl.
Proof.
  intros r cl. induction cl as [|[n v] t IH]; intro H; simpl in *; [congruence|].
  destruct (N.eqb_spec n r).
  - subst. exists v. left. reflexivity.
  - destruct IH as [u Hu]; [lia|]. exists u. right. exact Hu.
Qed.

Lemma nodupb_NoDup : forall l, nodupb l = true -> NoDup l.
Proof.
  induction l as [|x r IH]; intro H; simpl in *; constructor.
  - apply andb_prop in H. destruct H as [H _]. intro Hin. apply negb_true_iff in H.
    assert (existsb (N.eqb x) r = true) by (apply existsb_exists; exists x; split; [assumption|apply N.eqb_refl]).
    congruence.
  - apply andb_prop in H. destruct H as [_ H]. apply IH. exact H.
Qed.

Lemma valid_claims_NoDup : forall cl, valid_claims cl = true -> NoDup (map fst cl).
Proof. intros cl H. unfold valid_claims in H. apply andb_prop in H. destruct H as [H _]. apply nodupb_NoDup. exact H. Qed.

(* Under K the guard's SUM dominates what the executing commands hold. *)
Lemma cmd_used_le_used : forall r d, Forall Krow d -> (cmd_used r d <= used r d)%N.
Proof.
  intros r d H. unfold cmd_used, used. induction H as [|x l HK _ IH]; simpl; [lia|].
  assert (row_cmd_used r x <= row_used r x)%N; [|lia].
  unfold Krow in HK. unfold row_cmd_used, row_used. destruct (cmds x) as [|m [|m2 t]]; simpl.
  - lia.
  - destruct HK as [H1 [H2 _]]. rewrite H1, gc_running. unfold cmd_units. rewrite H2. lia.
  - contradiction.
Qed.

Section Gen.
Variables keep rej : bool.

(* ------------------------------------------------------------------------------------------ *)
(* One event preserves Inv (for a quiet event)                                                 *)
(* ------------------------------------------------------------------------------------------ *)

Lemma sys_eta : forall s, s = mkSys (db s) (avail s) (threshold s).
Proof. destruct s; reflexivity. Qed.

Lemma dispatch_guard_res : forall s x r,
  Forall Krow (db s) -> Vrow x -> res_unavailable s x = false ->
  (forall r, (cmd_used r (db s) <= availz (avail s) r)%N) ->
  (cmd_used r (db s) + claim r (rclaims x) <= availz (avail s) r)%N.
Proof.
  intros s x r HK HV Hres HR.
  destruct (N.eq_dec (claim r (rclaims x)) 0) as [E|E]; [rewrite E; specialize (HR r); lia|].
  destruct (claim_pos_in _ _ E) as [u Hu].
  assert (Eu : claim r (rclaims x) = u) by (apply claim_in; assumption).
  unfold res_unavailable in Hres.
  assert (Hb : req_blocked s (r, u) = false).
  { destruct (req_blocked s (r, u)) eqn:Eb; [|reflexivity].
    assert (existsb (req_blocked s) (rclaims x) = true) by (apply existsb_exists; exists (r, u); split; assumption).
    congruence. }
  unfold req_blocked in Hb. simpl in Hb. unfold availz.
  destruct (lookup r (avail s)) as [a|].
  - apply res_blocked_defined in Hb. pose proof (cmd_used_le_used r (db s) HK). rewrite Eu. lia.
  - try rewrite res_blocked_undefined in Hb. discriminate.
Qed.

Lemma setmeta_core : forall (d : list row) (l : list (option (bool * N * bool))),
  length d <= length l ->
  map core (map (fun xm => match snd xm with Some mm => set_meta mm (fst xm) | None => fst xm end) (combine d l))
  = map core d.
Proof.
  induction d as [|x r IH]; intros l H; [reflexivity|].
  destruct l as [|o t]; [simpl in H; lia|]. simpl combine. simpl map.
  rewrite IH by (simpl in H; lia). destruct o; reflexivity.
Qed.

Lemma K_state_change : forall ns b y, ns <> Running -> cmds y = [] ->
  Krow (set_has_hash b (set_state_tr ns y)) /\ Krow (set_state_tr ns y).
Proof.
  intros ns b y Hns Hc. destruct (set_state_tr_fields ns y) as [F1 [F2 [F3 _]]].
  pose proof (set_state_tr_holding ns y Hns) as F4.
  split; apply Krow_nil.
  - change (cmds (set_state_tr ns y) = []). rewrite F3. exact Hc.
  - change (st (set_state_tr ns y) <> Running). rewrite F1. exact Hns.
  - exact F4.
  - rewrite F3. exact Hc.
  - rewrite F1. exact Hns.
  - exact F4.
Qed.

Lemma V_state_change : forall ns b y, Vrow y ->
  Vrow (set_has_hash b (set_state_tr ns y)) /\ Vrow (set_state_tr ns y).
Proof.
  intros ns b y H. destruct (set_state_tr_fields ns y) as [F1 [F2 [F3 _]]]. unfold Vrow in *.
  change (rclaims (set_has_hash b (set_state_tr ns y))) with (rclaims (set_state_tr ns y)).
  rewrite F2. split; exact H.
Qed.

Lemma C_state_change : forall r ns b y,
  row_cmd_used r (set_has_hash b (set_state_tr ns y)) = row_cmd_used r y /\
  row_cmd_used r (set_state_tr ns y) = row_cmd_used r y.
Proof.
  intros r ns b y. destruct (set_state_tr_fields ns y) as [F1 [F2 [F3 _]]]. unfold row_cmd_used.
  change (cmds (set_has_hash b (set_state_tr ns y))) with (cmds (set_state_tr ns y)).
  rewrite F3. split; reflexivity.
Qed.

Ltac proj := cbn [cmds st holding rclaims has_hash creator attached set_has_hash set_rclaims set_meta
  set_holding set_st set_cmds set_sig set_attached set_creator].

Lemma in_flight_true : forall x, in_flight x = true -> st x = Running \/ st x = Checking.
Proof.
  intros x H. unfold in_flight in H. apply orb_prop in H.
  destruct H as [H|H]; apply sstate_eqb_eq in H; [left|right]; exact H.
Qed.

Lemma in_flight_false : forall x, in_flight x = false -> st x <> Running /\ st x <> Checking.
Proof.
  intros x H. unfold in_flight in H. apply orb_false_elim in H. destruct H as [H1 H2].
  split; intro E; rewrite E in *; vm_compute in H1, H2; discriminate.
Qed.

Lemma in_flight_core : forall x y, core x = core y -> in_flight x = in_flight y.
Proof. intros x y H. apply core_inv in H. destruct H as [H _]. unfold in_flight. rewrite H. reflexivity. Qed.

(* the repaired shape: the row of a step whose job is in flight is left as it is *)
Lemma full_row_kept : forall cl nd eo y, in_flight y = true -> core (recycle_full_row true cl nd eo y) = core y.
Proof. intros cl nd eo y H. unfold recycle_full_row. rewrite H. reflexivity. Qed.

Lemma partial_row_kept : forall g cl nd y, in_flight y = true -> core (recycle_partial_row true g cl nd y) = core y.
Proof. intros g cl nd y H. unfold recycle_partial_row. rewrite H. reflexivity. Qed.

(* both shapes: a row whose job is not in flight is overwritten *)

Lemma partial_row_reset : forall kp g cl nd y, in_flight y = false ->
  recycle_partial_row kp g cl nd y =
  set_meta (false, nd, false) (set_rclaims cl (set_sig (add_out g (sig y)) (set_holding 0 (set_st (of_code partial_recycle_state) y)))).
Proof. intros kp g cl nd y H. unfold recycle_partial_row. rewrite H, andb_false_r. reflexivity. Qed.

(* Facts about the interpreter of Step.after_recycle that hold for EVERY statement list (so the proofs do
   not depend on the list the translator produced). *)
(* Workflow.mark_step_pending as translated (executed symbolically per state by the translator) is what the
   model hard-wires in mark_pending_row and EMarkPending: ignored for RUNNING and CHECKING, PENDING otherwise.
   A changed method is translated all the same and breaks this lemma. *)
Lemma mark_pending_translated : forall s,
  mark_pending_writes (code s) = if sstate_eqb s Running || sstate_eqb s Checking then None else Some code_PENDING.
Proof. intros s. destruct s; vm_compute; reflexivity. Qed.

Lemma mark_pending_in_flight : forall z, in_flight z = true -> mark_pending_row z = z.
Proof. intros z H. unfold mark_pending_row. rewrite H. reflexivity. Qed.

(* frame: mark_step_pending never touches the claims or the executing commands, and writes the state
   (and, through the trigger, _holding := 0) only of a row that is not in flight *)
Lemma mark_pending_frame : forall z,
  cmds (mark_pending_row z) = cmds z /\ rclaims (mark_pending_row z) = rclaims z /\
  (in_flight z = true -> mark_pending_row z = z) /\
  (in_flight z = false -> st (mark_pending_row z) = Pending /\ holding (mark_pending_row z) = 0%N).
Proof.
  intros z. unfold mark_pending_row. destruct (in_flight z) eqn:E.
  - split; [reflexivity|split; [reflexivity|split; [intro; reflexivity|intro; discriminate]]].
  - destruct (set_state_tr_fields Pending z) as [F1 [F2 [F3 _]]].
    split; [exact F3|split; [exact F2|split; [intro; discriminate|intro; split; [exact F1|]]]].
    apply set_state_tr_holding. discriminate.
Qed.

Lemma rop_cmds : forall k eo cl y op, cmds (rop_apply k eo cl y op) = cmds y.
Proof.
  intros k eo cl y [c a]. unfold rop_apply. cbn [fst snd]. destruct (rcond_holds c k eo y); [|reflexivity].
  destruct a as [[|]| | |]; cbn [ract_apply]; try reflexivity. apply (proj1 (mark_pending_frame y)).
Qed.

Lemma run_ops_cmds : forall k eo cl ops y, cmds (run_ops k eo cl ops y) = cmds y.
Proof.
  intros k eo cl ops. unfold run_ops. induction ops as [|op r IH]; intro y; simpl; [reflexivity|].
  rewrite IH. apply rop_cmds.
Qed.

Lemma full_row_cmds : forall kp cl nd eo y, cmds (recycle_full_row kp cl nd eo y) = cmds y.
Proof.
  intros kp cl nd eo y. unfold recycle_full_row. proj.
  destruct (kp && in_flight y); [reflexivity|apply run_ops_cmds].
Qed.

(* a row without executing command that is not RUNNING and does not hold stays such a row *)
Definition Qrow (z : row) : Prop := cmds z = [] /\ st z <> Running /\ holding z = 0%N.

Lemma rop_Q : forall k eo cl y op, Qrow y -> Qrow (rop_apply k eo cl y op).
Proof.
  intros k eo cl y [c a] [Q1 [Q2 Q3]]. unfold rop_apply. cbn [fst snd].
  destruct (rcond_holds c k eo y); [|repeat split; assumption].
  destruct a as [[|]| | |]; cbn [ract_apply]; try (repeat split; assumption).
  destruct (mark_pending_frame y) as [M1 [M2 [M3 M4]]]. destruct (in_flight y) eqn:E.
  - rewrite (M3 eq_refl). repeat split; assumption.
  - destruct (M4 eq_refl) as [M5 M6]. repeat split; [rewrite M1; exact Q1|rewrite M5; discriminate|exact M6].
Qed.

Lemma rop_V : forall k eo cl y op, NoDup (map fst cl) -> Vrow y -> Vrow (rop_apply k eo cl y op).
Proof.
  intros k eo cl y [c a] Hnd HV. unfold rop_apply. cbn [fst snd]. destruct (rcond_holds c k eo y); [|exact HV].
  destruct a as [[|]| | |]; cbn [ract_apply]; try exact HV.
  - unfold Vrow. rewrite (proj1 (proj2 (mark_pending_frame y))). exact HV.
  - unfold Vrow. proj. exact Hnd.
Qed.

Lemma run_ops_QV : forall k eo cl ops y, NoDup (map fst cl) -> Qrow y -> Vrow y ->
  Qrow (run_ops k eo cl ops y) /\ Vrow (run_ops k eo cl ops y).
Proof.
  intros k eo cl ops. unfold run_ops. induction ops as [|op r IH]; intros y Hnd HQ HV; simpl; [split; assumption|].
  apply IH; [exact Hnd|apply rop_Q; exact HQ|apply rop_V; assumption].
Qed.

(* the statements leave the core of a row in flight alone when the new claims are the old ones and the
   row does not hold (whatever the list) *)
Lemma rop_same_core : forall k eo cl y0 y op, in_flight y0 = true -> holding y0 = 0%N -> cl = rclaims y0 ->
  core y = core y0 -> core (rop_apply k eo cl y op) = core y0.
Proof.
  intros k eo cl y0 y [c a] Hf Hh Hcl Hc. unfold rop_apply. cbn [fst snd]. destruct (rcond_holds c k eo y); [|exact Hc].
  pose proof (core_inv _ _ Hc) as [C1 [C2 [C3 C4]]].
  destruct a as [[|]| | |]; cbn [ract_apply]; try exact Hc.
  - unfold core. proj. rewrite C1, C3, C4, Hh. reflexivity.
  - rewrite mark_pending_in_flight; [exact Hc|]. rewrite (in_flight_core _ _ Hc). exact Hf.
  - unfold core. proj. rewrite C1, C2, C4, Hcl. reflexivity.
Qed.

Lemma run_ops_same_core : forall k eo cl y0 ops y, in_flight y0 = true -> holding y0 = 0%N -> cl = rclaims y0 ->
  core y = core y0 -> core (run_ops k eo cl ops y) = core y0.
Proof.
  intros k eo cl y0 ops. unfold run_ops. induction ops as [|op r IH]; intros y Hf Hh Hcl Hc; simpl; [exact Hc|].
  apply IH; try assumption. apply rop_same_core; assumption.
Qed.

(* FRAME FACT of the repaired shape: a list whose writes of _holding / step_resource are all under
   `not in_flight` returns a row in flight exactly as it got it (the other statements are the need/shell
   update, mark_step_pending - ignored for RUNNING/CHECKING - and columns outside the model) *)
Lemma guarded_ops_frame : forall eo cl ops y, ops_guarded ops = true -> in_flight y = true ->
  run_ops true eo cl ops y = y.
Proof.
  intros eo cl ops. unfold run_ops. induction ops as [|[c a] r IH]; intros y Hg Hf; simpl; [reflexivity|].
  simpl in Hg. apply andb_prop in Hg. destruct Hg as [Hg1 Hg2].
  assert (E : rop_apply true eo cl y (c, a) = y).
  { unfold rop_apply. cbn [fst snd] in *. destruct a as [[|]| | |]; cbn [ract_apply].
    - destruct c; try discriminate. reflexivity.
    - destruct (rcond_holds c true eo y); reflexivity.
    - destruct (rcond_holds c true eo y); [apply mark_pending_in_flight; exact Hf|reflexivity].
    - destruct c; try discriminate. reflexivity.
    - destruct (rcond_holds c true eo y); reflexivity. }
  rewrite E. apply IH; assumption.
Qed.

(* ... and the translator's flag says so only for such a list *)
Lemma keeps_inflight_guarded : recycle_keeps_inflight = true -> ops_guarded after_recycle_ops = true.
Proof. unfold recycle_keeps_inflight. vm_compute. intro H; try discriminate H; reflexivity. Qed.

Lemma partial_row_cmds : forall kp g cl nd y, cmds (recycle_partial_row kp g cl nd y) = cmds y.
Proof. intros kp g cl nd y. unfold recycle_partial_row. destruct (kp && in_flight y); reflexivity. Qed.

(* the unrepaired shape on a benign re-declaration of a step in flight: the row keeps what matters *)
Lemma full_row_benign : forall cl nd eo y, in_flight y = true -> Krow y -> Vrow y -> NoDup (map fst cl) ->
  (st y = Checking \/ (holding y = 0%N /\ cl = rclaims y)) ->
  Krow (recycle_full_row false cl nd eo y) /\ Vrow (recycle_full_row false cl nd eo y) /\
  forall r, row_cmd_used r (recycle_full_row false cl nd eo y) = row_cmd_used r y.
Proof.
  intros cl nd eo y Hf HK HV Hnd Hb. unfold recycle_full_row. cbn [andb].
  set (z := run_ops false eo cl after_recycle_ops y).
  assert (Hcm : cmds z = cmds y) by apply run_ops_cmds.
  assert (Hu : forall r, row_cmd_used r (set_meta (false, nd, false) z) = row_cmd_used r y)
    by (intro r; unfold row_cmd_used; proj; rewrite Hcm; reflexivity).
  destruct Hb as [Hc|[Hh Hcl]].
  - assert (Hnr : st y <> Running) by (rewrite Hc; discriminate).
    destruct (Krow_not_running y HK Hnr) as [Hc0 Hh0].
    destruct (run_ops_QV false eo cl after_recycle_ops y Hnd (conj Hc0 (conj Hnr Hh0)) HV) as [[Q1 [Q2 Q3]] V].
    fold z in Q1, Q2, Q3, V.
    split; [|split; [|exact Hu]].
    + apply Krow_nil; proj; assumption.
    + unfold Vrow. proj. exact V.
  - assert (Hc : core z = core y) by (apply run_ops_same_core; [exact Hf|exact Hh|exact Hcl|reflexivity]).
    split; [|split; [|exact Hu]].
    + apply (Krow_core y); [|exact HK]. symmetry. exact Hc.
    + apply (Vrow_core y); [|exact HV]. symmetry. exact Hc.
Qed.

Lemma recycle_row_facts : forall kp cl nd eo y, cmds y = [] -> st y <> Running -> holding y = 0%N -> Vrow y ->
  NoDup (map fst cl) ->
  let z := recycle_full_row kp cl nd eo y in
  Krow z /\ Vrow z /\ forall r, row_cmd_used r z = 0%N.
Proof.
  intros kp cl nd eo y Hc Hs Hh HV Hnd z. subst z. unfold recycle_full_row.
  assert (HQ : Qrow y) by (repeat split; assumption).
  destruct (kp && in_flight y).
  - repeat split.
    + apply Krow_nil; proj; assumption.
    + unfold Vrow. proj. exact HV.
    + intro r. unfold row_cmd_used. proj. rewrite Hc. reflexivity.
  - destruct (run_ops_QV false eo cl after_recycle_ops y Hnd HQ HV) as [[Q1 [Q2 Q3]] V].
    repeat split.
    + apply Krow_nil; proj; assumption.
    + unfold Vrow. proj. exact V.
    + intro r. unfold row_cmd_used. proj. rewrite Q1. reflexivity.
Qed.

Lemma Inv_step : forall s e, Inv s -> (keep || rej = true \/ calm_event s e) -> Inv (apply_gen keep rej s e).
Proof.
  intros s e HI Hq. unfold apply_gen. destruct (step_gen keep rej s e) as [s'|] eqn:Es; [|exact HI].
  rewrite (sys_eta s) in HI. destruct e as [m|i|i|i k o|i c|p l g cl nd eo|i k|i k|i]; simpl in Es.
  - (* ESetMeta *)
    inversion Es; subst; clear Es. unfold with_db. eapply Inv_ext; [|exact HI].
    apply setmeta_core. rewrite app_length, repeat_length. lia.
  - (* EDispatch *)
    destruct (nth_error (db s) i) as [x|] eqn:En; [|discriminate].
    destruct (eligible_row s x) eqn:El; [|discriminate]. inversion Es; subst; clear Es.
    unfold with_db. destruct HI as [HK [HV HR]]. simpl in HK, HV, HR.
    pose proof (Forall_nth _ _ _ _ HK En) as HKx. pose proof (Forall_nth _ _ _ _ HV En) as HVx.
    unfold eligible_row in El. apply andb_prop in El. destruct El as [Ew Ex].
    apply dispatch_where_pending in Ew. destruct Ew as [Ec _].
    assert (Hst : st x = Pending) by (apply code_inj; exact Ec).
    assert (Hnr : st x <> Running) by (rewrite Hst; discriminate).
    destruct (Krow_not_running x HKx Hnr) as [Hc Hh].
    apply select_extra_spec in Ex. destruct Ex as [_ Ex].
    destruct (has_hash x) eqn:Ehh.
    + (* checking: no command *)
      apply (Inv_local (db s) (avail s) (threshold s) i _ x); [repeat split; assumption|exact En| | |].
      * rewrite dispatch_checking. apply Krow_nil; proj; [exact Hc|discriminate|exact Hh].
      * exact HVx.
      * intro r. unfold row_cmd_used. proj. lia.
    + (* running: the guard *)
      destruct Ex as [Ex|Ex]; [discriminate|].
      rewrite dispatch_running. simpl. repeat split; simpl.
      * apply Forall_upd; [exact HK|]. intros y Hy _. rewrite En in Hy. inversion Hy; subst y.
        unfold Krow. simpl. rewrite Hc. simpl. repeat split. symmetry. exact Hh.
      * apply Forall_upd; [exact HV|]. intros y Hy Hv. exact Hv.
      * intro r.
        set (f := fun y : row => set_cmds (cmds y ++ [mkCmd (rclaims y) 0]) (set_st Running y)).
        pose proof (sum_upd (row_cmd_used r) (db s) i f x En) as E.
        pose proof (dispatch_guard_res s x r HK HVx Ex HR) as G.
        assert (A1 : row_cmd_used r x = 0%N) by (unfold row_cmd_used; rewrite Hc; reflexivity).
        assert (A2 : row_cmd_used r (f x) = claim r (rclaims x)).
        { unfold f, row_cmd_used. simpl. rewrite Hc. simpl. unfold cmd_units. simpl. lia. }
        rewrite A1, A2 in E. unfold cmd_used in *. lia.
  - (* EReset *)
    destruct (nth_error (db s) i); [|discriminate]. inversion Es; subst. unfold with_db.
    eapply Inv_ext; [apply detach_created_core|exact HI].
  - (* EComplete *)
    destruct (nth_error (db s) i) as [x|] eqn:En; [|discriminate].
    destruct (nth_error (cmds x) k) as [m|] eqn:Ek; [|discriminate]. inversion Es; subst; clear Es.
    pose proof HI as [HK [HV HR]]. simpl in HK, HV.
    pose proof (Forall_nth _ _ _ _ HK En) as HKx. pose proof (Forall_nth _ _ _ _ HV En) as HVx.
    destruct (Krow_cmd x k m HKx Ek) as [Hc [Hk0 _]]. subst k.
    assert (HL : Inv (mkSys (upd (db s) i (fun y => set_has_hash (match o with OSucc => true | _ => false end)
                 (set_state_tr (state_of_outcome o) (set_cmds (remove_nth 0 (cmds y)) y)))) (avail s) (threshold s))).
    { assert (Hns : state_of_outcome o <> Running) by (destruct o; discriminate).
      assert (Hrm : cmds (set_cmds (remove_nth 0 (cmds x)) x) = []) by (cbn [cmds set_cmds]; rewrite Hc; reflexivity).
      apply (Inv_local _ _ _ _ _ x HI En).
      - exact (proj1 (K_state_change _ _ _ Hns Hrm)).
      - exact (proj1 (V_state_change _ _ (set_cmds (remove_nth 0 (cmds x)) x) HVx)).
      - intro r. destruct (C_state_change r (state_of_outcome o) (match o with OSucc => true | _ => false end)
                           (set_cmds (remove_nth 0 (cmds x)) x)) as [C1 _]. rewrite C1.
        unfold row_cmd_used at 1. rewrite Hrm. simpl. lia. }
    unfold with_db. destruct o; try exact HL. eapply Inv_ext; [apply detach_created_core|exact HL].
  - (* ECheckDone *)
    destruct (nth_error (db s) i) as [x|] eqn:En; [|discriminate].
    destruct (sstate_eqb (st x) Checking) eqn:Ec; [|discriminate]. apply sstate_eqb_eq in Ec.
    pose proof HI as [HK [HV HR]]. simpl in HK, HV.
    pose proof (Forall_nth _ _ _ _ HK En) as HKx. pose proof (Forall_nth _ _ _ _ HV En) as HVx.
    assert (Hnr : st x <> Running) by (rewrite Ec; discriminate).
    destruct (Krow_not_running x HKx Hnr) as [Hc Hh].
    destruct c; inversion Es; subst; clear Es; unfold with_db.
    + apply (Inv_local _ _ _ _ (fun y => set_has_hash true (set_state_tr Succeeded y)) x HI En).
      * assert (Hns : Succeeded <> Running) by discriminate. exact (proj1 (K_state_change _ true _ Hns Hc)).
      * exact (proj1 (V_state_change Succeeded true x HVx)).
      * intro r. destruct (C_state_change r Succeeded true x) as [C1 _]. rewrite C1. lia.
    + pose proof (detach_created_core (db s) i) as Hd.
      destruct (core_nth _ _ _ _ Hd En) as [x' [En' Hx']].
      assert (HI' : Inv (mkSys (detach_created (db s) i) (avail s) (threshold s))) by (eapply Inv_ext; eassumption).
      apply core_inv in Hx'. destruct Hx' as [Y1 [Y2 [Y3 Y4]]].
      apply (Inv_local _ _ _ _ (fun y => set_state_tr Pending (set_has_hash false y)) x' HI' En').
      * assert (Hns : Pending <> Running) by discriminate.
        assert (Hc' : cmds (set_has_hash false x') = []) by (cbn [cmds set_has_hash]; rewrite Y4; exact Hc).
        exact (proj2 (K_state_change _ false _ Hns Hc')).
      * assert (Hv' : Vrow (set_has_hash false x')) by (unfold Vrow; cbn [rclaims set_has_hash]; rewrite Y3; exact HVx).
        exact (proj2 (V_state_change Pending false _ Hv')).
      * intro r. destruct (C_state_change r Pending false (set_has_hash false x')) as [_ C2]. rewrite C2.
        unfold row_cmd_used. cbn [cmds set_has_hash]. lia.
    + apply (Inv_local _ _ _ _ (set_state_tr Pending) x HI En).
      * assert (Hns : Pending <> Running) by discriminate. exact (proj2 (K_state_change _ false _ Hns Hc)).
      * exact (proj2 (V_state_change Pending false x HVx)).
      * intro r. destruct (C_state_change r Pending false x) as [_ C2]. rewrite C2. lia.
  - (* EDefine *)
    destruct (nth_error (db s) p) as [px|] eqn:Ep; [|discriminate].
    destruct (valid_claims cl) eqn:Ev; simpl in Es; [|discriminate].
    pose proof (valid_claims_NoDup cl Ev) as Hnd.
    destruct (find_label l (db s)) as [i|] eqn:Ef.
    + destruct (nth_error (db s) i) as [x|] eqn:En; [|discriminate].
      destruct (attached x); [discriminate|]. destruct (Nat.eqb i p); [discriminate|].
      match type of Es with (if ?c then _ else _) = _ => destruct c; [discriminate|] end.
      destruct (rej && in_flight x) eqn:Erj; [discriminate|].
      pose proof HI as [HK [HV HR]]. simpl in HK, HV.
      pose proof (Forall_nth _ _ _ _ HK En) as HKx.
      (* the recycled row: same core as x in the table that the bulk operations produced *)
      assert (Hrow : forall d2 f, map core d2 = map core (db s) ->
                (forall y, core y = core x -> in_flight y = true -> keep = true -> core (f y) = core y) ->
                (forall y, core y = core x -> in_flight y = false ->
                   Krow (f y) /\ Vrow (f y) /\ forall r, row_cmd_used r (f y) = 0%N) ->
                (benign_redeclare x g cl -> keep = false -> forall y, core y = core x -> in_flight y = true -> Krow y ->
                   Krow (f y) /\ Vrow (f y) /\ forall r, row_cmd_used r (f y) = row_cmd_used r y) ->
                Inv (mkSys (upd d2 i f) (avail s) (threshold s))).
      { intros d2 f H2 Hkept Hreset Hben.
        destruct (core_nth _ _ _ _ H2 En) as [x2 [En2 Hx2]].
        assert (HI2 : Inv (mkSys d2 (avail s) (threshold s))) by (eapply Inv_ext; eassumption).
        pose proof HI2 as [HK2 [HV2 _]]. simpl in HK2, HV2.
        pose proof (Forall_nth _ _ _ _ HK2 En2) as HKx2. pose proof (Forall_nth _ _ _ _ HV2 En2) as HVx2.
        destruct (in_flight x2) eqn:Ei2.
        - (* in flight: the repaired shape, or a benign re-declaration *)
          destruct (Bool.bool_dec keep true) as [Hkeep|Hnk].
          + pose proof (Hkept x2 Hx2 Ei2 Hkeep) as Hc2.
            apply (Inv_local _ _ _ _ _ x2 HI2 En2).
            * eapply Krow_core; [symmetry; exact Hc2|exact HKx2].
            * eapply Vrow_core; [symmetry; exact Hc2|exact HVx2].
            * intro r. rewrite (row_cmd_used_core r _ _ Hc2). lia.
          + apply not_true_is_false in Hnk.
            assert (Hb : benign_redeclare x g cl).
            { destruct Hq as [Hq|Hq].
              - exfalso. rewrite (in_flight_core _ _ Hx2) in Ei2. rewrite Ei2, andb_true_r in Erj.
                rewrite Erj, Hnk in Hq. discriminate.
              - simpl in Hq. rewrite Ef, En in Hq. destruct Hq as [[Hq1 Hq2]|Hb]; [exfalso|exact Hb].
                rewrite (in_flight_core _ _ Hx2) in Ei2. apply in_flight_true in Ei2. destruct Ei2 as [Ei2|Ei2]; [|contradiction].
                unfold Krow in HKx. rewrite Hq1 in HKx. tauto. }
            destruct (Hben Hb Hnk x2 Hx2 Ei2 HKx2) as [R1 [R2 R3]].
            apply (Inv_local _ _ _ _ _ x2 HI2 En2); [exact R1|exact R2|].
            intro r. rewrite (R3 r). lia.
        - destruct (Hreset x2 Hx2 Ei2) as [R1 [R2 R3]].
          apply (Inv_local _ _ _ _ _ x2 HI2 En2); [exact R1|exact R2|].
          intro r. rewrite (R3 r). lia. }
      destruct (outs_match (sig x) g) eqn:Eom.
      * (* full recycle *)
        unfold recycle_full in Es. destruct (lose_product (db s) x) as [d0|] eqn:El; [|discriminate].
        inversion Es; subst; clear Es. unfold with_db.
        pose proof (lose_product_core _ _ _ El) as H0.
        set (d1 := upd d0 i (fun y => set_attached (attached px) (set_creator (Some p) y))).
        assert (H1 : map core d1 = map core (db s)).
        { unfold d1. rewrite map_upd_ext; [exact H0|intros; reflexivity]. }
        apply Hrow.
        -- rewrite set_attached_in_core. exact H1.
        -- intros y _ Hy Hk. rewrite Hk. apply full_row_kept. exact Hy.
        -- intros y Hy Hf.
           pose proof (Vrow_core _ _ (eq_sym Hy) (Forall_nth _ _ _ _ HV En)) as HVy.
           apply core_inv in Hy. destruct Hy as [Y1 [Y2 [Y3 Y4]]].
           destruct (in_flight_false y Hf) as [Hnr _].
           assert (Hnrx : st x <> Running) by (rewrite <- Y1; exact Hnr).
           destruct (Krow_not_running x HKx Hnrx) as [Hc Hh].
           apply recycle_row_facts; [rewrite Y4; exact Hc|exact Hnr|rewrite Y2; exact Hh|exact HVy|exact Hnd].
        -- intros [_ Hb] Hk y Hy Hf HKy. rewrite Hk.
           pose proof (Vrow_core _ _ (eq_sym Hy) (Forall_nth _ _ _ _ HV En)) as HVy.
           apply core_inv in Hy. destruct Hy as [Y1 [Y2 [Y3 Y4]]].
           apply full_row_benign; [exact Hf|exact HKy|exact HVy|exact Hnd|].
           destruct Hb as [Hc|[Hh Hcl]]; [left; rewrite Y1; exact Hc|right; split; [rewrite Y2; exact Hh|rewrite Y3; exact Hcl]].
      * (* partial recycle *)
        unfold recycle_partial in Es. destruct (lose_product (db s) x) as [d0|] eqn:El; [|discriminate].
        inversion Es; subst; clear Es. unfold with_db.
        pose proof (lose_product_core _ _ _ El) as H0.
        set (d1 := upd d0 i (fun y => set_attached (attached px) (set_creator (Some p) y))).
        assert (H1 : map core d1 = map core (db s)).
        { unfold d1. rewrite map_upd_ext; [exact H0|intros; reflexivity]. }
        apply Hrow.
        -- rewrite detach_created_core. exact H1.
        -- intros y _ Hy Hk. rewrite Hk. apply partial_row_kept. exact Hy.
        -- intros y Hy Hf. rewrite (partial_row_reset keep g cl nd y Hf).
           apply core_inv in Hy. destruct Hy as [Y1 [Y2 [Y3 Y4]]].
           destruct (in_flight_false y Hf) as [Hnr _].
           assert (Hnrx : st x <> Running) by (rewrite <- Y1; exact Hnr).
           destruct (Krow_not_running x HKx Hnrx) as [Hc Hh].
           repeat split.
           ++ apply Krow_nil; proj; [rewrite Y4; exact Hc|rewrite partial_state_pending; discriminate|reflexivity].
           ++ unfold Vrow. proj. exact Hnd.
           ++ intro r. unfold row_cmd_used. proj. rewrite Y4, Hc. reflexivity.
        -- intros [Hb _]. rewrite Hb in Eom. discriminate.
    + (* new row *)
      inversion Es; subst; clear Es. unfold with_db. destruct HI as [HK [HV HR]]. simpl in *.
      repeat split; simpl.
      * apply Forall_app. split; [exact HK|]. constructor; [|constructor]. apply Krow_nil; proj; [reflexivity|discriminate|reflexivity].
      * apply Forall_app. split; [exact HV|]. constructor; [|constructor]. unfold Vrow. proj. exact Hnd.
      * intro r. unfold cmd_used. rewrite map_app, sumN_app.
        specialize (HR r). unfold cmd_used in HR.
        change (sumN (map (row_cmd_used r) [new_row p (attached px) l g cl nd])) with 0%N. lia.
  - (* EHold *)
    destruct (nth_error (db s) i) as [x|] eqn:En; [|discriminate].
    destruct (nth_error (cmds x) k) as [m|] eqn:Ek; [|discriminate]. inversion Es; subst; clear Es.
    pose proof HI as [HK [HV HR]]. simpl in HK, HV.
    pose proof (Forall_nth _ _ _ _ HK En) as HKx. pose proof (Forall_nth _ _ _ _ HV En) as HVx.
    destruct (Krow_cmd x k m HKx Ek) as [Hc [Hk0 [Hs [Hh Hd]]]]. subst k.
    unfold with_db. apply (Inv_local _ _ _ _ _ x HI En).
    + unfold Krow. simpl. rewrite Hc. simpl. repeat split; [exact Hs|exact Hh|]. unfold hold_step. rewrite Hd. reflexivity.
    + exact HVx.
    + intro r. unfold row_cmd_used. proj. rewrite Hc. simpl. unfold cmd_units. simpl. lia.
  - (* ERelease *)
    destruct (nth_error (db s) i) as [x|] eqn:En; [|discriminate].
    destruct (nth_error (cmds x) k) as [m|] eqn:Ek; [|discriminate].
    destruct (release_guard (holding x)); [|discriminate]. inversion Es; subst; clear Es.
    pose proof HI as [HK [HV HR]]. simpl in HK, HV.
    pose proof (Forall_nth _ _ _ _ HK En) as HKx. pose proof (Forall_nth _ _ _ _ HV En) as HVx.
    destruct (Krow_cmd x k m HKx Ek) as [Hc [Hk0 [Hs [Hh Hd]]]]. subst k.
    unfold with_db. apply (Inv_local _ _ _ _ _ x HI En).
    + unfold Krow. simpl. rewrite Hc. simpl. repeat split; [exact Hs|exact Hh|]. unfold release_step. rewrite Hd. reflexivity.
    + exact HVx.
    + intro r. unfold row_cmd_used. proj. rewrite Hc. simpl. unfold cmd_units. simpl. lia.
  - (* EMarkPending *)
    destruct (nth_error (db s) i) as [x|] eqn:En; [|discriminate].
    destruct (sstate_eqb (st x) Running || sstate_eqb (st x) Checking) eqn:Eb.
    + inversion Es; subst. rewrite <- sys_eta in HI. exact HI.
    + inversion Es; subst; clear Es. apply orb_false_elim in Eb. destruct Eb as [Eb _].
      assert (Hnr : st x <> Running) by (intro Hc; apply sstate_eqb_eq in Hc; congruence).
      pose proof HI as [HK [HV HR]]. simpl in HK, HV.
      pose proof (Forall_nth _ _ _ _ HK En) as HKx. pose proof (Forall_nth _ _ _ _ HV En) as HVx.
      destruct (Krow_not_running x HKx Hnr) as [Hc Hh].
      unfold with_db. apply (Inv_local _ _ _ _ _ x HI En).
      * assert (Hns : Pending <> Running) by discriminate. exact (proj2 (K_state_change _ false _ Hns Hc)).
      * exact (proj2 (V_state_change Pending false x HVx)).
      * intro r. destruct (C_state_change r Pending false x) as [_ C2]. rewrite C2. lia.
Qed.

Lemma step_avail : forall s e s', step_gen keep rej s e = Some s' -> avail s' = avail s /\ threshold s' = threshold s.
Proof.
  intros s e s' H. destruct e; simpl in H;
    repeat match type of H with
           | context [match ?X with _ => _ end] => destruct X; try discriminate
           end; inversion H; subst; split; reflexivity.
Qed.

Lemma apply_avail : forall s e, avail (apply_gen keep rej s e) = avail s.
Proof.
  intros s e. unfold apply_gen. destruct (step_gen keep rej s e) eqn:E; [|reflexivity]. apply step_avail in E. tauto.
Qed.

Lemma run_avail : forall evs s, avail (run_gen keep rej s evs) = avail s.
Proof.
  induction evs as [|e r IH]; intro s; [reflexivity|].
  change (run_gen keep rej s (e :: r)) with (run_gen keep rej (apply_gen keep rej s e) r). rewrite IH. apply apply_avail.
Qed.

Lemma Inv_run : forall evs s, Inv s -> (keep || rej = true \/ calm_gen keep rej s evs) -> Inv (run_gen keep rej s evs).
Proof.
  induction evs as [|e r IH]; intros s HI Hq; [exact HI|].
  change (run_gen keep rej s (e :: r)) with (run_gen keep rej (apply_gen keep rej s e) r).
  apply (IH (apply_gen keep rej s e)).
  - apply Inv_step; [exact HI|]. destruct Hq as [Hq|[Hq1 Hq2]]; [left; exact Hq|right; exact Hq1].
  - destruct Hq as [Hq|[Hq1 Hq2]]; [left; exact Hq|right; exact Hq2].
Qed.

Theorem resources_never_overcommitted_partial_proof :
  forall (s0 : sys) (evs : list event),
    Inv s0 -> (keep || rej = true \/ calm_gen keep rej s0 evs) ->
    forall r, (cmd_used r (db (run_gen keep rej s0 evs)) <= availz (avail s0) r)%N.
Proof.
  intros s0 evs HI Hq r. destruct (Inv_run evs s0 HI Hq) as [_ [_ HR]].
  rewrite <- (run_avail evs s0). apply HR.
Qed.

(* ------------------------------------------------------------------------------------------ *)
(* Undefined resources: unconditional                                                          *)
(* ------------------------------------------------------------------------------------------ *)

Definition Uall (a : claims) (d : list row) : Prop := Forall (Urow a) d.

Lemma Urow_sub : forall a x y,
  (forall m, In m (cmds y) -> exists m', In m' (cmds x) /\ held m' = held m) -> Urow a x -> Urow a y.
Proof.
  intros a x y H HU m Hm e He. destruct (H m Hm) as [m' [Hm' Eh]]. apply (HU m' Hm'). rewrite Eh. exact He.
Qed.

Lemma Urow_same : forall a x y, cmds y = cmds x -> Urow a x -> Urow a y.
Proof. intros a x y H. apply Urow_sub. intros m Hm. exists m. rewrite <- H. split; [exact Hm|reflexivity]. Qed.

Lemma Uall_ext : forall a d d', map core d' = map core d -> Uall a d -> Uall a d'.
Proof. intros a d d' H. apply Forall_core; [apply Urow_core|exact H]. Qed.

Lemma In_remove_nth : forall {A} k (l : list A) m, In m (remove_nth k l) -> In m l.
Proof.
  intros A k l. revert k. induction l as [|x r IH]; intros k m H; destruct k; simpl in *; try contradiction.
  - right. exact H.
  - destruct H as [H|H]; [left; exact H|right; eapply IH; exact H].
Qed.

Lemma In_upd_held : forall k (l : list cmd) (g : cmd -> cmd) m,
  (forall c, held (g c) = held c) -> In m (upd l k g) -> exists m', In m' l /\ held m' = held m.
Proof.
  intros k l. revert k. induction l as [|x r IH]; intros k g m Hg H; destruct k; simpl in *; try contradiction.
  - destruct H as [H|H]; [exists x; split; [left; reflexivity|rewrite <- H; symmetry; apply Hg]|exists m; split; [right; exact H|reflexivity]].
  - destruct H as [H|H]; [exists m; split; [left; exact H|reflexivity]|].
    destruct (IH k g m Hg H) as [m' [H1 H2]]. exists m'. split; [right; exact H1|exact H2].
Qed.

Lemma U_step : forall s e, Uall (avail s) (db s) -> Uall (avail s) (db (apply_gen keep rej s e)).
Proof.
  intros s e HU. unfold apply_gen. destruct (step_gen keep rej s e) as [s'|] eqn:Es; [|exact HU].
  destruct e as [m|i|i|i k o|i c|p l g cl nd eo|i k|i k|i]; simpl in Es.
  - inversion Es; subst; clear Es. simpl. eapply Uall_ext; [|exact HU].
    apply setmeta_core. rewrite app_length, repeat_length. lia.
  - destruct (nth_error (db s) i) as [x|] eqn:En; [|discriminate].
    destruct (eligible_row s x) eqn:El; [|discriminate]. inversion Es; subst; clear Es. simpl.
    apply Forall_upd; [exact HU|]. intros y Hy HUy. rewrite En in Hy. inversion Hy; subst y.
    destruct (has_hash x) eqn:Ehh; [apply (Urow_same _ x); [reflexivity|exact HUy]|].
    unfold eligible_row in El. apply andb_prop in El. destruct El as [_ Ex].
    apply select_extra_spec in Ex. destruct Ex as [_ [Ex|Ex]]; [rewrite Ehh in Ex; discriminate|].
    intros m Hm e He. cbn [cmds set_cmds] in Hm. apply in_app_or in Hm. destruct Hm as [Hm|Hm].
    + exact (HUy m Hm e He).
    + destruct Hm as [Hm|[]]. subst m. cbn [held] in He.
      unfold res_unavailable in Ex.
      destruct (lookup (fst e) (avail s)) eqn:El; [discriminate|].
      assert (Hb : req_blocked s e = true) by (unfold req_blocked; rewrite El; reflexivity).
      assert (existsb (req_blocked s) (rclaims x) = true) by (apply existsb_exists; exists e; split; assumption).
      congruence.
  - destruct (nth_error (db s) i); [|discriminate]. inversion Es; subst. simpl.
    eapply Uall_ext; [apply detach_created_core|exact HU].
  - destruct (nth_error (db s) i) as [x|] eqn:En; [|discriminate].
    destruct (nth_error (cmds x) k) as [m|] eqn:Ek; [|discriminate]. inversion Es; subst; clear Es. simpl.
    assert (HL : Uall (avail s) (upd (db s) i (fun y => set_has_hash (match o with OSucc => true | _ => false end)
                 (set_state_tr (state_of_outcome o) (set_cmds (remove_nth k (cmds y)) y))))).
    { apply Forall_upd; [exact HU|]. intros y Hy HUy. apply (Urow_sub _ y); [|exact HUy].
      intros m0 Hm0. destruct (set_state_tr_fields (state_of_outcome o) (set_cmds (remove_nth k (cmds y)) y)) as [_ [_ [F3 _]]].
      change (In m0 (cmds (set_state_tr (state_of_outcome o) (set_cmds (remove_nth k (cmds y)) y)))) in Hm0.
      rewrite F3 in Hm0. cbn [cmds set_cmds] in Hm0. exists m0. split; [eapply In_remove_nth; exact Hm0|reflexivity]. }
    destruct o; try exact HL. eapply Uall_ext; [apply detach_created_core|exact HL].
  - destruct (nth_error (db s) i) as [x|] eqn:En; [|discriminate].
    destruct (sstate_eqb (st x) Checking); [|discriminate].
    destruct c; inversion Es; subst; clear Es; simpl.
    + apply Forall_upd; [exact HU|]. intros y Hy HUy. apply (Urow_same _ y); [|exact HUy].
      destruct (set_state_tr_fields Succeeded y) as [_ [_ [F3 _]]]. exact F3.
    + apply Forall_upd; [eapply Uall_ext; [apply detach_created_core|exact HU]|]. intros y Hy HUy.
      apply (Urow_same _ y); [|exact HUy].
      destruct (set_state_tr_fields Pending (set_has_hash false y)) as [_ [_ [F3 _]]]. exact F3.
    + apply Forall_upd; [exact HU|]. intros y Hy HUy. apply (Urow_same _ y); [|exact HUy].
      destruct (set_state_tr_fields Pending y) as [_ [_ [F3 _]]]. exact F3.
  - destruct (nth_error (db s) p) as [px|] eqn:Ep; [|discriminate].
    destruct (valid_claims cl) eqn:Ev; simpl in Es; [|discriminate].
    destruct (find_label l (db s)) as [i|] eqn:Ef.
    + destruct (nth_error (db s) i) as [x|] eqn:En; [|discriminate].
      destruct (attached x); [discriminate|]. destruct (Nat.eqb i p); [discriminate|].
      match type of Es with (if ?c then _ else _) = _ => destruct c; [discriminate|] end.
      destruct (rej && in_flight x); [discriminate|].
      destruct (outs_match (sig x) g).
      * unfold recycle_full in Es. destruct (lose_product (db s) x) as [d0|] eqn:El; [|discriminate].
        inversion Es; subst; clear Es. simpl.
        apply Forall_upd.
        -- eapply Uall_ext; [|exact HU]. rewrite set_attached_in_core.
           rewrite map_upd_ext; [eapply lose_product_core; exact El|intros; reflexivity].
        -- intros y Hy HUy. apply (Urow_same _ y); [apply full_row_cmds|exact HUy].
      * unfold recycle_partial in Es. destruct (lose_product (db s) x) as [d0|] eqn:El; [|discriminate].
        inversion Es; subst; clear Es. simpl.
        apply Forall_upd.
        -- eapply Uall_ext; [|exact HU]. rewrite detach_created_core.
           rewrite map_upd_ext; [eapply lose_product_core; exact El|intros; reflexivity].
        -- intros y Hy HUy. apply (Urow_same _ y); [apply partial_row_cmds|exact HUy].
    + inversion Es; subst; clear Es. simpl. apply Forall_app. split; [exact HU|].
      constructor; [|constructor]. intros m Hm. contradiction.
  - destruct (nth_error (db s) i) as [x|] eqn:En; [|discriminate].
    destruct (nth_error (cmds x) k) as [m|] eqn:Ek; [|discriminate]. inversion Es; subst; clear Es. simpl.
    apply Forall_upd; [exact HU|]. intros y Hy HUy. apply (Urow_sub _ y); [|exact HUy].
    intros m0 Hm0. cbn [cmds set_cmds] in Hm0. eapply In_upd_held; [|exact Hm0]. reflexivity.
  - destruct (nth_error (db s) i) as [x|] eqn:En; [|discriminate].
    destruct (nth_error (cmds x) k) as [m|] eqn:Ek; [|discriminate].
    destruct (release_guard (holding x)); [|discriminate]. inversion Es; subst; clear Es. simpl.
    apply Forall_upd; [exact HU|]. intros y Hy HUy. apply (Urow_sub _ y); [|exact HUy].
    intros m0 Hm0. cbn [cmds set_cmds] in Hm0. eapply In_upd_held; [|exact Hm0]. reflexivity.
  - destruct (nth_error (db s) i) as [x|] eqn:En; [|discriminate].
    destruct (sstate_eqb (st x) Running || sstate_eqb (st x) Checking).
    + inversion Es; subst. exact HU.
    + inversion Es; subst; clear Es. simpl. apply Forall_upd; [exact HU|]. intros y Hy HUy.
      apply (Urow_same _ y); [|exact HUy]. destruct (set_state_tr_fields Pending y) as [_ [_ [F3 _]]]. exact F3.
Qed.

Theorem undefined_resource_never_runs_proof :
  forall (s0 : sys) (evs : list event),
    Uall (avail s0) (db s0) ->
    forall x m e, In x (db (run_gen keep rej s0 evs)) -> In m (cmds x) -> In e (held m) -> lookup (fst e) (avail s0) <> None.
Proof.
  intros s0 evs. revert s0. induction evs as [|ev r IH]; intros s0 HU x m e Hx Hm He.
  - unfold Uall in HU. rewrite Forall_forall in HU. exact (HU x Hx m Hm e He).
  - change (run_gen keep rej s0 (ev :: r)) with (run_gen keep rej (apply_gen keep rej s0 ev) r) in Hx.
    rewrite <- (apply_avail s0 ev). apply (IH (apply_gen keep rej s0 ev)) with (x := x) (m := m); try assumption.
    rewrite apply_avail. apply U_step. exact HU.
Qed.

(* the dispatch decision itself: a step that requires an undefined resource is not moved to RUNNING *)
Theorem undefined_blocks_dispatch :
  forall s i x e, nth_error (db s) i = Some x -> has_hash x = false -> In e (rclaims x) ->
    lookup (fst e) (avail s) = None -> step_gen keep rej s (EDispatch i) = None.
Proof.
  intros s i x e En Eh He El. simpl. rewrite En.
  destruct (eligible_row s x) eqn:Ee; [|reflexivity]. exfalso.
  unfold eligible_row in Ee. apply andb_prop in Ee. destruct Ee as [_ Ex].
  apply select_extra_spec in Ex. destruct Ex as [_ [Ex|Ex]]; [congruence|].
  unfold res_unavailable in Ex.
  assert (Hb : req_blocked s e = true) by (unfold req_blocked; rewrite El; reflexivity).
  assert (existsb (req_blocked s) (rclaims x) = true) by (apply existsb_exists; exists e; split; assumption).
  congruence.
Qed.

(* ------------------------------------------------------------------------------------------ *)
(* Holds                                                                                       *)
(* ------------------------------------------------------------------------------------------ *)

Inductive anc (d : list row) : nat -> nat -> Prop :=
| anc_parent : forall i x c, nth_error d i = Some x -> creator x = Some c -> anc d i c
| anc_trans : forall i x c a, nth_error d i = Some x -> creator x = Some c -> anc d c a -> anc d i a.

Definition row_ok (x : row) : Prop := holding x = 0%N /\ (st x = Running \/ st x = Succeeded).
Definition row_ok_nh (x : row) : Prop := st x = Running \/ st x = Succeeded.

Lemma ok_code_state : forall s, ok_code (code s) -> s = Running \/ s = Succeeded.
Proof. intros s [H|H]; [left|right]; apply code_inj; exact H. Qed.

Lemma chain_ok : forall fuel d c, fst (chain fuel d c) = true ->
  (exists x, nth_error d c = Some x /\ row_ok x) /\
  forall a, anc d c a -> exists ax, nth_error d a = Some ax /\ row_ok ax.
Proof.
  induction fuel as [|f IH]; intros d c H; simpl in H; [discriminate|].
  destruct (nth_error d c) as [x|] eqn:En; [|discriminate].
  destruct (creator x) as [cc|] eqn:Ec; simpl in H.
  - apply rec_chain_spec in H. destruct H as [H1 [H2 H3]].
    destruct (IH d cc H1) as [[cx [Ecx Hcx]] Hanc]. split.
    + exists x. split; [reflexivity|]. split; [exact H3|apply ok_code_state; exact H2].
    + intros a Ha. inversion Ha; subst.
      * rewrite En in H. inversion H; subst. rewrite Ec in H0. inversion H0; subst. exists cx. split; assumption.
      * rewrite En in H. inversion H; subst. rewrite Ec in H0. inversion H0; subst. apply Hanc. assumption.
  - apply seed_chain_root_spec in H. destruct H as [H2 H3]. split.
    + exists x. split; [reflexivity|]. split; [exact H3|apply ok_code_state; exact H2].
    + intros a Ha. inversion Ha; subst; rewrite En in H; inversion H; subst; congruence.
Qed.

Lemma rec_chain_nh_spec : forall ch chn ps ph, rec_chain_nh ch chn ps ph = true -> chn = true /\ ok_code ps.
Proof.
  intros ch chn ps ph H. unfold rec_chain_nh in H. apply andb_prop in H. destruct H as [H1 H2].
  split; [exact H1|apply ok_code_of_eqbs; exact H2].
Qed.

Lemma chain_nh_ok : forall fuel d c, snd (chain fuel d c) = true ->
  (exists x, nth_error d c = Some x /\ row_ok_nh x) /\
  forall a, anc d c a -> exists ax, nth_error d a = Some ax /\ row_ok_nh ax.
Proof.
  induction fuel as [|f IH]; intros d c H; simpl in H; [discriminate|].
  destruct (nth_error d c) as [x|] eqn:En; [|discriminate].
  destruct (creator x) as [cc|] eqn:Ec; simpl in H.
  - apply rec_chain_nh_spec in H. destruct H as [H1 H2].
    destruct (IH d cc H1) as [[cx [Ecx Hcx]] Hanc]. split.
    + exists x. split; [reflexivity|]. apply ok_code_state; exact H2.
    + intros a Ha. inversion Ha; subst.
      * rewrite En in H. inversion H; subst. rewrite Ec in H0. inversion H0; subst. exists cx. split; assumption.
      * rewrite En in H. inversion H; subst. rewrite Ec in H0. inversion H0; subst. apply Hanc. assumption.
  - unfold seed_chain_nh in H. simpl in H. split.
    + exists x. split; [reflexivity|]. apply ok_code_state. apply ok_code_of_eqbs. exact H.
    + intros a Ha. inversion Ha; subst; rewrite En in H0; inversion H0; subst; congruence.
Qed.

(* The dispatch decision: a step is moved to RUNNING only if every step ancestor is RUNNING or
   SUCCEEDED and has no open hold. Unconditional. *)
Theorem dispatch_running_ancestors_ok :
  forall s i x, nth_error (db s) i = Some x -> has_hash x = false -> step_gen keep rej s (EDispatch i) <> None ->
    st x = Pending /\ attached x = true /\
    forall a, anc (db s) i a ->
      exists ax, nth_error (db s) a = Some ax /\ holding ax = 0%N /\ (st ax = Running \/ st ax = Succeeded).
Proof.
  intros s i x En Eh Hacc. simpl in Hacc. rewrite En in Hacc.
  destruct (eligible_row s x) eqn:El; [|congruence]. clear Hacc.
  unfold eligible_row in El. apply andb_prop in El. destruct El as [Ew Ex]. rewrite Eh in Ew.
  apply dispatch_where_nohash in Ew. destruct Ew as [Ec Es].
  apply select_extra_spec in Ex. destruct Ex as [Ed _].
  split; [apply code_inj; exact Ec|]. split; [destruct (attached x); [reflexivity|discriminate]|].
  intros a Ha. unfold safe_pair in Es. inversion Ha; subst.
  - rewrite En in H. inversion H; subst. rewrite H0 in Es. simpl in Es. rewrite rec_safe_spec in Es.
    destruct (chain_ok _ _ _ Es) as [[cx [E1 [E2 E3]]] _]. exists cx. repeat split; assumption.
  - rewrite En in H. inversion H; subst. rewrite H0 in Es. simpl in Es. rewrite rec_safe_spec in Es.
    destruct (chain_ok _ _ _ Es) as [_ Hanc]. destruct (Hanc a H1) as [ax [E1 [E2 E3]]]. exists ax. repeat split; assumption.
Qed.

(* The hash-check bypass: with a stored hash the step may be dispatched under an open hold, but
   only to CHECKING, every ancestor is still RUNNING or SUCCEEDED, and no command is started. *)
Theorem checking_runs_no_command :
  forall s i x s', nth_error (db s) i = Some x -> has_hash x = true -> step_gen keep rej s (EDispatch i) = Some s' ->
    map cmds (db s') = map cmds (db s) /\
    (exists y, nth_error (db s') i = Some y /\ st y = Checking) /\
    forall a, anc (db s) i a -> exists ax, nth_error (db s) a = Some ax /\ (st ax = Running \/ st ax = Succeeded).
Proof.
  intros s i x s' En Eh Es. simpl in Es. rewrite En in Es.
  destruct (eligible_row s x) eqn:El; [|discriminate]. inversion Es; subst; clear Es. simpl.
  rewrite Eh, dispatch_checking. split; [|split].
  - apply map_upd_ext. intros; reflexivity.
  - exists (set_st Checking x). split; [apply nth_error_upd_same; exact En|reflexivity].
  - unfold eligible_row in El. apply andb_prop in El. destruct El as [Ew _].
    apply dispatch_where_pending in Ew. destruct Ew as [_ Ew].
    assert (Hnh : snd (safe_pair (db s) x) = true).
    { destruct Ew as [Ew|[_ Ew]]; [|exact Ew]. unfold safe_pair in *. destruct (creator x) as [c|]; simpl in *.
      - rewrite rec_safe_spec in Ew. apply chain_nh_weaker. exact Ew.
      - reflexivity. }
    intros a Ha. unfold safe_pair in Hnh. inversion Ha; subst.
    + rewrite En in H. inversion H; subst. rewrite H0 in Hnh. simpl in Hnh.
      destruct (chain_nh_ok _ _ _ Hnh) as [[cx [E1 E2]] _]. exists cx. split; assumption.
    + rewrite En in H. inversion H; subst. rewrite H0 in Hnh. simpl in Hnh.
      destruct (chain_nh_ok _ _ _ Hnh) as [_ Hanc]. destruct (Hanc a H1) as [ax [E1 E2]]. exists ax. split; assumption.
Qed.

(* a failed check drops the stored hash: from then on only the full guard can dispatch the step *)
Theorem mismatch_drops_hash :
  forall s i s', step_gen keep rej s (ECheckDone i CMismatch) = Some s' ->
    exists y, nth_error (db s') i = Some y /\ has_hash y = false /\ st y = Pending.
Proof.
  intros s i s' Es. simpl in Es. destruct (nth_error (db s) i) as [x|] eqn:En; [|discriminate].
  destruct (sstate_eqb (st x) Checking); [|discriminate]. inversion Es; subst; clear Es. simpl.
  destruct (core_nth _ _ _ _ (detach_created_core (db s) i) En) as [x' [En' _]].
  exists (set_state_tr Pending (set_has_hash false x')).
  split; [exact (nth_error_upd_same _ i (fun y => set_state_tr Pending (set_has_hash false y)) x' En')|].
  destruct (set_state_tr_fields Pending (set_has_hash false x')) as [F1 [_ [_ [F4 _]]]].
  split; [rewrite F4; reflexivity|exact F1].
Qed.

(* ghost level, for histories in which no executing step is recycled *)
Theorem held_step_does_not_run_partial_proof :
  forall (s0 : sys) (evs : list event), Inv s0 -> (keep || rej = true \/ calm_gen keep rej s0 evs) ->
    let s := run_gen keep rej s0 evs in
    forall i x, nth_error (db s) i = Some x -> has_hash x = false -> step_gen keep rej s (EDispatch i) <> None ->
      forall a ax m, anc (db s) i a -> nth_error (db s) a = Some ax -> In m (cmds ax) -> depth m = 0%N.
Proof.
  intros s0 evs HI Hq s i x En Eh Hacc a ax m Ha Ea Hm.
  destruct (dispatch_running_ancestors_ok s i x En Eh Hacc) as [_ [_ Hanc]].
  destruct (Hanc a Ha) as [ax' [Ea' [Hh _]]]. rewrite Ea in Ea'. inversion Ea'; subst ax'.
  destruct (Inv_run evs s0 HI Hq) as [HK _]. fold s in HK.
  pose proof (Forall_nth _ _ _ _ HK Ea) as HKa. unfold Krow in HKa.
  destruct (cmds ax) as [|m1 [|m2 r]]; [contradiction| |contradiction].
  destruct Hm as [Hm|[]]. subst m1. destruct HKa as [_ [_ Hd]]. rewrite Hd. exact Hh.
Qed.

Theorem release_below_zero_rejected_proof :
  forall s i k x, nth_error (db s) i = Some x -> holding x = 0%N ->
    step_gen keep rej s (ERelease i k) = None /\ apply_gen keep rej s (ERelease i k) = s.
Proof.
  intros s i k x En Hh.
  assert (E : step_gen keep rej s (ERelease i k) = None).
  { simpl. rewrite En. destruct (nth_error (cmds x) k); [|reflexivity].
    destruct (release_guard (holding x)) eqn:Eg; [|reflexivity].
    apply release_guard_spec in Eg. contradiction. }
  split; [exact E|]. unfold apply_gen. rewrite E. reflexivity.
Qed.

(* nested holds: the counter follows hold/release exactly *)
Theorem hold_release_counter :
  forall s i k x m, nth_error (db s) i = Some x -> nth_error (cmds x) k = Some m ->
    (exists y, nth_error (db (apply_gen keep rej s (EHold i k))) i = Some y /\ holding y = (holding x + 1)%N) /\
    (holding x <> 0%N ->
       exists y, nth_error (db (apply_gen keep rej s (ERelease i k))) i = Some y /\ holding y = (holding x - 1)%N).
Proof.
  intros s i k x m En Ek. split.
  - unfold apply_gen. simpl. rewrite En, Ek. simpl. eexists. split; [apply nth_error_upd_same; exact En|reflexivity].
  - intro Hh. unfold apply_gen. simpl. rewrite En, Ek. apply release_guard_spec in Hh. rewrite Hh. simpl.
    eexists. split; [apply nth_error_upd_same; exact En|reflexivity].
Qed.

(* the trigger: any write of a state other than RUNNING zeroes the counter *)
Theorem holding_reset_on_leaving_running_proof :
  (forall ns x, ns <> Running -> holding (set_state_tr ns x) = 0%N) /\
  (forall s i k o s', step_gen keep rej s (EComplete i k o) = Some s' ->
     exists y, nth_error (db s') i = Some y /\ holding y = 0%N /\ st y = state_of_outcome o /\ st y <> Running).
Proof.
  split; [exact set_state_tr_holding|].
  intros s i k o s' Es. simpl in Es. destruct (nth_error (db s) i) as [x|] eqn:En; [|discriminate].
  destruct (nth_error (cmds x) k); [|discriminate]. inversion Es; subst; clear Es. simpl.
  set (f := fun y => set_has_hash (match o with OSucc => true | _ => false end)
              (set_state_tr (state_of_outcome o) (set_cmds (remove_nth k (cmds y)) y))).
  assert (Hns : state_of_outcome o <> Running) by (destruct o; discriminate).
  assert (E1 : nth_error (upd (db s) i f) i = Some (f x)) by (apply nth_error_upd_same; exact En).
  assert (Hf : holding (f x) = 0%N /\ st (f x) = state_of_outcome o).
  { unfold f. destruct (set_state_tr_fields (state_of_outcome o) (set_cmds (remove_nth k (cmds x)) x)) as [F1 _].
    split; [apply (set_state_tr_holding _ _ Hns)|exact F1]. }
  destruct Hf as [Hf1 Hf2].
  destruct o.
  - exists (f x). repeat split; try assumption. rewrite Hf2. exact Hns.
  - destruct (core_nth _ _ _ _ (detach_created_core (upd (db s) i f) i) E1) as [y [Ey Hy]].
    apply core_inv in Hy. destruct Hy as [Y1 [Y2 _]]. exists y. split; [exact Ey|].
    rewrite Y1, Y2. repeat split; try assumption. rewrite Hf2. exact Hns.
  - exists (f x). repeat split; try assumption. rewrite Hf2. exact Hns.
Qed.

(* consequence for failed (or pending) creators: their children are not dispatched to RUNNING *)
Theorem failed_creator_blocks_children :
  forall s i x c cx, nth_error (db s) i = Some x -> has_hash x = false -> creator x = Some c ->
    nth_error (db s) c = Some cx -> (st cx = Failed \/ st cx = Pending \/ st cx = Checking) ->
    step_gen keep rej s (EDispatch i) = None.
Proof.
  intros s i x c cx En Eh Ec Ecx Hst. destruct (step_gen keep rej s (EDispatch i)) eqn:Es; [|reflexivity]. exfalso.
  assert (Hacc : step_gen keep rej s (EDispatch i) <> None) by congruence.
  destruct (dispatch_running_ancestors_ok s i x En Eh Hacc) as [_ [_ Hanc]].
  destruct (Hanc c (anc_parent _ _ _ _ En Ec)) as [ax [E1 [_ E3]]]. rewrite Ecx in E1. inversion E1; subst.
  destruct Hst as [H|[H|H]]; destruct E3 as [E3|E3]; congruence.
Qed.

(* the tables account for exactly what executes (K), so the SUM of the guard is the true usage *)
Lemma used_eq_cmd_used : forall r d, Forall Krow d -> used r d = cmd_used r d.
Proof.
  intros r d H. unfold used, cmd_used. induction H as [|x l HKx _ IH]; simpl; [reflexivity|].
  rewrite IH. f_equal.
  unfold Krow in HKx. unfold row_used, row_cmd_used. destruct (cmds x) as [|m [|m2 t]]; simpl.
  - destruct HKx as [H1 _]. destruct (st x); try reflexivity. congruence.
  - destruct HKx as [H1 [H2 _]]. rewrite H1, gc_running. unfold cmd_units. rewrite H2. lia.
  - contradiction.
Qed.

Theorem db_sum_within_availability_partial :
  forall (s0 : sys) (evs : list event), Inv s0 -> (keep || rej = true \/ calm_gen keep rej s0 evs) ->
    forall r, used r (db (run_gen keep rej s0 evs)) = cmd_used r (db (run_gen keep rej s0 evs)) /\
              (used r (db (run_gen keep rej s0 evs)) <= availz (avail s0) r)%N.
Proof.
  intros s0 evs HI Hq r. destruct (Inv_run evs s0 HI Hq) as [HK [_ HR]].
  pose proof (used_eq_cmd_used r _ HK) as E.
  split; [exact E|]. rewrite E, <- (run_avail evs s0). apply HR.
Qed.

End Gen.

(* ------------------------------------------------------------------------------------------ *)
(* Witnesses: recycling a step whose command is executing breaks the full statements           *)
(* ------------------------------------------------------------------------------------------ *)

Definition plan_row : row := mkRow 0 None true Running 0 false [] [] false need_PLAN true [mkCmd [] 0].
Definition sys0 : sys := mkSys [plan_row] [(1%N, 1%N)] need_OPTIONAL.
Definition meta_all : event := ESetMeta (repeat (false, need_DEFAULT, true) 8).

Lemma sys0_inv : Inv sys0.
Proof.
  unfold Inv, sys0; simpl. repeat split.
  - constructor; [|constructor]. unfold Krow; simpl. repeat split.
  - constructor; [|constructor]. unfold Vrow; simpl. constructor.
  - intro r. unfold cmd_used. simpl. lia.
Qed.

Lemma sys0_U : Uall (avail sys0) (db sys0).
Proof. constructor; [|constructor]. intros m [Hm|[]] e He. subst m. contradiction. Qed.

(* plan (row 0, executing) defines P (1). P runs, defines S (2, gpu:1) and T (3, gpu:1); S runs.
   P ends asking to be deferred and is dispatched again; its rerun detaches S and T and declares
   S again without resources (full recycle of the executing S) and T with gpu:1. T is dispatched. *)
(* the verdict of a hash check: ECheckDone is late_verdict on a CHECKING row *)
Lemma checkdone_is_verdict : forall keep rej s i c x, nth_error (db s) i = Some x -> st x = Checking ->
  step_gen keep rej s (ECheckDone i c) = Some (late_verdict s i c).
Proof.
  intros keep rej s i c x En Hs. unfold step_gen. rewrite En, Hs.
  change (sstate_eqb Checking Checking) with true. cbv iota.
  unfold late_verdict, verdict_db. destruct c; reflexivity.
Qed.

(* D21, fourth face: S (2) has a stored hash and its hash check is under way when the deferred P (1) runs again
   and declares S with another output (partial recycle: the row is reset to PENDING, the hash stays). S is checked
   again (second job), the first job's verdict "inputs changed" drops the hash, S is dispatched and its command
   executes holding the gpu; then the verdict of the second job arrives at the RUNNING row and resets it to PENDING:
   S is dispatched a second time while its first command still executes. *)
Definition late_h1 : list event :=
  [ EDefine 0 1 0 [] need_DEFAULT false; meta_all; EDispatch 1; EReset 1;
    EDefine 1 2 0 [(1%N, 1%N)] need_DEFAULT false; meta_all; EDispatch 2; EReset 2; EComplete 2 0 OSucc;
    EMarkPending 2; meta_all; EDispatch 2;
    EComplete 1 0 ODefer; meta_all; EDispatch 1; EReset 1;
    EDefine 1 2 1 [(1%N, 1%N)] need_DEFAULT false; meta_all; EDispatch 2;
    ECheckDone 2 CMismatch; meta_all; EDispatch 2; EReset 2 ].
Definition late_h2 : list event := [ meta_all; EDispatch 2 ].

Theorem late_verdict_refuted :
  Inv sys0 /\
  (exists x, nth_error (db (run_gen false false sys0 late_h1)) 2 = Some x /\ st x = Running /\ length (cmds x) = 1) /\
  (availz (avail sys0) 1 <
   cmd_used 1 (db (run_gen false false (late_verdict (run_gen false false sys0 late_h1) 2 CMismatch) late_h2)))%N.
Proof.
  split; [exact sys0_inv|]. split.
  - vm_compute. eexists. split; [reflexivity|]. split; reflexivity.
  - vm_compute. reflexivity.
Qed.

(* harmless under either repair: the re-declaration leaves the CHECKING row alone (or is refused), the first
   verdict is the only one, and the second dispatch never happens *)
Theorem late_verdict_harmless_when_repaired : forall keep rej, keep || rej = true ->
  (cmd_used 1 (db (run_gen keep rej sys0 (late_h1 ++ late_h2))) <= 1)%N.
Proof. intros [|] [|] H; try discriminate H; vm_compute; intro E; discriminate E. Qed.

(* quiet histories are calm *)
Lemma quiet_calm_event : forall s e, quiet_event s e -> calm_event s e.
Proof.
  intros s e H. destruct e; simpl in *; try exact I.
  destruct (find_label l (db s)) as [i|]; [|exact I].
  destruct (nth_error (db s) i) as [x|]; [|exact I]. left. exact H.
Qed.

Lemma quiet_calm : forall keep rej evs s, quiet_gen keep rej s evs -> calm_gen keep rej s evs.
Proof.
  intros keep rej. induction evs as [|e r IH]; intros s H; simpl in *; [exact I|].
  destruct H as [H1 H2]. split; [apply quiet_calm_event; exact H1|apply IH; exact H2].
Qed.

(* The ordinary history behind D21, in its harmless form: P (1) declares S (2, gpu:1) and T (3, gpu:1), S
   executes, P is deferred, runs again and declares S and T again WITH THE SAME resources while S still
   executes. Not quiet, but calm: the partial theorems apply, and T is refused while S holds the gpu. *)
Definition history_benign_redeclare : list event :=
  [ EDefine 0 1 0 [] need_DEFAULT false; meta_all; EDispatch 1; EReset 1;
    EDefine 1 2 0 [(1%N, 1%N)] need_DEFAULT false; EDefine 1 3 0 [(1%N, 1%N)] need_DEFAULT false;
    meta_all; EDispatch 2; EReset 2;
    EComplete 1 0 ODefer; meta_all; EDispatch 1; EReset 1;
    EDefine 1 2 0 [(1%N, 1%N)] need_DEFAULT false; EDefine 1 3 0 [(1%N, 1%N)] need_DEFAULT false;
    meta_all ].

Definition witness_claims_replaced : list event :=
  [ EDefine 0 1 0 [] need_DEFAULT false; meta_all; EDispatch 1; EReset 1;
    EDefine 1 2 0 [(1%N, 1%N)] need_DEFAULT false; EDefine 1 3 0 [(1%N, 1%N)] need_DEFAULT false;
    meta_all; EDispatch 2; EReset 2;
    EComplete 1 0 ODefer; meta_all; EDispatch 1; EReset 1;
    EDefine 1 2 0 [] need_DEFAULT false; EDefine 1 3 0 [(1%N, 1%N)] need_DEFAULT false;
    meta_all; EDispatch 3 ].

(* same, but S is declared again with a different output list: partial recycle resets the row of the
   executing S to PENDING and S is dispatched a second time *)
Definition witness_row_reset : list event :=
  [ EDefine 0 1 0 [] need_DEFAULT false; meta_all; EDispatch 1; EReset 1;
    EDefine 1 2 0 [(1%N, 1%N)] need_DEFAULT false;
    meta_all; EDispatch 2; EReset 2;
    EComplete 1 0 ODefer; meta_all; EDispatch 1; EReset 1;
    EDefine 1 2 1 [(1%N, 1%N)] need_DEFAULT false;
    meta_all; EDispatch 2 ].

(* S opens a hold block and declares C (4) inside it; the rerun of P recycles S, which zeroes
   S's counter although the block is still open; C is dispatched. *)
Definition witness_hold_zeroed : list event :=
  [ EDefine 0 1 0 [] need_DEFAULT false; meta_all; EDispatch 1; EReset 1;
    EDefine 1 2 0 [] need_DEFAULT false;
    meta_all; EDispatch 2; EReset 2; EHold 2 0; EDefine 2 3 0 [] need_DEFAULT false;
    EComplete 1 0 ODefer; meta_all; EDispatch 1; EReset 1;
    EDefine 1 2 0 [] need_DEFAULT false; meta_all ].

Theorem resources_full_refuted_claims_replaced :
  exists (s0 : sys) (evs : list event) (r : N),
    Inv s0 /\ (availz (avail s0) r < cmd_used r (db (run_gen false false s0 evs)))%N.
Proof. exists sys0, witness_claims_replaced, 1%N. split; [exact sys0_inv|]. vm_compute. reflexivity. Qed.

Theorem resources_full_refuted_row_reset :
  exists (s0 : sys) (evs : list event) (r : N),
    Inv s0 /\ (availz (avail s0) r < cmd_used r (db (run_gen false false s0 evs)))%N /\
    exists x, nth_error (db (run_gen false false s0 evs)) 2 = Some x /\ length (cmds x) = 2.
Proof.
  exists sys0, witness_row_reset, 1%N. split; [exact sys0_inv|]. split; [vm_compute; reflexivity|].
  eexists. split; vm_compute; reflexivity.
Qed.

Theorem hold_full_refuted :
  exists (s0 : sys) (evs : list event) (i a : nat) (x ax : row) (m : cmd),
    Inv s0 /\ let s := run_gen false false s0 evs in
    nth_error (db s) i = Some x /\ has_hash x = false /\ step_gen false false s (EDispatch i) <> None /\
    creator x = Some a /\ nth_error (db s) a = Some ax /\ In m (cmds ax) /\ depth m = 1%N.
Proof.
  exists sys0, witness_hold_zeroed, 3, 2. eexists. eexists. eexists. split; [exact sys0_inv|].
  cbv zeta. split; [vm_compute; reflexivity|]. split; [reflexivity|]. split; [vm_compute; discriminate|].
  split; [reflexivity|]. split; [vm_compute; reflexivity|]. split; [left; reflexivity|reflexivity].
Qed.

(* ------------------------------------------------------------------------------------------ *)
(* The full statements, per shape of the recycle code                                          *)
(* ------------------------------------------------------------------------------------------ *)

Definition resources_full_at (keep rej : bool) : Prop :=
  forall (s0 : sys) (evs : list event), Inv s0 ->
    forall r, (cmd_used r (db (run_gen keep rej s0 evs)) <= availz (avail s0) r)%N.

Definition hold_full_at (keep rej : bool) : Prop :=
  forall (s0 : sys) (evs : list event), Inv s0 ->
    let s := run_gen keep rej s0 evs in
    forall i x, nth_error (db s) i = Some x -> has_hash x = false -> step_gen keep rej s (EDispatch i) <> None ->
      forall a ax m, anc (db s) i a -> nth_error (db s) a = Some ax -> In m (cmds ax) -> depth m = 0%N.

(* K + V + nothing over-committed is an invariant of EVERY history once the code has one of the two
   repaired shapes *)
Theorem inv_all_histories_of_repaired : forall keep rej, keep || rej = true ->
  forall s0 evs, Inv s0 -> Inv (run_gen keep rej s0 evs).
Proof. intros keep rej H s0 evs HI. apply Inv_run; [exact HI|left; exact H]. Qed.

Theorem resources_full_of_repaired : forall keep rej, keep || rej = true -> resources_full_at keep rej.
Proof.
  intros keep rej H s0 evs HI r.
  exact (resources_never_overcommitted_partial_proof keep rej s0 evs HI (or_introl H) r).
Qed.

Theorem hold_full_of_repaired : forall keep rej, keep || rej = true -> hold_full_at keep rej.
Proof.
  intros keep rej H s0 evs HI.
  exact (held_step_does_not_run_partial_proof keep rej s0 evs HI (or_introl H)).
Qed.

Theorem resources_full_iff_repaired : forall keep rej, resources_full_at keep rej <-> keep || rej = true.
Proof.
  intros keep rej. split; [|apply resources_full_of_repaired].
  destruct keep, rej; try reflexivity. intro H. exfalso.
  destruct resources_full_refuted_claims_replaced as [s0 [evs [r [HI Hlt]]]].
  specialize (H s0 evs HI r). lia.
Qed.

Theorem hold_full_iff_repaired : forall keep rej, hold_full_at keep rej <-> keep || rej = true.
Proof.
  intros keep rej. split; [|apply hold_full_of_repaired].
  destruct keep, rej; try reflexivity. intro H. exfalso.
  destruct hold_full_refuted as [s0 [evs [i [a [x [ax [m [HI Hw]]]]]]]]. cbv zeta in Hw.
  destruct Hw as [En [Eh [Hacc [Ec [Ea [Hm Hd]]]]]].
  pose proof (H s0 evs HI i x En Eh Hacc a ax m (anc_parent _ _ _ _ En Ec) Ea Hm) as H0.
  rewrite H0 in Hd. discriminate.
Qed.

(* the same three histories under the repaired shapes: nothing is over-committed, the command of S
   is not started a second time, the child declared under the open hold stays blocked *)
Lemma witnesses_harmless_when_repaired :
  forall keep rej, keep || rej = true ->
    (cmd_used 1 (db (run_gen keep rej sys0 witness_claims_replaced)) <= 1)%N /\
    (cmd_used 1 (db (run_gen keep rej sys0 witness_row_reset)) <= 1)%N /\
    step_gen keep rej (run_gen keep rej sys0 witness_hold_zeroed) (EDispatch 3) = None.
Proof. intros keep rej H. destruct keep, rej; try discriminate H; vm_compute; repeat split; discriminate. Qed.
