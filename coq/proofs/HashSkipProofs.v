(* C13, end to end: when Executor.try_skip_job decides "unchanged" the configuration of the step is
   the recorded one.  Composition of: the guard of compute_inp_hashes (no unknown input reaches
   StepHash.from_inp), the call-site model (proofs/HashSitesProofs.v) and the injectivity of the
   pre-images (proofs/HashProofs.v), modulo collision-freeness of SHA-256 on the two pairs of
   pre-images compared. *)
From Coq Require Import List NArith Bool Permutation Lia Arith.
From SV Require Import lib.Bytes lib.KeySort lib.Base85 model.HashTypes gen.GenHash model.Hash proofs.HashProofs
  model.HashSiteTypes gen.GenHashSites model.HashSites proofs.HashSitesProofs
  model.HashSkipTypes gen.GenHashSkip model.HashSkip.
Import ListNotations.
Open Scope N_scope.

(* ---------- the generated definitions have the shape the proofs are written for ---------- *)
(* compute_inp_hashes lets a path pass silently only when the refreshed hash equals the recorded
   one and the recorded one is not unknown *)
Lemma inp_entry_outcome_same df nu ou ur :
  inp_entry_outcome df nu ou ur = InpSame -> df = false /\ ou = false.
Proof. destruct df, nu, ou, ur; vm_compute; intros E; try discriminate E; split; reflexivity. Qed.

(* a hash that differs from the recorded one is never silent, readable or not *)
Lemma inp_entry_outcome_differs nu ou ur : inp_entry_outcome true nu ou ur <> InpSame.
Proof. destruct nu, ou, ur; vm_compute; discriminate. Qed.

(* try_skip_job goes on exactly when the digests are equal *)
Lemma skip_inp_differs_spec old new : skip_inp_differs old new = false <-> sh_inp old = sh_inp new.
Proof.
  unfold skip_inp_differs. rewrite negb_false_iff. apply str_eqb_eq.
Qed.

Lemma opt_str_eqb_eq a b : opt_str_eqb a b = true <-> a = b.
Proof.
  destruct a as [x|], b as [y|]; cbn [opt_str_eqb]; split; intros E; try discriminate E; try reflexivity.
  - apply str_eqb_eq in E. subst. reflexivity.
  - injection E as ->. apply str_eqb_refl.
Qed.

Lemma skip_out_differs_spec old new : skip_out_differs old new = false <-> sh_out old = sh_out new.
Proof.
  unfold skip_out_differs. rewrite negb_false_iff. apply opt_str_eqb_eq.
Qed.

Lemma validate_inp_differs_spec old new : validate_inp_differs old new = false <-> sh_inp old = sh_inp new.
Proof.
  unfold validate_inp_differs. rewrite negb_false_iff. apply str_eqb_eq.
Qed.

(* ---------- FileHash.__eq__ ---------- *)
Lemma fsig_eqb_eq a b : fsig_eqb a b = true <-> a = b.
Proof.
  unfold fsig_eqb. split.
  - intros E. apply andb_true_iff in E. destruct E as [E Es]. apply andb_true_iff in E.
    destruct E as [Ed Em]. apply str_eqb_eq in Ed. apply N.eqb_eq in Em. apply N.eqb_eq in Es.
    destruct a as [d1 m1 s1], b as [d2 m2 s2]. cbn [fs_digest fs_mode fs_size] in *. subst. reflexivity.
  - intros ->. rewrite str_eqb_refl, !N.eqb_refl. reflexivity.
Qed.

Lemma fs_unknown_sig h : fs_is_unknown (fh_sig h) = fh_is_unknown h.
Proof. reflexivity. Qed.

Lemma existsb_false_forall {A} (p : A -> bool) l : existsb p l = false -> forall x, In x l -> p x = false.
Proof.
  intros E x Hin. destruct (p x) eqn:P; [|reflexivity].
  assert (X : existsb p l = true) by (apply existsb_exists; exists x; split; assumption).
  rewrite X in E. discriminate.
Qed.

Section SkipProofs.
  Variable H : str -> str.

  (* ---------- compute_inp_hashes: one path ---------- *)
  Lemma fh_eqb_unknown_l old : fh_eqb fh_unknown old = true -> fh_is_unknown old = true.
  Proof.
    unfold fh_eqb. intros E. apply fsig_eqb_eq in E. rewrite <- fs_unknown_sig, <- E. reflexivity.
  Qed.

  Lemma inp_entry_same d e :
    snd (inp_entry H d e) = InpSame ->
    fst (fst (inp_entry H d e)) = fst e
    /\ fh_sig (snd (fst (inp_entry H d e))) = fh_sig (snd e)
    /\ fh_is_unknown (snd e) = false
    /\ inp_unchanged H d e = true.
  Proof.
    unfold inp_entry, inp_unchanged. destruct (refreshed_x H (snd e) (d (fst e))) as [new|].
    - cbn [fst snd]. intros O. apply inp_entry_outcome_same in O. destruct O as [Df Ou].
      apply negb_false_iff in Df. split; [reflexivity|]. split; [|split; [exact Ou|exact Df]].
      unfold fh_eqb in Df. apply fsig_eqb_eq in Df. exact Df.
    - destruct inp_on_unreadable as [u|] eqn:U.
      + cbn [fst snd]. intros O. exfalso. apply inp_entry_outcome_same in O. destruct O as [Df Ou].
        apply negb_false_iff in Df. unfold inp_on_unreadable in U.
        first [discriminate U | injection U as <-].
        apply fh_eqb_unknown_l in Df. rewrite Df in Ou. discriminate.
      + cbn [snd]. discriminate.
  Qed.

  (* ---------- compute_inp_hashes: what the guard `len(result.messages) == 0` guarantees ---------- *)
  Lemma compute_inp_hashes_quiet d olds all :
    compute_inp_hashes H d olds = Some (false, all) ->
    all = map (fun e => fst (inp_entry H d e)) (sort_keys olds)
    /\ forall e, In e (sort_keys olds) -> snd (inp_entry H d e) = InpSame.
  Proof.
    unfold compute_inp_hashes. set (rs := map (inp_entry H d) (sort_keys olds)).
    destruct (existsb is_raise (map snd rs)) eqn:R; [discriminate|].
    intros E. injection E as M <-. split.
    - unfold rs. rewrite map_map. reflexivity.
    - intros e He.
      assert (Hin : In (snd (inp_entry H d e)) (map snd rs)).
      { apply in_map. unfold rs. apply in_map. exact He. }
      pose proof (existsb_false_forall _ _ R _ Hin) as NR.
      pose proof (existsb_false_forall _ _ M _ Hin) as NM.
      destruct (snd (inp_entry H d e)); try discriminate. reflexivity.
  Qed.

  (* the input map that reaches from_inp is the recorded one (path -> digest, mode, size as the
     database has them; the disk agrees with it as far as refreshed can tell) ... *)
  Theorem observed_inps_are_recorded d olds inps :
    observed_inps H d olds = Some inps -> inps = sigs (sort_keys olds).
  Proof.
    unfold observed_inps. destruct (compute_inp_hashes H d olds) as [[m all]|] eqn:C; [|discriminate].
    destruct m; [discriminate|]. intros E. injection E as <-.
    destruct (compute_inp_hashes_quiet _ _ _ C) as [-> Hall].
    unfold sigs. rewrite map_map. apply map_ext_in. intros e He.
    destruct (inp_entry_same d e (Hall e He)) as [Hp [Hs _]]. cbn [fst snd]. rewrite Hp, Hs. reflexivity.
  Qed.

  (* ... and none of its hashes is unknown: discharges sys_inputs_known *)
  Theorem observed_inps_known d olds inps :
    observed_inps H d olds = Some inps ->
    forallb (fun e => negb (fs_is_unknown (snd e))) inps = true.
  Proof.
    intros O. pose proof (observed_inps_are_recorded _ _ _ O) as ->.
    unfold observed_inps in O. destruct (compute_inp_hashes H d olds) as [[m all]|] eqn:C; [|discriminate].
    destruct m; [discriminate|]. destruct (compute_inp_hashes_quiet _ _ _ C) as [_ Hall].
    apply forallb_forall. intros x Hx. unfold sigs in Hx. apply in_map_iff in Hx.
    destruct Hx as [e [<- He]]. cbn [snd]. rewrite fs_unknown_sig.
    destruct (inp_entry_same d e (Hall e He)) as [_ [_ [Hu _]]]. rewrite Hu. reflexivity.
  Qed.

  Theorem observed_inps_recorded_and_known d olds inps :
    observed_inps H d olds = Some inps ->
    inps = sigs (sort_keys olds) /\ forallb (fun e => negb (fs_is_unknown (snd e))) inps = true.
  Proof.
    intros O. split; [exact (observed_inps_are_recorded d olds inps O)|exact (observed_inps_known d olds inps O)].
  Qed.

  (* a changed, vanished, missing or unreadable input never reaches from_inp *)
  Theorem changed_input_is_reported d olds e :
    In e (sort_keys olds) -> inp_unchanged H d e = false -> observed_inps H d olds = None.
  Proof.
    intros He Df. unfold observed_inps.
    destruct (compute_inp_hashes H d olds) as [[m all]|] eqn:C; [|reflexivity].
    destruct m; [reflexivity|]. exfalso.
    destruct (compute_inp_hashes_quiet _ _ _ C) as [_ Hall].
    destruct (inp_entry_same d e (Hall e He)) as [_ [_ [_ Hu]]]. rewrite Hu in Df. discriminate.
  Qed.

  (* in particular: something that can be stat'ed but not hashed (a directory, a file without read
     permission) whose stat fields are not all the recorded ones *)
  Theorem unreadable_input_is_reported d olds e st :
    In e (sort_keys olds) -> d (fst e) = DUnreadable st -> refreshed_same (snd e) st = false ->
    observed_inps H d olds = None.
  Proof.
    intros He Hd Hs. apply (changed_input_is_reported d olds e He).
    unfold inp_unchanged, refreshed_x. rewrite Hd, Hs. reflexivity.
  Qed.

  (* ---------- the recorded hash ---------- *)
  Lemma full_step_hash_spec s d io oo rec rs :
    full_step_hash H s d io oo = Some (rec, rs) ->
    exists inps outs, observed_inps H d io = Some inps /\ observed_outs H d oo = Some outs
      /\ rs = with_outs (with_inps s inps) outs
      /\ sh_inp rec = H (inp_preimage (site_inp_cfg rs))
      /\ sh_out rec = Some (H (out_preimage (sys_outs rs)))
      /\ sys_inputs_known rs = true.
  Proof.
    unfold full_step_hash. destruct (observed_inps H d io) as [inps|] eqn:O; [|discriminate].
    destruct (observed_outs H d oo) as [outs|] eqn:Oo; [|discriminate].
    intros E. injection E as <- <-. exists inps, outs. split; [reflexivity|]. split; [reflexivity|].
    split; [reflexivity|]. split; [cbn [sh_inp]; rewrite site_full_same; reflexivity|]. split.
    - reflexivity.
    - exact (observed_inps_known _ _ _ O).
  Qed.

  (* ---------- Executor.try_skip_job ---------- *)
  Lemma try_skip_spec rec s d io oo h :
    try_skip H rec s d io oo = Some (true, h) ->
    exists inps outs, observed_inps H d io = Some inps /\ observed_outs H d oo = Some outs
      /\ sh_inp rec = H (inp_preimage (site_inp_cfg (with_inps s inps)))
      /\ sh_out rec = Some (H (out_preimage outs))
      /\ h = mk_shash (sh_inp rec) (sh_out rec).
  Proof.
    unfold try_skip. destruct (observed_inps H d io) as [inps|] eqn:O; [|discriminate].
    destruct (skip_inp_differs rec _) eqn:D1; [intros E; discriminate E|].
    destruct (observed_outs H d oo) as [outs|] eqn:Oo; [|discriminate].
    destruct (skip_out_differs rec _) eqn:D2; [intros E; discriminate E|].
    intros E. injection E as <-. apply skip_inp_differs_spec in D1. apply skip_out_differs_spec in D2.
    cbn [sh_inp sh_out] in D1, D2. exists inps, outs. split; [reflexivity|]. split; [reflexivity|].
    destruct (site_outs_shape (with_outs (with_inps s inps) outs)) as [So _].
    rewrite So in D2. cbn [with_outs sys_outs] in D2.
    split; [exact D1|]. split; [exact D2|]. rewrite D1, D2. reflexivity.
  Qed.

  (* The decision "unchanged" is sound.  rs: the configuration the recorded hash was computed from
     (by _compute_full_step_hash: full_step_hash, or by an earlier skip: the same digests).
     Hypotheses: well-formedness of both configurations (the domain of the property: NUL-free
     strings, duplicate-free maps, 64-bit mode and size, 32-byte or unknown digests), the override
     section is opened by a bytes word (computed from gen/GenHash.v), no collision of SHA-256 on the
     two pairs of pre-images compared, and for the OUTPUT digest the residue of D2: no content
     digest of an output starts with the bytes 75 00 01. *)
  Theorem try_skip_unchanged_sound :
    kw_ovr_is_str = false ->
    forall (s0 : syscfg) (d0 : disk) (io0 oo0 : list (str * fhash)) (rec : shash) (rs : syscfg),
      full_step_hash H s0 d0 io0 oo0 = Some (rec, rs) ->
      forall (s : syscfg) (d : disk) (io oo : list (str * fhash)) (h : shash),
        try_skip H rec s d io oo = Some (true, h) ->
        forall inps outs, observed_inps H d io = Some inps -> observed_outs H d oo = Some outs ->
        let now := with_outs (with_inps s inps) outs in
        sys_wf rs = true -> sys_wf now = true ->
        wf_files (sys_outs rs) = true -> wf_files (sys_outs now) = true ->
        digests_ok Lookahead (sys_outs rs) = true -> digests_ok Lookahead (sys_outs now) = true ->
        no_collision H (inp_preimage (site_inp_cfg rs)) (inp_preimage (site_inp_cfg now)) ->
        no_collision H (out_preimage (sys_outs rs)) (out_preimage (sys_outs now)) ->
        sys_equiv rs now /\ sys_out_equiv rs now /\ h = rec.
  Proof.
    intros K s0 d0 io0 oo0 rec rs F s d io oo h T inps outs O Oo now Wr Wn Wor Won Dr Dn Ci Co.
    destruct (full_step_hash_spec _ _ _ _ _ _ F) as [inps0 [outs0 [_ [_ [_ [Ri [Ro Kr]]]]]]].
    destruct (try_skip_spec _ _ _ _ _ _ T) as [inps' [outs' [O' [Oo' [Ti [To Th]]]]]].
    rewrite O in O'. injection O' as <-. rewrite Oo in Oo'. injection Oo' as <-.
    assert (Kn : sys_inputs_known now = true) by exact (observed_inps_known _ _ _ O).
    assert (Ei : inp_preimage (site_inp_cfg rs) = inp_preimage (site_inp_cfg now)).
    { apply Ci. rewrite <- Ri. exact Ti. }
    assert (Eo : out_preimage (sys_outs rs) = out_preimage (sys_outs now)).
    { apply Co. rewrite Ro in To. injection To as To. exact To. }
    split; [|split].
    - apply site_inp_injective_known; assumption.
    - unfold sys_out_equiv. apply (out_preimage_injective Lookahead); assumption.
    - rewrite Th. destruct rec. reflexivity.
  Qed.

  (* the input half alone: whenever the new hash has the recorded input digest (the first test of
     try_skip_job passed, whatever the second says) the input side of the configuration is the
     recorded one; no hypothesis about digests is needed *)
  Theorem try_skip_inputs_sound :
    kw_ovr_is_str = false ->
    forall (s0 : syscfg) (d0 : disk) (io0 oo0 : list (str * fhash)) (rec : shash) (rs : syscfg),
      full_step_hash H s0 d0 io0 oo0 = Some (rec, rs) ->
      forall (s : syscfg) (d : disk) (io oo : list (str * fhash)) (b : bool) (h : shash) inps,
        observed_inps H d io = Some inps ->
        try_skip H rec s d io oo = Some (b, h) ->
        sh_inp h = sh_inp rec ->
        sys_wf rs = true -> sys_wf (with_inps s inps) = true ->
        no_collision H (inp_preimage (site_inp_cfg rs)) (inp_preimage (site_inp_cfg (with_inps s inps))) ->
        sys_equiv rs (with_inps s inps).
  Proof.
    intros K s0 d0 io0 oo0 rec rs F s d io oo b h inps O T E Wr Wn Ci.
    destruct (full_step_hash_spec _ _ _ _ _ _ F) as [inps0 [outs0 [_ [_ [_ [Ri [_ Kr]]]]]]].
    assert (Eh : sh_inp h = H (inp_preimage (site_inp_cfg (with_inps s inps)))).
    { unfold try_skip in T. rewrite O in T.
      destruct (skip_inp_differs rec _); [injection T as _ <-; reflexivity|].
      destruct (observed_outs H d oo); [|discriminate T].
      destruct (skip_out_differs rec _); injection T as _ <-; reflexivity. }
    apply site_inp_injective_known; try assumption.
    - exact (observed_inps_known _ _ _ O).
    - apply Ci. rewrite <- Ri, <- E. exact Eh.
  Qed.

  (* ... and the converse: an unchanged configuration is skipped (no spurious NOSKIP from the
     hashing: the digests do not depend on supply order) *)
  Theorem try_skip_unchanged_complete :
    forall (s0 : syscfg) (d0 : disk) (io0 oo0 : list (str * fhash)) (rec : shash) (rs : syscfg),
      full_step_hash H s0 d0 io0 oo0 = Some (rec, rs) ->
      forall (s : syscfg) (d : disk) (io oo : list (str * fhash)) inps outs,
        observed_inps H d io = Some inps -> observed_outs H d oo = Some outs ->
        let now := with_outs (with_inps s inps) outs in
        sys_wf rs = true -> nodup_keys (sys_outs rs) = true ->
        sys_equiv rs now -> sys_out_equiv rs now ->
        try_skip H rec s d io oo = Some (true, rec).
  Proof.
    intros s0 d0 io0 oo0 rec rs F s d io oo inps outs O Oo now Wr Nr Eq Eo.
    destruct (full_step_hash_spec _ _ _ _ _ _ F) as [inps0 [outs0 [_ [_ [_ [Ri [Ro _]]]]]]].
    unfold try_skip. rewrite O.
    assert (Ei : inp_preimage (site_inp_cfg rs) = inp_preimage (site_inp_cfg (with_inps s inps))).
    { apply (site_inp_order_independent rs now Wr Eq). }
    assert (Eo' : out_preimage (sys_outs rs) = out_preimage outs).
    { apply out_order_independent; [exact Nr|exact Eo]. }
    assert (D1 : skip_inp_differs rec (mk_shash (H (inp_preimage (site_inp_cfg (with_inps s inps)))) None) = false).
    { apply skip_inp_differs_spec. cbn [sh_inp]. rewrite Ri, Ei. reflexivity. }
    rewrite D1, Oo.
    destruct (site_outs_shape (with_outs (with_inps s inps) outs)) as [So _].
    rewrite So. cbn [with_outs sys_outs sh_inp].
    assert (D2 : skip_out_differs rec (mk_shash (H (inp_preimage (site_inp_cfg (with_inps s inps))))
                                                (Some (H (out_preimage outs)))) = false).
    { apply skip_out_differs_spec. cbn [sh_out]. rewrite Ro, Eo'. reflexivity. }
    rewrite D2. f_equal. f_equal. destruct rec as [ri ro]. cbn [sh_inp sh_out] in Ri, Ro.
    rewrite Ri, Ro, Ei, Eo'. reflexivity.
  Qed.
End SkipProofs.

(* ---------- the full statement is false today (D2), also at the level of the skip decision ----------
   Same step, same output paths a and b, SHA-256 replaced by the identity (no collision at all).
   Recorded: a missing, b present with content digest X.  Now: a present with content digest D,
   b missing.  D = "u" followed by the words that follow an unknown digest in the recorded
   pre-image, X ends with the words of a last entry whose digest is unknown: both pre-images are
   the same bytes, try_skip_job says "unchanged". *)
Definition d2s_X : str := [88;88;88;88;88;88; 0;1;98; 0;0; 0;0;0;0;0;0;0;0; 0;0; 0;0;0;0;0;0;0;0; 0;0; 117].
Definition d2s_D : str := [117; 0;1;98; 0;0; 0;0;0;0;0;0;129;164; 0;0; 0;0;0;0;0;0;0;5; 0;0; 88;88;88;88;88;88].
Definition d2s_sys : syscfg := mk_sys [99;109;100] [46] false [] [] [] [] [] [].
Definition d2s_id : str -> str := fun x => x.
Definition d2s_disk0 : disk :=
  fun p => if str_eqb p [98] then DFile (mk_fstat 33188 7 5 11) d2s_X else DMissing.
Definition d2s_disk1 : disk :=
  fun p => if str_eqb p [97] then DFile (mk_fstat 0 9 0 12) d2s_D else DMissing.
Definition d2s_oo0 : list (str * fhash) := [ ([97], fh_unknown); ([98], fh_unknown) ].
Definition d2s_oo1 : list (str * fhash) := [ ([97], fh_unknown); ([98], mk_fhash d2s_X 33188 7 5 11) ].

Definition skip_counterexample : Prop :=
  exists (H : str -> str) (s0 : syscfg) (d0 : disk) (io0 oo0 : list (str * fhash)) (rec : shash) (rs : syscfg)
         (s : syscfg) (d : disk) (io oo : list (str * fhash)) (h : shash) (inps outs : list (str * fsig)),
    full_step_hash H s0 d0 io0 oo0 = Some (rec, rs)
    /\ try_skip H rec s d io oo = Some (true, h)
    /\ observed_inps H d io = Some inps /\ observed_outs H d oo = Some outs
    /\ sys_wf rs = true /\ sys_wf (with_outs (with_inps s inps) outs) = true
    /\ wf_files (sys_outs rs) = true /\ wf_files outs = true
    /\ no_collision H (inp_preimage (site_inp_cfg rs)) (inp_preimage (site_inp_cfg (with_outs (with_inps s inps) outs)))
    /\ no_collision H (out_preimage (sys_outs rs)) (out_preimage outs)
    /\ ~ Permutation (sys_outs rs) outs.

Theorem skip_full_refuted : unknown_as_none = false -> skip_counterexample.
Proof.
  intros Hshape.
  first
    [ solve [vm_compute in Hshape; discriminate Hshape]
    | destruct (full_step_hash d2s_id d2s_sys d2s_disk0 [] d2s_oo0) as [[rec rs]|] eqn:F;
      [|vm_compute in F; discriminate F];
      destruct (try_skip d2s_id rec d2s_sys d2s_disk1 [] d2s_oo1) as [[b h]|] eqn:T;
      [|vm_compute in F; injection F as <- <-; vm_compute in T; discriminate T];
      destruct (observed_outs d2s_id d2s_disk1 d2s_oo1) as [outs|] eqn:O;
      [|vm_compute in O; discriminate O];
      exists d2s_id, d2s_sys, d2s_disk0, [], d2s_oo0, rec, rs, d2s_sys, d2s_disk1, [], d2s_oo1, h, [], outs;
      vm_compute in F; injection F as <- <-; vm_compute in O; injection O as <-;
      vm_compute in T; injection T as <- <-;
      repeat (split; [first [reflexivity | vm_compute; reflexivity | intros E; exact E]|]);
      intros P; apply (Permutation_in ([97], mk_fsig [117] 0 0)) in P; [|left; reflexivity];
      cbn in P; destruct P as [P|[P|[]]]; discriminate P ].
Qed.

Theorem skip_full_is_false : unknown_as_none = false -> ~ skip_full.
Proof.
  intros Hshape Full. destruct (skip_full_refuted Hshape) as
    [H [s0 [d0 [io0 [oo0 [rec [rs [s [d [io [oo [h [inps [outs
      [F [T [Oi [Oo [Wr [Wn [Wor [Won [Ci [Co NP]]]]]]]]]]]]]]]]]]]]]]]].
  destruct (Full H s0 d0 io0 oo0 rec rs F s d io oo h T inps outs Oi Oo Wr Wn Wor Won Ci Co) as [_ E].
  apply NP. exact E.
Qed.
