(* C08: the table of glob registrations (`nglob`) in the declaration layer.
   A step may register one pattern several times, with the same or with different substitution
   constraints; every accepted registration is a row of its own and no declaration request
   (declare_static_files, register_static_tree, register_nglob, define_step, amend_step) ever
   removes, merges or rewrites a row: the table after ANY request sequence is the table before
   followed by exactly one row per accepted registration, in arrival order. *)
From Coq Require Import List NArith Bool Lia String.
From SV Require Import lib.Bytes lib.Tmpl gen.GenClaims model.Claims proofs.ClaimsProofs.
Import ListNotations.
Open Scope N_scope.
Arguments gkey : simpl never.

(* The fact of the code (translated on every run: gen/GenClaims.v register_pre_delete) on which
   every theorem of this file rests: register_nglob deletes no existing row. A register_nglob that
   deletes rows is translated into a non-empty column list, model/Claims.v follows it, and this
   lemma (with everything below) stops compiling. *)
Lemma register_supersedes_nothing : register_pre_delete = [].
Proof. reflexivity. Qed.

Lemma pre_delete_none s pat key gs : pre_delete register_pre_delete s pat key gs = gs.
Proof. reflexivity. Qed.

Section Registrations.

Variable gm : str -> str -> bool.
Variable ow gr : bool.

(* The row that an accepted request appends (Step.add_nglob): none, unless it is a registration. *)
Definition new_rows (r : req) : list glob :=
  match r with
  | RqGlob s pat subs ms => [mkGlob s pat subs (sort_uniq (filter (gm (gkey pat subs)) ms))]
  | _ => []
  end.

(* what a request does to the table of registrations *)
Lemma step_globs st r st' :
  step gm ow gr st r = Ok st' -> globs st' = globs st ++ new_rows r.
Proof.
  intros H. destruct r; cbn [step new_rows] in *; rewrite ?app_nil_r.
  - destruct (require_step st c); cbn [bind] in H; [|discriminate].
    apply declare_static_files_frame in H. destruct H as [_ [_ Hg]]. exact Hg.
  - unfold register_tree in H.
    destruct (require_step st c); cbn [bind] in H; [|discriminate].
    destruct (str_eqb path stepup_dir || is_prefix stepup_prefix path); [discriminate|].
    destruct (str_eqb (with_slash path) [46; SLASH] || str_eqb (with_slash path) []); [discriminate|].
    destruct (str_eqb (with_slash path) [SLASH]); [discriminate|].
    destruct (find_owner ow st (with_slash path)) as [[[t tc]|]|]; cbn [bind] in H; try discriminate.
    + destruct (creator_eqb tc c); [now inversion H|].
      destruct (str_eqb t (with_slash path)); [|discriminate].
      destruct (phrase_of tc) as [x|]; [destruct (phrase_of c) as [y|]|]; try discriminate.
      destruct (sort2_str x y). discriminate.
    + destruct (existsb _ (trees st)); [discriminate|].
      destruct (min_entry _) as [[q cl]|]; [destruct (negb (role_eqb (c_role cl) RStatic)); discriminate|].
      apply declare_static_files_frame in H. destruct H as [_ [_ Hg]]. exact Hg.
  - unfold register_glob in H.
    destruct (require_step st (CStep s)); cbn [bind] in H; [|discriminate].
    destruct (if gr then _ else _) as [[q cl]|]; [discriminate|].
    destruct (find_first _ _); [discriminate|]. now inversion H.
  - unfold define_step in H.
    destruct (require_step st c) as [[]|] eqn:Er; cbn [bind] in H; [|discriminate].
    destruct (creator_eqb c CRoot && _); [discriminate|].
    destruct (dir_inputs _); cbn [bind] in H; [|discriminate].
    destruct (creator_eqb c (CStep lbl)); [discriminate|].
    match type of H with (if ?b then _ else _) = _ => destruct b; [discriminate|] end.
    destruct (glob_check _ _ _ _); cbn [bind] in H; [|discriminate].
    match type of H with bind ?x _ = _ => destruct x; cbn [bind] in H; [|discriminate] end.
    destruct (check_all _ _ ROutput _); cbn [bind] in H; [|discriminate].
    destruct (check_all _ _ RVolatile _); cbn [bind] in H; [|discriminate].
    destruct (overlap_check _ _ _); cbn [bind] in H; [|discriminate].
    match type of H with bind (fold_res _ _ ?s) _ = _ => set (st1 := s) in * end.
    destruct (fold_res (supply ow lbl) (sort_uniq inps) st1) as [st2|] eqn:E2; cbn [bind] in H; [|discriminate].
    destruct (fold_res (declare_file ow (CStep lbl) ROutput) (sort_uniq outs) st2) as [st3|] eqn:E3;
      cbn [bind] in H; [|discriminate].
    apply (fold_frame (supply ow lbl) (supply_frame ow lbl)) in E2.
    apply fold_declare_frame in E3. apply fold_declare_frame in H.
    destruct (same_frame_trans _ _ _ (same_frame_trans _ _ _ E2 E3) H) as [_ [_ Hg]]. exact Hg.
  - unfold amend_step in H.
    destruct (require_step st (CStep s)); cbn [bind] in H; [|discriminate].
    destruct (dir_inputs _); cbn [bind] in H; [|discriminate].
    destruct (fold_res (supply ow s) (sort_uniq inps) st) as [st1|] eqn:E1; cbn [bind] in H; [|discriminate].
    destruct (check_all st1 _ ROutput _) as [o|]; cbn [bind] in H; [|discriminate].
    destruct (check_all st1 _ RVolatile _) as [v|]; cbn [bind] in H; [|discriminate].
    destruct (overlap_check _ _ _); cbn [bind] in H; [|discriminate].
    destruct (glob_check _ _ _ _); cbn [bind] in H; [|discriminate].
    destruct (fold_res (declare_file ow (CStep s) ROutput) o st1) as [st2|] eqn:E2; cbn [bind] in H; [|discriminate].
    apply (fold_frame (supply ow s) (supply_frame ow s)) in E1.
    apply fold_declare_frame in E2. apply fold_declare_frame in H.
    destruct (same_frame_trans _ _ _ (same_frame_trans _ _ _ E1 E2) H) as [_ [_ Hg]]. exact Hg.
Qed.

(* The rows appended by the accepted registrations of a request list (rejected requests are
   rolled back), in arrival order. *)
Fixpoint accepted_rows (st : state) (rs : list req) : list glob :=
  match rs with
  | [] => []
  | r :: rest =>
      match step gm ow gr st r with
      | Ok st' => new_rows r ++ accepted_rows st' rest
      | Err _ => accepted_rows st rest
      end
  end.

Theorem run_skip_globs_exact rs st :
  globs (run_skip gm ow gr st rs) = globs st ++ accepted_rows st rs.
Proof.
  unfold run_skip. revert st. induction rs as [|r rs IH]; intros st; cbn [fold_left accepted_rows].
  - now rewrite app_nil_r.
  - unfold step_skip at 2. destruct (step gm ow gr st r) as [st'|] eqn:E.
    + rewrite IH, (step_globs _ _ _ E), app_assoc. reflexivity.
    + apply IH.
Qed.

(* A registration is never lost: rows only accumulate. *)
Theorem registration_never_lost rs st g :
  In g (globs st) -> In g (globs (run_skip gm ow gr st rs)).
Proof. intros H. rewrite run_skip_globs_exact. apply in_or_app. now left. Qed.

(* ... and it is there right after the request that made it, whatever table it met. *)
Theorem accepted_registration_recorded st s pat subs ms st' rs :
  step gm ow gr st (RqGlob s pat subs ms) = Ok st' ->
  In (mkGlob s pat subs (sort_uniq (filter (gm (gkey pat subs)) ms)))
     (globs (run_skip gm ow gr st' rs)).
Proof.
  intros H. apply registration_never_lost. rewrite (step_globs _ _ _ H). cbn [new_rows].
  apply in_or_app. right. now left.
Qed.

(* The table as a multiset keyed by (step, pattern, subs). *)
Definition subs_eqb (a b : subs_t) : bool :=
  list_eqb (fun x y : str * str => str_eqb (fst x) (fst y) && str_eqb (snd x) (snd y)) a b.

Definition same_reg (s pat : str) (subs : subs_t) (g : glob) : bool :=
  str_eqb (g_step g) s && str_eqb (g_pat g) pat && subs_eqb (g_subs g) subs.

Definition reg_count (s pat : str) (subs : subs_t) (gs : list glob) : nat :=
  List.length (filter (same_reg s pat subs) gs).

Lemma reg_count_app s pat subs a b :
  reg_count s pat subs (a ++ b) = (reg_count s pat subs a + reg_count s pat subs b)%nat.
Proof. unfold reg_count. now rewrite filter_app, app_length. Qed.

(* The number of rows of one key after any request list = the number before + the number of
   accepted registrations of that key: nothing is superseded, merged or dropped, also when one
   step registers one pattern several times with equal or with different constraints. *)
Theorem reg_count_exact rs st s pat subs :
  reg_count s pat subs (globs (run_skip gm ow gr st rs)) =
  (reg_count s pat subs (globs st) + reg_count s pat subs (accepted_rows st rs))%nat.
Proof. now rewrite run_skip_globs_exact, reg_count_app. Qed.

Theorem reg_count_monotone rs st s pat subs :
  (reg_count s pat subs (globs st) <= reg_count s pat subs (globs (run_skip gm ow gr st rs)))%nat.
Proof. rewrite reg_count_exact. lia. Qed.

(* Every row of a reachable table still guards its matches: a later product that the stored regex
   of ANY earlier accepted registration matches is rejected by define_step / amend_step
   (_raise_if_glob_match walks the whole table). Pattern first, product second, for all tables. *)
Theorem registered_pattern_guards_products st g lbl ps p :
  In g (globs st) -> In p ps -> gm (g_key g) p = true ->
  exists m, glob_check gm (globs st) lbl ps = Err m.
Proof.
  intros Hg Hp Hm. destruct (glob_check gm (globs st) lbl ps) as [[]|m] eqn:E; [|now exists m].
  pose proof (glob_check_ok gm _ _ _ E g p Hg Hp) as Hf. rewrite Hm in Hf. discriminate.
Qed.


(* ---- two registrations commute (any steps, any patterns, any constraints) ------------------- *)

Definition with_globs (st : state) (gs : list glob) : state :=
  mkState (claims st) (loose st) (trees st) (steps st) gs (sinks st).

Lemma first_product_with_globs st gs ms : first_product (with_globs st gs) ms = first_product st ms.
Proof.
  induction ms as [|m ms IH]; cbn [first_product]; [reflexivity|]. rewrite IH.
  unfold is_product. cbn [claims with_globs]. reflexivity.
Qed.

Definition row_of (s pat : str) (subs : subs_t) (ms : list str) : glob :=
  mkGlob s pat subs (sort_uniq (filter (gm (gkey pat subs)) ms)).

(* register_nglob reads the claims and the steps, never the table itself, and appends one row *)
Lemma register_glob_with_globs s pat subs ms st gs :
  register_glob gm gr s pat subs ms (with_globs st gs) =
  match register_glob gm gr s pat subs ms st with
  | Ok _ => Ok (with_globs st (gs ++ [row_of s pat subs ms]))
  | Err m => Err m
  end.
Proof.
  unfold register_glob.
  change (require_step (with_globs st gs) (CStep s)) with (require_step st (CStep s)).
  destruct (require_step st (CStep s)); cbn [bind]; [|reflexivity].
  rewrite first_product_with_globs. cbn [claims with_globs].
  destruct (if gr then _ else _) as [[q cl]|]; [reflexivity|].
  destruct (find_first _ _); reflexivity.
Qed.

Lemma register_glob_ok s pat subs ms st st' :
  register_glob gm gr s pat subs ms st = Ok st' -> st' = with_globs st (globs st ++ [row_of s pat subs ms]).
Proof.
  unfold register_glob. intros H.
  destruct (require_step st (CStep s)); cbn [bind] in H; [|discriminate].
  destruct (if gr then _ else _) as [[q cl]|]; [discriminate|].
  destruct (find_first _ _); [discriminate|]. now inversion H.
Qed.

(* Two registrations, each acceptable on its own, are accepted in both orders; the final states
   hold the same rows (the two new rows in arrival order) and agree on everything else: a
   registration neither hides nor replaces another one, whatever the steps, patterns and subs. *)
Theorem glob_glob_commute st s1 p1 u1 m1 s2 p2 u2 m2 :
  accepted (step gm ow gr st (RqGlob s1 p1 u1 m1)) = true ->
  accepted (step gm ow gr st (RqGlob s2 p2 u2 m2)) = true ->
  both_equiv (run gm ow gr st [RqGlob s1 p1 u1 m1; RqGlob s2 p2 u2 m2])
             (run gm ow gr st [RqGlob s2 p2 u2 m2; RqGlob s1 p1 u1 m1]) /\
  run gm ow gr st [RqGlob s1 p1 u1 m1; RqGlob s2 p2 u2 m2] =
    Ok (with_globs st (globs st ++ [row_of s1 p1 u1 m1; row_of s2 p2 u2 m2])).
Proof.
  intros H1 H2. rewrite !run2. cbn [step] in *.
  destruct (register_glob gm gr s1 p1 u1 m1 st) as [a|] eqn:E1; [|discriminate H1].
  destruct (register_glob gm gr s2 p2 u2 m2 st) as [b|] eqn:E2; [|discriminate H2].
  cbn [bind]. rewrite (register_glob_ok _ _ _ _ _ _ E1), (register_glob_ok _ _ _ _ _ _ E2).
  rewrite !register_glob_with_globs, E1, E2. rewrite <- !app_assoc. cbn [app].
  split; [|reflexivity]. cbn [both_equiv]. unfold state_equiv, with_globs. cbn [claims trees steps loose globs sinks].
  repeat split; auto; intros Hin; apply in_app_or in Hin as [Hin|Hin]; apply in_or_app; auto;
    right; cbn in *; tauto.
Qed.


(* ---- a registration commutes with static files and static trees ------------------------------ *)
(* Neither side reads the other's table: declare_static_files / register_static_tree never look at
   the registrations, and register_nglob looks at the build products only, which a static
   declaration neither adds nor removes. Multi-path static requests included. *)

Definition lift (gs : list glob) (r : res state) : res state :=
  match r with Ok s => Ok (with_globs s gs) | Err m => Err m end.

Lemma declare_file_with_globs c r st gs p :
  declare_file ow c r (with_globs st gs) p = lift gs (declare_file ow c r st p).
Proof.
  unfold declare_file.
  destruct (role_eqb r RVolatile && ends_with_c SLASH p); [reflexivity|].
  change (find_owner ow (with_globs st gs) p) with (find_owner ow st p).
  destruct c as [|l|t]; cbn [bind].
  - destruct (find_owner ow st p) as [[[t0 tc]|]|]; cbn [bind]; try reflexivity.
    + destruct (role_eqb r RStatic); reflexivity.
    + destruct (is_prefix stepup_prefix p); [reflexivity|]. destruct (bad_name p); [reflexivity|].
      cbn [claims with_globs loose]. destruct (lookup p (claims st)); [reflexivity|].
      destruct (role_eqb r RVolatile && mem_str p (loose st)); reflexivity.
  - destruct (find_owner ow st p) as [[[t0 tc]|]|]; cbn [bind]; try reflexivity.
    + destruct (role_eqb r RStatic); reflexivity.
    + destruct (is_prefix stepup_prefix p); [reflexivity|]. destruct (bad_name p); [reflexivity|].
      cbn [claims with_globs loose]. destruct (lookup p (claims st)); [reflexivity|].
      destruct (role_eqb r RVolatile && mem_str p (loose st)); reflexivity.
  - destruct (is_prefix stepup_prefix p); [reflexivity|]. destruct (bad_name p); [reflexivity|].
    cbn [claims with_globs loose]. destruct (lookup p (claims st)); [reflexivity|].
    destruct (role_eqb r RVolatile && mem_str p (loose st)); [|reflexivity].
    destruct (phrase_of (CTree t)); reflexivity.
Qed.

Lemma fold_declare_with_globs (f : creator * str -> creator * role) l st gs :
  fold_res (fun s dp => declare_file ow (fst dp) RStatic s (snd dp)) l (with_globs st gs) =
  lift gs (fold_res (fun s (dp : creator * str) => declare_file ow (fst dp) RStatic s (snd dp)) l st).
Proof.
  revert st. induction l as [|dp l IH]; intros st; cbn [fold_res]; [reflexivity|].
  rewrite declare_file_with_globs.
  destruct (declare_file ow (fst dp) RStatic st (snd dp)) as [s1|]; cbn [lift bind]; [apply IH|reflexivity].
Qed.

Lemma static_checks_with_globs c st gs ps :
  static_checks ow c (with_globs st gs) ps = static_checks ow c st ps.
Proof. induction ps as [|p ps IH]; cbn [static_checks]; [reflexivity|]. now rewrite IH. Qed.

Lemma declare_static_files_with_globs c st gs ps :
  declare_static_files ow c (with_globs st gs) ps = lift gs (declare_static_files ow c st ps).
Proof.
  unfold declare_static_files. rewrite static_checks_with_globs.
  destruct (static_checks ow c st (sort_uniq ps)) as [todo|]; cbn [bind]; [|reflexivity].
  apply (fold_declare_with_globs (fun x => (fst x, RStatic))).
Qed.

Lemma register_tree_with_globs c path st gs :
  register_tree ow c path (with_globs st gs) = lift gs (register_tree ow c path st).
Proof.
  unfold register_tree.
  change (require_step (with_globs st gs) c) with (require_step st c).
  destruct (require_step st c); cbn [bind]; [|reflexivity].
  destruct (str_eqb path stepup_dir || is_prefix stepup_prefix path); [reflexivity|].
  destruct (str_eqb (with_slash path) [46; SLASH] || str_eqb (with_slash path) []); [reflexivity|].
  destruct (str_eqb (with_slash path) [SLASH]); [reflexivity|].
  change (find_owner ow (with_globs st gs) (with_slash path)) with (find_owner ow st (with_slash path)).
  destruct (find_owner ow st (with_slash path)) as [[[t tc]|]|]; cbn [bind]; [| |reflexivity].
  - destruct (creator_eqb tc c); [reflexivity|]. destruct (str_eqb t (with_slash path)); [|reflexivity].
    destruct (phrase_of tc) as [x|]; [destruct (phrase_of c) as [y|]|]; try reflexivity. destruct (sort2_str x y). reflexivity.
  - cbn [trees claims loose steps sinks with_globs globs].
    destruct (existsb _ (trees st)); [reflexivity|].
    destruct (min_entry _) as [[q cl]|]; [destruct (negb (role_eqb (c_role cl) RStatic)); reflexivity|].
    match goal with |- declare_static_files ow ?c1 ?s1 ?l = lift gs (declare_static_files ow ?c1 ?s2 ?l) =>
      change s1 with (with_globs s2 gs) end.
    apply declare_static_files_with_globs.
Qed.

Definition is_static_or_tree (r : req) : bool :=
  match r with RqStatic _ _ | RqTree _ _ => true | _ => false end.

Lemma step_with_globs st gs r :
  is_static_or_tree r = true -> step gm ow gr (with_globs st gs) r = lift gs (step gm ow gr st r).
Proof.
  destruct r; try discriminate; intros _; cbn [step].
  - change (require_step (with_globs st gs) c) with (require_step st c).
    destruct (require_step st c); cbn [bind]; [|reflexivity]. apply declare_static_files_with_globs.
  - apply register_tree_with_globs.
Qed.

(* the build products of a state, in table order *)
Definition is_prod (pc : str * claim) : bool := negb (role_eqb (c_role (snd pc)) RStatic).
Definition prods (st : state) : list (str * claim) := filter is_prod (claims st).

Definition prod_same (a b : state) : Prop :=
  prods b = prods a /\ (forall p, is_product b p = is_product a p) /\ steps b = steps a /\ globs b = globs a.

Lemma prod_same_refl a : prod_same a a.
Proof. repeat split. Qed.

Lemma prod_same_trans a b c : prod_same a b -> prod_same b c -> prod_same a c.
Proof.
  intros [A1 [A2 [A3 A4]]] [B1 [B2 [B3 B4]]].
  split; [congruence|split; [intros p; now rewrite B2, A2|split; congruence]].
Qed.

Lemma declare_static_prod_same c st p st' :
  declare_file ow c RStatic st p = Ok st' -> prod_same st st'.
Proof.
  intros H. assert (Hs : st' = set_claim st p (mkClaim RStatic c) /\ lookup p (claims st) = None).
  { unfold declare_file in H. cbn [role_eqb andb] in H.
    match type of H with bind ?x _ = _ => destruct x; cbn [bind] in H; [|discriminate] end.
    destruct (is_prefix stepup_prefix p); [discriminate|]. destruct (bad_name p); [discriminate|].
    destruct (lookup p (claims st)) eqn:El; [discriminate|]. inversion H. split; reflexivity. }
  destruct Hs as [-> Hl]. repeat split.
  intros q. unfold is_product, set_claim. cbn [claims lookup].
  destruct (str_eqb q p) eqn:E; [|reflexivity].
  apply str_eqb_eq in E. subst q. rewrite Hl. reflexivity.
Qed.

Lemma fold_static_prod_same l st st' :
  fold_res (fun s (dp : creator * str) => declare_file ow (fst dp) RStatic s (snd dp)) l st = Ok st' ->
  prod_same st st'.
Proof.
  revert st. induction l as [|dp l IH]; intros st H; cbn [fold_res] in H.
  - inversion H. apply prod_same_refl.
  - destruct (declare_file ow (fst dp) RStatic st (snd dp)) as [s1|] eqn:E; cbn [bind] in H; [|discriminate].
    eapply prod_same_trans; [eapply declare_static_prod_same; eauto|auto].
Qed.

Lemma declare_static_files_prod_same c st ps st' :
  declare_static_files ow c st ps = Ok st' -> prod_same st st'.
Proof.
  unfold declare_static_files. intros H.
  destruct (static_checks ow c st (sort_uniq ps)) as [todo|]; cbn [bind] in H; [|discriminate].
  eapply fold_static_prod_same; eauto.
Qed.

Lemma lookup_map_under {A} (P : str -> bool) (g : A -> A) l k :
  lookup k (map (fun pc : str * A => if P (fst pc) then (fst pc, g (snd pc)) else pc) l) =
  if P k then option_map g (lookup k l) else lookup k l.
Proof.
  induction l as [|[k' v] l IH]; cbn [map lookup fst snd]; [destruct (P k); reflexivity|].
  destruct (P k') eqn:Ek'; cbn [lookup fst snd];
    destruct (str_eqb k k') eqn:E; try exact IH;
    apply str_eqb_eq in E; subst k'; rewrite Ek'; reflexivity.
Qed.

Lemma filter_is_prod_handover d l :
  (forall pc : str * claim, In pc l -> is_prefix d (fst pc) = true -> c_role (snd pc) = RStatic) ->
  filter is_prod (map (fun pc : str * claim => if is_prefix d (fst pc)
                         then (fst pc, mkClaim (c_role (snd pc)) (CTree d)) else pc) l) = filter is_prod l.
Proof.
  induction l as [|pc l IH]; intros Hst; cbn [map filter]; [reflexivity|].
  assert (IH' := IH (fun x Hx => Hst x (or_intror Hx))).
  destruct (is_prefix d (fst pc)) eqn:Ep.
  - assert (H1 : is_prod (fst pc, mkClaim (c_role (snd pc)) (CTree d)) = false)
      by (unfold is_prod; cbn [snd c_role]; rewrite (Hst pc (or_introl eq_refl) Ep); reflexivity).
    assert (H2 : is_prod pc = false) by (unfold is_prod; rewrite (Hst pc (or_introl eq_refl) Ep); reflexivity).
    rewrite H1, H2. exact IH'.
  - destruct (is_prod pc); now rewrite IH'.
Qed.

Lemma register_tree_prod_same c path st st' :
  register_tree ow c path st = Ok st' -> prod_same st st'.
Proof.
  unfold register_tree. intros H.
  destruct (require_step st c); cbn [bind] in H; [|discriminate].
  destruct (str_eqb path stepup_dir || is_prefix stepup_prefix path); [discriminate|].
  destruct (str_eqb (with_slash path) [46; SLASH] || str_eqb (with_slash path) []); [discriminate|].
  destruct (str_eqb (with_slash path) [SLASH]); [discriminate|].
  set (d := with_slash path) in *.
  destruct (find_owner ow st d) as [[[t tc]|]|]; cbn [bind] in H; try discriminate.
  - destruct (creator_eqb tc c); [inversion H; apply prod_same_refl|].
    destruct (str_eqb t d); [|discriminate].
    destruct (phrase_of tc) as [x|]; [destruct (phrase_of c) as [y|]|]; try discriminate.
    destruct (sort2_str x y). discriminate.
  - destruct (existsb _ (trees st)); [discriminate|].
    destruct (min_entry _) as [[q cl]|] eqn:Emin; [destruct (negb (role_eqb (c_role cl) RStatic)); discriminate|].
    apply min_entry_none in Emin.
    (* every claim under d is static *)
    assert (Hst : forall pc, In pc (claims st) -> is_prefix d (fst pc) = true -> c_role (snd pc) = RStatic).
    { intros pc Hin Hp. assert (Hu : In pc (filter (fun pc => is_prefix d (fst pc)) (claims st))) by (apply filter_In; auto).
      pose proof (filter_nil _ _ Emin pc Hu) as Hf. unfold offending in Hf.
      apply orb_false_iff in Hf as [Hf _]. apply negb_false_iff in Hf. now apply role_eqb_eq. }
    eapply prod_same_trans; [|eapply declare_static_files_prod_same; exact H].
    unfold prod_same, prods. cbn [claims steps globs]. repeat split.
    + apply filter_is_prod_handover. exact Hst.
    + intros p. unfold is_product. cbn [claims].
      rewrite (lookup_map_under (is_prefix d) (fun cl => mkClaim (c_role cl) (CTree d))).
      destruct (is_prefix d p) eqn:Ep; [|reflexivity].
      destruct (lookup p (claims st)) as [cl|] eqn:El; [|reflexivity]. cbn [option_map c_role].
      assert (Hin : In (p, cl) (claims st)).
      { clear -El. induction (claims st) as [|[k v] l IH]; cbn in *; [discriminate|].
        destruct (str_eqb p k) eqn:E; [apply str_eqb_eq in E; inversion El; subst; now left|right; auto]. }
      pose proof (Hst (p, cl) Hin Ep) as Hrs. cbn [snd] in Hrs. rewrite Hrs. reflexivity.
Qed.

Lemma step_prod_same st r st' :
  is_static_or_tree r = true -> step gm ow gr st r = Ok st' -> prod_same st st'.
Proof.
  destruct r; try discriminate; intros _ H; cbn [step] in H.
  - destruct (require_step st c); cbn [bind] in H; [|discriminate]. eapply declare_static_files_prod_same; eauto.
  - eapply register_tree_prod_same; eauto.
Qed.

Lemma filter_prodf key l :
  filter (fun pc : str * claim => negb (role_eqb (c_role (snd pc)) RStatic) && gm key (fst pc)) l =
  filter (fun pc => gm key (fst pc)) (filter is_prod l).
Proof.
  induction l as [|pc l IH]; cbn [filter]; [reflexivity|]. unfold is_prod at 1.
  destruct (negb (role_eqb (c_role (snd pc)) RStatic)); cbn [andb filter]; [destruct (gm key (fst pc))|]; now rewrite IH.
Qed.

Lemma first_product_same a b ms : (forall p, is_product b p = is_product a p) -> first_product b ms = first_product a ms.
Proof. intros H. induction ms as [|m ms IH]; cbn [first_product]; [reflexivity|]. now rewrite H, IH. Qed.

(* register_nglob decides the same on two states with the same products and steps *)
Lemma register_glob_prod_same s pat subs ms a b :
  prod_same a b ->
  register_glob gm gr s pat subs ms b =
  match register_glob gm gr s pat subs ms a with
  | Ok _ => Ok (with_globs b (globs b ++ [row_of s pat subs ms]))
  | Err m => Err m
  end.
Proof.
  intros [Hp [Hi [Hs Hg]]]. unfold register_glob.
  assert (Hr : require_step b (CStep s) = require_step a (CStep s)).
  { unfold require_step, step_exists. now rewrite Hs. }
  rewrite Hr. destruct (require_step a (CStep s)); cbn [bind]; [|reflexivity].
  rewrite (first_product_same a b _ Hi), !filter_prodf. fold (prods a) (prods b). rewrite Hp.
  destruct (if gr then _ else _) as [[q cl]|]; [reflexivity|].
  destruct (find_first _ _); [reflexivity|]. rewrite pre_delete_none. reflexivity.
Qed.

(* Either order, glob versus static files (ANY list of paths) and glob versus static tree, any
   creators, any `ow gr`, from ANY state (no invariant needed): each acceptable on its own =>
   accepted in both orders with the SAME final state. *)
Theorem glob_static_tree_commute st x s pat subs ms :
  is_static_or_tree x = true ->
  accepted (step gm ow gr st (RqGlob s pat subs ms)) = true ->
  accepted (step gm ow gr st x) = true ->
  both (run gm ow gr st [RqGlob s pat subs ms; x]) (run gm ow gr st [x; RqGlob s pat subs ms]) /\
  accepted (run gm ow gr st [x; RqGlob s pat subs ms]) = true.
Proof.
  intros Hx H1 H2. rewrite !run2.
  destruct (step gm ow gr st x) as [st'|] eqn:Ex; [|discriminate H2].
  cbn [step] in H1 |- *.
  destruct (register_glob gm gr s pat subs ms st) as [sg|] eqn:Eg; [|discriminate H1].
  cbn [bind]. rewrite (register_glob_ok _ _ _ _ _ _ Eg), (step_with_globs _ _ _ Hx), Ex. cbn [lift].
  pose proof (step_prod_same _ _ _ Hx Ex) as Hps.
  rewrite (register_glob_prod_same s pat subs ms st st' Hps), Eg.
  destruct Hps as [_ [_ [_ Hg]]]. rewrite Hg. cbn [both accepted]. split; reflexivity.
Qed.

End Registrations.

(* Two registrations of one pattern by one step with different constraints are two rows. *)
Example two_registrations_of_one_pattern :
  let pat := s2l "${*name}.txt" in
  let r1 := RqGlob w_B pat [(s2l "name", s2l "a*")] [] in
  let r2 := RqGlob w_B pat [(s2l "name", s2l "b*")] [] in
  let st := run_skip w_gm false false w_boot [r1; r2; r1] in
  List.length (globs st) = 3%nat /\
  reg_count w_B pat [(s2l "name", s2l "a*")] (globs st) = 2%nat /\
  reg_count w_B pat [(s2l "name", s2l "b*")] (globs st) = 1%nat.
Proof. vm_compute. repeat split; reflexivity. Qed.
