(* C09: documented file state transitions (partial transitions_documented).
   For the operations that do not declare files (everything except declare_static / define_step /
   amend_step) every file row that exists before and after the operation moved along the
   reflexive-transitive closure of the documented single steps: a row of _HASH_TRANSITIONS,
   BUILT -> OUTDATED (mark_file_outdated, failed run) and OUTDATED -> BUILT (successful run); and
   no file row appears.  These lemmas need no invariant. *)
From Coq Require Import List NArith Bool Lia Relations.
From SV Require Import lib.Bytes lib.Closure model.Graph model.GraphInv
  proofs.GraphBase proofs.GraphNodes proofs.GraphInvP proofs.GraphPrims proofs.GraphFrames proofs.GraphCreate proofs.GraphOps.
Import ListNotations.
Open Scope N_scope.

(* one documented step *)
Definition file_step (old new : fstate) : Prop :=
  (exists c k a, transition c old k = Some (new, a)) \/
  (old = FBuilt /\ new = FOutdated) \/ (old = FOutdated /\ new = FBuilt).

(* its reflexive-transitive closure, as a table *)
Definition file_trans_b (old new : fstate) : bool :=
  fstate_eqb old new ||
  match old, new with
  | FUnconfirmed, FConfirmed | FUnconfirmed, FMissing | FMissing, FConfirmed | FConfirmed, FMissing => true
  | (FPlanned | FBuilt | FOutdated), (FPlanned | FBuilt | FOutdated) => true
  | _, _ => false
  end.

Lemma file_trans_b_refl a : file_trans_b a a = true.
Proof. destruct a; reflexivity. Qed.
Lemma file_trans_b_trans a b c : file_trans_b a b = true -> file_trans_b b c = true -> file_trans_b a c = true.
Proof. destruct a, b; cbn; try discriminate; destruct c; cbn; auto. Qed.

Lemma transition_trans_b c old k ns a : transition c old k = Some (ns, a) -> file_trans_b old ns = true.
Proof. destruct c, old, k; cbn; intros H; inversion H; reflexivity. Qed.

Lemma file_step_trans_b a b : file_step a b -> file_trans_b a b = true.
Proof.
  intros [[c [k [x H]]]|[[-> ->]|[-> ->]]]; [eapply transition_trans_b; exact H | reflexivity | reflexivity].
Qed.

Ltac pt c k := left; exists c, k; eexists; reflexivity.
Lemma file_trans_b_closure a b : file_trans_b a b = true <-> clos_refl_trans fstate file_step a b.
Proof.
  split.
  - destruct a, b; cbn; intros H; try discriminate; try apply rt_refl; apply rt_step;
      first [ pt CExternal true | pt CExternal false | pt CSucceeded true | pt CFailed true | pt CFailed false
            | pt CConfirmed true | pt CConfirmed false | right; left; split; reflexivity | right; right; split; reflexivity ].
  - intros H. induction H as [x y H|x|x y z _ IH1 _ IH2].
    + apply file_step_trans_b. exact H.
    + apply file_trans_b_refl.
    + eapply file_trans_b_trans; eassumption.
Qed.

(* ------------------------------------------------------------------------------------------ *)
(* the frame                                                                                   *)
(* ------------------------------------------------------------------------------------------ *)
Definition FT (s s' : st) : Prop :=
  (forall l r r', find_file l s = Some r -> find_file l s' = Some r' -> file_trans_b (fstt r) (fstt r') = true) /\
  (forall l, find_file l s' <> None -> find_file l s <> None).

Lemma FT_refl s : FT s s.
Proof. split; [|auto]. intros l r r' H1 H2. rewrite H1 in H2. inversion H2. apply file_trans_b_refl. Qed.
Lemma FT_trans s1 s2 s3 : FT s1 s2 -> FT s2 s3 -> FT s1 s3.
Proof.
  intros [A1 A2] [B1 B2]. split; [|auto]. intros l r r' H1 H3.
  assert (H2 : find_file l s2 <> None) by (apply B2; rewrite H3; discriminate).
  destruct (find_file l s2) as [r2|] eqn:E2; [|congruence].
  eapply file_trans_b_trans; [apply (A1 l r r2 H1 E2) | apply (B1 l r2 r' E2 H3)].
Qed.
Lemma FT_files s s' : files s' = files s -> FT s s'.
Proof. intros H. unfold FT, find_file. rewrite H. apply FT_refl. Qed.

Lemma set_fstate_hash_FT l new newh s s' :
  (forall r, find_file l s = Some r -> file_trans_b (fstt r) new = true) ->
  set_fstate_hash l new newh s = Ok s' -> FT s s'.
Proof.
  intros Hn. unfold set_fstate_hash. destruct (find_file l s) as [r|] eqn:Hf; [|intros H; inversion H; apply FT_refl].
  destruct (needs_hash new && _); [discriminate|]. destruct (fstate_eqb new FUndeclared && _); [discriminate|].
  intros H; inversion H; subst s'. clear H. split.
  - intros x r0 r' H0 H'. unfold find_file in H'. rewrite files_upd_file in H'.
    match type of H' with find _ (updf _ ?g _) = _ => fold (findf x (updf l g (files s))) in H' end.
    rewrite findf_updf in H'; [|reflexivity]. unfold find_file in H0. fold (findf x (files s)) in H0.
    destruct (str_eqb x l) eqn:E.
    + apply str_eqb_eq in E. subst x. rewrite H0 in H'. cbn in H'. inversion H'; subst r'. cbn.
      apply Hn. unfold find_file. fold (findf l (files s)). rewrite <- Hf. unfold find_file. exact H0.
    + rewrite H0 in H'. inversion H'. apply file_trans_b_refl.
  - intros x. unfold find_file. rewrite files_upd_file.
    match goal with |- find _ (updf _ ?g _) <> _ -> _ => fold (findf x (updf l g (files s))) end.
    rewrite findf_updf; [|reflexivity]. fold (findf x (files s)).
    destruct (str_eqb x l); destruct (findf x (files s)); cbn; auto; intros _; discriminate.
Qed.

Lemma set_sstate_files l new d s s' : set_sstate l new d s = Ok s' -> files s' = files s.
Proof.
  unfold set_sstate. destruct (find_step l s); [|intros H; inversion H; reflexivity].
  destruct (d && _); [discriminate|]. intros H; inversion H. reflexivity.
Qed.

(* state propagation: only BUILT -> OUTDATED *)
Lemma mark_FT fuel :
  (forall l s, wpg false (mark_step_pending_f fuel l s) (FT s)) /\
  (forall f s, wpg false (mark_file_outdated_f fuel f s) (FT s)).
Proof.
  induction fuel as [|fuel [IHs IHf]]; [split; intros; exact I|]. split.
  - intros l s. cbn [mark_step_pending_f]. destruct (sstate_of l s) as [old|]; [|exact I].
    assert (Hmain : forall after, (forall s1, wpg false (after s1) (FT s1)) ->
               wpg false (bind (set_sstate l SPending false s) after) (FT s)).
    { intros after Ha. apply wpg_bind. destruct (set_sstate l SPending false s) as [s1|t|t] eqn:E; try exact I.
      cbn. eapply wpg_weaken; [apply Ha|]. intros s2 H2. eapply FT_trans; [|exact H2].
      apply FT_files. eapply set_sstate_files. exact E. }
    assert (Hprop : forall s1, wpg false (foldM (fun s f => match fstate_of f s with
                                             | Some FBuilt => mark_file_outdated_f fuel f s
                                             | _ => Ok s end) (file_sinks_of_step l s1) s1) (FT s1)).
    { intros s1. apply (wpg_foldM false _ (FT s1)); [|apply FT_refl].
      intros s2 f _ H2. destruct (fstate_of f s2) as [[]|]; try exact H2.
      eapply wpg_weaken; [apply IHf|]. intros s3 H3. eapply FT_trans; eassumption. }
    destruct old; try (cbn; apply FT_refl).
    + apply Hmain. intros s1. cbn. apply FT_refl.
    + apply Hmain. exact Hprop.
    + apply Hmain. exact Hprop.
  - intros f s. cbn [mark_file_outdated_f].
    destruct (fstate_of f s) as [[]|] eqn:Hfs; try exact I; [|cbn; apply FT_refl].
    apply wpg_bind. unfold set_fstate. destruct (set_fstate_hash f FOutdated None s) as [s1|t|t] eqn:E; try exact I.
    cbn. assert (F1 : FT s s1).
    { eapply set_fstate_hash_FT; [|exact E]. intros r Hr. unfold fstate_of in Hfs. rewrite Hr in Hfs.
      inversion Hfs as [Hst]. rewrite Hst. reflexivity. }
    eapply wpg_weaken.
    + apply (wpg_foldM false _ (FT s1)); [|apply FT_refl]. intros s2 l _ H2.
      eapply wpg_weaken; [apply IHs|]. intros s3 H3. eapply FT_trans; eassumption.
    + intros s2 H2. eapply FT_trans; eassumption.
Qed.

Lemma mark_step_pending_FT l s : wpg false (mark_step_pending l s) (FT s).
Proof. apply (proj1 (mark_FT _)). Qed.
Lemma mark_file_outdated_FT f s : wpg false (mark_file_outdated f s) (FT s).
Proof. apply (proj2 (mark_FT _)). Qed.
Lemma mark_consumers_pending_FT f s : wpg false (mark_consumers_pending f s) (FT s).
Proof.
  unfold mark_consumers_pending. apply (wpg_foldM false _ (FT s)); [|apply FT_refl].
  intros s1 l _ H1. eapply wpg_weaken; [apply mark_step_pending_FT|]. intros s2 H2. eapply FT_trans; eassumption.
Qed.

Lemma foldM_FT {A} (f : st -> A -> res st) (l : list A) s :
  (forall s a, wpg false (f s a) (FT s)) -> wpg false (foldM f l s) (FT s).
Proof.
  intros Hf. apply (wpg_foldM false f (FT s)); [|apply FT_refl].
  intros s1 a _ H1. eapply wpg_weaken; [apply Hf|]. intros s2 H2. eapply FT_trans; eassumption.
Qed.

(* ------------------------------------------------------------------------------------------ *)
(* update_file_hashes                                                                          *)
(* ------------------------------------------------------------------------------------------ *)
Lemma creator_pending_FT p s :
  wpg false (match step_creator_of_file p s with Some c => mark_step_pending c s | None => Ok s end) (FT s).
Proof. destruct (step_creator_of_file p s); [apply mark_step_pending_FT | cbn; apply FT_refl]. Qed.

Lemma handle_updated_file_FT p s : wpg false (handle_updated_file p s) (FT s).
Proof.
  unfold handle_updated_file. destruct (fstate_of p s) as [[]|]; try (cbn; apply FT_refl);
    try apply creator_pending_FT. apply mark_consumers_pending_FT.
Qed.
Lemma handle_deleted_file_FT p s : wpg false (handle_deleted_file p s) (FT s).
Proof.
  unfold handle_deleted_file. apply wpg_bind.
  assert (H1 : wpg false (match fstate_of p s with
                          | Some FPlanned => match step_creator_of_file p s with
                                             | Some c => mark_step_pending c s | None => Ok s end
                          | _ => Ok s end) (FT s)).
  { destruct (fstate_of p s) as [[]|]; try (cbn; apply FT_refl). apply creator_pending_FT. }
  eapply wpg_weaken; [exact H1|]. intros s1 F1. eapply wpg_weaken; [apply mark_consumers_pending_FT|].
  intros s2 F2. eapply FT_trans; eassumption.
Qed.

Lemma update_file_hashes_FT c hs s : wpg false (update_file_hashes c hs s) (FT s).
Proof.
  unfold update_file_hashes. apply wpg_bind.
  assert (Hplan : wpg false (foldM (fun acc ph =>
                match find_file (fst ph) s with
                | None => Internal 118
                | Some r =>
                  match transition c (fstt r) (is_some (snd ph)) with
                  | None => Internal 119
                  | Some (ns, act) => Ok (acc ++ [mkP (fst ph) (snd ph) ns act])
                  end
                end) hs [])
            (fun plan => forall x, In x plan -> exists r0 k a, find_file (p_path x) s = Some r0 /\
                                                         transition c (fstt r0) k = Some (p_state x, a))).
  { assert (Hgen : forall hs0 acc,
              (forall x, In x acc -> exists r0 k a, find_file (p_path x) s = Some r0 /\ transition c (fstt r0) k = Some (p_state x, a)) ->
              wpg false (foldM (fun acc ph =>
                match find_file (fst ph) s with
                | None => Internal 118
                | Some r =>
                  match transition c (fstt r) (is_some (snd ph)) with
                  | None => Internal 119
                  | Some (ns, act) => Ok (acc ++ [mkP (fst ph) (snd ph) ns act])
                  end
                end) hs0 acc)
              (fun plan => forall x, In x plan -> exists r0 k a, find_file (p_path x) s = Some r0 /\
                                                           transition c (fstt r0) k = Some (p_state x, a))).
    { induction hs0 as [|ph hs0 IH]; intros acc Hacc; cbn [foldM]; [exact Hacc|].
      apply wpg_bind. destruct (find_file (fst ph) s) as [r|] eqn:Hr; [|exact I].
      destruct (transition c (fstt r) (is_some (snd ph))) as [[ns act]|] eqn:Ht; [|exact I].
      cbn [wpg]. apply IH. intros x Hx. apply in_app_or in Hx. destruct Hx as [Hx|[<-|[]]]; [auto|].
      exists r, (is_some (snd ph)), act. cbn. auto. }
    apply Hgen. intros x []. }
  eapply wpg_weaken; [exact Hplan|]. intros plan Hp. apply wpg_bind.
  (* rows: each is unchanged or one hop of the table away from its state in s *)
  eapply wpg_weaken.
  { apply (wpg_foldM false _ (fun cur =>
             (forall l r0 r', find_file l s = Some r0 -> find_file l cur = Some r' ->
                fstt r' = fstt r0 \/ exists k a, transition c (fstt r0) k = Some (fstt r', a)) /\
             (forall l, find_file l cur <> None -> find_file l s <> None))).
    - intros cur x Hx [C1 C2]. destruct (Hp x Hx) as [r0 [k [a [Hr0 Ht]]]].
      apply wpg_of_ok. intros cur' Hc'. unfold set_fstate_hash in Hc'.
      destruct (find_file (p_path x) cur) as [rc|] eqn:Hrc; [|inversion Hc'; subst; auto].
      destruct (needs_hash (p_state x) && _); [discriminate|].
      destruct (fstate_eqb (p_state x) FUndeclared && _); [discriminate|]. inversion Hc'; subst cur'. clear Hc'.
      split.
      + intros l q0 q' H0 H'. unfold find_file in H'. rewrite files_upd_file in H'.
        match type of H' with find _ (updf _ ?g _) = _ => fold (findf l (updf (p_path x) g (files cur))) in H' end.
        rewrite findf_updf in H'; [|reflexivity].
        destruct (str_eqb l (p_path x)) eqn:E.
        * apply str_eqb_eq in E. subst l. unfold find_file in Hrc. fold (findf (p_path x) (files cur)) in Hrc.
          rewrite Hrc in H'. cbn in H'. inversion H'; subst q'. cbn.
          rewrite Hr0 in H0. inversion H0; subst q0. right. exists k, a. exact Ht.
        * apply (C1 l q0 q' H0). exact H'.
      + intros l. unfold find_file. rewrite files_upd_file.
        match goal with |- find _ (updf _ ?g _) <> _ -> _ => fold (findf l (updf (p_path x) g (files cur))) end.
        rewrite findf_updf; [|reflexivity]. intros H. apply C2. unfold find_file. fold (findf l (files cur)).
        destruct (str_eqb l (p_path x)); [|exact H]. destruct (findf l (files cur)); [discriminate | exact H].
    - split; [intros l r0 r' H0 H'; left; congruence | auto]. }
  intros s1 [C1 C2]. cbn zeta.
  assert (F01 : FT s s1).
  { split; [|exact C2]. intros l r r' H0 H'. destruct (C1 l r r' H0 H') as [E|[k [a Ht]]].
    - rewrite E. apply file_trans_b_refl.
    - eapply transition_trans_b. exact Ht. }
  apply wpg_bind. eapply wpg_weaken; [apply foldM_FT; intros; apply handle_updated_file_FT|].
  intros s2 F12. apply wpg_bind. eapply wpg_weaken; [apply foldM_FT; intros; apply handle_deleted_file_FT|].
  intros s3 F23. eapply wpg_weaken; [apply foldM_FT; intros; apply mark_consumers_pending_FT|].
  intros s4 F34. eapply FT_trans; [exact F01|]. eapply FT_trans; [exact F12|]. eapply FT_trans; eassumption.
Qed.

(* ------------------------------------------------------------------------------------------ *)
(* lifecycle operations                                                                        *)
(* ------------------------------------------------------------------------------------------ *)
Lemma node_detach_files k s s' : node_detach k s = Ok s' -> files s' = files s.
Proof.
  unfold node_detach. destruct (find_node k s) as [n|]; [|discriminate]. destruct (ncre n); [|intros H; inversion H; reflexivity].
  intros H; inversion H. destruct (ndet n); reflexivity.
Qed.

Lemma detach_fold_FT (ps : list key) s : wpg false (foldM (fun s p => node_detach p s) ps s) (FT s).
Proof. apply foldM_FT. intros s0 p. apply wpg_of_ok. intros s1 H. apply FT_files. eapply node_detach_files. exact H. Qed.

Lemma reset_for_rerun_FT step s : wpg false (reset_for_rerun step s) (FT s).
Proof.
  unfold reset_for_rerun. apply wpg_bind.
  eapply wpg_weaken.
  { apply (wpg_foldM false _ (FT s)); [|apply FT_files; reflexivity].
    intros s1 x _ F1. apply wpg_of_ok. intros s2 H2. eapply FT_trans; [exact F1|]. apply FT_files.
    rewrite (node_detach_files _ _ _ H2). reflexivity. }
  intros s3 F3. apply wpg_bind. unfold detach_created_steps. eapply wpg_weaken; [apply detach_fold_FT|].
  intros s4 F4. apply wpg_bind. eapply wpg_weaken.
  { apply foldM_FT. intros s0 l. apply wpg_of_ok. intros s1 H. apply FT_files. eapply node_detach_files. exact H. }
  intros s5 F5. apply wpg_bind. eapply wpg_weaken; [apply detach_fold_FT|].
  intros s6 F6. eapply wpg_weaken; [apply foldM_FT; intros; apply mark_file_outdated_FT|].
  intros s7 F7. eapply FT_trans; [exact F3|]. eapply FT_trans; [exact F4|]. eapply FT_trans; [exact F5|].
  eapply FT_trans; eassumption.
Qed.

Lemma In_file_products_state step p l s : In l (file_products_in step p s) -> exists f, fstate_of l s = Some f /\ p f = true.
Proof.
  unfold file_products_in. rewrite in_map_iff. intros [k [Hk1 Hk2]]. apply filter_In in Hk2.
  destruct Hk2 as [_ Hk3]. apply andb_true_iff in Hk3. destruct Hk3 as [_ Hk4]. subst l.
  destruct (fstate_of (snd k) s) as [f|]; [|discriminate]. exists f. auto.
Qed.

(* the products listed at the start are, when their turn comes, in a state of the OUTPUT role *)
Lemma set_output_fold_FT new (after : str -> st -> res st) (ls : list str) s :
  (new = FBuilt \/ new = FOutdated) ->
  (forall l, In l ls -> exists f, fstate_of l s = Some f /\ (f = FPlanned \/ f = FBuilt \/ f = FOutdated)) ->
  (forall l s1, wpg false (after l s1) (FT s1)) ->
  wpg false (foldM (fun s l => do s' <- set_fstate l new s; after l s') ls s) (FT s).
Proof.
  intros Hnew Hls Hafter.
  apply (wpg_foldM false _ (FT s)); [|apply FT_refl].
  intros s1 l Hl F1. apply wpg_bind. unfold set_fstate.
  destruct (set_fstate_hash l new None s1) as [s2|t|t] eqn:E; try exact I. cbn.
  assert (F12 : FT s1 s2).
  { eapply set_fstate_hash_FT; [|exact E]. intros r1 Hr1.
    destruct (Hls l Hl) as [f [Hf Hrole]]. unfold fstate_of in Hf.
    destruct (find_file l s) as [r0|] eqn:Hr0; [|discriminate]. inversion Hf; subst f.
    pose proof (proj1 F1 l r0 r1 Hr0 Hr1) as Ht.
    destruct Hrole as [Hr|[Hr|Hr]]; rewrite Hr in Ht; destruct (fstt r1); try discriminate;
      destruct Hnew as [-> | ->]; reflexivity. }
  eapply wpg_weaken; [apply Hafter|]. intros s3 F23. eapply FT_trans; [exact F1|]. eapply FT_trans; eassumption.
Qed.

Lemma upd_step_files l g s : files (upd_step l g s) = files s.
Proof. reflexivity. Qed.

Lemma mark_completed_FT step ok wd s : wpg false (mark_completed step ok wd s) (FT s).
Proof.
  unfold mark_completed. destruct (negb (is_some (find_step step s))); [exact I|].
  destruct ok.
  - apply wpg_bind. destruct (set_sstate step SSucceeded false s) as [s1|t|t] eqn:E1; try exact I. cbn.
    pose proof (set_sstate_files _ _ _ _ _ E1) as Hf1.
    apply wpg_bind. eapply wpg_weaken.
    + apply (set_output_fold_FT FBuilt (fun l s' => mark_consumers_pending l s')); [auto | | intros; apply mark_consumers_pending_FT].
      intros l Hl. apply In_file_products_state in Hl. destruct Hl as [f [Hf Hp]]. exists f. split; [exact Hf|].
      destruct f; try discriminate. auto.
    + intros s2 F2. cbn. eapply FT_trans; [apply FT_files; exact Hf1|]. eapply FT_trans; [exact F2|].
      apply FT_files. unfold store_hash. destruct (has_hash step s2); reflexivity.
  - apply wpg_bind. eapply wpg_weaken.
    + rewrite (foldM_ext _ (fun s l => do s' <- set_fstate l FOutdated s; (fun _ s => Ok s) l s')).
      2:{ intros s0 a. destruct (set_fstate a FOutdated s0); reflexivity. }
      apply (set_output_fold_FT FOutdated (fun _ s' => Ok s')); [auto | | intros; cbn; apply FT_refl].
      intros l Hl. apply In_file_products_state in Hl. destruct Hl as [f [Hf Hp]]. exists f. split; [exact Hf|].
      destruct f; try discriminate. auto.
    + intros s1 F1. apply wpg_bind.
      assert (Hstate : wpg false
                (if wd
                 then match find_step step s1 with
                      | None => Internal 120
                      | Some r =>
                        let dc := sdc r + 1 in
                        let s' := upd_step step (fun r => mkS (sl r) (sst r) (sneed r) (sdef r) dc (shold r)) s1 in
                        if dc <=? defer_cap s then set_sstate step SPending (has_unavailable_dynamic_input step s') s'
                        else set_sstate step SFailed false s'
                      end
                 else set_sstate step SFailed false s1) (fun s2 => files s2 = files s1)).
      { destruct wd.
        - destruct (find_step step s1); [|exact I]. cbn zeta.
          destruct (sdc s0 + 1 <=? defer_cap s); apply wpg_of_ok; intros s2 H2;
            rewrite (set_sstate_files _ _ _ _ _ H2); reflexivity.
        - apply wpg_of_ok. intros s2 H2. apply (set_sstate_files _ _ _ _ _ H2). }
      eapply wpg_weaken; [exact Hstate|]. intros s2 Hf2. apply wpg_bind.
      assert (Hdet : wpg false (match sstate_of step s2 with
                                | Some SFailed => detach_created_steps step s2
                                | _ => Ok s2 end) (FT s2)).
      { destruct (sstate_of step s2) as [[]|]; try (cbn; apply FT_refl). apply detach_fold_FT. }
      eapply wpg_weaken; [exact Hdet|]. intros s3 F3. cbn.
      eapply FT_trans; [exact F1|]. eapply FT_trans; [apply FT_files; exact Hf2|]. eapply FT_trans; [exact F3|].
      apply FT_files. reflexivity.
Qed.

Lemma delete_node_find_file k l s r' : find_file l (delete_node k s) = Some r' -> find_file l s = Some r'.
Proof.
  unfold delete_node. destruct k as [[] kl]; cbn [fst snd]; try (intros H; exact H).
  unfold find_file. cbn [files set_files set_nodes del_all_sources del_deps_where set_deps].
  rewrite find_filter. intros H.
  destruct (find (fun x => negb (str_eqb (fl x) kl) && str_eqb (fl x) l) (files s)) as [q|] eqn:E; [|discriminate].
  inversion H; subst q. pose proof (find_some _ _ E) as [_ Hr]. apply andb_true_iff in Hr. destruct Hr as [Hr1 Hr2].
  clear H. revert E. induction (files s) as [|x xs IH]; cbn; [discriminate|].
  destruct (str_eqb (fl x) l) eqn:Ex.
  - destruct (negb (str_eqb (fl x) kl)) eqn:Ek; cbn; [intros H; exact H|].
    intros H. exfalso. apply negb_false_iff in Ek. apply str_eqb_eq in Ek. apply str_eqb_eq in Ex.
    apply str_eqb_eq in Hr2. apply negb_true_iff in Hr1. apply str_eqb_neq in Hr1. congruence.
  - rewrite andb_false_r. exact IH.
Qed.

Lemma delete_node_FT k s : FT s (delete_node k s).
Proof.
  split.
  - intros l r r' H0 H'. apply delete_node_find_file in H'. rewrite H0 in H'. inversion H'. apply file_trans_b_refl.
  - intros l H. destruct (find_file l (delete_node k s)) as [r'|] eqn:E; [|congruence].
    apply delete_node_find_file in E. rewrite E. discriminate.
Qed.

Lemma dd_loop_FT fuel : forall lost s, FT s (fst (dd_loop fuel lost s)).
Proof.
  induction fuel as [|fuel IH]; intros lost s; cbn [dd_loop]; [apply FT_refl|].
  destruct (find (fun n => deletable n s) (nodes s)); [|apply FT_refl].
  eapply FT_trans; [apply delete_node_FT | apply IH].
Qed.

Lemma delete_detached_FT s : wpg false (delete_detached s) (FT s).
Proof.
  unfold delete_detached. apply (wpg_foldM false _ (FT s)); [|apply dd_loop_FT].
  intros s1 c _ F1. destruct (find_node c s1); [|exact F1]. unfold after_lost_product.
  destruct (fst c); cbn; try exact I; try exact F1.
Qed.

Lemma set_sstate_raw_files l new s s' : set_sstate_raw l new s = Ok s' -> files s' = files s.
Proof. unfold set_sstate_raw. destruct (find_step l s); [apply set_sstate_files | intros H; inversion H; reflexivity]. Qed.

Lemma reset_interrupted_FT s : wpg false (reset_interrupted s) (FT s).
Proof.
  unfold reset_interrupted. apply wpg_bind. eapply wpg_weaken.
  { apply foldM_FT. intros s0 r. destruct (sst r); try (cbn; apply FT_refl).
    apply wpg_of_ok. intros s1 H. apply FT_files. eapply set_sstate_raw_files. exact H. }
  intros s1 F1. apply wpg_bind. eapply wpg_weaken.
  { apply foldM_FT. intros s0 r. destruct (sst r); try (cbn; apply FT_refl).
    apply wpg_of_ok. intros s2 H. apply FT_files. eapply set_sstate_raw_files. exact H. }
  intros s2 F2. eapply wpg_weaken.
  { apply foldM_FT. intros s0 r. destruct (sstate_of (sl r) s0) as [[]|]; try (cbn; apply FT_refl).
    destruct (is_detached (KStep, sl r) s0); [cbn; apply FT_refl | apply mark_step_pending_FT]. }
  intros s3 F3. eapply FT_trans; [exact F1|]. eapply FT_trans; eassumption.
Qed.

(* ------------------------------------------------------------------------------------------ *)
(* the operations that do not declare files                                                    *)
(* ------------------------------------------------------------------------------------------ *)
Definition declares_files (o : op) : bool :=
  match o with OpDeclareStatic _ _ | OpDefineStep _ _ _ _ _ _ _ | OpAmendStep _ _ _ _ _ => true | _ => false end.

Lemma step_op_FT o s : declares_files o = false -> wpg false (step_op o s) (FT s).
Proof.
  intros Hd. destruct o; try discriminate; cbn [step_op].
  - apply update_file_hashes_FT.
  - apply wpg_of_ok. intros s' H. apply FT_files. eapply set_sstate_files. exact H.
  - apply reset_for_rerun_FT.
  - apply wpg_bind. eapply wpg_weaken; [apply update_file_hashes_FT|]. intros s0 F0.
    apply wpg_bind. eapply wpg_weaken; [apply update_file_hashes_FT|]. intros s1 F1.
    eapply wpg_weaken; [apply mark_completed_FT|]. intros s2 F2.
    eapply FT_trans; [exact F0|]. eapply FT_trans; eassumption.
  - apply wpg_bind. eapply wpg_weaken; [apply reset_for_rerun_FT|]. intros s1 F1.
    apply wpg_of_ok. intros s' H. eapply FT_trans; [exact F1|]. apply FT_files.
    rewrite (set_sstate_files _ _ _ _ _ H). reflexivity.
  - apply wpg_of_ok. intros s' H. apply FT_files. eapply set_sstate_files. exact H.
  - apply mark_step_pending_FT.
  - apply delete_detached_FT.
  - unfold hold. destruct (negb (is_some (find_step label s))); [exact I|]. cbn. apply FT_files. reflexivity.
  - unfold release. destruct (find_step label s); [|exact I]. destruct (shold s0 =? 0); [exact I|]. cbn. apply FT_files. reflexivity.
  - apply reset_interrupted_FT.
Qed.

Lemma file_transitions_documented o s l r r' :
  declares_files o = false -> find_file l s = Some r -> find_file l (apply_op s o) = Some r' ->
  clos_refl_trans fstate file_step (fstt r) (fstt r').
Proof.
  intros Hd H0 H'. apply file_trans_b_closure. unfold apply_op in H'.
  pose proof (step_op_FT o s Hd) as Hw. destruct (step_op o s) as [s'|t|t].
  - cbn in Hw. apply (proj1 Hw l r r' H0 H').
  - rewrite H0 in H'. inversion H'. apply file_trans_b_refl.
  - rewrite H0 in H'. inversion H'. apply file_trans_b_refl.
Qed.

Lemma no_new_file_rows o s l :
  declares_files o = false -> find_file l (apply_op s o) <> None -> find_file l s <> None.
Proof.
  intros Hd. unfold apply_op. pose proof (step_op_FT o s Hd) as Hw. destruct (step_op o s) as [s'|t|t]; auto.
  cbn in Hw. apply (proj2 Hw).
Qed.
