(* C01: amended (dynamic) inputs with deferral, the missing half of C01_amend_full.

   proofs/EngineAmendProofs.v shows that a FINISHED state of a project with amended inputs is
   determined by the world (finished_a_unique).  Here: every build of the UNGATED engine
   (model/Engine.v Section Amend, gate = false) from every state that builds reach ends in a
   finished state.  Together: after any sequence of worlds, building the last one on top of what
   the earlier builds left is equivalent to building it on nothing (amend_full).

   The invariant [InvA] of the states between builds is the invariant [Pre] of the static engine
   read at the REMEMBERED project (every step with the amended inputs it remembers, [remb]):
     ia_tv   a recorded trace is valid for the step with its remembered amended inputs
     ia_or   the remembered amended inputs of a step with a trace are what the step amends on the
             declared-input contents recorded in that trace (so that a skip, which compares the
             recorded contents with the present ones, implies remembered = present amended inputs)
     ia_K    K: a SUCCEEDED step has a trace that matches the present (declared ++ remembered)
     ia_cl   closure: a SUCCEEDED step has all declared and remembered inputs available
     ia_bf   the remembered amended inputs of a step are not outputs of the step or a later one
   One dispatch decision ([a_step_ok]) keeps it and establishes the defining equations at its
   step; later steps do not disturb them (Local_frame of the static engine at the project with
   the amended inputs made explicit); the rescan is the static rescan at the remembered project
   ([resync_a_inv] through mark_Pre).
   Failing steps ([fails], builds with --keep-going): a failed run drops the trace and sets the
   flag [afail]; [ia_nf] = the run that recorded a trace did not fail; the rescan clears all
   flags, and inside a build the flag of a step that has not had its turn is still clear. *)
From Coq Require Import List NArith Bool Lia.
From SV Require Import model.Engine proofs.EngineProofs proofs.EngineAmendProofs.
Import ListNotations.
Open Scope N_scope.

Lemma firstn_length_app {A} (a b : list A) : firstn (length a) (a ++ b) = a.
Proof. induction a as [|x a IH]; cbn; [reflexivity|]. rewrite IH. reflexivity. Qed.

Section AmendFull.
  Variable run : N -> list (option N) -> list (option N) -> N -> N.
  Variable amend : N -> list (option N) -> list N.
  Variable fails : N -> list (option N) -> list (option N) -> bool.

  Notation eff := (eff amend).
  Notation eproj := (eproj amend).
  Notation extra_now := (extra_now amend).
  Notation fails_now := (fails_now amend fails).
  Notation a_step_build := (a_step_build run amend fails false).
  Notation a_build := (a_build run amend fails false).
  Notation decide := (decide amend fails false).
  Notation Local_a := (Local_a run amend fails).
  Notation Finished_a := (Finished_a run amend fails).
  Notation Local := (Local run).
  Notation trace_valid := (trace_valid run).
  Notation WFA := (WFA amend).

  (* the contents of the declared inputs as recorded in a trace *)
  Definition declared_contents (s : step) (t : trace) : list (option N) :=
    map snd (firstn (length (inp s)) (t_inp t)).

  Lemma declared_contents_ingr (s : step) (t : trace) (f : N -> option N) (l : list N) :
    t_inp t = ingredients f (inp s ++ l) -> declared_contents s t = map f (inp s).
  Proof.
    intros H. unfold declared_contents. rewrite H. unfold ingredients. rewrite map_app.
    replace (length (inp s)) with (length (map (fun k => (k, f k)) (inp s))) by apply map_length.
    rewrite firstn_length_app. rewrite map_map. reflexivity.
  Qed.

  Record InvA (proj : project) (y : asys) : Prop := mkInvA {
    ia_tv : forall s t, In s proj -> tr (abase y) (sid s) = Some t -> trace_valid (remb y s) t;
    ia_or : forall s t, In s proj -> tr (abase y) (sid s) = Some t ->
                        adyn y (sid s) = amend (sid s) (declared_contents s t);
    ia_nf : forall s t, In s proj -> tr (abase y) (sid s) = Some t ->
                        fails (sid s) (map snd (t_inp t)) (map snd (t_env t)) = false;
    ia_K : forall s, In s proj -> K_step (abase y) (remb y s);
    ia_cl : forall s, In s proj -> stt (abase y) (sid s) = Succeeded ->
                      ready proj (abase y) (remb y s) = true;
    ia_bf : forall done s rest, proj = done ++ s :: rest ->
                                forall p, In p (adyn y (sid s)) -> ~ In p (outs (s :: rest)) }.

  (* a trace that matches the present gives the outputs *)
  Lemma out_from_trace (s' : step) (b : sys) (t : trace) :
    trace_valid s' t -> t_inp t = ingredients (fs b) (inp s') ->
    t_env t = ingredients (ev b) (envn s') -> t_out t = ingredients (fs b) (out s') ->
    forall p, In p (out s') ->
              fs b p = Some (run (sid s') (map (fs b) (inp s')) (map (ev b) (envn s')) p).
  Proof.
    intros (_ & _ & Hv) Hi He Ho p Hp.
    assert (Hin : In (p, fs b p) (t_out t)).
    { rewrite Ho. unfold ingredients. apply in_map_iff. exists p. auto. }
    rewrite Hv, Hi, He in Hin. unfold produced in Hin. apply in_map_iff in Hin.
    destruct Hin as (p' & Heq & _). injection Heq as -> Hc. rewrite <- Hc.
    rewrite !map_snd_ingredients. reflexivity.
  Qed.

  Lemma remb_eff (y : asys) (b : sys) (s : step) :
    adyn y (sid s) = extra_now b s -> remb y s = eff b s.
  Proof. intros H. unfold remb, Engine.eff. rewrite H. reflexivity. Qed.

  Lemma ready_app (proj : project) (b : sys) (s : step) (l : list N) :
    ready proj b (mkStep (sid s) (inp s ++ l) (envn s) (out s)) = ready proj b s && all_avail proj b l.
  Proof. unfold ready, all_avail. cbn [inp]. apply forallb_app. Qed.

  Lemma eff_same (b b' : sys) (s : step) :
    (forall p, In p (inp s) -> fs b' p = fs b p) -> eff b' s = eff b s.
  Proof.
    intros H. unfold Engine.eff, Engine.extra_now.
    replace (map (fs b') (inp s)) with (map (fs b) (inp s)); [reflexivity|].
    apply map_ext_in. intros p Hp. symmetry. apply H. exact Hp.
  Qed.

  Lemma remb_adyn (y y' : asys) (s : step) (l : list N) :
    adyn y' (sid s) = l -> remb y' s = mkStep (sid s) (inp s ++ l) (envn s) (out s).
  Proof. intros H. unfold remb. rewrite H. reflexivity. Qed.

  Lemma remb_same (y y' : asys) (s : step) :
    adyn y' (sid s) = adyn y (sid s) -> remb y' s = remb y s.
  Proof. intros H. unfold remb. rewrite H. reflexivity. Qed.

  Lemma fails_ingr (id : N) (b : sys) (ii ee : list N) (t : trace) :
    t_inp t = ingredients (fs b) ii -> t_env t = ingredients (ev b) ee ->
    fails id (map snd (t_inp t)) (map snd (t_env t)) = fails id (map (fs b) ii) (map (ev b) ee).
  Proof. intros Hi He. rewrite Hi, He, !map_snd_ingredients. reflexivity. Qed.

  Section OneProject.
    Variable proj : project.
    Hypothesis Hwfa : wf_a amend proj.

    Let HA : WFA proj := wf_a_WFA amend proj Hwfa.
    Let HE (b : sys) : WF (eproj proj b) := wf_WF _ (Hwfa b).

    Lemma in_eproj (b : sys) (s : step) : In s proj -> In (eff b s) (eproj proj b).
    Proof. intros H. unfold Engine.eproj. apply in_map. exact H. Qed.

    (* declared and presently amended inputs come from before *)
    Lemma eff_before (done rest : project) (s : step) (b : sys) (p : N) :
      proj = done ++ s :: rest -> In p (inp (eff b s)) -> ~ In p (outs (s :: rest)).
    Proof. intros Hp. apply (eff_inputs_before amend proj done rest s b p HA Hp). Qed.

    Lemma not_outs_head (s : step) (rest : project) (p : N) :
      ~ In p (outs (s :: rest)) -> ~ In p (out s).
    Proof.
      intros H Hp. apply H. change (outs (s :: rest)) with (out s ++ outs rest).
      apply in_or_app. left. exact Hp.
    Qed.

    (* what one dispatch decision changes *)
    Lemma a_step_frame (s : step) (y : asys) :
      frame s (abase y) (abase (a_step_build proj s y)).
    Proof.
      unfold Engine.a_step_build. destruct (decide proj s y); cbn [abase].
      - repeat split; auto.
      - repeat split; auto. intros id Hid. cbn. apply upd_other. exact Hid.
      - repeat split.
        + intros p Hp. apply fs_do_run_other. exact Hp.
        + intros id Hid. cbn. apply upd_other. exact Hid.
        + intros id Hid. cbn. apply upd_other. exact Hid.
      - repeat split; auto. intros id Hid. cbn. apply upd_other. exact Hid.
      - repeat split; auto. intros id Hid. cbn. apply upd_other. exact Hid.
    Qed.

    Lemma a_step_afail (s : step) (y : asys) (id : N) :
      id <> sid s -> afail (a_step_build proj s y) id = afail y id.
    Proof.
      intros Hid. unfold Engine.a_step_build.
      destruct (decide proj s y); cbn [afail]; try reflexivity; apply upd_other; exact Hid.
    Qed.

    (* a run that ends without success (deferred or failed): the trace is dropped, the amended
       inputs of this run are remembered *)
    Lemma InvA_forget (done rest : project) (s : step) (y : asys) (f1 f2 : N -> bool) :
      proj = done ++ s :: rest -> stt (abase y) (sid s) = Pending -> InvA proj y ->
      let b := abase y in
      InvA proj (mkA (mkSys (fs b) (ev b) (upd (tr b) (sid s) None) (stt b))
                     (upd (adyn y) (sid s) (extra_now b s)) f1 f2).
    Proof.
      intros Hp Est HI b. pose proof HA as (Hid & Hnd & _).
      assert (Hs : In s proj). { rewrite Hp. apply in_or_app. right. left. reflexivity. }
      pose proof (ia_tv proj y HI) as Itv. pose proof (ia_or proj y HI) as Ior.
      pose proof (ia_nf proj y HI) as Inf.
      pose proof (ia_K proj y HI) as IK. pose proof (ia_cl proj y HI) as Icl.
      pose proof (ia_bf proj y HI) as Ibf. fold b in Itv, Ior, Inf, IK, Icl, Est.
      set (b' := mkSys (fs b) (ev b) (upd (tr b) (sid s) None) (stt b)).
      set (y' := mkA b' (upd (adyn y) (sid s) (extra_now b s)) f1 f2).
      assert (Hro : forall q, sid q <> sid s -> remb y' q = remb y q).
      { intros q Hne. apply remb_same. cbn [y' adyn]. apply upd_other. exact Hne. }
      assert (Hrm : forall q, ready proj b q = true -> ready proj b' q = true).
      { intros q. apply ready_mono; [reflexivity|]. intros id H. exact H. }
      constructor; change (abase y') with b'.
      - intros q t Hq Ht. cbn [b' tr] in Ht. destruct (N.eq_dec (sid q) (sid s)) as [E|E].
        + rewrite E, upd_same in Ht. discriminate.
        + rewrite (Hro q E). rewrite (upd_other _ _ _ _ E) in Ht. exact (Itv q t Hq Ht).
      - intros q t Hq Ht. cbn [b' tr] in Ht. cbn [y' adyn].
        destruct (N.eq_dec (sid q) (sid s)) as [E|E].
        + rewrite E, upd_same in Ht. discriminate.
        + rewrite (upd_other _ _ _ _ E). rewrite (upd_other _ _ _ _ E) in Ht. exact (Ior q t Hq Ht).
      - intros q t Hq Ht. cbn [b' tr] in Ht. destruct (N.eq_dec (sid q) (sid s)) as [E|E].
        + rewrite E, upd_same in Ht. discriminate.
        + rewrite (upd_other _ _ _ _ E) in Ht. exact (Inf q t Hq Ht).
      - intros q Hq Hsq0. assert (Hsq : stt b (sid q) = Succeeded) by exact Hsq0.
        destruct (N.eq_dec (sid q) (sid s)) as [E|E]; [rewrite E in Hsq; congruence|].
        rewrite (Hro q E). destruct (IK q Hq Hsq) as (t & Ht & Hrest).
        exists t. split; [|exact Hrest]. cbn [b' tr]. rewrite (upd_other _ _ _ _ E). exact Ht.
      - intros q Hq Hsq0. assert (Hsq : stt b (sid q) = Succeeded) by exact Hsq0.
        destruct (N.eq_dec (sid q) (sid s)) as [E|E]; [rewrite E in Hsq; congruence|].
        rewrite (Hro q E). apply Hrm. exact (Icl q Hq Hsq).
      - intros done' s' rest' Hp' p Hpa. cbn [y' adyn] in Hpa.
        destruct (N.eq_dec (sid s') (sid s)) as [E|E].
        + rewrite E, upd_same in Hpa.
          assert (Hs' : In s' proj). { rewrite Hp'. apply in_or_app. right. left. reflexivity. }
          pose proof (sid_unique proj s' s Hid Hs' Hs E) as ->.
          apply (eff_before done' rest' s b p Hp'). cbn [inp Engine.eff].
          apply in_or_app. right. exact Hpa.
        + rewrite (upd_other _ _ _ _ E) in Hpa. exact (Ibf done' s' rest' Hp' p Hpa).
    Qed.

    Lemma a_step_ok (done rest : project) (s : step) (y : asys) :
      proj = done ++ s :: rest -> InvA proj y -> afail y (sid s) = false ->
      InvA proj (a_step_build proj s y) /\ Local_a proj (a_step_build proj s y) s.
    Proof.
      intros Hp HI Hfl. pose proof HA as (Hid & Hnd & _).
      assert (Hs : In s proj). { rewrite Hp. apply in_or_app. right. left. reflexivity. }
      pose proof (out_nodup proj s Hnd Hs) as Hnds.
      assert (Hself : forall z p, In p (inp (eff z s)) -> ~ In p (out s)).
      { intros z p Hin. apply (not_outs_head s rest). exact (eff_before done rest s z p Hp Hin). }
      assert (Hdecl : forall p, In p (inp s) -> ~ In p (out s)).
      { intros p Hin. apply (Hself empty_sys). cbn [inp Engine.eff]. apply in_or_app. left. exact Hin. }
      pose proof (ia_tv proj y HI) as Itv. pose proof (ia_or proj y HI) as Ior.
      pose proof (ia_nf proj y HI) as Inf.
      pose proof (ia_K proj y HI) as IK. pose proof (ia_cl proj y HI) as Icl.
      pose proof (ia_bf proj y HI) as Ibf.
      pose proof (InvA_forget done rest s y) as Hforget.
      unfold Engine.a_step_build, Engine.decide. set (b := abase y) in *.
      destruct (stt b (sid s)) eqn:Est; cbn [is_succ].
      2:{ (* already SUCCEEDED *)
        split; [exact HI|]. unfold Engine.Local_a. cbv zeta. fold b.
        destruct (IK s Hs Est) as (t & Ht & Hi & He & Ho).
        pose proof (Ior s t Hs Ht) as Hor.
        rewrite (declared_contents_ingr s t (fs b) _ Hi) in Hor.
        pose proof (remb_eff y b s Hor) as Hre.
        assert (Hnf : fails_now b s = false).
        { unfold Engine.fails_now. rewrite <- Hre.
          pose proof (Inf s t Hs Ht) as H0. rewrite (fails_ingr (sid s) b _ _ t Hi He) in H0. exact H0. }
        rewrite Hnf. rewrite <- Hre.
        rewrite (Icl s Hs Est). split; [exact Est|]. split; [exact Hfl|].
        apply (out_from_trace (remb y s) b t (Itv s t Hs Ht) Hi He Ho). }
      cbn [andb orb]. rewrite orb_false_r.
      destruct (ready proj b s) eqn:Er; cbn [negb].
      2:{ (* a declared input is not available *)
        split; [exact HI|]. unfold Engine.Local_a. cbv zeta. fold b.
        unfold Engine.eff at 1. rewrite ready_app, Er. cbn [andb]. split; [exact Est|exact Hfl]. }
      destruct (all_avail proj b (adyn y (sid s)) && can_skip (remb y s) b) eqn:Esk.
      - (* skip *)
        apply andb_true_iff in Esk. destruct Esk as [Hav Hcs].
        unfold can_skip in Hcs. cbn [sid remb] in Hcs. destruct (tr b (sid s)) as [t|] eqn:Et; [|discriminate].
        apply andb_true_iff in Hcs. destruct Hcs as [Hcs Ho]. apply andb_true_iff in Hcs.
        destruct Hcs as [Hi He]. apply ingr_eqb_eq in Hi, He, Ho.
        change (t_inp t = ingredients (fs b) (inp (remb y s))) in Hi.
        change (t_env t = ingredients (ev b) (envn (remb y s))) in He.
        change (t_out t = ingredients (fs b) (out (remb y s))) in Ho.
        pose proof (Ior s t Hs Et) as Hor.
        rewrite (declared_contents_ingr s t (fs b) _ Hi) in Hor.
        pose proof (remb_eff y b s Hor) as Hre.
        assert (Hrdy : ready proj b (remb y s) = true).
        { unfold remb. rewrite ready_app, Er, Hav. reflexivity. }
        assert (Hnf : fails_now b s = false).
        { unfold Engine.fails_now. rewrite <- Hre.
          pose proof (Inf s t Hs Et) as H0. rewrite (fails_ingr (sid s) b _ _ t Hi He) in H0. exact H0. }
        set (b' := do_skip (remb y s) b).
        set (y' := mkA b' (adyn y) (clear_flags proj s y) (upd (afail y) (sid s) false)).
        assert (Hmono : forall id, stt b id = Succeeded -> stt b' id = Succeeded).
        { intros id H. cbn. unfold upd. destruct (id =? sid s); [reflexivity|exact H]. }
        assert (Hrm : forall q, ready proj b q = true -> ready proj b' q = true).
        { intros q. apply ready_mono; [reflexivity|exact Hmono]. }
        assert (Hrb : forall q, remb y' q = remb y q) by (intros q; reflexivity).
        split.
        + constructor; change (abase y') with b'.
          * intros q t0 Hq Ht0. rewrite Hrb. exact (Itv q t0 Hq Ht0).
          * intros q t0 Hq Ht0. exact (Ior q t0 Hq Ht0).
          * intros q t0 Hq Ht0. exact (Inf q t0 Hq Ht0).
          * intros q Hq Hsq. rewrite Hrb.
            destruct (N.eq_dec (sid q) (sid s)) as [E|E].
            -- rewrite (sid_unique proj q s Hid Hq Hs E). exists t. auto.
            -- apply (IK q Hq). cbn in Hsq. rewrite (upd_other _ _ _ _ E) in Hsq. exact Hsq.
          * intros q Hq Hsq. rewrite Hrb.
            apply Hrm. destruct (N.eq_dec (sid q) (sid s)) as [E|E].
            -- rewrite (sid_unique proj q s Hid Hq Hs E). exact Hrdy.
            -- apply (Icl q Hq). cbn in Hsq. rewrite (upd_other _ _ _ _ E) in Hsq. exact Hsq.
          * exact Ibf.
        + unfold Engine.Local_a. cbv zeta. change (abase y') with b'.
          assert (Hee : eff b' s = eff b s) by (apply eff_same; reflexivity).
          change (fails_now b' s) with (fails_now b s). rewrite Hnf.
          rewrite Hee, <- Hre. rewrite (Hrm _ Hrdy). split; [cbn; apply upd_same|].
          split; [cbn [y' afail]; apply upd_same|].
          apply (out_from_trace (remb y s) b t (Itv s t Hs Et) Hi He Ho).
      - destruct (all_avail proj b (extra_now b s)) eqn:Eav; [destruct (fails_now b s) eqn:Efn|].
        + (* the command fails *)
          split; [exact (Hforget _ _ Hp eq_refl HI)|].
          unfold Engine.Local_a. cbv zeta. cbn [abase afail].
          set (b' := mkSys (fs b) (ev b) (upd (tr b) (sid s) None) (stt b)).
          change (eff b' s) with (eff b s). change (fails_now b' s) with (fails_now b s).
          change (ready proj b' (eff b s)) with (ready proj b (eff b s)).
          unfold Engine.eff at 1. rewrite ready_app, Er, Eav. cbn [andb]. rewrite Efn.
          split; [exact Est|apply upd_same].
        + (* run with the amended inputs of the present contents *)
          set (e := eff b s). set (b' := do_run run e b).
          set (y' := mkA b' (upd (adyn y) (sid s) (extra_now b s))
                         (upd (clear_flags proj s y) (sid s) false) (upd (afail y) (sid s) false)).
          assert (Hrdy : ready proj b e = true).
          { unfold e, Engine.eff. rewrite ready_app, Er, Eav. reflexivity. }
          assert (Hmono : forall id, stt b id = Succeeded -> stt b' id = Succeeded).
          { intros id H. cbn. unfold upd. destruct (id =? sid s); [reflexivity|exact H]. }
          assert (Hfs : forall p, ~ In p (out s) -> fs b' p = fs b p).
          { intros p Hpo. unfold b'. apply fs_do_run_other. exact Hpo. }
          assert (Hinp_e : forall p, In p (inp e) -> fs b' p = fs b p).
          { intros p Hpi. apply Hfs. exact (Hself b p Hpi). }
          assert (Hother : forall q, In q proj -> sid q <> sid s -> stt b (sid q) = Succeeded ->
                                     (forall p, In p (inp (remb y q)) -> fs b' p = fs b p) /\
                                     (forall p, In p (out q) -> fs b' p = fs b p)).
          { intros q Hq Hne Hsq. split; intros p Hpi; apply Hfs.
            - pose proof (Icl q Hq Hsq) as Hrq.
              rewrite <- (ready_eproj amend proj b b (remb y q)) in Hrq.
              exact (succeeded_reads_no_pending (eproj proj b) b e (remb y q) p (HE b)
                       (in_eproj b s Hs) Est Hrq Hpi).
            - intros Hps. apply Hne. f_equal. apply (out_unique proj q s p Hnd Hq Hs Hpi Hps). }
          assert (Hrs : remb y' s = e).
          { apply (remb_adyn y y' s). cbn [y' adyn]. apply upd_same. }
          assert (Hro : forall q, sid q <> sid s -> remb y' q = remb y q).
          { intros q Hne. apply remb_same. cbn [y' adyn]. apply upd_other. exact Hne. }
          split.
          * constructor; change (abase y') with b'.
            -- intros q t Hq Ht. destruct (N.eq_dec (sid q) (sid s)) as [E|E].
               ++ rewrite (sid_unique proj q s Hid Hq Hs E) in *. rewrite Hrs.
                  cbn [b' Engine.do_run tr] in Ht. change (sid e) with (sid s) in Ht.
                  rewrite upd_same in Ht. injection Ht as <-.
                  unfold Engine.trace_valid. cbn [t_inp t_env t_out].
                  rewrite !map_fst_ingredients. auto.
               ++ rewrite (Hro q E). cbn [b' Engine.do_run tr] in Ht. change (sid e) with (sid s) in Ht.
                  rewrite (upd_other _ _ _ _ E) in Ht. exact (Itv q t Hq Ht).
            -- intros q t Hq Ht. cbn [y' adyn]. destruct (N.eq_dec (sid q) (sid s)) as [E|E].
               ++ rewrite (sid_unique proj q s Hid Hq Hs E) in *. rewrite upd_same.
                  cbn [b' Engine.do_run tr] in Ht. change (sid e) with (sid s) in Ht.
                  rewrite upd_same in Ht. injection Ht as <-.
                  rewrite (declared_contents_ingr s _ (fs b) (extra_now b s)); [reflexivity|].
                  reflexivity.
               ++ rewrite (upd_other _ _ _ _ E). cbn [b' Engine.do_run tr] in Ht.
                  change (sid e) with (sid s) in Ht.
                  rewrite (upd_other _ _ _ _ E) in Ht. exact (Ior q t Hq Ht).
            -- intros q t Hq Ht. destruct (N.eq_dec (sid q) (sid s)) as [E|E].
               ++ rewrite (sid_unique proj q s Hid Hq Hs E) in *.
                  cbn [b' Engine.do_run tr] in Ht. change (sid e) with (sid s) in Ht.
                  rewrite upd_same in Ht. injection Ht as <-. cbn [t_inp t_env].
                  rewrite !map_snd_ingredients. exact Efn.
               ++ cbn [b' Engine.do_run tr] in Ht. change (sid e) with (sid s) in Ht.
                  rewrite (upd_other _ _ _ _ E) in Ht. exact (Inf q t Hq Ht).
            -- intros q Hq Hsq. destruct (N.eq_dec (sid q) (sid s)) as [E|E].
               ++ rewrite (sid_unique proj q s Hid Hq Hs E) in *. rewrite Hrs.
                  cbn [b' Engine.do_run tr ev]. change (sid e) with (sid s). rewrite upd_same.
                  eexists. split; [reflexivity|]. cbn [t_inp t_env t_out]. repeat split.
                  ** apply ingredients_ext. intros p Hpi. symmetry. apply Hinp_e. exact Hpi.
                  ** symmetry. change (out e) with (out s).
                     apply (ingredients_do_run_out run e b). exact Hnds.
               ++ rewrite (Hro q E).
                  assert (Hsq' : stt b (sid q) = Succeeded).
                  { cbn in Hsq. change (sid e) with (sid s) in Hsq.
                    rewrite (upd_other _ _ _ _ E) in Hsq. exact Hsq. }
                  destruct (Hother q Hq E Hsq') as [Hqi Hqo].
                  destruct (IK q Hq Hsq') as (t & Ht & Hi & He & Ho).
                  exists t. cbn [b' Engine.do_run tr ev]. change (sid e) with (sid s).
                  rewrite (upd_other _ _ _ _ E). repeat split; auto.
                  ** rewrite Hi. apply ingredients_ext. intros p Hpi. symmetry. apply Hqi. exact Hpi.
                  ** rewrite Ho. apply ingredients_ext. intros p Hpi. symmetry. apply Hqo. exact Hpi.
            -- intros q Hq Hsq. destruct (N.eq_dec (sid q) (sid s)) as [E|E].
               ++ rewrite (sid_unique proj q s Hid Hq Hs E) in *. rewrite Hrs.
                  apply (ready_mono proj b); auto.
               ++ rewrite (Hro q E).
                  assert (Hsq' : stt b (sid q) = Succeeded).
                  { cbn in Hsq. change (sid e) with (sid s) in Hsq.
                    rewrite (upd_other _ _ _ _ E) in Hsq. exact Hsq. }
                  apply (ready_mono proj b); [apply (Hother q Hq E Hsq')|exact Hmono|].
                  exact (Icl q Hq Hsq').
            -- intros done' s' rest' Hp' p Hpa. cbn [y' adyn] in Hpa.
               destruct (N.eq_dec (sid s') (sid s)) as [E|E].
               ++ rewrite E, upd_same in Hpa.
                  assert (Hs' : In s' proj). { rewrite Hp'. apply in_or_app. right. left. reflexivity. }
                  pose proof (sid_unique proj s' s Hid Hs' Hs E) as ->.
                  apply (eff_before done' rest' s b p Hp'). cbn [inp Engine.eff].
                  apply in_or_app. right. exact Hpa.
               ++ rewrite (upd_other _ _ _ _ E) in Hpa. exact (Ibf done' s' rest' Hp' p Hpa).
          * unfold Engine.Local_a. cbv zeta. change (abase y') with b'.
            assert (Hee : eff b' s = e).
            { unfold e. apply eff_same. intros p Hpi. apply Hfs. apply Hdecl. exact Hpi. }
            assert (Hmap : map (fs b') (inp e) = map (fs b) (inp e)).
            { apply map_ext_in. intros x Hx. apply Hinp_e. exact Hx. }
            assert (Hnf : fails_now b' s = false).
            { unfold Engine.fails_now. rewrite Hee, Hmap. exact Efn. }
            rewrite Hnf, Hee. rewrite (ready_mono proj b b' e); auto.
            split; [cbn; apply upd_same|]. split; [cbn [y' afail]; apply upd_same|].
            intros p Hpo. change (out e) with (out s) in Hpo.
            unfold b'. rewrite (fs_do_run_out run e b p Hnds Hpo). fold b'.
            change (ev b') with (ev b). rewrite Hmap. reflexivity.
        + (* deferred: an amended input is not available *)
          split; [exact (Hforget _ _ Hp eq_refl HI)|].
          unfold Engine.Local_a. cbv zeta. cbn [abase afail].
          set (b' := mkSys (fs b) (ev b) (upd (tr b) (sid s) None) (stt b)).
          change (eff b' s) with (eff b s).
          change (ready proj b' (eff b s)) with (ready proj b (eff b s)).
          unfold Engine.eff at 1. rewrite ready_app, Er, Eav. cbn [andb].
          split; [exact Est|apply upd_same].
    Qed.

    (* the defining equations at an earlier step survive a decision at a later one *)
    Lemma Local_a_frame (done rest : project) (s q : step) (y y' : asys) :
      proj = done ++ s :: rest -> In q done -> frame s (abase y) (abase y') ->
      afail y' (sid q) = afail y (sid q) ->
      Local_a proj y q -> Local_a proj y' q.
    Proof.
      intros Hp Hq Hfr Hfl HL. pose proof HA as (Hid & Hnd & _).
      set (b := abase y) in *. set (b' := abase y') in *.
      assert (Hs : In s proj). { rewrite Hp. apply in_or_app. right. left. reflexivity. }
      assert (Hqp : In q proj). { rewrite Hp. apply in_or_app. left. exact Hq. }
      assert (Hne : sid q <> sid s). { apply (sid_before done rest s q); [rewrite <- Hp; exact Hid|exact Hq]. }
      (* inputs of [q], declared and amended, are not outputs of the later step [s] *)
      assert (Hbefore : forall z p, In p (inp (eff z q)) -> ~ In p (out s)).
      { intros z p Hin Hps. destruct (in_split q done Hq) as (d1 & d2 & Hd).
        assert (Hp2 : proj = d1 ++ q :: (d2 ++ s :: rest)).
        { rewrite Hp, Hd. rewrite <- app_assoc. reflexivity. }
        apply (eff_before d1 (d2 ++ s :: rest) q z p Hp2 Hin).
        apply in_outs. exists s. split; [|exact Hps]. right. apply in_or_app. right. left. reflexivity. }
      destruct Hfr as (Hfs & Hev & Hst & Htr).
      assert (Hee : eff b' q = eff b q).
      { apply eff_same. intros p Hpi. apply Hfs.
        apply (Hbefore b p). cbn [inp Engine.eff]. apply in_or_app. left. exact Hpi. }
      assert (Hmap : map (fs b') (inp (eff b q)) = map (fs b) (inp (eff b q))).
      { apply map_ext_in. intros x Hx. apply Hfs. exact (Hbefore b x Hx). }
      assert (Hmev : map (ev b') (envn q) = map (ev b) (envn q)).
      { apply map_ext. intros n. apply Hev. }
      assert (Hr : ready proj b' (eff b q) = ready proj b (eff b q)).
      { apply ready_ext. intros p Hpi.
        rewrite <- (avail_eproj amend proj b b' p), <- (avail_eproj amend proj b b p).
        apply (avail_frame (eproj proj b) (eff b s) b b' p (HE b) (in_eproj b s Hs)).
        - repeat split; assumption.
        - exact (Hbefore b p Hpi). }
      assert (Hout : forall p, In p (out q) -> fs b' p = fs b p).
      { intros p Hpo. apply Hfs. intros Hps. apply Hne. f_equal.
        apply (out_unique proj q s p Hnd Hqp Hs Hpo Hps). }
      unfold Engine.Local_a in *. cbv zeta in *. fold b in HL. fold b'.
      unfold Engine.fails_now in *. rewrite Hee, Hr, Hmap, Hmev, Hfl, (Hst _ Hne).
      destruct (ready proj b (eff b q)); [|exact HL].
      destruct (fails (sid q) (map (fs b) (inp (eff b q))) (map (ev b) (envn q))); [exact HL|].
      destruct HL as (H1 & H2 & H3). split; [exact H1|]. split; [exact H2|].
      intros p Hpo. rewrite (Hout p Hpo). exact (H3 p Hpo).
    Qed.

    Definition a_build_from (todo : project) (y : asys) : asys :=
      fold_left (fun y s => a_step_build proj s y) todo y.

    Lemma sid_after (done rest : project) (s q : step) :
      NoDup (map sid (done ++ s :: rest)) -> In q rest -> sid q <> sid s.
    Proof.
      rewrite map_app. intros Hnd Hq. apply NoDup_app_r in Hnd.
      exact (not_in_tail_ids s rest Hnd q Hq).
    Qed.

    Lemma a_build_from_ok :
      forall todo done y,
        proj = done ++ todo -> InvA proj y -> (forall q, In q done -> Local_a proj y q) ->
        (forall q, In q todo -> afail y (sid q) = false) ->
        InvA proj (a_build_from todo y) /\
        (forall q, In q proj -> Local_a proj (a_build_from todo y) q).
    Proof.
      pose proof HA as (Hid & _ & _).
      induction todo as [|s rest IH]; intros done y Hp HI Hdone Hfl.
      - cbn. split; [exact HI|]. intros q Hq. apply Hdone. rewrite Hp, app_nil_r in Hq. exact Hq.
      - destruct (a_step_ok done rest s y Hp HI (Hfl s (or_introl eq_refl))) as [HI1 HL1].
        unfold a_build_from. cbn [fold_left].
        change (fold_left (fun y0 s0 => a_step_build proj s0 y0) rest (a_step_build proj s y))
          with (a_build_from rest (a_step_build proj s y)).
        apply (IH (done ++ [s])).
        + rewrite <- app_assoc. exact Hp.
        + exact HI1.
        + intros q Hq. apply in_app_or in Hq. destruct Hq as [Hq|[<-|[]]]; [|exact HL1].
          apply (Local_a_frame done rest s q y _ Hp Hq (a_step_frame s y)); [|apply Hdone; exact Hq].
          apply a_step_afail. apply (sid_before done rest s q); [rewrite <- Hp; exact Hid|exact Hq].
        + intros q Hq. rewrite a_step_afail; [apply Hfl; right; exact Hq|].
          apply (sid_after done rest s q); [rewrite <- Hp; exact Hid|exact Hq].
    Qed.

    Lemma a_build_from_world (todo : project) (y : asys) :
      (forall s, In s todo -> In s proj) -> same_world proj (abase y) (abase (a_build_from todo y)).
    Proof.
      revert y. induction todo as [|s rest IH]; intros y Hsub; [apply same_world_refl|].
      unfold a_build_from. cbn [fold_left].
      apply (same_world_trans proj (abase y) (abase (a_step_build proj s y))).
      - destruct (a_step_frame s y) as (Hfs & Hev & _). split.
        + intros p Hpo. symmetry. apply Hfs. intros Hps. apply is_output_false in Hpo. apply Hpo.
          apply in_outs. exists s. split; [apply Hsub; left; reflexivity|exact Hps].
        + intros n. symmetry. apply Hev.
      - apply IH. intros q Hq. apply Hsub. right. exact Hq.
    Qed.

    (* A build of the ungated engine from a state that satisfies the invariant and in which no
       step is FAILED (every build starts by making the FAILED steps PENDING) ends in a state that
       satisfies the invariant again and that is finished; sources and environment are untouched. *)
    Lemma a_build_ok (y : asys) :
      InvA proj y -> (forall q, In q proj -> afail y (sid q) = false) ->
      InvA proj (a_build proj y) /\ Finished_a proj (a_build proj y) /\
      same_world proj (abase y) (abase (a_build proj y)).
    Proof.
      intros HI Hfl. change (a_build proj y) with (a_build_from proj y).
      destruct (a_build_from_ok proj [] y eq_refl HI) as [H1 H2]; [intros q []|exact Hfl|].
      split; [exact H1|]. split; [exact H2|].
      apply a_build_from_world. auto.
    Qed.

    (* -------------------------------------------------------------------------------------- *)
    (* The rescan: the static rescan at the remembered project                                *)
    (* -------------------------------------------------------------------------------------- *)
    Definition rp (y : asys) : project := map (remb y) proj.

    Lemma outs_map_remb (y : asys) (l : project) : outs (map (remb y) l) = outs l.
    Proof.
      unfold outs. induction l as [|s l IH]; [reflexivity|]. cbn [map flat_map]. rewrite IH. reflexivity.
    Qed.

    Lemma producer_map_remb (y : asys) (l : project) (p : N) :
      producer (map (remb y) l) p = producer l p.
    Proof.
      unfold producer. induction l as [|s l IH]; [reflexivity|].
      cbn [map find]. cbn [out remb]. destruct (memN p (out s)); [reflexivity|exact IH].
    Qed.

    Lemma producer_rp (y : asys) (p : N) : producer (rp y) p = producer proj p.
    Proof. apply producer_map_remb. Qed.

    Lemma ready_rp (y : asys) (z : sys) (s : step) : ready (rp y) z s = ready proj z s.
    Proof.
      unfold ready. apply forallb_ext_in'. intros p _. unfold avail. rewrite producer_rp. reflexivity.
    Qed.

    Lemma topo_rp_suffix (y : asys) :
      InvA proj y -> forall rest done, proj = done ++ rest -> topo (map (remb y) rest) = true.
    Proof.
      intros HI. induction rest as [|s rest IH]; intros done Hp; [reflexivity|].
      cbn [map topo]. apply andb_true_iff. split.
      - apply forallb_forall. intros p Hpi. apply negb_true_iff. apply memN_false.
        change (remb y s :: map (remb y) rest) with (map (remb y) (s :: rest)).
        rewrite outs_map_remb. cbn [inp remb] in Hpi. apply in_app_or in Hpi. destruct Hpi as [Hpi|Hpi].
        + apply (eff_before done rest s empty_sys p Hp). cbn [inp Engine.eff]. apply in_or_app. left. exact Hpi.
        + exact (ia_bf proj y HI done s rest Hp p Hpi).
      - apply (IH (done ++ [s])). rewrite <- app_assoc. exact Hp.
    Qed.

    Lemma WF_rp (y : asys) : InvA proj y -> WF (rp y).
    Proof.
      intros HI. pose proof HA as (Hid & Hnd & _). unfold rp. split; [|split].
      - rewrite map_map. exact Hid.
      - rewrite outs_map_remb. exact Hnd.
      - exact (topo_rp_suffix y HI proj [] eq_refl).
    Qed.

    Lemma InvA_Pre (y : asys) : InvA proj y -> Pre run (rp y) (abase y).
    Proof.
      intros HI. split; [|split].
      - intros s' t Hs' Ht. apply in_map_iff in Hs'. destruct Hs' as (s & <- & Hs).
        exact (ia_tv proj y HI s t Hs Ht).
      - intros s' Hs'. apply in_map_iff in Hs'. destruct Hs' as (s & <- & Hs). exact (ia_K proj y HI s Hs).
      - intros s' Hs' Hst. apply in_map_iff in Hs'. destruct Hs' as (s & <- & Hs). rewrite ready_rp.
        exact (ia_cl proj y HI s Hs Hst).
    Qed.

    Lemma resync_a_base (g : bool) (y : asys) (w : world) :
      abase (resync_a proj y w) = resync (rp y) (abase y) w /\ adyn (resync_a proj y w) = adyn y.
    Proof.
      unfold resync_a, resync, rp. cbn [abase adyn]. unfold is_output. rewrite outs_map_remb.
      split; reflexivity.
    Qed.

    Lemma resync_a_inv (y : asys) (w : world) :
      InvA proj y ->
      InvA proj (resync_a proj y w) /\
      (forall p, is_output proj p = false -> fs (abase (resync_a proj y w)) p = fst w p) /\
      (forall n, ev (abase (resync_a proj y w)) n = snd w n) /\
      (forall id, afail (resync_a proj y w) id = false).
    Proof.
      intros HI. destruct (resync_a_base false y w) as [Hb Hd].
      pose proof (resync_Pre run (rp y) (abase y) w (WF_rp y HI) (InvA_Pre y HI)) as (Htv & HK & Hcl).
      rewrite <- Hb in Htv, HK, Hcl.
      assert (Hr : forall s, remb (resync_a proj y w) s = remb y s).
      { intros s. unfold remb. rewrite Hd. reflexivity. }
      assert (Hin : forall s, In s proj -> In (remb y s) (rp y)) by (intros s Hs; apply in_map; exact Hs).
      split; [constructor|split; [|split]].
      - intros s t Hs Ht. rewrite Hr. exact (Htv (remb y s) t (Hin s Hs) Ht).
      - intros s t Hs Ht. rewrite Hd. apply (ia_or proj y HI s t Hs). rewrite Hb in Ht. exact Ht.
      - intros s t Hs Ht. apply (ia_nf proj y HI s t Hs). rewrite Hb in Ht. exact Ht.
      - intros s Hs. rewrite Hr. exact (HK (remb y s) (Hin s Hs)).
      - intros s Hs Hst. rewrite Hr. rewrite <- (ready_rp y). exact (Hcl (remb y s) (Hin s Hs) Hst).
      - intros done s rest Hp p Hpa. rewrite Hd in Hpa. exact (ia_bf proj y HI done s rest Hp p Hpa).
      - intros p Hpo. unfold resync_a. cbn [abase fs]. rewrite Hpo. reflexivity.
      - intros n. reflexivity.
      - intros id. reflexivity.
    Qed.

    Lemma empty_InvA : InvA proj empty_asys.
    Proof.
      constructor; cbn.
      - intros s t _ H. discriminate.
      - intros s t _ H. discriminate.
      - intros s t _ H. discriminate.
      - intros s _ H. cbn in H. discriminate.
      - intros s _ H. discriminate.
      - intros done s rest _ p [].
    Qed.

    Lemma build_world_a_inv (w : world) (y : asys) :
      InvA proj y ->
      let y' := build_world_a run amend fails false proj w y in
      InvA proj y' /\ Finished_a proj y' /\
      (forall p, is_output proj p = false -> fs (abase y') p = fst w p) /\
      (forall n, ev (abase y') n = snd w n).
    Proof.
      intros HI y'. unfold y', build_world_a.
      destruct (resync_a_inv y w HI) as (HI1 & Hf1 & He1 & Hfl1).
      destruct (a_build_ok (resync_a proj y w) HI1 (fun q _ => Hfl1 (sid q))) as (HI2 & HF & [Hw1 Hw2]).
      split; [exact HI2|]. split; [exact HF|]. split.
      - intros p Hpo. rewrite <- (Hw1 p Hpo). apply Hf1. exact Hpo.
      - intros n. rewrite <- Hw2. apply He1.
    Qed.

    Lemma worlds_a_inv (ws : list world) (y : asys) :
      InvA proj y -> InvA proj (fold_left (fun s x => build_world_a run amend fails false proj x s) ws y).
    Proof.
      revert y. induction ws as [|w ws IH]; intros y HI; [exact HI|].
      cbn [fold_left]. apply IH. apply build_world_a_inv. exact HI.
    Qed.

    (* Amended inputs with deferral, ungated engine: after ANY sequence of worlds, building the
       last world on top of what the earlier builds left gives the result of building it on
       nothing. *)
    Theorem amend_equiv_scratch (ws : list world) (w : world) :
      same_result_a proj
        (build_world_a run amend fails false proj w
           (fold_left (fun s x => build_world_a run amend fails false proj x s) ws empty_asys))
        (build_world_a run amend fails false proj w empty_asys).
    Proof.
      pose proof (worlds_a_inv ws empty_asys empty_InvA) as HI.
      destruct (build_world_a_inv w _ HI) as (_ & F1 & S1 & E1).
      destruct (build_world_a_inv w empty_asys empty_InvA) as (_ & F2 & S2 & E2).
      apply (finished_a_unique run amend fails proj _ _ Hwfa F1 F2). split.
      - intros p Hpo. rewrite (S1 p Hpo), (S2 p Hpo). reflexivity.
      - intros n. rewrite E1, E2. reflexivity.
    Qed.
  End OneProject.
End AmendFull.
