(* proofs/CrashHistProofs.v -- C05: "no output of an interrupted step is ever treated as up to
   date" as an invariant over transaction histories WITH kills (model/CrashHist.v), and its
   connection to the skip rule.

   [hist_invariant]: for every history of transactions and kills (a kill after ANY transaction,
   any number of kills) that respects the protocol facts [proto] of proofs/CrashStarted.v between
   kills: the invariant [J] (a step whose command runs is RUNNING, has no stored hash and no BUILT
   product) holds at the end, and at EVERY kill of the history every step whose command was running
   is, after reset_interrupted_steps of the next director, without stored hash, without BUILT
   product, and PENDING (FAILED if detached).
   [dispatch_hashless_runs]: the skip rule of the scheduler (Scheduler.pop_next_job: a step with a
   stored hash is dispatched CHECKING = Executor.try_skip_job, a step without one RUNNING =
   execute_job; only a CHECKING job can record a skip: [proto]) sends such a step to execution.
   [interrupted_kept]: between the restart and that dispatch no transaction of the restarted build
   (declarations, hash results, define/amend of other steps, dispatches, reset_for_rerun and
   completions of other steps, validate/mark pending, hold/release, reset_interrupted) gives the
   step a stored hash or makes one of its products BUILT. *)
From Coq Require Import List NArith Bool Lia.
From SV Require Import lib.Bytes model.Graph model.GraphInv gen.GenCrash model.Crash proofs.CrashProofs
  proofs.CrashStarted model.CrashHist.
Import ListNotations.
Open Scope N_scope.

(* what the restarted director knows about a step that was interrupted *)
Definition Ix (x : str) (s : st) : Prop := has_hash x s = false /\ built_products x s = [].

Definition kill_ok (kr : list str * res st) : Prop :=
  match snd kr with
  | Ok s' => forall x, In x (fst kr) ->
               Ix x s' /\ (sstate_of x s' = Some SPending \/ sstate_of x s' = Some SFailed)
  | _ => True
  end.

Fixpoint proto_hist (evs : list hev) (s : st) (started : list str) : Prop :=
  match evs with
  | [] => True
  | HT o :: evs' => proto started s o /\
                    match step_op o s with
                    | Ok s' => proto_hist evs' s' (started_after o started)
                    | _ => proto_hist evs' s started
                    end
  | HKill :: evs' => nodup_by str_eqb (map sl (steps s)) = true /\
                     match reset_interrupted s with
                     | Ok s' => proto_hist evs' s' []
                     | _ => proto_hist evs' s []
                     end
  end.

Lemma kill_facts started s s' :
  J started s -> nodup_by str_eqb (map sl (steps s)) = true -> reset_interrupted s = Ok s' ->
  forall x, In x started -> Ix x s' /\ (sstate_of x s' = Some SPending \/ sstate_of x s' = Some SFailed).
Proof.
  intros HJ Hnd Hr x Hx. destruct (HJ x Hx) as [J1 [J2 J3]].
  destruct (reset_interrupted_post _ _ Hnd Hr) as [_ [F [HR _]]]. split; [split|].
  - rewrite (frame_has_hash _ _ _ F). exact J2.
  - apply (frame_built_products _ _ _ F J3).
  - destruct (HR x J1) as [E|[E _]]; [left | right]; exact E.
Qed.

Theorem hist_invariant evs : forall s started,
  J started s -> proto_hist evs s started ->
  J (snd (run_hist evs s started)) (fst (run_hist evs s started)) /\
  Forall kill_ok (kills evs s started).
Proof.
  induction evs as [|e evs IH]; intros s started HJ Hp; [split; [exact HJ | constructor]|].
  destruct e as [o|]; cbn [proto_hist] in Hp; destruct Hp as [Hp1 Hp2]; cbn [run_hist kills].
  - destruct (step_op o s) as [s'|t|t] eqn:E; try (apply IH; assumption).
    apply IH; [|exact Hp2]. eapply started_step; eassumption.
  - destruct (reset_interrupted s) as [s'|t|t] eqn:E.
    + destruct (IH s' [] (J_nil s') Hp2) as [H1 H2]. split; [exact H1|].
      constructor; [|exact H2]. unfold kill_ok. cbn [fst snd]. exact (kill_facts started s s' HJ Hp1 E).
    + destruct (IH s [] (J_nil s) Hp2) as [H1 H2]. split; [exact H1|]. constructor; [exact I | exact H2].
    + destruct (IH s [] (J_nil s) Hp2) as [H1 H2]. split; [exact H1|]. constructor; [exact I | exact H2].
Qed.

(* from the empty workflow *)
Corollary hist_invariant_init cap evs :
  proto_hist evs (init_st cap) [] -> Forall kill_ok (kills evs (init_st cap) []).
Proof. intros H. exact (proj2 (hist_invariant evs (init_st cap) [] (J_nil _) H)). Qed.

(* every crash point k of a crash-free history is a history with one kill *)
Lemma proto_hist_app a : forall b s started,
  proto_hist (a ++ b) s started <->
  proto_hist a s started /\ proto_hist b (fst (run_hist a s started)) (snd (run_hist a s started)).
Proof.
  induction a as [|e a IH]; intros b s started; [cbn; tauto|].
  destruct e as [o|]; cbn [app proto_hist run_hist].
  - destruct (step_op o s); rewrite IH; tauto.
  - destruct (reset_interrupted s); rewrite IH; tauto.
Qed.

Lemma proto_hist_HT ops : forall s started,
  proto_run ops s started -> proto_hist (map HT ops) s started.
Proof.
  induction ops as [|o ops IH]; intros s started H; [exact I|].
  cbn [map proto_hist]. cbn [proto_run] in H. destruct H as [H1 H2]. split; [exact H1|].
  destruct (step_op o s); apply IH; exact H2.
Qed.

Lemma run_hist_HT ops : forall s started, run_hist (map HT ops) s started = run_started ops s started.
Proof.
  induction ops as [|o ops IH]; intros s started; [reflexivity|]. cbn [map run_hist run_started].
  destruct (step_op o s); apply IH.
Qed.

Lemma proto_run_firstn ops : forall k s started, proto_run ops s started -> proto_run (firstn k ops) s started.
Proof.
  induction ops as [|o ops IH]; intros [|k] s started H; try exact I.
  cbn [firstn proto_run]. cbn [proto_run] in H. destruct H as [H1 H2]. split; [exact H1|].
  destruct (step_op o s); apply IH; exact H2.
Qed.

Corollary every_commit_point cap ops k :
  proto_run ops (init_st cap) [] ->
  nodup_by str_eqb (map sl (steps (run_ops (firstn k ops) (init_st cap)))) = true ->
  Forall kill_ok (kills (kill_at ops k) (init_st cap) []).
Proof.
  intros Hp Hnd. apply hist_invariant_init. unfold kill_at. apply proto_hist_app. split.
  - apply proto_hist_HT. apply proto_run_firstn. exact Hp.
  - rewrite run_hist_HT. cbn [proto_hist]. rewrite run_started_state. split; [exact Hnd|].
    destruct (reset_interrupted _); exact I.
Qed.

(* ---- the skip rule ---------------------------------------------------------------------------- *)
(* a step without stored hash is dispatched RUNNING (execute_job), never CHECKING (try_skip_job) *)
Lemma dispatch_hashless_runs x s s' :
  has_hash x s = false -> step_op (OpDispatch x) s = Ok s' ->
  has_hash x s' = false /\ built_products x s' = built_products x s /\
  (sstate_of x s' = Some SRunning \/ sstate_of x s' = None).
Proof.
  intros Hh H. cbn [step_op] in H. rewrite Hh in H.
  destruct (set_sstate_tabs _ _ _ _ _ H) as [N [F S]]. split; [|split].
  - rewrite (has_hash_shash _ _ _ S). exact Hh.
  - unfold built_products, file_products_in. rewrite (products_nodes _ _ _ N).
    f_equal. apply filter_ext. intros k. rewrite (fstate_of_files _ _ _ F). reflexivity.
  - rewrite (sstate_of_set _ _ _ _ _ H x). rewrite str_eqb_refl. destruct (sstate_of x s); [left | right]; reflexivity.
Qed.

(* ---- between the restart and the next dispatch -------------------------------------------------- *)
Lemma Kw_Ix x s s' : Kw x s s' -> Ix x s -> Ix x s'.
Proof.
  intros [R H G] [J2 J3]. split.
  - destruct (has_hash x s') eqn:E; [|reflexivity]. rewrite (H eq_refl) in J2. discriminate.
  - apply built_products_nil. intros g Hp Hb. destruct (G g Hp Hb) as [Hp' Hb'].
    exact (proj1 (built_products_nil x s) J3 g Hp' Hb').
Qed.


(* ---- delete_detached: nodes, file rows and stored hashes are only removed -------------------------- *)
Record Kh (x : str) (s s' : st) : Prop := mkKh {
  kh_hash : has_hash x s' = true -> has_hash x s = true;
  kh_g : forall g, prodf x g s' -> builtf g s' -> prodf x g s /\ builtf g s }.

Lemma Kh_refl x s : Kh x s s.
Proof. constructor; auto. Qed.
Lemma Kh_trans x a b c : Kh x a b -> Kh x b c -> Kh x a c.
Proof. intros [H1 G1] [H2 G2]. constructor; auto. intros g Hp Hb. destruct (G2 g Hp Hb) as [Hp' Hb']. auto. Qed.
Lemma Kw_Kh x s s' : Kw x s s' -> Kh x s s'.
Proof. intros [_ H G]. constructor; assumption. Qed.
Lemma Kh_Ix x s s' : Kh x s s' -> Ix x s -> Ix x s'.
Proof.
  intros [H G] [J2 J3]. split.
  - destruct (has_hash x s') eqn:E; [|reflexivity]. rewrite (H eq_refl) in J2. discriminate.
  - apply built_products_nil. intros g Hp Hb. destruct (G g Hp Hb) as [Hp' Hb'].
    exact (proj1 (built_products_nil x s) J3 g Hp' Hb').
Qed.

Lemma find_filter_keep {A} (p q : A -> bool) l :
  (forall y, p y = true -> q y = true) -> find p (filter q l) = find p l.
Proof.
  intros H. induction l as [|a l IH]; [reflexivity|]. cbn [filter find].
  destruct (q a) eqn:Q; cbn [find]; [rewrite IH; reflexivity|].
  destruct (p a) eqn:P; [rewrite (H a P) in Q; discriminate | exact IH].
Qed.

Lemma find_file_filtered g lab l r :
  find (fun f => str_eqb (fl f) g) (filter (fun r => negb (str_eqb (fl r) lab)) l) = Some r ->
  find (fun f => str_eqb (fl f) g) l = Some r.
Proof.
  intros H. pose proof (find_some _ _ H) as [Hin Hp]. apply filter_In in Hin. destruct Hin as [_ Hq].
  apply str_eqb_eq in Hp. rewrite Hp in Hq.
  rewrite <- H. symmetry. apply find_filter_keep. intros y Hy. apply str_eqb_eq in Hy. rewrite Hy. exact Hq.
Qed.

Lemma Kh_delete_node x k s : Kh x s (delete_node k s).
Proof.
  assert (Hn : forall n, In n (nodes (delete_node k s)) -> In n (nodes s)).
  { intros n. unfold delete_node. destruct (fst k); cbn; intros H; apply filter_In in H; apply H. }
  assert (Hh : incl (shash (delete_node k s)) (shash s)).
  { unfold delete_node. destruct (fst k); cbn; try apply incl_refl. intros y Hy. apply filter_In in Hy. apply Hy. }
  assert (Hf : forall g r, find_file g (delete_node k s) = Some r -> find_file g s = Some r).
  { intros g r. unfold delete_node, find_file. destruct (fst k); cbn; auto. apply find_file_filtered. }
  constructor.
  - apply has_hash_incl. exact Hh.
  - intros g Hp Hb. split.
    + unfold prodf, products in *. apply in_map_iff in Hp. destruct Hp as [n [E Hin]]. apply filter_In in Hin.
      destruct Hin as [Hin Hc]. apply in_map_iff. exists n. split; [exact E|]. apply filter_In. split; [apply Hn; exact Hin | exact Hc].
    + unfold builtf, fstate_of in *. destruct (find_file g (delete_node k s)) as [r|] eqn:E; [|discriminate].
      rewrite (Hf g r E). exact Hb.
Qed.

Lemma Kh_dd_loop x fuel : forall lost s, Kh x s (fst (dd_loop fuel lost s)).
Proof.
  induction fuel as [|fuel IH]; intros lost s; cbn [dd_loop]; [apply Kh_refl|].
  destruct (find (fun n => deletable n s) (nodes s)) as [n|]; [|apply Kh_refl].
  eapply Kh_trans; [apply Kh_delete_node | apply IH].
Qed.

Lemma Kh_delete_detached x s s' : delete_detached s = Ok s' -> Kh x s s'.
Proof.
  unfold delete_detached. intros H.
  apply (Kh_trans x s (fst (dd_loop (length (nodes s)) [] s)) s'); [apply Kh_dd_loop|].
  revert H. apply (foldM_rel (Kh x)); [apply Kh_refl | apply Kh_trans|].
  intros a c b _ Hc. destruct (find_node c a); [|inversion Hc; apply Kh_refl].
  unfold after_lost_product in Hc. destruct (fst c); try discriminate; inversion Hc; subst; try apply Kh_refl.
  apply Kw_Kh. apply K_Kw. apply (Kn_K x (KRoot, [])); [apply Kn_delete_hash | intros g C; inversion C].
Qed.

(* the transactions of the restarted build as far as they concern an interrupted step [x] that has
   not been dispatched again: its own dispatch is [dispatch_hashless_runs]; completions, skip
   checks and redefinitions are those of OTHER steps; delete_detached comes after the job loop *)
Definition proto_i (x : str) (s : st) (o : op) : Prop :=
  match o with
  | OpDispatch y | OpResetToPending y | OpValidatePending y => y <> x
  | OpExecEnd y _ _ hs _ _ =>
    y <> x /\ nodup_by key_eqb (map nk (nodes s)) = true /\
    forall p, In p (map fst hs) -> ~ In (KFile, p) (products (KStep, x) s)
  | OpDefineStep _ lab _ _ _ _ _ => lab <> x
  | OpUpdateHashes c _ => c <> CSucceeded
  | OpResetInterrupted => nodup_by str_eqb (map sl (steps s)) = true
  | OpDeleteDetached => True
  | _ => True
  end.

Theorem interrupted_kept x s o s' :
  Ix x s -> proto_i x s o -> step_op o s = Ok s' -> Ix x s'.
Proof.
  intros HI Hp H.
  assert (Hk : Kw x s s' -> Ix x s') by (intros HK; eapply Kw_Ix; eassumption).
  destruct o; cbn [step_op] in H; cbn [proto_i] in Hp.
  - apply Hk. apply K_Kw. eapply declare_static_files_K. exact H.
  - apply Hk. apply K_Kw. eapply ufh_K; eassumption.
  - apply Hk. apply K_Kw. eapply define_step_K; [exact H | exact Hp].
  - apply Hk. apply K_Kw. eapply amend_step_K. exact H.
  - apply Hk. apply K_Kw. eapply K_set_sstate_other; [exact H | exact Hp].
  - apply Hk. apply K_Kw. eapply reset_for_rerun_K. exact H.
  - destruct Hp as [Hne [Hnd Hown]]. apply bind_ok in H. destruct H as [s0 [H0 H]].
    apply bind_ok in H. destruct H as [s1 [H1 H2]]. apply Hk.
    pose proof (ufh_nodes x _ _ _ _ H0) as N0. pose proof (ufh_nodes x _ _ _ _ H1) as N1.
    eapply Kw_trans; [apply K_Kw; eapply ufh_K; [exact H0 | discriminate]|].
    eapply Kw_trans; [eapply ufh_Kw; [exact H1|]|].
    + intros p Hin. unfold prodf. rewrite (products_nodes _ _ _ N0). apply (Hown p Hin).
    + eapply mark_completed_Kw; [exact H2 | exact Hne | rewrite N1, N0; exact Hnd].
  - apply Hk. apply bind_ok in H. destruct H as [s1 [H1 H2]]. apply K_Kw.
    eapply K_trans; [eapply reset_for_rerun_K; exact H1|].
    eapply K_trans; [apply (Kn_K x (KRoot, [])); [apply Kn_delete_hash | intros g C; inversion C]|].
    eapply K_set_sstate_other; eassumption.
  - apply Hk. apply K_Kw. eapply K_set_sstate_other; [exact H | exact Hp].
  - apply Hk. apply K_Kw. eapply K_mark_step_pending. exact H.
  - eapply Kh_Ix; [eapply Kh_delete_detached; exact H | exact HI].
  - apply Hk. apply K_Kw. unfold hold in H. guards H. inversion H. apply upd_step_K. intros r. split; reflexivity.
  - apply Hk. apply K_Kw. unfold release in H. destruct (find_step label s); [|discriminate].
    guards H. inversion H. apply upd_step_K. intros r. split; reflexivity.
  - destruct HI as [I1 I2]. destruct (reset_interrupted_post _ _ Hp H) as [_ [F _]]. split.
    + rewrite (frame_has_hash _ _ _ F). exact I1.
    + apply (frame_built_products _ _ _ F I2).
Qed.

(* non-vacuity: the first build of the D6 witness killed while the command of "mk a" runs (commit
   point 7), restarted: "mk a" is among the interrupted steps and the facts hold of it *)
Lemma hist_example_ok :
  proto_hist (kill_at d6_history 7) (init_st 100) [] /\
  map fst (kills (kill_at d6_history 7) (init_st 100) []) = [[s_mka]] /\
  match reset_interrupted (run_ops (firstn 7 d6_history) (init_st 100)) with
  | Ok s' => has_hash s_mka s' = false /\ built_products s_mka s' = [] /\ sstate_of s_mka s' = Some SPending
  | _ => False end.
Proof.
  split; [|vm_compute; repeat split; reflexivity].
  unfold kill_at. apply proto_hist_app. split.
  - apply proto_hist_HT. exact (proj1 started_example_ok).
  - rewrite run_hist_HT. cbn [proto_hist]. split; [vm_compute; reflexivity|].
    destruct (reset_interrupted _); exact I.
Qed.
