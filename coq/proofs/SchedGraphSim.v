(* C10: every function of the transaction model (model/Graph.v), traced (model/SchedGraph.v), is
   simulated by its primitive sequence on any scheduling snapshot coupled to the state: the sequence
   is defined, each primitive is applied where its side condition holds (discharged from C09's
   invariant Inv and the coupling), and the result is coupled to the new state. *)
From Coq Require Import List NArith Bool Arith Lia.
From SV Require Import lib.Bytes lib.Closure lib.SqlExpr gen.GenSched model.Graph model.GraphInv model.Sched
  model.SchedGraph proofs.GraphBase proofs.GraphNodes proofs.GraphInvP proofs.GraphPrims proofs.GraphFrames proofs.GraphNodeFrame
  proofs.SchedProofs proofs.SchedPrims proofs.SchedSeq proofs.SchedSkel proofs.SchedGraphCpl proofs.SchedGraphBelow.
Import ListNotations.
Open Scope N_scope.

(* ---- sequences ---- *)
Lemma run_prims_app l1 : forall g l2,
  run_prims g (l1 ++ l2) = match run_prims g l1 with Some g1 => run_prims g1 l2 | None => None end.
Proof.
  induction l1 as [|p l1 IH]; intros g l2; [reflexivity|]. cbn [app run_prims].
  destruct (apply_prim g p); [apply IH | reflexivity].
Qed.

Lemma run_ok_app l1 : forall g l2, run_ok g l1 ->
  (forall g1, run_prims g l1 = Some g1 -> run_ok g1 l2) -> run_ok g (l1 ++ l2).
Proof.
  induction l1 as [|p l1 IH]; intros g l2 H1 H2; [apply H2; reflexivity|].
  cbn [app run_ok] in *. destruct H1 as [Hp Hr]. split; [exact Hp|].
  intros g1 E. apply IH; [apply Hr; exact E|]. intros g2 E2. apply H2. cbn [run_prims]. rewrite E. exact E2.
Qed.

(* tree-free states with acyclic creator links: not part of C09's invariant, preserved by every
   operation of the alphabet (trees are created by register_static_tree only) *)
Definition NTC (s : st) : Prop :=
  (forall n, In n (nodes s) -> fst (nk n) <> KTree) /\ acyclic (pedges (nodes s)).

Definition J (s : st) : Prop := GraphInvP.Inv false s /\ NTC s.

Lemma NTC_nodes s s' : nodes s' = nodes s -> NTC s -> NTC s'.
Proof. intros E. unfold NTC. rewrite E. auto. Qed.

Section Sim.
Variable idf : key -> N.
Hypothesis idf_inj : forall a b, idf a = idf b -> a = b.

Notation coupled := (coupled idf).

(* the traced result r of a function started in s: its primitive sequence runs on every coupled
   snapshot, side conditions included, and lands on a snapshot coupled to the new state *)
Definition sim (s : st) (r : tres st) (Q : st -> Prop) : Prop :=
  match r with
  | Ok (s', l) => Q s' /\ forall g, coupled s g ->
                    exists g', run_prims g l = Some g' /\ coupled s' g' /\ run_ok g l
  | _ => True
  end.

Lemma sim_ret s (Q : st -> Prop) : Q s -> sim s (retT s) Q.
Proof. intros H. split; [exact H|]. intros g C. exists g. split; [reflexivity|]. split; [exact C | exact I]. Qed.

Lemma sim_weaken s r (Q Q' : st -> Prop) : sim s r Q -> (forall s', Q s' -> Q' s') -> sim s r Q'.
Proof. destruct r as [[s' l]| |]; cbn; auto. intros [H1 H2] H. split; auto. Qed.

Lemma sim_bind s r (f : st -> tres st) (Q1 Q2 : st -> Prop) :
  sim s r Q1 -> (forall s1, Q1 s1 -> sim s1 (f s1) Q2) -> sim s (bindT r f) Q2.
Proof.
  destruct r as [[s1 l1]| |]; cbn [sim bindT]; auto. intros [H1 H1'] H2.
  specialize (H2 s1 H1). destruct (f s1) as [[s2 l2]| |]; cbn [sim] in *; auto.
  destruct H2 as [H2 H2']. split; [exact H2|]. intros g C.
  destruct (H1' g C) as [g1 [E1 [C1 O1]]]. destruct (H2' g1 C1) as [g2 [E2 [C2 O2]]].
  exists g2. split; [rewrite run_prims_app, E1; exact E2|]. split; [exact C2|].
  apply run_ok_app; [exact O1|]. intros g1' E. rewrite E1 in E. inversion E; subst g1'. exact O2.
Qed.

Lemma sim_foldT {A} (f : st -> A -> tres st) (I : st -> Prop) (l : list A) :
  (forall s a, In a l -> I s -> sim s (f s a) I) -> forall s, I s -> sim s (foldT f l s) I.
Proof.
  induction l as [|a l IH]; intros Hf s Hs; cbn [foldT]; [apply sim_ret; exact Hs|].
  eapply sim_bind; [apply Hf; [left; reflexivity | exact Hs]|].
  intros s1 H1. apply IH; [|exact H1]. intros s0 a0 Ha0. apply Hf. right. exact Ha0.
Qed.

(* an emitted list on an unchanged traced state *)
Lemma sim_emit s s' l (Q : st -> Prop) :
  Q s' -> (forall g, coupled s g -> exists g', run_prims g l = Some g' /\ coupled s' g' /\ run_ok g l) ->
  sim s (Ok (s', l)) Q.
Proof. intros H1 H2. split; assumption. Qed.

Lemma sim_one s s' p (Q : st -> Prop) :
  Q s' -> (forall g, coupled s g -> prim_ok g p /\ exists g', apply_prim g p = Some g' /\ coupled s' g') ->
  sim s (Ok (s', [p])) Q.
Proof.
  intros H1 H2. split; [exact H1|]. intros g C. destruct (H2 g C) as [Hok [g' [E C']]].
  exists g'. cbn [run_prims]. rewrite E. split; [reflexivity|]. split; [exact C'|].
  cbn [run_ok]. split; [exact Hok|]. intros g1 _. exact I.
Qed.

(* ---- facts about the coupled node table ---- *)
Lemma J_nodup s : J s -> NoDup (KL (nodes s)).
Proof. intros [HI _]. apply (nw_nodup _ (inv_nw _ HI)). Qed.

Lemma node_det_nodes s s' k : nodes s' = nodes s -> node_det k s' = node_det k s.
Proof. intros E. unfold node_det, is_detached, find_node. rewrite E. reflexivity. Qed.
Lemma node_cre_nodes s s' k : nodes s' = nodes s -> node_cre idf k s' = node_cre idf k s.
Proof. intros E. unfold node_cre, creator_of, find_node. rewrite E. reflexivity. Qed.

Lemma file_of_ext s s' r : nodes s' = nodes s -> file_of idf s' r = file_of idf s r.
Proof. intros E. unfold file_of. rewrite (node_det_nodes s s' _ E), (node_cre_nodes s s' _ E). reflexivity. Qed.
Lemma others_of_ext s s' : nodes s' = nodes s -> others_of idf s' = others_of idf s.
Proof.
  intros E. unfold others_of. rewrite E. apply map_ext. intros n. unfold other_of.
  rewrite (node_cre_nodes s s' _ E). reflexivity.
Qed.
Lemma row_sk_ext s s' r : nodes s' = nodes s -> shash s' = shash s -> row_sk idf s' r = row_sk idf s r.
Proof.
  intros E Eh. unfold row_sk. rewrite (node_det_nodes s s' _ E), (node_cre_nodes s s' _ E).
  unfold has_hash. rewrite Eh. reflexivity.
Qed.

(* ---- Step.set_state ---- *)
Lemma set_sstate_t_erase l new d s : erase (set_sstate_t idf l new d s) = set_sstate l new d s.
Proof.
  unfold set_sstate_t, set_sstate. destruct (Graph.find_step l s); [|reflexivity].
  destruct (d && negb (sstate_eqb new SPending)); reflexivity.
Qed.

Lemma sk_apply_state_graph (t : sskel) (new : sstate) (d : bool) :
  sk_apply_state t (sstate_code new) d =
  mkSk (q_key t) (sstate_code new) (q_need t)
       (match new with SSucceeded | SFailed => false | _ => d end)
       (match new with SSucceeded => 0 | _ => q_dc t end)
       (if sstate_eqb new SRunning then q_holding t else 0)
       (q_detached t) (q_creator t) (q_stored t) (q_hh t).
Proof.
  unfold sk_apply_state. destruct (state_triggers_meaning (sstate_code new) (q_holding t)) as [H1 [H2 H3]].
  rewrite H1, H2, H3. destruct new; cbn; try reflexivity; destruct (q_holding t =? 0) eqn:E; cbn;
    try reflexivity; apply N.eqb_eq in E; rewrite E; reflexivity.
Qed.

Definition set_sstate_post (l : str) (new : sstate) (s s' : st) : Prop :=
  J s' /\ SO s s' /\ files s' = files s /\ shash s' = shash s /\
  (forall l', l' <> l -> Graph.find_step l' s' = Graph.find_step l' s) /\
  (Graph.find_step l s <> None -> sstate_of l s' = Some new) /\
  (Graph.find_step l s = None -> s' = s).

Lemma set_sstate_t_sim l new d s : J s -> sim s (set_sstate_t idf l new d s) (set_sstate_post l new s).
Proof.
  intros [HI HN].
  pose proof (set_sstate_spec (hh:=false) false l new d s HI ltac:(discriminate)) as Hspec.
  rewrite <- set_sstate_t_erase in Hspec.
  unfold set_sstate_t in *. destruct (Graph.find_step l s) as [r|] eqn:Ef.
  2:{ apply sim_ret. unfold set_sstate_post. rewrite Ef. cbn in Hspec. destruct Hspec as [A [B [C' [D [E [F G]]]]]].
      exact (conj (conj A HN) (conj B (conj C' (conj D (conj E (conj F G)))))). }
  destruct (d && negb (sstate_eqb new SPending)); [exact I|].
  cbn [erase wpg] in Hspec. destruct Hspec as [A [B [C' [D [E [F G]]]]]].
  set (s' := upd_step l _ s) in *.
  assert (En : nodes s' = nodes s) by apply (so_nodes _ _ B).
  apply sim_one.
  { unfold set_sstate_post. rewrite Ef.
    exact (conj (conj A (NTC_nodes s s' En HN)) (conj B (conj C' (conj D (conj E (conj F G)))))). }
  intros g Cg. split; [exact I|]. cbn [apply_prim]. eexists. split; [reflexivity|].
  destruct (skel_set_step_state g (sk idf l) (sstate_code new) d) as [S1 [S2 [S3 S4]]].
  constructor.
  - rewrite S1, (cp_steps idf s g Cg). unfold s'. rewrite steps_upd_step. unfold upds. rewrite !map_map.
    apply map_ext_in. intros r0 Hr0. cbn [q_key row_sk]. rewrite sk_eqb by exact idf_inj.
    destruct (str_eqb (sl r0) l) eqn:El.
    + apply str_eqb_eq in El.
      assert (Hr : r0 = r).
      { pose proof (In_finds (steps s) r0 (rw_snodup _ _ _ _ _ (inv_rw _ HI)) Hr0) as H0.
        unfold Graph.find_step in Ef. fold (finds l (steps s)) in Ef. rewrite El in H0. congruence. }
      subst r0. rewrite sk_apply_state_graph. unfold row_sk. cbn [sl sst sneed sdef sdc shold q_key q_need q_dc q_holding q_detached q_creator q_stored q_hh].
      rewrite (node_det_nodes s s' _ En), (node_cre_nodes s s' _ En). reflexivity.
    + apply row_sk_ext; assumption.
  - rewrite S2, (cp_files idf s g Cg), C'. apply map_ext. intros r0. symmetry. apply file_of_ext. exact En.
  - rewrite S3, (cp_others idf s g Cg). symmetry. apply others_of_ext. exact En.
  - rewrite S4, (cp_deps idf s g Cg), (so_deps _ _ B). reflexivity.
Qed.

(* ---- File.set_state ---- *)
Lemma set_fstate_hash_t_erase l new newh s :
  erase (set_fstate_hash_t idf l new newh s) = set_fstate_hash l new newh s.
Proof.
  unfold set_fstate_hash_t, set_fstate_hash. destruct (Graph.find_file l s) as [r|]; [|reflexivity].
  destruct (needs_hash new && _); [reflexivity|].
  destruct (fstate_eqb new FUndeclared && _); reflexivity.
Qed.

Definition is_vol (f : fstate) : bool := match f with FVolatile => true | _ => false end.
Lemma is_vol_code f : (fstate_code f =? FS_VOLATILE) = is_vol f.
Proof. destruct f; reflexivity. Qed.

Definition set_fstate_post (l : str) (new : fstate) (s s' : st) : Prop :=
  J s' /\ SO s s' /\ steps s' = steps s /\ shash s' = shash s /\
  (forall l', l' <> l -> Graph.find_file l' s' = Graph.find_file l' s) /\
  (Graph.find_file l s <> None -> fstate_of l s' = Some new) /\
  (Graph.find_file l s = None -> s' = s).

Lemma set_fstate_hash_t_sim l new newh s :
  J s -> new <> FUndeclared ->
  (forall d sl, In d (deps s) -> dsrc d = (KStep, sl) -> dsnk d = (KFile, l) ->
     forall n c, findn (KFile, l) (nodes s) = Some n -> ncre n = Some c -> out_state new = true) ->
  ((forall r, Graph.find_file l s = Some r -> is_vol (fstt r) = is_vol new) \/
   (forall d, In d (deps s) -> dsnk d <> (KFile, l))) ->
  sim s (set_fstate_hash_t idf l new newh s) (set_fstate_post l new s).
Proof.
  intros [HI HN] Hnew Hoe Hvol.
  pose proof (set_fstate_hash_spec (hh:=false) false l new newh s HI Hnew Hoe ltac:(discriminate)) as Hspec.
  rewrite <- set_fstate_hash_t_erase in Hspec.
  unfold set_fstate_hash_t in *. destruct (Graph.find_file l s) as [r|] eqn:Ef.
  2:{ apply sim_ret. unfold set_fstate_post. rewrite Ef. cbn in Hspec. destruct Hspec as [A [B [C' [D [E [F G]]]]]].
      exact (conj (conj A HN) (conj B (conj C' (conj D (conj E (conj F G)))))). }
  destruct (needs_hash new && _); [exact I|].
  destruct (fstate_eqb new FUndeclared && _); [exact I|].
  cbn [erase wpg] in Hspec. destruct Hspec as [A [B [C' [D [E [F G]]]]]].
  set (h2 := if clears_hash (fstt r) new then None else match newh with Some h => h | None => fh r end) in *.
  set (s' := upd_file l _ s) in *.
  assert (En : nodes s' = nodes s) by apply (so_nodes _ _ B).
  apply sim_one.
  { unfold set_fstate_post. rewrite Ef.
    exact (conj (conj A (NTC_nodes s s' En HN)) (conj B (conj C' (conj D (conj E (conj F G)))))). }
  intros g Cg. split.
  - (* side condition *)
    cbn [prim_ok]. destruct Hvol as [Hv|Hv]; [left | right].
    + intros f Hf Hk. destruct (file_key_cpl idf s g f Cg Hf) as [r0 [Hr0 ->]]. cbn [f_key f_state file_of] in *.
      unfold fk in Hk. apply idf_inj in Hk. inversion Hk as [Hl].
      assert (Hr : r0 = r).
      { pose proof (In_findf (files s) r0 (rw_fnodup _ _ _ _ _ (inv_rw _ HI)) Hr0) as H0.
        unfold Graph.find_file in Ef. fold (findf l (files s)) in Ef. rewrite Hl in H0. congruence. }
      subst r0. rewrite !is_vol_code. apply Hv. reflexivity.
    + intros d0 Hd0 Hk. destruct (dep_cpl idf s g d0 Cg Hd0) as [d1 [Hd1 ->]]. cbn [d_snk dep_of] in Hk.
      unfold fk in Hk. apply idf_inj in Hk. apply (Hv d1 Hd1 Hk).
  - cbn [apply_prim]. eexists. split; [reflexivity|].
    destruct (skel_set_file_state g (fk idf l) (fstate_code new) (is_some h2)) as [S1 [S2 [S3 S4]]].
    constructor.
    + rewrite S1, (cp_steps idf s g Cg), C'. apply map_ext. intros r0. symmetry. apply row_sk_ext; assumption.
    + rewrite S2, (cp_files idf s g Cg). unfold s'. rewrite files_upd_file. unfold updf. rewrite !map_map.
      apply map_ext. intros r0. cbn [f_key file_of]. rewrite fk_eqb by exact idf_inj.
      destruct (str_eqb (fl r0) l); [|symmetry; apply file_of_ext; exact En].
      unfold file_of, set_fstate. cbn [f_key f_label f_detached f_creator fl fstt fh].
      rewrite (node_det_nodes s _ _ En), (node_cre_nodes s _ _ En). reflexivity.
    + rewrite S3, (cp_others idf s g Cg). symmetry. apply others_of_ext. exact En.
    + rewrite S4, (cp_deps idf s g Cg), (so_deps _ _ B). reflexivity.
Qed.

(* ---- stored hashes ---- *)
Lemma has_hash_delete x l s : has_hash x (delete_hash l s) = negb (str_eqb x l) && has_hash x s.
Proof.
  unfold has_hash, delete_hash. cbn [shash set_shash].
  induction (shash s) as [|a hs IH]; [rewrite andb_false_r; reflexivity|].
  cbn [filter existsb]. destruct (str_eqb a l) eqn:Eal; cbn [negb].
  - rewrite IH. destruct (str_eqb x a) eqn:Exa; [|reflexivity].
    apply str_eqb_eq in Exa. apply str_eqb_eq in Eal. subst. rewrite str_eqb_refl. reflexivity.
  - cbn [existsb]. rewrite IH. destruct (str_eqb x a) eqn:Exa; [|reflexivity].
    apply str_eqb_eq in Exa. subst. rewrite Eal. reflexivity.
Qed.

Lemma has_hash_store x l s : has_hash x (store_hash l s) = str_eqb x l || has_hash x s.
Proof.
  unfold store_hash. destruct (has_hash l s) eqn:E.
  - destruct (str_eqb x l) eqn:Ex; [|reflexivity]. apply str_eqb_eq in Ex. subst. exact E.
  - unfold has_hash. cbn [shash set_shash existsb]. reflexivity.
Qed.

Lemma coupled_set_hash s s' g l b :
  coupled s g -> nodes s' = nodes s -> steps s' = steps s -> files s' = files s -> deps s' = deps s ->
  (forall x, has_hash x s' = if str_eqb x l then b else has_hash x s) ->
  coupled s' (set_step_hash g (sk idf l) b).
Proof.
  intros Cg En Es Ef Ed Hh. constructor.
  - rewrite skel_set_step_hash, (cp_steps idf s g Cg), Es, map_map. apply map_ext. intros r.
    unfold sk_set_hash. cbn [q_key row_sk]. rewrite sk_eqb by exact idf_inj. unfold row_sk.
    rewrite (node_det_nodes s s' _ En), (node_cre_nodes s s' _ En), Hh.
    destruct (str_eqb (sl r) l); reflexivity.
  - change (g_files (set_step_hash g (sk idf l) b)) with (g_files g).
    rewrite (cp_files idf s g Cg), Ef. apply map_ext. intros r. symmetry. apply file_of_ext. exact En.
  - change (g_others (set_step_hash g (sk idf l) b)) with (g_others g).
    rewrite (cp_others idf s g Cg). symmetry. apply others_of_ext. exact En.
  - change (g_deps (set_step_hash g (sk idf l) b)) with (g_deps g). rewrite (cp_deps idf s g Cg), Ed. reflexivity.
Qed.

Lemma delete_hash_t_sim l s : J s -> sim s (delete_hash_t idf l s) (fun s' => J s' /\ SO s s' /\ s' = delete_hash l s).
Proof.
  intros [HI HN]. destruct (delete_hash_inv (hh:=false) l s HI) as [A B]. unfold delete_hash_t.
  apply sim_one; [split; [split; [exact A | apply (NTC_nodes s); [reflexivity | exact HN]] | split; [exact B | reflexivity]]|].
  intros g Cg. split; [exact I|]. cbn [apply_prim]. eexists. split; [reflexivity|].
  apply (coupled_set_hash s); try reflexivity; [exact Cg|].
  intros x. rewrite has_hash_delete. destruct (str_eqb x l); reflexivity.
Qed.

Lemma store_hash_t_sim l s : J s -> Graph.find_step l s <> None ->
  sim s (store_hash_t idf l s) (fun s' => J s' /\ SO s s' /\ s' = store_hash l s).
Proof.
  intros [HI HN] Hf. destruct (store_hash_inv (hh:=false) l s HI Hf) as [A B]. unfold store_hash_t.
  assert (En : nodes (store_hash l s) = nodes s) by apply (so_nodes _ _ B).
  apply sim_one; [split; [split; [exact A | apply (NTC_nodes s); [exact En | exact HN]] | split; [exact B | reflexivity]]|].
  intros g Cg. split; [exact I|]. cbn [apply_prim]. eexists. split; [reflexivity|].
  apply (coupled_set_hash s); [exact Cg | exact En | | | |].
  - unfold store_hash. destruct (has_hash l s); reflexivity.
  - unfold store_hash. destruct (has_hash l s); reflexivity.
  - unfold store_hash. destruct (has_hash l s); reflexivity.
  - intros x. rewrite has_hash_store. destruct (str_eqb x l); reflexivity.
Qed.

(* ---- deleting dependency edges ---- *)
Lemma filter_filter {A} (p q : A -> bool) l : filter q (filter p l) = filter (fun x => p x && q x) l.
Proof.
  induction l as [|a l IH]; [reflexivity|]. cbn [filter]. destruct (p a); cbn [filter andb]; [|exact IH].
  destruct (q a); rewrite IH; reflexivity.
Qed.

Lemma run_prims_del l : forall g,
  exists g', run_prims g (map PDelDep l) = Some g' /\ sks g' = sks g /\ g_files g' = g_files g /\
             g_others g' = g_others g /\
             g_deps g' = filter (fun e => negb (existsb (fun d => dep_eqb e d) l)) (g_deps g) /\
             run_ok g (map PDelDep l).
Proof.
  induction l as [|d l IH]; intros g.
  - exists g. split; [reflexivity|]. repeat split; try reflexivity.
    cbn [existsb negb]. induction (g_deps g) as [|e es IHe]; [reflexivity|]. cbn [filter]. f_equal. exact IHe.
  - cbn [map run_prims apply_prim]. destruct (skel_del_dep g d) as [A [B [C' D]]].
    destruct (IH (del_dep g d)) as [g' [E [A' [B' [C'' [D' O]]]]]]. exists g'.
    split; [exact E|]. split; [congruence|]. split; [congruence|]. split; [congruence|]. split.
    + rewrite D', D, filter_filter. apply filter_ext. intros e. cbn [existsb].
      destruct (dep_eqb e d); reflexivity.
    + cbn [run_ok]. split; [exact I|]. intros g1 Eg. inversion Eg; subst g1. exact O.
Qed.

Lemma dep_eqb_cpl d1 d2 : dep_eqb (dep_of idf d1) (dep_of idf d2) = key_eqb (dsrc d1) (dsrc d2) && key_eqb (dsnk d1) (dsnk d2).
Proof. unfold dep_eqb, dep_of. cbn [d_src d_snk]. rewrite !idf_eqb by exact idf_inj. reflexivity. Qed.

Lemma del_deps_where_t_sim p s : J s ->
  sim s (del_deps_where_t idf p s) (fun s' => J s' /\ s' = del_deps_where p s).
Proof.
  intros [HI HN]. unfold del_deps_where_t.
  apply sim_emit.
  { split; [|reflexivity]. split; [apply del_deps_where_inv; exact HI | apply (NTC_nodes s); [reflexivity | exact HN]]. }
  intros g Cg. rewrite <- map_map with (f := dep_of idf) (g := PDelDep).
  destruct (run_prims_del (map (dep_of idf) (filter p (deps s))) g) as [g' [E [A [B [C' [D O]]]]]].
  exists g'. split; [exact E|]. split; [|exact O].
  constructor.
  - rewrite A, (cp_steps idf s g Cg). reflexivity.
  - rewrite B, (cp_files idf s g Cg). reflexivity.
  - rewrite C', (cp_others idf s g Cg). reflexivity.
  - rewrite D, (cp_deps idf s g Cg). unfold del_deps_where. cbn [deps set_deps].
    pose proof (dw_nodup _ _ (inv_dw _ HI)) as Hnd.
    assert (H : forall ds, incl ds (deps s) ->
      filter (fun e => negb (existsb (fun d => dep_eqb e d) (map (dep_of idf) (filter p (deps s))))) (map (dep_of idf) ds)
      = map (dep_of idf) (filter (fun d => negb (p d)) ds)).
    { induction ds as [|d0 ds IHd]; intros Hi; [reflexivity|]. cbn [map filter].
      assert (Hin0 : In d0 (deps s)) by (apply Hi; left; reflexivity).
      assert (Hex : existsb (fun d => dep_eqb (dep_of idf d0) d) (map (dep_of idf) (filter p (deps s))) = p d0).
      { destruct (p d0) eqn:Ep.
        - apply existsb_exists. exists (dep_of idf d0). split; [apply in_map; apply filter_In; auto|].
          rewrite dep_eqb_cpl, !key_eqb_refl. reflexivity.
        - apply existsb_false_iff. intros x Hx. apply in_map_iff in Hx. destruct Hx as [d1 [<- Hd1]].
          apply filter_In in Hd1. destruct Hd1 as [Hd1 Hp1].
          destruct (dep_eqb (dep_of idf d0) (dep_of idf d1)) eqn:Eq; [|reflexivity]. exfalso.
          rewrite dep_eqb_cpl in Eq. apply andb_true_iff in Eq. destruct Eq as [E1 E2].
          apply key_eqb_eq in E1. apply key_eqb_eq in E2.
          assert (d0 = d1). { apply (NoDup_map_inj edge_of (deps s)); try assumption. unfold edge_of. congruence. }
          subst d1. congruence. }
      rewrite Hex. destruct (p d0); cbn [negb]; [|cbn [map]; f_equal]; apply IHd; intros x Hx; apply Hi; right; exact Hx. }
    apply H. apply incl_refl.
Qed.

(* ---- hold / release / defer count ---- *)
Lemma coupled_set_life s s' g l (f : sskel -> N * N) (fr : srow -> N * N) :
  coupled s g -> nodes s' = nodes s -> files s' = files s -> deps s' = deps s -> shash s' = shash s ->
  steps s' = upds l (fun r => mkS (sl r) (sst r) (sneed r) (sdef r) (fst (fr r)) (snd (fr r))) (steps s) ->
  (forall r, In r (steps s) -> sl r = l -> f (row_sk idf s r) = fr r) ->
  forall g', sks g' = map (sk_set_life (sk idf l) f) (sks g) -> g_files g' = g_files g ->
             g_others g' = g_others g -> g_deps g' = g_deps g -> coupled s' g'.
Proof.
  intros Cg En Ef Ed Eh Es Hf g' A B C' D. constructor.
  - rewrite A, (cp_steps idf s g Cg), Es. unfold upds. rewrite !map_map. apply map_ext_in. intros r Hr.
    unfold sk_set_life. cbn [q_key row_sk]. rewrite sk_eqb by exact idf_inj.
    destruct (str_eqb (sl r) l) eqn:El; [|symmetry; apply row_sk_ext; assumption].
    apply str_eqb_eq in El. rewrite (Hf r Hr El). unfold row_sk. cbn [sl sst sneed sdef sdc shold q_key q_state q_need q_deferred q_detached q_creator q_stored q_hh].
    rewrite (node_det_nodes s s' _ En), (node_cre_nodes s s' _ En). unfold has_hash. rewrite Eh. reflexivity.
  - rewrite B, (cp_files idf s g Cg), Ef. apply map_ext. intros r. symmetry. apply file_of_ext. exact En.
  - rewrite C', (cp_others idf s g Cg). symmetry. apply others_of_ext. exact En.
  - rewrite D, (cp_deps idf s g Cg), Ed. reflexivity.
Qed.

Lemma upd_step_J l gf s : J s -> (forall r, sl (gf r) = sl r) -> (forall r, sst (gf r) = sst r /\ sdef (gf r) = sdef r) ->
  J (upd_step l gf s).
Proof.
  intros [HI HN] Hl Hk. split; [|apply (NTC_nodes s); [reflexivity | exact HN]].
  apply (upd_step_inv (hh:=false) l gf s HI Hl). intros r Hr _. unfold sw_ok_b.
  destruct (Hk r) as [-> ->]. pose proof (inv_sw _ HI r Hr) as H. unfold sw_ok_b in H. exact H.
Qed.

Lemma hold_t_sim l s : J s -> sim s (hold_t idf l s) (fun s' => J s').
Proof.
  intros HJ. unfold hold_t, hold. destruct (negb (is_some (Graph.find_step l s))); [exact I|].
  apply sim_one.
  { apply upd_step_J; [exact HJ | reflexivity | intros r; split; reflexivity]. }
  intros g Cg. split; [exact I|]. cbn [apply_prim]. eexists. split; [reflexivity|].
  destruct (skel_hold_step g (sk idf l)) as [A [B [C' D]]].
  apply (coupled_set_life s _ g l (fun t => (q_dc t, q_holding t + 1)) (fun r => (sdc r, shold r + 1)) Cg);
    try reflexivity; try assumption.
Qed.

Lemma release_t_sim l s : J s -> sim s (release_t idf l s) (fun s' => J s').
Proof.
  intros HJ. unfold release_t, release. destruct (Graph.find_step l s) as [r|] eqn:Ef; [|exact I].
  destruct (shold r =? 0) eqn:Eh; [exact I|].
  apply sim_one.
  { apply upd_step_J; [exact HJ | reflexivity | intros r0; split; reflexivity]. }
  intros g Cg. split; [exact I|]. cbn [apply_prim].
  pose proof (find_step_cpl idf idf_inj s g l Cg) as Hfs. rewrite Ef in Hfs.
  destruct (Sched.find_step g (sk idf l)) as [x|] eqn:Ex; [|contradiction].
  assert (Hrel : exists g', release_step g (sk idf l) = Some g').
  { unfold release_step. rewrite Ex. pose proof (f_equal q_holding Hfs) as Hh. cbn in Hh. rewrite Hh, Eh.
    eexists. reflexivity. }
  destruct Hrel as [g' Eg]. exists g'. split; [exact Eg|].
  destruct (skel_release_step g (sk idf l) g' Eg) as [A [B [C' D]]].
  apply (coupled_set_life s _ g l (fun t => (q_dc t, q_holding t - 1)) (fun r => (sdc r, shold r - 1)) Cg);
    try reflexivity; try assumption.
Qed.

(* ---- changes of the node table only (detach, reattach, take-over) ---- *)
Definition sk_place (fd : N -> bool -> bool) (fc : N -> option N -> option N) (t : sskel) : sskel :=
  mkSk (q_key t) (q_state t) (q_need t) (q_deferred t) (q_dc t) (q_holding t)
       (fd (q_key t) (q_detached t)) (fc (q_key t) (q_creator t)) (q_stored t) (q_hh t).

Lemma others_of_keys s : NoDup (KL (nodes s)) ->
  others_of idf s = map (fun y => mkOnode (idf y) (node_det y s) (node_cre idf y s))
                        (filter (fun y => match fst y with KRoot | KTree => true | _ => false end) (KL (nodes s))).
Proof.
  intros Hnd. unfold others_of, KL.
  assert (H : forall ns, incl ns (nodes s) ->
    map (other_of idf s) (filter (fun n => match fst (nk n) with KRoot | KTree => true | _ => false end) ns) =
    map (fun y => mkOnode (idf y) (node_det y s) (node_cre idf y s))
        (filter (fun y => match fst y with KRoot | KTree => true | _ => false end) (map nk ns))).
  { induction ns as [|n ns IH]; intros Hi; [reflexivity|]. cbn [map filter].
    assert (Hn : In n (nodes s)) by (apply Hi; left; reflexivity).
    assert (Hd : node_det (nk n) s = ndet n).
    { unfold node_det, is_detached, find_node. fold (findn (nk n) (nodes s)). rewrite (In_findn _ _ Hnd Hn). reflexivity. }
    destruct (match fst (nk n) with KRoot | KTree => true | _ => false end); cbn [map];
      [unfold other_of at 1; rewrite Hd; f_equal|]; apply IH; intros x Hx; apply Hi; right; exact Hx. }
  apply H. apply incl_refl.
Qed.

Lemma coupled_nodes_change s s' g g' (fd : N -> bool -> bool) (fc : N -> option N -> option N) :
  coupled s g -> NoDup (KL (nodes s)) -> RWl (nodes s) (files s) (steps s) (shash s) (envs s) ->
  KL (nodes s') = KL (nodes s) -> files s' = files s -> steps s' = steps s -> deps s' = deps s -> shash s' = shash s ->
  (forall y, In y (KL (nodes s)) ->
     node_det y s' = fd (idf y) (node_det y s) /\ node_cre idf y s' = fc (idf y) (node_cre idf y s)) ->
  sks g' = map (sk_place fd fc) (sks g) ->
  g_files g' = map (fun f => set_fplace f (fd (f_key f) (f_detached f)) (fc (f_key f) (f_creator f))) (g_files g) ->
  g_others g' = map (fun o => set_oplace o (fd (o_key o) (o_detached o)) (fc (o_key o) (o_creator o))) (g_others g) ->
  g_deps g' = g_deps g -> coupled s' g'.
Proof.
  intros Cg Hnd Hrw EK Ef Es Ed Eh Hphi A B C' D.
  assert (Hnd' : NoDup (KL (nodes s'))) by (rewrite EK; exact Hnd).
  constructor.
  - rewrite A, (cp_steps idf s g Cg), Es, map_map. apply map_ext_in. intros r Hr.
    assert (Hk : In (KStep, sl r) (KL (nodes s))) by (apply (rw_steps _ _ _ _ _ Hrw); apply in_map; exact Hr).
    destruct (Hphi _ Hk) as [H1 H2]. unfold sk_place, row_sk. cbn [q_key q_state q_need q_deferred q_dc q_holding q_detached q_creator q_stored q_hh].
    unfold sk. rewrite <- H1, <- H2. unfold has_hash. rewrite Eh. reflexivity.
  - rewrite B, (cp_files idf s g Cg), Ef, map_map. apply map_ext_in. intros r Hr.
    assert (Hk : In (KFile, fl r) (KL (nodes s))) by (apply (rw_files _ _ _ _ _ Hrw); apply in_map; exact Hr).
    destruct (Hphi _ Hk) as [H1 H2]. unfold file_of, set_fplace. cbn [f_key f_label f_state f_detached f_creator f_hash].
    unfold fk. rewrite <- H1, <- H2. reflexivity.
  - rewrite C', (cp_others idf s g Cg), (others_of_keys s Hnd), (others_of_keys s' Hnd'), EK, map_map.
    apply map_ext_in. intros y Hy. apply filter_In in Hy. destruct Hy as [Hy _].
    destruct (Hphi _ Hy) as [H1 H2]. unfold set_oplace. cbn [o_key o_detached o_creator]. rewrite <- H1, <- H2. reflexivity.
  - rewrite D, (cp_deps idf s g Cg), Ed. reflexivity.
Qed.

(* cutting (or changing) the creator link of k does not change the set of nodes below k *)
Lemma path_cut (E E' : list (key * key)) (k : key) :
  (forall a b, In (a, b) E -> b <> k -> In (a, b) E') ->
  forall a x, path E a x -> path E' a x \/ path E' k x.
Proof.
  intros HE a x Hp. induction Hp as [a|a b c He Hp IH]; [left; apply path_refl|].
  destruct IH as [IH|IH]; [|right; exact IH].
  destruct (key_eq_dec b k) as [->|Hb]; [right; exact IH|].
  left. eapply path_step; [apply HE; eassumption | exact IH].
Qed.

Lemma recl_updn_self ns k f : NoDup (map nk ns) -> (forall n, nk (f n) = nk n) ->
  forall x, mem_key x (recl k (updn k f ns)) = mem_key x (recl k ns).
Proof.
  intros Hnd Hf x.
  assert (Hnd1 : NoDup (map nk (updn k f ns))) by (rewrite map_nk_updn; assumption).
  assert (Hother : forall a b, b <> k -> (In (a, b) (pedges (updn k f ns)) <-> In (a, b) (pedges ns))).
  { intros a b Hb. rewrite (pedges_findn _ _ _ Hnd1), (pedges_findn _ _ _ Hnd).
    rewrite findn_updn by exact Hf. apply key_eqb_neq in Hb. rewrite Hb. reflexivity. }
  assert (Hd : forall y, Desc (updn k f ns) k y <-> Desc ns k y).
  { intros y. unfold Desc. split; intros [Hne Hp]; (split; [exact Hne|]).
    - destruct (path_cut (pedges (updn k f ns)) (pedges ns) k) with (a := k) (x := y) as [H|H]; try assumption.
      intros a b Hab Hb. apply (Hother a b Hb). exact Hab.
    - destruct (path_cut (pedges ns) (pedges (updn k f ns)) k) with (a := k) (x := y) as [H|H]; try assumption.
      intros a b Hab Hb. apply (Hother a b Hb). exact Hab. }
  destruct (mem_key x (recl k ns)) eqn:E.
  - apply recl_spec. apply Hd. apply recl_spec. exact E.
  - destruct (mem_key x (recl k (updn k f ns))) eqn:E'; [|reflexivity].
    apply recl_spec in E'. apply Hd in E'. apply recl_spec in E'. congruence.
Qed.

(* ---- the node table only decreases: NTC is kept ---- *)
Lemma ND_NTC s s' : ND s s' -> NoDup (KL (nodes s')) -> NTC s -> NTC s'.
Proof.
  intros HD Hnd [H1 H2]. split.
  - intros n' Hn'. pose proof (In_findn _ _ Hnd Hn') as Hf. destruct (HD _ _ Hf) as [n [Hn _]].
    apply findn_In in Hn. destruct Hn as [Hn Hk]. rewrite <- Hk. apply H1. exact Hn.
  - apply (acyclic_incl (pedges (nodes s')) (pedges (nodes s))); [|exact H2].
    intros [c y] He. apply pedges_In in He. destruct He as [n' [Hn' [Hk [Hc Hne]]]].
    pose proof (In_findn _ _ Hnd Hn') as Hf. rewrite Hk in Hf. destruct (HD _ _ Hf) as [n [Hn [Hcn _]]].
    apply pedges_In. apply findn_In in Hn. destruct Hn as [Hn Hkn]. exists n. split; [exact Hn|]. split; [exact Hkn|].
    split; [|exact Hne]. destruct Hcn as [Hcn|Hcn]; congruence.
Qed.

Lemma same_skel_coupled s g g' : coupled s g -> same_skel g g' -> coupled s g'.
Proof.
  intros Cg [A [B [C' D]]]. constructor.
  - rewrite A. apply (cp_steps idf s g Cg).
  - rewrite B. apply (cp_files idf s g Cg).
  - rewrite C'. apply (cp_others idf s g Cg).
  - rewrite D. apply (cp_deps idf s g Cg).
Qed.

Lemma no_other_with_step_id s g l : coupled s g -> forall o, In o (g_others g) -> o_key o <> sk idf l.
Proof.
  intros Cg o Ho. rewrite (cp_others idf s g Cg) in Ho. unfold others_of in Ho. apply in_map_iff in Ho.
  destruct Ho as [n [<- Hn]]. apply filter_In in Hn. destruct Hn as [_ Hk]. cbn [o_key other_of].
  unfold sk. intros E. apply idf_inj in E. rewrite E in Hk. discriminate.
Qed.
Lemma no_other_with_file_id s g l : coupled s g -> forall o, In o (g_others g) -> o_key o <> fk idf l.
Proof.
  intros Cg o Ho. rewrite (cp_others idf s g Cg) in Ho. unfold others_of in Ho. apply in_map_iff in Ho.
  destruct Ho as [n [<- Hn]]. apply filter_In in Hn. destruct Hn as [_ Hk]. cbn [o_key other_of].
  unfold fk. intros E. apply idf_inj in E. rewrite E in Hk. discriminate.
Qed.

(* a file below a step is produced only by steps of that subtree (outputs are created by their producer) *)
Lemma outputs_owned_cpl s g l : J s -> coupled s g ->
  forall d f, In d (g_deps g) -> Sched.find_file g (d_snk d) = Some f ->
    mem_N (f_key f) (sk idf l :: below g (sk idf l)) = true ->
    mem_N (d_src d) (sk idf l :: below g (sk idf l)) = true.
Proof.
  intros [HI [HT HA]] Cg d f Hd Hf Hm.
  pose proof (inv_nw _ HI) as HW. pose proof (inv_rw _ HI) as Hrw.
  destruct (dep_cpl idf s g d Cg Hd) as [d0 [Hd0 ->]]. cbn [d_src d_snk dep_of] in *.
  destruct (find_file_cpl_key idf s g _ f Cg Hf) as [r [Hr [-> Hk]]]. cbn [f_key file_of] in Hm.
  unfold fk in Hk. apply idf_inj in Hk.
  rewrite mem_cons in Hm. apply orb_true_iff in Hm. destruct Hm as [Hm|Hm].
  { apply N.eqb_eq in Hm. unfold fk, sk in Hm. apply idf_inj in Hm. discriminate. }
  unfold fk, sk in Hm. rewrite (below_cpl_key idf idf_inj s g Cg HW Hrw) in Hm.
  rewrite rec_products_recl in Hm. apply recl_spec in Hm.
  (* the file node has a creator, which is the step itself or below it *)
  assert (Hkn : In (KFile, fl r) (KL (nodes s))) by (apply (rw_files _ _ _ _ _ Hrw); apply in_map; exact Hr).
  apply findn_some_in in Hkn. destruct Hkn as [nx Hnx].
  apply (desc_unfold _ _ _ nx (nw_nodup _ HW) Hnx) in Hm; [|discriminate].
  destruct Hm as [c [Hc [_ Hck]]].
  (* the source of the edge is a step (no trees) and hence that creator *)
  pose proof (dw_kinds _ _ (inv_dw _ HI) d0 Hd0) as Hkind. rewrite Hk in Hkind.
  destruct (dsrc d0) as [[] l0] eqn:Es; cbn in Hkind; try discriminate.
  2:{ exfalso. pose proof (dw_src _ _ (inv_dw _ HI) d0 Hd0) as Hs. rewrite Es in Hs.
      apply in_map_iff in Hs. destruct Hs as [n [Hn1 Hn2]]. apply (HT n Hn2). rewrite Hn1. reflexivity. }
  destruct (inv_oe _ HI d0 l0 (fl r) Hd0 Es Hk nx c Hnx Hc) as [Hcs _]. subst c.
  rewrite mem_cons. apply orb_true_iff. destruct Hck as [Hck|Hck].
  - left. rewrite Hck. apply N.eqb_refl.
  - right. unfold sk. rewrite (below_cpl_key idf idf_inj s g Cg HW Hrw), rec_products_recl.
    apply recl_spec. exact Hck.
Qed.

(* lookups in the node table after Node.detach *)
Lemma findn_detach_nodes ns k n x : NoDup (map nk ns) -> findn k ns = Some n ->
  findn x (detach_nodes k n ns) =
  if key_eqb x k then Some (mkNode k None true)
  else option_map (fun m => if negb (ndet n) && mem_key x (recl k ns) then mkNode (nk m) (ncre m) true else m)
                  (findn x ns).
Proof.
  intros Hnd Hk. unfold detach_nodes.
  set (f := fun n0 : node => mkNode (nk n0) None true).
  assert (Hf1 : forall y, findn y (updn k f ns) = if key_eqb y k then Some (mkNode k None true) else findn y ns).
  { intros y. rewrite findn_updn; [|reflexivity]. destruct (key_eqb y k) eqn:E; [|reflexivity].
    apply key_eqb_eq in E. subst y. rewrite Hk. unfold f. cbn [option_map]. rewrite (findn_key _ _ _ Hk). reflexivity. }
  destruct (ndet n) eqn:Hdn; cbn [negb andb].
  - rewrite Hf1. destruct (key_eqb x k); [reflexivity|]. destruct (findn x ns); reflexivity.
  - rewrite findn_setdet, Hf1, (recl_updn_self ns k f Hnd) by reflexivity.
    destruct (key_eqb x k) eqn:E.
    + apply key_eqb_eq in E. subst x. cbn. rewrite recl_self. reflexivity.
    + destruct (findn x ns); reflexivity.
Qed.

Lemma node_detach_nodes k s n c : find_node k s = Some n -> ncre n = Some c ->
  exists s', node_detach k s = Ok s' /\ nodes s' = detach_nodes k n (nodes s) /\ files s' = files s /\
             steps s' = steps s /\ deps s' = deps s /\ shash s' = shash s.
Proof.
  intros Hf Hc. unfold node_detach. rewrite Hf, Hc. eexists. split; [reflexivity|].
  unfold detach_nodes. destruct (ndet n); repeat split; reflexivity.
Qed.

Lemma step_not_root l : (KStep, l) <> root_key.
Proof. unfold root_key. discriminate. Qed.
Lemma file_not_root l : (KFile, l) <> root_key.
Proof. unfold root_key. discriminate. Qed.

Definition detach_post (s s' : st) : Prop := J s' /\ NodeOnly s s' /\ ND s s'.

Lemma node_detach_J k s s' : J s -> k <> root_key -> node_detach k s = Ok s' -> detach_post s s'.
Proof.
  intros [HI HN] Hk E.
  pose proof (node_detach_spec (hh:=false) false k s HI Hk ltac:(discriminate)) as Hs. rewrite E in Hs.
  cbn in Hs. destruct Hs as [A [B _]]. pose proof (node_detach_ND k s s' E) as HD.
  split; [|split; assumption]. split; [exact A|]. apply (ND_NTC s); [exact HD | apply (nw_nodup _ (inv_nw _ A)) | exact HN].
Qed.

Lemma node_detach_step_sim l s : J s ->
  sim s (node_detach_t idf (KStep, l) s) (detach_post s).
Proof.
  intros HJ. pose proof HJ as [HI HN]. pose proof (inv_nw _ HI) as HW. pose proof (inv_rw _ HI) as Hrw.
  unfold node_detach_t. destruct (node_detach (KStep, l) s) as [s'| |] eqn:E; [|exact I|exact I].
  pose proof (node_detach_J _ s s' HJ (step_not_root l) E) as Hpost.
  apply sim_one; [exact Hpost|]. intros g Cg. cbn [detach_prims fst apply_prim prim_ok].
  change (idf (KStep, l)) with (sk idf l).
  split.
  { split; [apply (no_file_with_step_id idf idf_inj s g l Cg) | apply (outputs_owned_cpl s g l HJ Cg)]. }
  eexists. split; [reflexivity|].
  destruct (find_node (KStep, l) s) as [n|] eqn:Hf0; [|unfold node_detach in E; rewrite Hf0 in E; discriminate].
  pose proof Hf0 as Hf. unfold find_node in Hf. fold (findn (KStep, l) (nodes s)) in Hf.
  (* the step row and its Sched image *)
  assert (Hl : In l (SL (steps s))).
  { apply (rw_steps _ _ _ _ _ Hrw). apply findn_In in Hf. destruct Hf as [Hin Hk]. rewrite <- Hk. apply in_map. exact Hin. }
  apply finds_some_in in Hl. destruct Hl as [r Hr].
  pose proof (find_step_cpl idf idf_inj s g l Cg) as Hfs. unfold Graph.find_step in Hfs. fold (finds l (steps s)) in Hfs.
  rewrite Hr in Hfs. destruct (Sched.find_step g (sk idf l)) as [x|] eqn:Ex; [|contradiction].
  pose proof (finds_In _ _ _ Hr) as [_ Hlr].
  assert (Hxd : s_detached x = ndet n).
  { pose proof (f_equal q_detached Hfs) as H. cbn in H. rewrite H, Hlr. unfold node_det, is_detached, find_node.
    fold (findn (KStep, l) (nodes s)). rewrite Hf. reflexivity. }
  assert (Hxc : s_creator x = oid idf (ncre n)).
  { pose proof (f_equal q_creator Hfs) as H. cbn in H. rewrite H, Hlr. unfold node_cre. cbn [key_eqb kind_eqb fst andb].
    unfold creator_of, find_node. fold (findn (KStep, l) (nodes s)). rewrite Hf. reflexivity. }
  destruct (ncre n) as [c|] eqn:Hc.
  2:{ (* no creator: only flags *)
      unfold node_detach in E. rewrite Hf0, Hc in E. inversion E; subst s'. apply (same_skel_coupled s g); [exact Cg|].
      apply skel_detach_step_nocre. intros s0 H0. rewrite Ex in H0. inversion H0; subst s0. exact Hxc. }
  cbn [oid option_map] in Hxc.
  destruct (skel_detach_step g (sk idf l) x (idf c) Ex Hxc) as [A [B [C' D]]]. cbv zeta in A, B, C'.
  set (S := if s_detached x then [] else below g (sk idf l)) in *.
  assert (Es' : nodes s' = detach_nodes (KStep, l) n (nodes s) /\ files s' = files s /\ steps s' = steps s /\
                deps s' = deps s /\ shash s' = shash s).
  { destruct (node_detach_nodes _ s n c Hf0 Hc) as [s'' [E'' H'']]. rewrite E in E''. inversion E''; subst s''. exact H''. }
  destruct Es' as [En [Ef [Es [Ed Eh]]]].
  assert (HmS : forall y, mem_N (idf y) S = negb (ndet n) && mem_key y (recl (KStep, l) (nodes s))).
  { intros y. unfold S. rewrite Hxd. destruct (ndet n); [reflexivity|]. cbn [negb andb].
    unfold sk. rewrite (below_cpl_key idf idf_inj s g Cg HW Hrw). reflexivity. }
  apply (coupled_nodes_change s s' g _
           (fun x0 d => if x0 =? sk idf l then true else if mem_N x0 S then true else d)
           (fun x0 cr => if x0 =? sk idf l then None else cr) Cg (nw_nodup _ HW) Hrw);
    try assumption.
  - rewrite En. apply KL_detach_nodes.
  - intros y Hy. unfold node_det, node_cre, is_detached, creator_of, find_node.
    fold (findn y (nodes s')). fold (findn y (nodes s)). rewrite En.
    rewrite (findn_detach_nodes _ _ _ y (nw_nodup _ HW) Hf). unfold sk. rewrite idf_eqb by exact idf_inj.
    destruct (key_eqb y (KStep, l)) eqn:Eyk.
    + apply key_eqb_eq in Eyk. subst y. cbn. auto.
    + apply findn_some_in in Hy. destruct Hy as [m Hm]. rewrite Hm. cbn [option_map]. rewrite HmS.
      destruct (negb (ndet n) && mem_key y (recl (KStep, l) (nodes s))); cbn [ndet ncre]; auto.
  - rewrite A. apply map_ext. intros [a1 a2 a3 a4 a5 a6 a7 a8 a9 a10]. unfold sdet, sk_place, sk_set_det. cbn.
    destruct (a1 =? sk idf l); [reflexivity|]. destruct (mem_N a1 S); reflexivity.
  - rewrite B. apply map_ext_in. intros f Hfin. pose proof (no_file_with_step_id idf idf_inj s g l Cg f Hfin) as Hne.
    apply N.eqb_neq in Hne. rewrite mem_cons, Hne. cbn [orb]. destruct f as [b1 b2 b3 b4 b5 b6]. cbn in *.
    destruct (mem_N b1 S); reflexivity.
  - rewrite C'. apply map_ext_in. intros o Ho. pose proof (no_other_with_step_id s g l Cg o Ho) as Hne.
    apply N.eqb_neq in Hne. unfold odet. rewrite mem_cons, Hne. cbn [orb]. destruct o as [b1 b2 b3]. cbn in *.
    destruct (mem_N b1 S); reflexivity.
Qed.

(* files create nothing *)
Lemma below_file_empty s g l : J s -> coupled s g -> forall x, mem_N x (below g (fk idf l)) = false.
Proof.
  intros [HI _] Cg x. pose proof (inv_nw _ HI) as HW. pose proof (inv_rw _ HI) as Hrw.
  destruct (mem_N x (below g (fk idf l))) eqn:E; [|reflexivity]. exfalso.
  unfold fk in E. apply (below_cpl idf idf_inj s g Cg HW Hrw) in E. destruct E as [y [_ Hy]].
  rewrite rec_products_recl in Hy. apply recl_spec in Hy. destruct Hy as [Hne Hp].
  apply path_inv in Hp. destruct Hp as [Hp|Hp]; [congruence|].
  inversion Hp as [a b c He Hp' Ea Ec]. subst a c. apply pedges_In in He. destruct He as [n [Hn [Hk [Hc Hnb]]]].
  assert (Hr : nk n <> root_key).
  { intros Hr. pose proof (findn_root_key _ n HW Hn Hr) as ->. cbn in Hc. inversion Hc. }
  pose proof (nw_local _ HW n Hn Hr) as Hl. unfold local_ok in Hl. rewrite Hc in Hl.
  destruct Hl as [_ [Hkind _]]. destruct (fst (nk n)); cbn in Hkind; discriminate.
Qed.

Lemma node_detach_file_sim l s : J s ->
  ((forall d, In d (deps s) -> dsnk d <> (KFile, l)) \/ is_detached (KFile, l) s = true) ->
  sim s (node_detach_t idf (KFile, l) s) (detach_post s).
Proof.
  intros HJ Hside. pose proof HJ as [HI HN]. pose proof (inv_nw _ HI) as HW. pose proof (inv_rw _ HI) as Hrw.
  unfold node_detach_t. destruct (node_detach (KFile, l) s) as [s'| |] eqn:E; [|exact I|exact I].
  pose proof (node_detach_J _ s s' HJ (file_not_root l) E) as Hpost.
  apply sim_one; [exact Hpost|]. intros g Cg. cbn [detach_prims fst apply_prim prim_ok].
  change (idf (KFile, l)) with (fk idf l).
  pose proof (below_file_empty s g l HJ Cg) as Hemp.
  split.
  { destruct Hside as [Hno|Hdet]; [left | right].
    - split.
      + intros x Hx. rewrite mem_cons, Hemp, orb_false_r. apply N.eqb_neq.
        apply (no_step_with_file_id idf idf_inj s g l Cg x Hx).
      + intros d f Hd Hf. rewrite mem_cons, Hemp, orb_false_r. apply N.eqb_neq.
        destruct (dep_cpl idf s g d Cg Hd) as [d0 [Hd0 ->]]. cbn [d_snk dep_of] in Hf.
        unfold Sched.find_file in Hf. apply find_some in Hf. destruct Hf as [_ Hk]. apply N.eqb_eq in Hk. rewrite Hk.
        unfold fk. intros E'. apply idf_inj in E'. apply (Hno d0 Hd0 E').
    - split; [apply (no_step_with_file_id idf idf_inj s g l Cg)|].
      intros f Hf Hk. destruct (file_key_cpl idf s g f Cg Hf) as [r [_ ->]]. cbn [f_key f_detached file_of] in *.
      unfold fk in Hk. apply idf_inj in Hk. inversion Hk as [Hl0]. rewrite Hl0. exact Hdet. }
  eexists. split; [reflexivity|].
  destruct (find_node (KFile, l) s) as [n|] eqn:Hf0; [|unfold node_detach in E; rewrite Hf0 in E; discriminate].
  pose proof Hf0 as Hf. unfold find_node in Hf. fold (findn (KFile, l) (nodes s)) in Hf.
  assert (Hl : In l (FL (files s))).
  { apply (rw_files _ _ _ _ _ Hrw). apply findn_In in Hf. destruct Hf as [Hin Hk]. rewrite <- Hk. apply in_map. exact Hin. }
  apply findf_some_in in Hl. destruct Hl as [r Hr].
  pose proof (find_file_cpl idf idf_inj s g l Cg) as Hff. unfold Graph.find_file in Hff. fold (findf l (files s)) in Hff.
  rewrite Hr in Hff. cbn [option_map] in Hff.
  pose proof (findf_In _ _ _ Hr) as [_ Hlr].
  assert (Hxd : f_detached (file_of idf s r) = ndet n).
  { cbn [f_detached file_of]. rewrite Hlr. unfold node_det, is_detached, find_node.
    fold (findn (KFile, l) (nodes s)). rewrite Hf. reflexivity. }
  assert (Hxc : f_creator (file_of idf s r) = oid idf (ncre n)).
  { cbn [f_creator file_of]. rewrite Hlr. unfold node_cre. cbn [key_eqb kind_eqb fst andb].
    unfold creator_of, find_node. fold (findn (KFile, l) (nodes s)). rewrite Hf. reflexivity. }
  destruct (ncre n) as [c|] eqn:Hc.
  2:{ unfold node_detach in E. rewrite Hf0, Hc in E. inversion E; subst s'.
      rewrite skel_detach_file_nocre; [exact Cg|]. intros f0 H0. rewrite Hff in H0. inversion H0; subst f0. exact Hxc. }
  cbn [oid option_map] in Hxc.
  destruct (skel_detach_file g (fk idf l) _ (idf c) Hff Hxc) as [A [B [C' D]]]. cbv zeta in A, B, C'.
  set (S := if f_detached (file_of idf s r) then [] else below g (fk idf l)) in *.
  assert (Es' : nodes s' = detach_nodes (KFile, l) n (nodes s) /\ files s' = files s /\ steps s' = steps s /\
                deps s' = deps s /\ shash s' = shash s).
  { destruct (node_detach_nodes _ s n c Hf0 Hc) as [s'' [E'' H'']]. rewrite E in E''. inversion E''; subst s''. exact H''. }
  destruct Es' as [En [Ef [Es [Ed Eh]]]].
  assert (HmS : forall y, mem_N (idf y) S = negb (ndet n) && mem_key y (recl (KFile, l) (nodes s))).
  { intros y. unfold S. rewrite Hxd. destruct (ndet n); [reflexivity|]. cbn [negb andb].
    unfold fk. rewrite (below_cpl_key idf idf_inj s g Cg HW Hrw). reflexivity. }
  apply (coupled_nodes_change s s' g _
           (fun x0 d => if x0 =? fk idf l then true else if mem_N x0 S then true else d)
           (fun x0 cr => if x0 =? fk idf l then None else cr) Cg (nw_nodup _ HW) Hrw);
    try assumption.
  - rewrite En. apply KL_detach_nodes.
  - intros y Hy. unfold node_det, node_cre, is_detached, creator_of, find_node.
    fold (findn y (nodes s')). fold (findn y (nodes s)). rewrite En.
    rewrite (findn_detach_nodes _ _ _ y (nw_nodup _ HW) Hf). unfold fk. rewrite idf_eqb by exact idf_inj.
    destruct (key_eqb y (KFile, l)) eqn:Eyk.
    + apply key_eqb_eq in Eyk. subst y. cbn. auto.
    + apply findn_some_in in Hy. destruct Hy as [m Hm]. rewrite Hm. cbn [option_map]. rewrite HmS.
      destruct (negb (ndet n) && mem_key y (recl (KFile, l) (nodes s))); cbn [ndet ncre]; auto.
  - rewrite A. unfold sks. rewrite !map_map. apply map_ext_in. intros x Hx.
    pose proof (no_step_with_file_id idf idf_inj s g l Cg x Hx) as Hne. apply N.eqb_neq in Hne.
    unfold sk_set_det, sk_place. cbn [sk_step q_key q_state q_need q_deferred q_dc q_holding q_detached q_creator q_stored q_hh].
    rewrite mem_cons, Hne. cbn [orb]. destruct (mem_N (s_key x) S); reflexivity.
  - rewrite B. apply map_ext. intros [b1 b2 b3 b4 b5 b6]. unfold fdet. cbn.
    destruct (b1 =? fk idf l); [reflexivity|]. destruct (mem_N b1 S); reflexivity.
  - rewrite C'. apply map_ext_in. intros o Ho. pose proof (no_other_with_file_id s g l Cg o Ho) as Hne.
    apply N.eqb_neq in Hne. unfold odet. rewrite mem_cons, Hne. cbn [orb]. destruct o as [b1 b2 b3]. cbn in *.
    destruct (mem_N b1 S); reflexivity.
Qed.

(* ---- state propagation: mark_step_pending / mark_file_outdated ---- *)
Definition mpost (s s' : st) : Prop := J s' /\ SO s s' /\ Outd s s'.

Lemma mpost_refl s : J s -> mpost s s.
Proof. intros H. split; [exact H|]. split; [apply SO_refl | apply Outd_refl]. Qed.
Lemma mpost_trans s1 s2 s3 : mpost s1 s2 -> mpost s2 s3 -> mpost s1 s3.
Proof.
  intros [_ [A2 A3]] [B1 [B2 B3]]. split; [exact B1|]. split; [eapply SO_trans | eapply Outd_trans]; eassumption.
Qed.

Lemma sim_foldT_post {A} (f : st -> A -> tres st) (P : st -> st -> Prop) (l : list A) :
  (forall s, J s -> P s s) -> (forall s1 s2 s3, P s1 s2 -> P s2 s3 -> P s1 s3) ->
  (forall s1 s2, P s1 s2 -> J s2) ->
  (forall s a, In a l -> J s -> sim s (f s a) (P s)) ->
  forall s, J s -> sim s (foldT f l s) (P s).
Proof.
  intros Hrefl Htrans HPJ Hf s HJ.
  apply (sim_foldT f (P s) l); [|apply Hrefl; exact HJ].
  intros s1 a Ha H1. eapply sim_weaken; [apply Hf; [exact Ha | eapply HPJ; exact H1]|].
  intros s2 H2. eapply Htrans; eassumption.
Qed.

Lemma mpost_J s1 s2 : mpost s1 s2 -> J s2.
Proof. intros [H _]. exact H. Qed.

Lemma set_fstate_outdated_sim f s : J s -> fstate_of f s = Some FBuilt ->
  sim s (set_fstate_t idf f FOutdated s) (fun s1 => mpost s s1 /\ fstate_of f s1 = Some FOutdated).
Proof.
  intros HJ Hfs. unfold set_fstate_t.
  eapply sim_weaken.
  - apply set_fstate_hash_t_sim; [exact HJ | discriminate | intros; reflexivity|].
    left. intros r Hr. unfold fstate_of in Hfs. rewrite Hr in Hfs. inversion Hfs as [H0]. rewrite H0. reflexivity.
  - intros s1 [HJ1 [HSO1 [_ [_ [Hoth [Hnew _]]]]]].
    assert (Hne : Graph.find_file f s <> None) by (unfold fstate_of in Hfs; destruct (Graph.find_file f s); discriminate).
    split; [|apply Hnew; exact Hne]. split; [exact HJ1|]. split; [exact HSO1|].
    intros l'. destruct (str_eq_dec l' f) as [->|Hn].
    + right. split; [exact Hfs | apply Hnew; exact Hne].
    + left. unfold fstate_of. rewrite (Hoth l' Hn). reflexivity.
Qed.

Lemma mark_sim fuel :
  (forall l s, J s -> sim s (mark_step_pending_ft idf fuel l s) (mpost s)) /\
  (forall f s, J s -> sim s (mark_file_outdated_ft idf fuel f s) (mpost s)).
Proof.
  induction fuel as [|fuel [IHs IHf]]; [split; intros; exact I|].
  split.
  - intros l s HJ. cbn [mark_step_pending_ft].
    destruct (sstate_of l s) as [old|]; [|exact I].
    assert (Hmain : forall (after : st -> tres st),
               (forall s1, J s1 -> sim s1 (after s1) (mpost s1)) ->
               sim s (bindT (set_sstate_t idf l SPending false s) after) (mpost s)).
    { intros after Hafter. eapply sim_bind; [apply set_sstate_t_sim; exact HJ|].
      intros s1 [HJ1 [HSO1 [Hf1 _]]]. eapply sim_weaken; [apply Hafter; exact HJ1|].
      intros s2 Hp. eapply mpost_trans; [|exact Hp].
      split; [exact HJ1|]. split; [exact HSO1 | apply Outd_of_files_eq; exact Hf1]. }
    assert (Hprop : forall s1, J s1 ->
               sim s1 (foldT (fun s f => match fstate_of f s with
                                         | Some FBuilt => mark_file_outdated_ft idf fuel f s
                                         | _ => retT s end) (file_sinks_of_step l s1) s1) (mpost s1)).
    { intros s1 HJ1. apply sim_foldT_post; [apply mpost_refl | apply mpost_trans | apply mpost_J | | exact HJ1].
      intros s2 f _ HJ2. destruct (fstate_of f s2) as [[]|]; try (apply sim_ret; apply mpost_refl; exact HJ2).
      apply IHf. exact HJ2. }
    destruct old; try (apply sim_ret; apply mpost_refl; exact HJ).
    + apply Hmain. intros s1 HJ1. apply sim_ret. apply mpost_refl. exact HJ1.
    + apply Hmain. exact Hprop.
    + apply Hmain. exact Hprop.
  - intros f s HJ. cbn [mark_file_outdated_ft].
    destruct (fstate_of f s) as [[]|] eqn:Hfs; try exact I.
    2:{ apply sim_ret. apply mpost_refl. exact HJ. }
    eapply sim_bind; [apply set_fstate_outdated_sim; assumption|].
    intros s1 [Hp1 _]. eapply sim_weaken.
    + apply sim_foldT_post; [apply mpost_refl | apply mpost_trans | apply mpost_J | | exact (mpost_J _ _ Hp1)].
      intros s2 l0 _ HJ2. apply IHs. exact HJ2.
    + intros s2 Hp2. eapply mpost_trans; eassumption.
Qed.

Lemma mark_step_pending_t_sim l s : J s -> sim s (mark_step_pending_t idf l s) (mpost s).
Proof. intros HJ. unfold mark_step_pending_t. apply (proj1 (mark_sim _)). exact HJ. Qed.
Lemma mark_file_outdated_t_sim f s : J s -> sim s (mark_file_outdated_t idf f s) (mpost s).
Proof. intros HJ. unfold mark_file_outdated_t. apply (proj2 (mark_sim _)). exact HJ. Qed.
Lemma mark_consumers_pending_t_sim f s : J s -> sim s (mark_consumers_pending_t idf f s) (mpost s).
Proof.
  intros HJ. unfold mark_consumers_pending_t.
  apply sim_foldT_post; [apply mpost_refl | apply mpost_trans | apply mpost_J | | exact HJ].
  intros s2 l _ HJ2. apply mark_step_pending_t_sim. exact HJ2.
Qed.

(* ---- update_file_hashes ---- *)
Lemma transition_facts c old known ns act : transition c old known = Some (ns, act) ->
  ns <> FUndeclared /\ role_of ns = role_of old /\ is_vol old = false /\ is_vol ns = false /\
  (role_of old = Some 61 \/ role_of old = Some 62).
Proof.
  destruct c, old, known; cbn; intros H; inversion H; subst; repeat split; try discriminate; auto.
Qed.

Lemma role_out f : out_state f = true -> role_of f = Some 62 \/ role_of f = Some 63.
Proof. destruct f; cbn; intros H; try discriminate; auto. Qed.
Lemma role_62_out f : role_of f = Some 62 -> out_state f = true.
Proof. destruct f; cbn; intros H; try discriminate; reflexivity. Qed.
Lemma role_vol f : is_vol f = true <-> role_of f = Some 63.
Proof. destruct f; cbn; split; intros H; try discriminate; reflexivity. Qed.

Definition frole (l : str) (s : st) : option (option N) :=
  option_map (fun r => role_of (fstt r)) (Graph.find_file l s).
Lemma frole_fstate l s : frole l s = option_map role_of (fstate_of l s).
Proof. unfold frole, fstate_of. destruct (Graph.find_file l s); reflexivity. Qed.
Definition rsame (s0 s : st) : Prop := forall l, frole l s = frole l s0.

Lemma plan_facts c s hs : forall acc plan,
  foldM (fun acc ph =>
           match Graph.find_file (fst ph) s with
           | None => Internal 118
           | Some r =>
             match transition c (fstt r) (is_some (snd ph)) with
             | None => Internal 119
             | Some (ns, act) => Ok (acc ++ [mkP (fst ph) (snd ph) ns act])
             end
           end) hs acc = Ok plan ->
  (forall x, In x acc -> exists r known, Graph.find_file (p_path x) s = Some r /\
                                  transition c (fstt r) known = Some (p_state x, p_act x)) ->
  forall x, In x plan -> exists r known, Graph.find_file (p_path x) s = Some r /\
                                  transition c (fstt r) known = Some (p_state x, p_act x).
Proof.
  induction hs as [|ph hs IH]; intros acc plan E Hacc; cbn [foldM] in E.
  - inversion E; subst. exact Hacc.
  - destruct (Graph.find_file (fst ph) s) as [r|] eqn:Ef; [|discriminate].
    destruct (transition c (fstt r) (is_some (snd ph))) as [[ns act]|] eqn:Et; [|discriminate].
    cbn [bind] in E. apply (IH _ _ E). intros x Hx. apply in_app_or in Hx. destruct Hx as [Hx|[<-|[]]].
    + apply Hacc. exact Hx.
    + exists r, (is_some (snd ph)). cbn [p_path p_state p_act]. auto.
Qed.

Lemma liftT_ok {S} (r : res S) a l : liftT r = Ok (a, l) -> r = Ok a /\ l = [].
Proof. destruct r; cbn; intros H; inversion H; auto. Qed.

Lemma sim_lift {S} (r : res S) (f : S -> tres st) s (Q : st -> Prop) :
  (forall a, r = Ok a -> sim s (f a) Q) -> sim s (bindT (liftT r) f) Q.
Proof.
  intros H. destruct r as [a| |]; cbn [liftT bindT]; [|exact I|exact I].
  specialize (H a eq_refl). destruct (f a) as [[s2 l2]| |]; cbn [sim app] in *; auto.
Qed.

Lemma handle_updated_file_t_sim l s : J s -> sim s (handle_updated_file_t idf l s) (mpost s).
Proof.
  intros HJ. unfold handle_updated_file_t.
  destruct (fstate_of l s) as [[]|]; try (apply sim_ret; apply mpost_refl; exact HJ).
  - apply mark_consumers_pending_t_sim. exact HJ.
  - destruct (step_creator_of_file l s); [apply mark_step_pending_t_sim; exact HJ | apply sim_ret; apply mpost_refl; exact HJ].
  - destruct (step_creator_of_file l s); [apply mark_step_pending_t_sim; exact HJ | apply sim_ret; apply mpost_refl; exact HJ].
Qed.

Lemma handle_deleted_file_t_sim l s : J s -> sim s (handle_deleted_file_t idf l s) (mpost s).
Proof.
  intros HJ. unfold handle_deleted_file_t.
  eapply sim_bind with (Q1 := mpost s).
  - destruct (fstate_of l s) as [[]|]; try (apply sim_ret; apply mpost_refl; exact HJ).
    destruct (step_creator_of_file l s); [apply mark_step_pending_t_sim; exact HJ | apply sim_ret; apply mpost_refl; exact HJ].
  - intros s1 Hp1. eapply sim_weaken; [apply mark_consumers_pending_t_sim; exact (mpost_J _ _ Hp1)|].
    intros s2 Hp2. eapply mpost_trans; eassumption.
Qed.

Lemma update_file_hashes_t_sim c hs s : J s -> sim s (update_file_hashes_t idf c hs s) (fun s' => J s').
Proof.
  intros HJ. unfold update_file_hashes_t. apply sim_lift. intros plan Eplan.
  pose proof (plan_facts c s hs [] plan Eplan ltac:(intros x [])) as Hplan.
  eapply sim_bind with (Q1 := fun s1 => J s1).
  { eapply sim_weaken with (Q := fun s1 => J s1 /\ rsame s s1); [|intros s1 [H _]; exact H].
    apply sim_foldT; [|split; [exact HJ | intros l; reflexivity]].
    intros si x Hx [HJi Hrs].
    destruct (Hplan x Hx) as [r0 [known [Hf0 Ht]]].
    destruct (transition_facts _ _ _ _ _ Ht) as [T1 [T2 [T3 [T4 T5]]]].
    assert (Hcur : forall r, Graph.find_file (p_path x) si = Some r -> role_of (fstt r) = role_of (fstt r0)).
    { intros r Hr. pose proof (Hrs (p_path x)) as H. unfold frole in H. rewrite Hr, Hf0 in H. cbn in H. congruence. }
    eapply sim_weaken.
    - apply set_fstate_hash_t_sim; [exact HJi | exact T1 | |].
      + intros d sl0 Hd Hs Hk n c0 Hn Hc. destruct HJi as [HIi _].
        destruct (inv_oe _ HIi d sl0 (p_path x) Hd Hs Hk n c0 Hn Hc) as [_ [r [Hr Ho]]].
        apply role_62_out. rewrite T2. rewrite <- (Hcur r Hr).
        destruct (role_out _ Ho) as [H|H]; [exact H|]. rewrite (Hcur r Hr) in H. destruct T5; congruence.
      + left. intros r Hr. rewrite T4. destruct (is_vol (fstt r)) eqn:Ev; [|reflexivity].
        apply role_vol in Ev. rewrite (Hcur r Hr) in Ev. destruct T5; congruence.
    - intros s2 [HJ2 [_ [_ [_ [Hoth [Hnew Hnone]]]]]]. split; [exact HJ2|].
      intros l. destruct (str_eq_dec l (p_path x)) as [->|Hne].
      + rewrite <- (Hrs (p_path x)). unfold frole.
        destruct (Graph.find_file (p_path x) si) as [ri|] eqn:Eri.
        * assert (Hn : fstate_of (p_path x) s2 = Some (p_state x)) by (apply Hnew; discriminate).
          unfold fstate_of in Hn. destruct (Graph.find_file (p_path x) s2) as [r2|]; [|discriminate].
          inversion Hn as [Hst]. cbn [option_map]. rewrite Hst, T2, (Hcur ri eq_refl). reflexivity.
        * rewrite (Hnone eq_refl), Eri. reflexivity.
      + rewrite <- (Hrs l). unfold frole. rewrite (Hoth l Hne). reflexivity. }
  intros s1 HJ1.
  eapply sim_bind with (Q1 := fun s2 => J s2).
  { eapply sim_weaken with (Q := mpost s1); [|apply mpost_J].
    apply sim_foldT_post; [apply mpost_refl | apply mpost_trans | apply mpost_J | | exact HJ1].
    intros s2 l _ HJ2. apply handle_updated_file_t_sim. exact HJ2. }
  intros s2 HJ2.
  eapply sim_bind with (Q1 := fun s3 => J s3).
  { eapply sim_weaken with (Q := mpost s2); [|apply mpost_J].
    apply sim_foldT_post; [apply mpost_refl | apply mpost_trans | apply mpost_J | | exact HJ2].
    intros s3 l _ HJ3. apply handle_deleted_file_t_sim. exact HJ3. }
  intros s3 HJ3.
  eapply sim_weaken with (Q := mpost s3); [|apply mpost_J].
  apply sim_foldT_post; [apply mpost_refl | apply mpost_trans | apply mpost_J | | exact HJ3].
  intros s4 l _ HJ4. apply mark_consumers_pending_t_sim. exact HJ4.
Qed.

(* ---- Step.mark_completed ---- *)
Lemma Outd_rsame s s' : Outd s s' -> rsame s s'.
Proof.
  intros H l. rewrite !frole_fstate. destruct (H l) as [E|[E1 E2]]; [rewrite E; reflexivity|].
  rewrite E1, E2. reflexivity.
Qed.
Lemma rsame_refl s : rsame s s.
Proof. intros l. reflexivity. Qed.
Lemma rsame_trans s1 s2 s3 : rsame s1 s2 -> rsame s2 s3 -> rsame s1 s3.
Proof. intros A B l. rewrite (B l). apply A. Qed.

(* File.set_state between output states of a product *)
Lemma set_fstate_output_sim l new s0 s : J s -> rsame s0 s -> frole l s0 = Some (Some 62) ->
  role_of new = Some 62 ->
  sim s (set_fstate_t idf l new s) (fun s1 => J s1 /\ SO s s1 /\ rsame s0 s1).
Proof.
  intros HJ Hrs Hr0 Hnew. unfold set_fstate_t.
  assert (Hcur : forall r, Graph.find_file l s = Some r -> role_of (fstt r) = Some 62).
  { intros r Hr. pose proof (Hrs l) as H. rewrite Hr0 in H. unfold frole in H. rewrite Hr in H. cbn in H. congruence. }
  eapply sim_weaken.
  - apply set_fstate_hash_t_sim; [exact HJ | | |].
    + intros ->. discriminate.
    + intros. apply role_62_out. exact Hnew.
    + left. intros r Hr. destruct (is_vol (fstt r)) eqn:E1.
      * apply role_vol in E1. rewrite (Hcur r Hr) in E1. discriminate.
      * destruct (is_vol new) eqn:E2; [|reflexivity]. apply role_vol in E2. congruence.
  - intros s1 [HJ1 [HSO [_ [_ [Hoth [Hn Hnone]]]]]]. split; [exact HJ1|]. split; [exact HSO|].
    intros l'. destruct (str_eq_dec l' l) as [->|Hne].
    + rewrite Hr0. destruct (Graph.find_file l s) as [r|] eqn:Er.
      * rewrite frole_fstate, (Hn ltac:(discriminate)). cbn. rewrite Hnew. reflexivity.
      * exfalso. pose proof (Hrs l) as H. rewrite Hr0 in H. unfold frole in H. rewrite Er in H. discriminate.
    + rewrite <- (Hrs l'). unfold frole. rewrite (Hoth l' Hne). reflexivity.
Qed.

Lemma file_products_role step p s l : (forall f, p f = true -> role_of f = Some 62) ->
  In l (file_products_in step p s) -> frole l s = Some (Some 62).
Proof.
  intros Hp Hl. unfold file_products_in in Hl. apply in_map_iff in Hl. destruct Hl as [k [<- Hk]].
  apply filter_In in Hk. destruct Hk as [_ Hk]. apply andb_true_iff in Hk. destruct Hk as [_ Hk].
  rewrite frole_fstate. destruct (fstate_of (snd k) s) as [f|]; [|discriminate]. cbn. rewrite (Hp f Hk). reflexivity.
Qed.

Lemma find_step_SO l s s' : SO s s' -> Graph.find_step l s <> None -> Graph.find_step l s' <> None.
Proof. intros H. rewrite !find_step_SL, (so_sl _ _ H). auto. Qed.

Lemma detach_created_steps_t_sim step s : J s -> sim s (detach_created_steps_t idf step s) (fun s' => J s').
Proof.
  intros HJ. unfold detach_created_steps_t. apply sim_foldT; [|exact HJ].
  intros s1 k Hk HJ1. apply filter_In in Hk. destruct Hk as [_ Hk]. destruct k as [[] l]; try discriminate.
  eapply sim_weaken; [apply node_detach_step_sim; exact HJ1|]. intros s2 [H _]. exact H.
Qed.

Lemma mark_completed_t_sim step ok wd s : J s -> sim s (mark_completed_t idf step ok wd s) (fun s' => J s').
Proof.
  intros HJ. unfold mark_completed_t.
  destruct (negb (is_some (Graph.find_step step s))) eqn:Efs; [exact I|].
  assert (Hfs : Graph.find_step step s <> None).
  { apply negb_false_iff in Efs. apply is_some_true. exact Efs. }
  destruct ok.
  - eapply sim_bind; [apply set_sstate_t_sim; exact HJ|].
    intros s1 [HJ1 [HSO1 _]].
    eapply sim_bind with (Q1 := fun s2 => J s2 /\ SO s1 s2).
    { eapply sim_weaken with (Q := fun s2 => J s2 /\ SO s1 s2 /\ rsame s1 s2); [|intros s2 [A [B _]]; auto].
      apply sim_foldT; [|split; [exact HJ1 | split; [apply SO_refl | apply rsame_refl]]].
      intros si l Hl [HJi [HSOi Hrs]].
      pose proof (file_products_role step is_outdated s1 l ltac:(intros f Hf; destruct f; try discriminate; reflexivity) Hl) as Hr.
      eapply sim_bind; [apply (set_fstate_output_sim l FBuilt s1 si HJi Hrs Hr eq_refl)|].
      intros s2 [HJ2 [HSO2 Hrs2]]. eapply sim_weaken; [apply mark_consumers_pending_t_sim; exact HJ2|].
      intros s3 [HJ3 [HSO3 HO3]]. split; [exact HJ3|]. split; [eapply SO_trans; [exact HSOi | eapply SO_trans; eassumption]|].
      eapply rsame_trans; [exact Hrs2 | apply Outd_rsame; exact HO3]. }
    intros s2 [HJ2 HSO2]. eapply sim_weaken; [apply store_hash_t_sim; [exact HJ2|]|intros s3 [H _]; exact H].
    eapply find_step_SO; [exact HSO2|]. eapply find_step_SO; eassumption.
  - eapply sim_bind with (Q1 := fun s1 => J s1 /\ SO s s1).
    { eapply sim_weaken with (Q := fun s2 => J s2 /\ SO s s2 /\ rsame s s2); [|intros s2 [A [B _]]; auto].
      apply sim_foldT; [|split; [exact HJ | split; [apply SO_refl | apply rsame_refl]]].
      intros si l Hl [HJi [HSOi Hrs]].
      pose proof (file_products_role step is_built s l ltac:(intros f Hf; destruct f; try discriminate; reflexivity) Hl) as Hr.
      eapply sim_weaken; [apply (set_fstate_output_sim l FOutdated s si HJi Hrs Hr eq_refl)|].
      intros s2 [HJ2 [HSO2 Hrs2]]. split; [exact HJ2|]. split; [eapply SO_trans; eassumption | exact Hrs2]. }
    intros s1 [HJ1 HSO1].
    eapply sim_bind with (Q1 := fun s2 => J s2).
    { destruct wd; [|eapply sim_weaken; [apply set_sstate_t_sim; exact HJ1 | intros s2 [H _]; exact H]].
      destruct (Graph.find_step step s1) as [r|] eqn:Er; [|exact I]. cbv zeta.
      set (s' := upd_step step _ s1).
      assert (HJ' : J s') by (apply upd_step_J; [exact HJ1 | reflexivity | intros r0; split; reflexivity]).
      eapply sim_bind with (Q1 := fun s2 => s2 = s').
      { apply sim_one; [reflexivity|]. intros g Cg. split; [exact I|]. cbn [apply_prim]. eexists. split; [reflexivity|].
        apply (coupled_set_life s1 s' g step (fun t => (q_dc t + 1, q_holding t)) (fun r0 => (sdc r + 1, shold r0)) Cg);
          try reflexivity.
        - intros r0 Hr0 Hl0. cbn [row_sk q_dc q_holding]. f_equal.
          pose proof (In_finds (steps s1) r0 (rw_snodup _ _ _ _ _ (inv_rw _ (proj1 HJ1))) Hr0) as H0.
          unfold Graph.find_step in Er. fold (finds step (steps s1)) in Er. rewrite Hl0 in H0. congruence.
        - apply skel_inc_defer. }
      intros s2 ->.
      destruct (sdc r + 1 <=? defer_cap s); (eapply sim_weaken; [apply set_sstate_t_sim; exact HJ' | intros s3 [H _]; exact H]). }
    intros s2 HJ2.
    eapply sim_bind with (Q1 := fun s3 => J s3).
    { destruct (sstate_of step s2) as [[]|]; try (apply sim_ret; exact HJ2). apply detach_created_steps_t_sim. exact HJ2. }
    intros s3 HJ3. eapply sim_weaken; [apply delete_hash_t_sim; exact HJ3 | intros s4 [H _]; exact H].
Qed.

(* ---- Step.reset_for_rerun ---- *)
Lemma coupled_set_envs s es g : coupled (set_envs s es) g <-> coupled s g.
Proof. split; intros [A B C' D]; constructor; assumption. Qed.

Lemma sim_state_eq s s2 r (Q : st -> Prop) :
  (forall g, coupled s g -> coupled s2 g) -> sim s2 r Q -> sim s r Q.
Proof.
  intros H. destruct r as [[s' l]| |]; cbn [sim]; auto. intros [H1 H2]. split; [exact H1|].
  intros g C. apply H2. apply H. exact C.
Qed.

Lemma J_set_envs_filter s p : J s -> J (set_envs s (filter p (envs s))).
Proof.
  intros [HI HN]. split; [|apply (NTC_nodes s); [reflexivity | exact HN]].
  apply Inv_set_envs; [exact HI|]. intros x Hx. apply in_map_iff in Hx. destruct Hx as [e [<- He]].
  apply filter_In in He. apply (rw_estep _ _ _ _ _ (inv_rw _ HI)). apply in_map. tauto.
Qed.

(* a step -> file edge into a file that has a creator comes from that creator *)
Lemma edge_into_from_creator s d f n c : J s -> In d (deps s) -> dsnk d = (KFile, f) ->
  findn (KFile, f) (nodes s) = Some n -> ncre n = Some c ->
  dsrc d = c /\ exists r, findf f (files s) = Some r /\ out_state (fstt r) = true.
Proof.
  intros [HI [HT _]] Hd Hk Hn Hc.
  pose proof (dw_kinds _ _ (inv_dw _ HI) d Hd) as Hkind. rewrite Hk in Hkind.
  destruct (dsrc d) as [[] l0] eqn:Es; cbn in Hkind; try discriminate.
  2:{ exfalso. pose proof (dw_src _ _ (inv_dw _ HI) d Hd) as Hs. rewrite Es in Hs.
      apply in_map_iff in Hs. destruct Hs as [n0 [Hn1 Hn2]]. apply (HT n0 Hn2). rewrite Hn1. reflexivity. }
  destruct (inv_oe _ HI d l0 f Hd Es Hk n c Hn Hc) as [Hcs Hr]. split; [congruence | exact Hr].
Qed.

Lemma attached_has_creator s x n : J s -> findn x (nodes s) = Some n -> x <> root_key -> ndet n = false ->
  exists c, ncre n = Some c.
Proof.
  intros [HI _] Hn Hx Hd. pose proof (findn_In _ _ _ Hn) as [Hin Hk].
  pose proof (nw_local _ (inv_nw _ HI) n Hin ltac:(rewrite Hk; exact Hx)) as Hl. unfold local_ok in Hl.
  destruct (ncre n) as [c|]; [exists c; reflexivity | congruence].
Qed.

Lemma is_detached_false_findn x s : is_detached x s = false -> exists n, findn x (nodes s) = Some n /\ ndet n = false.
Proof.
  unfold is_detached, find_node. fold (findn x (nodes s)). destruct (findn x (nodes s)) as [n|]; [|discriminate].
  intros H. exists n. auto.
Qed.

Lemma no_tree_products k s : NTC s -> filter (fun x => kind_eqb (fst x) KTree) (products k s) = [].
Proof.
  intros [HT _]. unfold products. induction (nodes s) as [|n ns IH]; [reflexivity|].
  cbn [filter]. destruct (okey_eqb (ncre n) (Some k) && negb (key_eqb (nk n) k)); [|apply IH; intros m Hm; apply HT; right; exact Hm].
  cbn [map filter]. destruct (kind_eqb (fst (nk n)) KTree) eqn:E.
  - apply kind_eqb_eq in E. exfalso. apply (HT n); [left; reflexivity | exact E].
  - apply IH. intros m Hm. apply HT. right. exact Hm.
Qed.

Lemma reset_for_rerun_t_sim step s : J s -> sim s (reset_for_rerun_t idf step s) (fun s' => J s').
Proof.
  intros HJ. unfold reset_for_rerun_t.
  eapply sim_bind; [apply del_deps_where_t_sim; exact HJ|].
  intros s1 [HJ1 _]. cbv zeta.
  set (s2 := set_envs s1 _).
  assert (HJ2 : J s2) by (apply J_set_envs_filter; exact HJ1).
  apply (sim_state_eq s1 s2); [intros g Cg; apply coupled_set_envs; exact Cg|].
  (* dynamic sinks *)
  eapply sim_bind with (Q1 := fun s3 => J s3).
  { eapply sim_weaken with (Q := fun s3 => J s3 /\ ND s2 s3 /\ incl (deps s3) (deps s2)); [|intros s3 [H _]; exact H].
    apply sim_foldT; [|split; [exact HJ2 | split; [apply ND_refl | apply incl_refl]]].
    intros si x Hx [HJi [HNDi Hinc]].
    (* x is the sink of a dynamic edge of the step in s2 *)
    apply in_map_iff in Hx. destruct Hx as [d0 [Hd0x Hd0]]. apply filter_In in Hd0. destruct Hd0 as [Hd0 Hd0p].
    apply andb_true_iff in Hd0p. destruct Hd0p as [Hd0s _]. apply key_eqb_eq in Hd0s.
    pose proof (dw_kinds _ _ (inv_dw _ (proj1 HJ2)) d0 Hd0) as Hkind. rewrite Hd0s, Hd0x in Hkind.
    destruct x as [[] f]; cbn in Hkind; try discriminate.
    eapply sim_bind; [apply del_deps_where_t_sim; exact HJi|].
    intros si' [HJi' ->].
    eapply sim_weaken.
    - apply node_detach_file_sim; [exact HJi'|].
      destruct (is_detached (KFile, f) (del_deps_where (fun d => key_eqb (dsrc d) (KStep, step) && key_eqb (dsnk d) (KFile, f)) si)) eqn:Edet;
        [right; reflexivity | left].
      intros d' Hd' Hk'.
      apply is_detached_false_findn in Edet. destruct Edet as [n [Hn Hdn]].
      change (nodes (del_deps_where _ si)) with (nodes si) in Hn.
      destruct (attached_has_creator si _ n HJi Hn (file_not_root f) Hdn) as [c Hc].
      unfold del_deps_where in Hd'. cbn [deps set_deps] in Hd'. apply filter_In in Hd'. destruct Hd' as [Hd' Hp'].
      destruct (edge_into_from_creator si d' f n c HJi Hd' Hk' Hn Hc) as [Hsrc _].
      (* the creator in s2 is the same, and there the dynamic edge forces it to be the step *)
      destruct (HNDi _ _ Hn) as [n2 [Hn2 [Hcn _]]]. destruct Hcn as [Hcn|Hcn]; [congruence|].
      rewrite Hc in Hcn. symmetry in Hcn.
      destruct (edge_into_from_creator s2 d0 f n2 c HJ2 Hd0 Hd0x Hn2 Hcn) as [Hsrc0 _].
      rewrite Hsrc, <- Hsrc0, Hd0s, Hk', !key_eqb_refl in Hp'. discriminate.
    - intros s3 [HJ3 [HNO HND3]]. split; [exact HJ3|]. split.
      + eapply ND_trans; [exact HNDi|]. eapply ND_trans; [apply ND_nodes; reflexivity | exact HND3].
      + destruct HNO as [_ [_ [_ [Hdeps _]]]]. rewrite Hdeps. unfold del_deps_where. cbn [deps set_deps].
        intros d Hd. apply filter_In in Hd. apply Hinc. tauto. }
  intros s3 HJ3.
  eapply sim_bind; [apply detach_created_steps_t_sim; exact HJ3|].
  intros s4 HJ4.
  (* static file products *)
  eapply sim_bind with (Q1 := fun s5 => J s5).
  { eapply sim_weaken with (Q := fun s5 => J s5 /\ files s5 = files s4); [|intros s5 [H _]; exact H].
    apply sim_foldT; [|split; [exact HJ4 | reflexivity]].
    intros si l Hl [HJi Hfi].
    assert (Hst : exists f0, fstate_of l s4 = Some f0 /\ is_static_state f0 = true).
    { unfold file_products_in in Hl. apply in_map_iff in Hl. destruct Hl as [k [<- Hk]].
      apply filter_In in Hk. destruct Hk as [_ Hk]. apply andb_true_iff in Hk. destruct Hk as [_ Hk].
      destruct (fstate_of (snd k) s4) as [f0|]; [exists f0; auto | discriminate]. }
    destruct Hst as [f0 [Hf0 Hs0]].
    eapply sim_weaken.
    - apply node_detach_file_sim; [exact HJi|].
      destruct (is_detached (KFile, l) si) eqn:Edet; [right; reflexivity | left].
      intros d' Hd' Hk'. apply is_detached_false_findn in Edet. destruct Edet as [n [Hn Hdn]].
      destruct (attached_has_creator si _ n HJi Hn (file_not_root l) Hdn) as [c Hc].
      destruct (edge_into_from_creator si d' l n c HJi Hd' Hk' Hn Hc) as [_ [r [Hr Ho]]].
      rewrite fstate_of_findf, <- Hfi, Hr in Hf0. cbn in Hf0. inversion Hf0; subst f0.
      destruct (fstt r); discriminate.
    - intros s5 [HJ5 [HNO _]]. split; [exact HJ5|]. destruct HNO as [_ [Hf5 _]]. congruence. }
  intros s5 HJ5.
  rewrite (no_tree_products _ s5 (proj2 HJ5)). cbn [foldT].
  eapply sim_bind; [apply sim_ret; exact HJ5|].
  intros s6 HJ6.
  eapply sim_weaken with (Q := mpost s6); [|apply mpost_J].
  apply sim_foldT_post; [apply mpost_refl | apply mpost_trans | apply mpost_J | | exact HJ6].
  intros s7 l _ HJ7. apply mark_file_outdated_t_sim. exact HJ7.
Qed.

(* ---- startup.reset_interrupted_steps ---- *)
Lemma set_sstate_raw_t_sim l new s : J s -> sim s (set_sstate_raw_t idf l new s) (fun s' => J s').
Proof.
  intros HJ. unfold set_sstate_raw_t. destruct (Graph.find_step l s); [|apply sim_ret; exact HJ].
  eapply sim_weaken; [apply set_sstate_t_sim; exact HJ | intros s' [H _]; exact H].
Qed.

Lemma reset_interrupted_t_sim s : J s -> sim s (reset_interrupted_t idf s) (fun s' => J s').
Proof.
  intros HJ. unfold reset_interrupted_t.
  eapply sim_bind with (Q1 := fun s1 => J s1).
  { apply sim_foldT; [|exact HJ]. intros s1 r _ HJ1. destruct (sst r); try (apply sim_ret; exact HJ1).
    apply set_sstate_raw_t_sim. exact HJ1. }
  intros s1 HJ1.
  eapply sim_bind with (Q1 := fun s2 => J s2).
  { apply sim_foldT; [|exact HJ1]. intros s2 r _ HJ2. destruct (sst r); try (apply sim_ret; exact HJ2).
    apply set_sstate_raw_t_sim. exact HJ2. }
  intros s2 HJ2.
  apply sim_foldT; [|exact HJ2]. intros s3 r _ HJ3.
  destruct (sstate_of (sl r) s3) as [[]|]; try (apply sim_ret; exact HJ3).
  destruct (is_detached (KStep, sl r) s3); [apply sim_ret; exact HJ3|].
  eapply sim_weaken; [apply mark_step_pending_t_sim; exact HJ3 | apply mpost_J].
Qed.

(* ---- the operations that neither create nor delete nodes ---- *)
Definition node_preserving (o : op) : bool :=
  match o with
  | OpDeclareStatic _ _ | OpDefineStep _ _ _ _ _ _ _ | OpAmendStep _ _ _ _ _ | OpDeleteDetached => false
  | _ => true
  end.

Theorem step_op_t_sim_preserving a o s : J s -> node_preserving o = true ->
  sim s (step_op_t idf a o s) (fun s' => J s').
Proof.
  intros HJ Hp. destruct o; try discriminate; cbn [step_op_t].
  - apply update_file_hashes_t_sim. exact HJ.
  - eapply sim_weaken; [apply set_sstate_t_sim; exact HJ | intros s' [H _]; exact H].
  - apply reset_for_rerun_t_sim. exact HJ.
  - eapply sim_bind; [apply update_file_hashes_t_sim; exact HJ|]. intros s0 HJ0.
    eapply sim_bind; [apply update_file_hashes_t_sim; exact HJ0|]. intros s1 HJ1.
    apply mark_completed_t_sim. exact HJ1.
  - eapply sim_bind; [apply reset_for_rerun_t_sim; exact HJ|]. intros s1 HJ1.
    eapply sim_bind; [apply delete_hash_t_sim; exact HJ1|]. intros s2 [HJ2 _].
    eapply sim_weaken; [apply set_sstate_t_sim; exact HJ2 | intros s' [H _]; exact H].
  - eapply sim_weaken; [apply set_sstate_t_sim; exact HJ | intros s' [H _]; exact H].
  - eapply sim_weaken; [apply mark_step_pending_t_sim; exact HJ | apply mpost_J].
  - apply hold_t_sim. exact HJ.
  - apply release_t_sim. exact HJ.
  - apply reset_interrupted_t_sim. exact HJ.
Qed.

(* what a simulation gives on a snapshot that satisfies the flag invariant *)
Lemma J_WF s g : J s -> coupled s g -> WF g.
Proof. intros [HI _] Cg. apply (WF_cpl idf idf_inj s g Cg). apply (rw_snodup _ _ _ _ _ (inv_rw _ HI)). Qed.

Theorem sim_FlagInv s r (Q : st -> Prop) s' l g :
  sim s r Q -> r = Ok (s', l) -> J s -> coupled s g -> FlagInv g ->
  Q s' /\ exists g', run_prims g l = Some g' /\ coupled s' g' /\ run_ok g l /\ WF g' /\ FlagInv g'.
Proof.
  intros Hs -> HJ Cg HF. cbn [sim] in Hs. destruct Hs as [HQ Hs]. split; [exact HQ|].
  destruct (Hs g Cg) as [g' [E [C' O]]]. exists g'. split; [exact E|]. split; [exact C'|]. split; [exact O|].
  apply (prims_preserve_FlagInv l g g' (J_WF s g HJ Cg) HF O E).
Qed.

End Sim.
