(* C09: transitions_documented for the alphabet op_x of model/GraphExt.v (the seven new operations, the
   consistency check, the re-attachment trigger pass, validate's flag): every state change of a step row
   or a file row that exists before and after a transaction is one of the documented moves. *)
From Coq Require Import List NArith Bool Lia Relations.
From SV Require Import lib.Bytes lib.Closure model.Graph model.GraphDump model.GraphInv model.GraphTree model.GraphTreeInv
  model.GraphCheck model.GraphExt
  proofs.GraphBase proofs.GraphNodes proofs.GraphInvP proofs.GraphPrims proofs.GraphFrames proofs.GraphCreate
  proofs.GraphOps proofs.GraphLife proofs.GraphTrans proofs.GraphTreeSim proofs.GraphNodeFrame
  proofs.GraphStepTrans proofs.GraphFileTrans proofs.GraphExtP.
Import ListNotations.
Open Scope N_scope.

(* ------------------------------------------------------------------------------------------ *)
(* step rows                                                                                   *)
(* ------------------------------------------------------------------------------------------ *)
(* the documented moves of an existing step row under an operation of op_x: those of the older layers;
   the consistency check, the nglob invalidation and the bulk marking only make SUCCEEDED / FAILED steps
   PENDING (pm_b); the overtaken skip, revert_optional_steps (for the selected steps) and the boot
   (for the boot step) assign PENDING; the first transaction of reset_interrupted_steps makes RUNNING ->
   FAILED and CHECKING -> PENDING; a frame transaction changes nothing. *)
Definition step_move_x_b (o : op_x) (l : str) (a b : sstate) : bool :=
  match o with
  | OpC (OpT o) => step_move_b o l a b
  | OpC OpCheckConsistency | OpInvalidateSteps _ | OpMarkStepsPending _ => pm_b a b
  | OpSkipOvertaken l' => pm_b a b || (str_eqb l l' && sstate_eqb b SPending)
  | OpRevertOptional ls => pm_b a b || (mem_str l ls && sstate_eqb b SPending)
  | OpResetInterruptedRaw =>
    pm_b a b || (sstate_eqb a SRunning && sstate_eqb b SFailed) || (sstate_eqb a SChecking && sstate_eqb b SPending)
  | OpInitBoot _ => pm_b a b || (str_eqb l boot_label && sstate_eqb b SPending)
  | OpFrame => sstate_eqb a b
  end.

Lemma undefer_fold_sstate x ls : forall a,
  sstate_of x (fold_left (fun a l => upd_step l undefer_row a) ls a) = sstate_of x a.
Proof.
  induction ls as [|l ls IH]; intros a; cbn [fold_left]; [reflexivity|]. rewrite IH.
  rewrite sstate_of_upd_step; [|intros r; reflexivity]. destruct (str_eqb x l) eqn:E; [|reflexivity].
  unfold sstate_of. destruct (find_step x a); reflexivity.
Qed.
Lemma undefer_post_sstate x s s' : sstate_of x (undefer_post s s') = sstate_of x s'.
Proof. apply undefer_fold_sstate. Qed.

Lemma delete_hash_FQ l s : FQ Rpm s (delete_hash l s).
Proof. eapply FQ_weaken; [apply Rid_Rpm | apply FQ_steps; reflexivity]. Qed.

Lemma fold_mark_FQ ls s : wpg false (foldM (fun s l => mark_step_pending l s) ls s) (FQ Rpm s).
Proof. apply foldM_FQ; [apply Rpm_refl | apply Rpm_trans|]. intros s0 l. apply mark_step_pending_FQ. Qed.

Lemma check_consistency_FQ s : wpg false (check_consistency s) (FQ Rpm s).
Proof. unfold check_consistency. destruct (negb _); [exact I|]. apply fold_mark_FQ. Qed.

Lemma invalidate_steps_FQ ls s : wpg false (invalidate_steps ls s) (FQ Rpm s).
Proof.
  unfold invalidate_steps. apply foldM_FQ; [apply Rpm_refl | apply Rpm_trans|]. intros s0 l. unfold invalidate_step.
  eapply wpg_weaken; [apply mark_step_pending_FQ|]. intros s1 H. eapply FQ_trans; [apply Rpm_trans | apply delete_hash_FQ | exact H].
Qed.

(* revert_optional *)
Definition Rrev (ls : list str) : srel := fun l a b => pm a b \/ (In l ls /\ b = SPending).
Lemma Rrev_refl ls : rrefl (Rrev ls).
Proof. intros l a. left. apply pm_refl. Qed.
Lemma Rrev_trans ls : rtrans (Rrev ls).
Proof.
  intros l a b c [H1|[I1 ->]] [H2|[I2 ->]]; unfold Rrev.
  - left. eapply pm_trans; eassumption.
  - right. auto.
  - right. split; [exact I1|]. destruct H2 as [<-|[-> _]]; reflexivity.
  - right. auto.
Qed.

Lemma set_raw_pending_FQ ls l s : In l ls -> wpg false (set_sstate_raw l SPending s) (FQ (Rrev ls) s).
Proof.
  intros Hl. unfold set_sstate_raw. destruct (find_step l s) as [r|]; [|cbn; apply FQ_refl; apply Rrev_refl].
  eapply wpg_weaken; [apply set_sstate_FQ|]. intros s' H x a Hx. destruct (H x a Hx) as [b [Hb [Hp|[-> <-]]]].
  - exists b. split; [exact Hb | left; exact Hp].
  - exists SPending. split; [exact Hb | right; auto].
Qed.

Lemma revert_optional_FQ ls s : wpg false (revert_optional ls s) (FQ (Rrev ls) s).
Proof.
  unfold revert_optional.
  set (sel := filter (fun l => is_some (find_step l s) && negb (is_detached (KStep, l) s)) ls).
  apply wpg_bind. eapply wpg_weaken.
  { apply (wpg_foldM false _ (FQ (Rrev ls) s)); [|apply FQ_refl; apply Rrev_refl].
    intros s1 l Hl F1. assert (Hin : In l ls) by (apply filter_In in Hl; tauto).
    assert (Hset : wpg false (set_sstate_raw l SPending s1) (FQ (Rrev ls) s)).
    { eapply wpg_weaken; [apply (set_raw_pending_FQ ls l s1 Hin)|]. intros s2 F2. eapply FQ_trans; [apply Rrev_trans | exact F1 | exact F2]. }
    destruct (sstate_of l s1) as [[]|]; try exact Hset. exact F1. }
  intros s1 F1. eapply wpg_weaken.
  { apply (wpg_foldM false _ (fun s' => steps s' = steps s1)); [|reflexivity].
    intros s2 f _ E2. destruct (fstate_of f s2) as [[]|]; try exact E2;
      (apply wpg_of_ok; intros s3 H3; rewrite (set_fstate_hash_steps _ _ _ _ _ H3); exact E2). }
  intros s2 E2. eapply FQ_trans; [apply Rrev_trans | exact F1|].
  eapply FQ_weaken; [|apply FQ_steps; exact E2]. intros l a b ->. left. apply pm_refl.
Qed.

(* the first transaction of reset_interrupted_steps *)
Definition Rraw : srel := fun _ a b => a = b \/ (a = SRunning /\ b = SFailed) \/ (a = SChecking /\ b = SPending).

Lemma reset_interrupted_raw_FQ s : NoDup (SL (steps s)) -> wpg false (reset_interrupted_raw s) (FQ Rraw s).
Proof.
  intros Hnd. unfold reset_interrupted_raw. apply wpg_bind.
  rewrite (foldM_ext _ (fun s r => if sstate_eqb (sst r) SRunning then set_sstate_raw (sl r) SFailed s else Ok s)).
  2:{ intros s0 r. destruct (sst r); reflexivity. }
  eapply wpg_weaken.
  { apply (raw_fold_FQ (fun a => sstate_eqb a SRunning) SRunning SFailed); [intros a; apply sstate_eqb_eq | exact Hnd | apply rows_state; exact Hnd]. }
  intros s1 [F1 S1].
  rewrite (foldM_ext _ (fun s r => if sstate_eqb (sst r) SChecking then set_sstate_raw (sl r) SPending s else Ok s)).
  2:{ intros s0 r. destruct (sst r); reflexivity. }
  assert (Hnd1 : NoDup (SL (steps s1))) by (rewrite S1; exact Hnd).
  eapply wpg_weaken.
  { apply (raw_fold_FQ (fun a => sstate_eqb a SChecking) SChecking SPending); [intros a; apply sstate_eqb_eq | exact Hnd1 | apply rows_state; exact Hnd1]. }
  intros s2 [F2 _] l a Ha. destruct (F1 l a Ha) as [b [Hb R1]]. destruct (F2 l b Hb) as [c [Hc R2]].
  exists c. split; [exact Hc|]. unfold Rraw, Rmv in *.
  destruct a, b, c; intuition (try discriminate; try congruence; auto).
Qed.

Lemma init_boot_FQ h s : wpg false (init_boot h s) (FQ (Rsub boot_label (eq SPending)) s).
Proof.
  assert (HT : rtrans (Rsub boot_label (eq SPending))) by (apply Rsub_trans; reflexivity).
  unfold init_boot. destruct (boot_present s); [cbn; apply FQ_refl; apply Rsub_refl|].
  apply wpg_FQ_bind; [exact HT | eapply wpg_FQ_weaken; [apply Rpm_Rsub|] |].
  { apply foldM_FQ; [apply Rpm_refl | apply Rpm_trans|]. intros s0 k. apply node_detach_FQ. }
  intros s1. apply wpg_FQ_bind; [exact HT | eapply wpg_FQ_weaken; [apply Rpm_Rsub | apply declare_static_files_t_FQ]|].
  intros s2. apply wpg_FQ_bind; [exact HT | |intros s3; apply define_step_t_FQ].
  destruct (fstate_of plan_py s2) as [[]|];
    try (cbn; apply FQ_refl; apply Rsub_refl);
    (eapply wpg_FQ_weaken; [apply Rpm_Rsub | apply update_file_hashes_FQ]).
Qed.

Lemma pmb_of_pm a b : pm a b -> pm_b a b = true.
Proof. apply pm_b_spec. Qed.

Theorem step_transitions_documented_x o s l a b :
  inv_core_b s = true -> sstate_of l s = Some a -> sstate_of l (apply_op_x s o) = Some b ->
  step_move_x_b o l a b = true.
Proof.
  intros Hc Ha Hb.
  assert (Hnd : NoDup (SL (steps s))).
  { apply inv_core_b_iff in Hc. apply (rw_snodup _ _ _ _ _ (inv_rw _ Hc)). }
  assert (Hrefl : forall o', (forall x, pm_b x x = true -> step_move_x_b o' l x x = true) -> True) by auto.
  (* generic: an operation that goes through the trigger pass, given a frame FQ R for its body *)
  assert (Hgen : forall (R : srel) (body : res st),
             (forall l a b, R l a b -> step_move_x_b o l a b = true) ->
             step_move_x_b o l a a = true ->
             wpg false body (FQ R s) ->
             sstate_of l (match (match body with Ok s' => Ok (undefer_post s s') | Usage t => Usage t | Internal t => Internal t end)
                          with Ok s' => s' | _ => s end) = Some b ->
             step_move_x_b o l a b = true).
  { intros R body HR Hsame Hw Hb'. destruct body as [s'|t|t]; cbn in *.
    - rewrite undefer_post_sstate in Hb'. destruct (Hw l a Ha) as [b' [Hb2 Hab]]. rewrite Hb' in Hb2. inversion Hb2; subst b'. apply HR. exact Hab.
    - rewrite Ha in Hb'. inversion Hb'; subst b. exact Hsame.
    - rewrite Ha in Hb'. inversion Hb'; subst b. exact Hsame. }
  assert (Hpmaa : pm_b a a = true) by (apply pm_b_spec; apply pm_refl).
  destruct o as [oc|l'|ls|ls|ls| |h|].
  - destruct oc as [ot|].
    + (* the older layers: the existing theorem, then the pass (states unchanged) or validate's flag *)
      cbn [step_move_x_b].
      assert (Hold : forall s', apply_op_t s ot = s' -> sstate_of l s' = Some b -> step_move_b ot l a b = true).
      { intros s' <- H. eapply step_transitions_documented; eassumption. }
      assert (Hwrap : sstate_of l (match (match step_op_t ot s with Ok s' => Ok (undefer_post s s') | Usage t => Usage t | Internal t => Internal t end)
                                   with Ok s' => s' | _ => s end) = Some b -> step_move_b ot l a b = true).
      { intros H. apply (Hold (apply_op_t s ot) eq_refl). unfold apply_op_t. destruct (step_op_t ot s); cbn in *;
          [rewrite undefer_post_sstate in H; exact H | exact H | exact H]. }
      unfold apply_op_x in Hb.
      destruct ot as [ob|c p]; [|apply Hwrap; exact Hb].
      destruct ob; try (apply Hwrap; exact Hb).
      (* validate_dynamic_job *)
      cbn [step_op_x] in Hb.
      pose proof (set_sstate_FQ label SPending (has_unusable_dynamic_input label s) s) as Hw.
      destruct (set_sstate label SPending (has_unusable_dynamic_input label s) s) as [s'|t|t]; cbn [wpg] in *.
      * destruct (Hw l a Ha) as [b' [Hb2 Hab]]. rewrite Hb in Hb2. inversion Hb2; subst b'.
        destruct Hab as [Hp|[-> <-]]; [apply step_move_pm; exact Hp|].
        unfold step_move_b. apply orb_true_iff. right. apply andb_true_iff. split; [apply str_eqb_eq; reflexivity | reflexivity].
      * rewrite Ha in Hb. inversion Hb. apply step_move_pm. apply pm_refl.
      * rewrite Ha in Hb. inversion Hb. apply step_move_pm. apply pm_refl.
    + apply (Hgen Rpm (check_consistency s)); [intros x y z H; apply pm_b_spec; exact H | exact Hpmaa | apply check_consistency_FQ | exact Hb].
  - apply (Hgen (Rsub l' (eq SPending)) (skip_overtaken l' s)); [| cbn; rewrite Hpmaa; reflexivity | apply set_sstate_FQ | exact Hb].
    intros x y z [Hp|[-> <-]]; cbn; [rewrite (pm_b_spec _ _ Hp); reflexivity | rewrite str_eqb_refl; cbn; apply orb_true_r].
  - apply (Hgen Rpm (invalidate_steps ls s)); [intros x y z H; apply pm_b_spec; exact H | exact Hpmaa | apply invalidate_steps_FQ | exact Hb].
  - apply (Hgen Rpm (mark_steps_pending ls s)); [intros x y z H; apply pm_b_spec; exact H | exact Hpmaa | apply fold_mark_FQ | exact Hb].
  - apply (Hgen (Rrev ls) (revert_optional ls s)); [| cbn; rewrite Hpmaa; reflexivity | apply revert_optional_FQ | exact Hb].
    intros x y z [Hp|[Hi ->]]; cbn; [rewrite (pm_b_spec _ _ Hp); reflexivity|].
    apply mem_str_In in Hi. rewrite Hi. cbn. apply orb_true_r.
  - apply (Hgen Rraw (reset_interrupted_raw s)); [| cbn; rewrite Hpmaa; reflexivity | apply reset_interrupted_raw_FQ; exact Hnd | exact Hb].
    intros x y z [->|[[-> ->]|[-> ->]]]; cbn; [rewrite (pm_b_spec z z (pm_refl z)); reflexivity | reflexivity | reflexivity].
  - apply (Hgen (Rsub boot_label (eq SPending)) (init_boot h s)); [| cbn; rewrite Hpmaa; reflexivity | apply init_boot_FQ | exact Hb].
    intros x y z [Hp|[-> <-]]; [cbn; rewrite (pm_b_spec _ _ Hp); reflexivity | unfold step_move_x_b; rewrite str_eqb_refl; cbn; apply orb_true_r].
  - apply (Hgen Rid (Ok s)); [intros x y z ->; cbn; apply sstate_eqb_eq; reflexivity | cbn; apply sstate_eqb_eq; reflexivity | cbn; apply FQ_refl; intros x y; reflexivity | exact Hb].
Qed.
