(* C17, batch construction: the definitions that translator/gen_nglob_batch.py regenerates from the
   Python AST of Watcher.record_change, NamedGlob.will_change, Workflow.process_nglob_changes and
   startup.rescan_nglobs on every run (gen/GenNglobBatch.v) are, for ALL inputs, the hand-written
   model (model/NglobBatch.v, model/Nglob.v) that proofs/NglobBatchProofs.v is about.

   A harmless rewrite of the code (renamed local, reordered independent statements) still closes
   these proofs; swapping add / discard, dropping a guard, swapping the two sets, changing the
   extend / reduce order or the argument order of the will_change call does not. *)
From Coq Require Import List NArith Bool.
From SV Require Import lib.Bytes.
From SV Require Import lib.Regex.
From SV Require Import model.Nglob.
From SV Require Import model.NglobBatch.
From SV Require Import gen.GenNglobBatch.
Import ListNotations.
Open Scope N_scope.

Lemma fold_left_ext_st (A B : Type) (f g : A -> B -> A) :
  (forall a b, f a b = g a b) -> forall l a, fold_left f l a = fold_left g l a.
Proof.
  intros H l. induction l as [|b l IH]; intros a; [reflexivity|]. cbn [fold_left]. rewrite H. apply IH.
Qed.

Lemma ws_eta st : mk_ws (ws_deleted st) (ws_updated st) = st.
Proof. destruct st. reflexivity. Qed.

(* Watcher.record_change *)
Theorem gen_record_change_eq :
  forall (rel : bool -> str -> bool) (under : bool -> str -> list str) (db : bool) (st : wstate) (ev : event),
    gen_record_change rel under db st ev = record_change rel under db st ev.
Proof.
  intros rel under db st ev. unfold gen_record_change, record_change. cbv zeta.
  destruct ev as [p|p|d]; cbn [ev_kind ev_path kind_eqb andb].
  - destruct (negb (mem_str p (ws_deleted st))); [|reflexivity].
    destruct (rel db p); reflexivity.
  - destruct (negb (mem_str p (ws_updated st))); [|reflexivity].
    destruct (rel db p); reflexivity.
  - apply fold_left_ext_st. intros a q. unfold del_guarded.
    destruct (negb (mem_str q (ws_deleted a))); reflexivity.
Qed.

(* the whole fold of one watch phase *)
Corollary gen_fold_changes_eq :
  forall (rel : bool -> str -> bool) (under : bool -> str -> list str) (items : list item) (st : wstate),
    fold_left (fun st it => gen_record_change rel under (fst it) st (snd it)) items st
    = fold_changes rel under items st.
Proof.
  intros rel under items st. unfold fold_changes. apply fold_left_ext_st. intros a it.
  unfold record_item. apply gen_record_change_eq.
Qed.

(* NamedGlob.will_change: deepcopy, extend(added), reduce(deleted), compare with self._results *)
Theorem gen_will_change_eq :
  forall (K : Type) (keqb : K -> K -> bool) (mv : str -> option K) (r : results K) (deleted added : list str),
    gen_will_change keqb mv r deleted added = will_change keqb mv r deleted added.
Proof. intros. reflexivity. Qed.

(* Workflow.process_nglob_changes: the overlap test, then will_change(deleted, updated) per row *)
Theorem gen_process_nglob_changes_eq :
  forall (K : Type) (keqb : K -> K -> bool) (regs : list (reg K)) (deleted updated : list str),
    gen_process_nglob_changes keqb regs deleted updated = process_nglob_changes keqb regs deleted updated.
Proof.
  intros K keqb regs deleted updated. unfold gen_process_nglob_changes, process_nglob_changes.
  destruct (overlap deleted updated); [reflexivity|]. apply f_equal. apply map_ext. intros r.
  unfold process_reg. rewrite gen_will_change_eq.
  destruct (will_change keqb (fst r) (snd r) deleted updated); reflexivity.
Qed.

(* startup.rescan_nglobs, one registration *)
Theorem gen_rescan1_eq :
  forall (K : Type) (keqb : K -> K -> bool) (mv : str -> option K) (old : results K) (cands : list str),
    gen_rescan1 keqb mv old cands = rescan1 keqb mv old cands.
Proof. intros. reflexivity. Qed.

Theorem batch_code_equals_model :
  (forall rel under db st ev, gen_record_change rel under db st ev = record_change rel under db st ev)
  /\ (forall (K : Type) (keqb : K -> K -> bool) (mv : str -> option K) r deleted added,
        gen_will_change keqb mv r deleted added = will_change keqb mv r deleted added)
  /\ (forall (K : Type) (keqb : K -> K -> bool) (regs : list (reg K)) deleted updated,
        gen_process_nglob_changes keqb regs deleted updated = process_nglob_changes keqb regs deleted updated)
  /\ (forall (K : Type) (keqb : K -> K -> bool) (mv : str -> option K) old cands,
        gen_rescan1 keqb mv old cands = rescan1 keqb mv old cands).
Proof.
  split; [exact gen_record_change_eq|]. split; [exact gen_will_change_eq|].
  split; [exact gen_process_nglob_changes_eq|exact gen_rescan1_eq].
Qed.
