(* C04 over the transactions SINCE /repo 84081f2 (model/Noop.v: step_op2 / apply_op2 / run_xops2 =
   Graph.step_op + the deferred-column layer of model/GraphExt.v).

   The layer rewrites only the `deferred` column of step rows.  [er] erases that column; two states
   with the same erasure agree on everything the statements of C04 read except dispatch_guard.
   The lemmas about GraphExt.undefer_post are proved for ANY list of labels whose flag is cleared
   (fold of upd_step _ undefer_row), so a refinement of WHICH steps the trigger wakes does not
   touch them. *)
From Coq Require Import List NArith Bool Lia.
From SV Require Import lib.Bytes lib.Closure model.Graph model.GraphInv model.GraphDump model.Noop
  proofs.GraphBase proofs.GraphInvP proofs.GraphPrims proofs.GraphProofs proofs.NoopProofs proofs.NoopBridge.
From SV Require model.GraphExt proofs.GraphExtP proofs.GraphCheckP.
Import ListNotations.
Open Scope N_scope.

Notation undefer_row := GraphExt.undefer_row.

Lemma forallb_ext' {A} (f g : A -> bool) l : (forall x, f x = g x) -> forallb f l = forallb g l.
Proof. intros H. induction l as [|x l IH]; cbn; [reflexivity|]. rewrite H, IH. reflexivity. Qed.

Definition er (s : st) : st := set_steps s (map undefer_row (steps s)).

Lemma undefer_row_idem r : undefer_row (undefer_row r) = undefer_row r.
Proof. reflexivity. Qed.

Lemma er_upd_step l a : er (upd_step l undefer_row a) = er a.
Proof.
  unfold er, upd_step, set_steps. cbn [steps nodes files deps shash envs defer_cap]. f_equal.
  rewrite map_map. apply map_ext. intros r. destruct (str_eqb (sl r) l); reflexivity.
Qed.

Lemma er_fold ls : forall a, er (fold_left (fun a l => upd_step l undefer_row a) ls a) = er a.
Proof.
  induction ls as [|l ls IH]; intros a; cbn [fold_left]; [reflexivity|]. rewrite IH. apply er_upd_step.
Qed.

Lemma er_undefer_post s s' : er (GraphExt.undefer_post s s') = er s'.
Proof. unfold GraphExt.undefer_post, GraphExt.undefer_post_with. apply er_fold. Qed.

(* ---- what the erasure keeps ------------------------------------------------------------------- *)
Lemma find_step_er l s : find_step l (er s) = option_map undefer_row (find_step l s).
Proof.
  unfold find_step, er. cbn. induction (steps s) as [|r rs IH]; [reflexivity|]. cbn.
  destruct (str_eqb (sl r) l); [reflexivity|exact IH].
Qed.

Lemma sstate_of_er l s : sstate_of l (er s) = sstate_of l s.
Proof. unfold sstate_of. rewrite find_step_er. destruct (find_step l s); reflexivity. Qed.

Lemma is_some_find_step_er l s : is_some (find_step l (er s)) = is_some (find_step l s).
Proof. rewrite find_step_er. destruct (find_step l s); reflexivity. Qed.

Lemma req_edges_er s : req_edges (er s) = req_edges s.
Proof.
  unfold req_edges. change (deps (er s)) with (deps s). apply flat_map_ext. intros d.
  destruct (dsrc d) as [[| | |] l]; try reflexivity. destruct (dsnk d) as [[| | |] f]; try reflexivity.
  f_equal. apply filter_ext. intros c. rewrite is_some_find_step_er. reflexivity.
Qed.

Lemma need_seeds_er s : need_seeds (er s) = need_seeds s.
Proof.
  unfold need_seeds. change (steps (er s)) with (map undefer_row (steps s)). rewrite map_map.
  change (map (fun x => sl (undefer_row x)) (steps s)) with (map sl (steps s)).
  apply filter_ext. intros l. rewrite find_step_er. destruct (find_step l s); reflexivity.
Qed.

Lemma required_er l s : required l (er s) = required l s.
Proof. unfold required, required_set. rewrite is_some_find_step_er, req_edges_er, need_seeds_er. reflexivity. Qed.

Lemma q_no_job_er s : q_no_job_b (er s) = q_no_job_b s.
Proof. unfold q_no_job_b. change (steps (er s)) with (map undefer_row (steps s)). rewrite forallb_map. reflexivity. Qed.

Lemma q_steps_er s : q_steps_b (er s) = q_steps_b s.
Proof.
  unfold q_steps_b. change (steps (er s)) with (map undefer_row (steps s)). rewrite forallb_map.
  apply forallb_ext'. intros r. cbn [GraphExt.undefer_row sl sst]. rewrite required_er. reflexivity.
Qed.

Lemma eop_steps_er s : eop_steps_b (er s) = eop_steps_b s.
Proof.
  unfold eop_steps_b. change (steps (er s)) with (map undefer_row (steps s)). rewrite forallb_map.
  apply forallb_ext'. intros r. cbn [GraphExt.undefer_row sl sst]. rewrite required_er. reflexivity.
Qed.

Lemma quiescent_er s : quiescent_success_b (er s) = quiescent_success_b s.
Proof. unfold quiescent_success_b. rewrite q_no_job_er, q_steps_er. reflexivity. Qed.

Lemma end_of_phase_er s : end_of_phase_b (er s) = end_of_phase_b s.
Proof. unfold end_of_phase_b. rewrite q_no_job_er, eop_steps_er. reflexivity. Qed.

Lemma quiescent_same a b : er a = er b -> quiescent_success_b a = quiescent_success_b b.
Proof. intros H. rewrite <- (quiescent_er a), <- (quiescent_er b), H. reflexivity. Qed.

(* ---- the invariant of C09 under the new transactions --------------------------------------------- *)
Lemma undefer_post_core s s' : inv_core_b s' = true -> inv_core_b (GraphExt.undefer_post s s') = true.
Proof.
  intros H. apply inv_core_b_iff. unfold GraphExt.undefer_post, GraphExt.undefer_post_with.
  apply GraphExtP.undefer_fold_inv.
  apply inv_core_b_iff. exact H.
Qed.

Lemma step_op2_inv_core o s : inv_core_b s = true -> inv_core_b (apply_op2 s o) = true.
Proof.
  intros H. unfold apply_op2.
  assert (Hgen : forall o', step_op2 o' s = match step_op o' s with
                                            | Ok s' => Ok (GraphExt.undefer_post s s') | Usage t => Usage t
                                            | Internal t => Internal t end ->
                 inv_core_b (match step_op2 o' s with Ok s' => s' | _ => s end) = true).
  { intros o' E. rewrite E. pose proof (inv_core_preserved s o' H) as Hp. unfold apply_op in Hp.
    destruct (step_op o' s) as [s'| |]; [apply undefer_post_core; exact Hp|exact H|exact H]. }
  destruct o; try (apply Hgen; reflexivity).
  (* OpValidatePending: set_sstate with the computed flag *)
  cbn [step_op2]. apply inv_core_b_iff in H.
  pose proof (@GraphPrims.set_sstate_spec false true label SPending (GraphExt.has_unusable_dynamic_input label s) s H
                                          (fun _ _ => eq_refl)) as Hw.
  destruct (set_sstate label SPending (GraphExt.has_unusable_dynamic_input label s) s) as [s'| |];
    cbn [wpg] in Hw; apply inv_core_b_iff; [apply Hw|exact H|exact H].
Qed.

Lemma step_xop2_inv_core x s : inv_core_b s = true ->
  inv_core_b (match step_xop2 x s with Ok s' => s' | _ => s end) = true.
Proof.
  intros H. destruct x as [o|]; cbn [step_xop2].
  - exact (step_op2_inv_core o s H).
  - exact (step_xop_inv_core XRevert s H).
Qed.

Lemma run_xops2_inv_core xs : forall s, inv_core_b s = true -> inv_core_b (run_xops2 xs s) = true.
Proof.
  unfold run_xops2. induction xs as [|x xs IH]; intros s H; cbn [fold_left]; [exact H|].
  apply IH. apply step_xop2_inv_core. exact H.
Qed.

(* The bridge over the transactions since 84081f2: EVERY history of them that ends in a successful
   build ends in a state of the shape quiescent_success_b. *)
Theorem bridge2 (cap : N) (hist : list xop) :
  successful_history2 cap hist -> quiescent_success_b (run_xops2 hist (init_st cap)) = true.
Proof.
  intros [pre [-> Hep]]. unfold run_xops2 in *. rewrite fold_left_app.
  set (s := fold_left _ pre (init_st cap)) in *.
  assert (HI : Inv false s).
  { apply inv_core_b_iff. apply (run_xops2_inv_core pre). apply inv_core_init. }
  destruct (bridge_state s HI Hep) as [s1 [s2 [Hr [Hd [_ [_ Hq]]]]]].
  cbn [fold_left step_xop2]. rewrite Hr. cbn [step_op2 step_op]. rewrite Hd.
  rewrite (quiescent_same _ s2 (er_undefer_post s1 s2)). exact Hq.
Qed.

(* ---- nothing is re-attached by a transaction that leaves the state as it is ------------------------ *)
Lemma filter_none {A} (p : A -> bool) l : (forall x, In x l -> p x = false) -> filter p l = [].
Proof.
  induction l as [|x l IH]; intros H; [reflexivity|]. cbn. rewrite (H x (or_introl eq_refl)).
  apply IH. intros y Hy. apply H. right. exact Hy.
Qed.

Lemma reattached_keys_self s : inv_core_b s = true -> GraphExt.reattached_keys s s = [].
Proof.
  intros H. unfold GraphExt.reattached_keys. rewrite filter_none; [reflexivity|]. intros n Hn.
  assert (Hnd : nodup_by key_eqb (map nk (nodes s)) = true).
  { apply GraphCheckP.inv_nodes_nodup. unfold inv_core_b in H. do 10 (apply andb_true_iff in H; destruct H as [H _]). exact H. }
  rewrite (GraphCheckP.find_node_nodup s n Hnd Hn). destruct (ndet n); reflexivity.
Qed.

Lemma undefer_post_self s : inv_core_b s = true -> GraphExt.undefer_post s s = s.
Proof.
  intros H. unfold GraphExt.undefer_post, GraphExt.undefer_post_with, GraphExt.undefer_labels_with.
  rewrite (reattached_keys_self s H).
  rewrite filter_none; [reflexivity|]. intros r _. cbn [existsb]. rewrite ?andb_false_r. reflexivity.
Qed.

(* Rebuilding with nothing changed, over the transactions since 84081f2: after ANY history of them that
   ends in a successful build the restart and the watch rebuild are the identity. *)
Theorem noop_after_successful_history2 (cap : N) (hist : list xop) :
  successful_history2 cap hist ->
  let q := run_xops2 hist (init_st cap) in
  (forall rehash, unchanged_b q rehash = true ->
     run_ops2 (startup_ops q [] rehash) q = q /\ (forall l, dispatch_guard l q = false) /\
     step_xop2 XRevert q = Ok q /\ step_op2 OpDeleteDetached q = Ok q) /\
  (forall rehash, unchanged_watch_b q rehash = true ->
     watch_ops q rehash = [] /\ run_ops2 (watch_ops q rehash) q = q /\
     (forall l, dispatch_guard l q = false) /\
     step_xop2 XRevert q = Ok q /\ step_op2 OpDeleteDetached q = Ok q).
Proof.
  intros H q. pose proof (bridge2 cap hist H) as Hq. fold q in Hq.
  assert (HI : inv_core_b q = true) by (apply run_xops2_inv_core; apply inv_core_init).
  destruct (quiescent_parts q Hq) as [Hjob [Hsteps [Hdel Hunc]]].
  assert (Hdd : step_op2 OpDeleteDetached q = Ok q).
  { cbn [step_op2 step_op]. destruct (restart_noop q [] Hq eq_refl) as (_ & _ & _ & Hd). rewrite Hd.
    rewrite (undefer_post_self q HI). reflexivity. }
  split; intros rehash Hu.
  - destruct (restart_noop q rehash Hq Hu) as (_ & Hg & Hr & _).
    split; [|split; [exact Hg|split; [exact Hr|exact Hdd]]].
    unfold startup_ops. cbn [map app]. rewrite (hash_jobs_nil_startup q rehash Hunc Hu).
    cbn [run_ops2 fold_left]. unfold apply_op2. cbn [step_op2 step_op].
    rewrite (reset_interrupted_id q Hjob Hsteps). rewrite (undefer_post_self q HI). reflexivity.
  - destruct (watch_noop q rehash Hq Hu) as (Hnil & _ & Hg & Hr & _).
    split; [exact Hnil|]. split; [rewrite Hnil; reflexivity|]. split; [exact Hg|]. split; [exact Hr|exact Hdd].
Qed.
