(* C10: the outcome of a job never hands the same job out again without an intervening change.
   A dispatched step is CHECKING (stored hash: hash check / validation of dynamic inputs) or RUNNING.
   Its job ends with one of
     Step.mark_completed              SUCCEEDED / FAILED / PENDING with defer_count + 1 (bounded by the cap:
                                      C10_defer_cap_bound),
     Executor._reset_step_to_pending  PENDING without stored hash (the next job of the step is a run),
     validate_dynamic_job "unchanged" PENDING and deferred (since repo d760e3e): not dispatchable until
                                      Workflow.mark_step_pending clears the flag because an input changed.
   Before d760e3e the third outcome left the step PENDING, not deferred, with its hash: the snapshot
   after the outcome equals the snapshot before the dispatch, the same VALIDATE job is handed out
   again, for ever (D36). *)
From Coq Require Import List NArith Bool Arith Lia.
From SV Require Import lib.Bytes lib.SqlExpr gen.GenSched model.Sched proofs.SchedProofs.
Import ListNotations.
Open Scope N_scope.

Lemma deferred_not_eligible g s : s_deferred s = true -> eligible_cached g s = false.
Proof.
  intros H. rewrite eligible_cached_unfold. unfold eligible_cached_with, senv. rewrite dispatch_where_meaning, H.
  cbn [negb]. rewrite !andb_false_r. reflexivity.
Qed.

Theorem dispatch_set_not_deferred g s : In s (dispatch_set g) -> s_deferred s = false.
Proof.
  unfold dispatch_set. rewrite filter_In. intros [_ H].
  destruct (s_deferred s) eqn:E; [|reflexivity]. rewrite (deferred_not_eligible g s E) in H. discriminate.
Qed.

Theorem dispatch_set_pending g s : In s (dispatch_set g) -> s_state s = ST_PENDING.
Proof.
  unfold dispatch_set. rewrite filter_In. intros [_ H]. rewrite eligible_cached_unfold in H. unfold eligible_cached_with, senv in H.
  rewrite dispatch_where_meaning in H. rewrite !andb_true_iff in H.
  destruct H as [[[[[[[H _] _] _] _] _] _] _]. apply N.eqb_eq in H. exact H.
Qed.

(* rows of a key after Step.set_state *)
Lemma set_step_state_row g k st df r : In r (g_steps (set_step_state g k st df)) -> s_key r = k ->
  exists r0, In r0 (g_steps g) /\ s_key r0 = k /\ s_state r = st /\
             s_deferred r = (if sholds (nenv st (s_holding r0)) trg_clear_deferred_when then false else df) /\
             s_has_hash r = s_has_hash r0 /\ s_hash_stored r = s_hash_stored r0.
Proof.
  rewrite set_step_state_mapg. unfold mapg. cbn [g_steps with_steps]. intros Hin Hk.
  apply in_map_iff in Hin. destruct Hin as [r0 [<- Hr0]].
  set (g1 := mapg (stateF k st df) g) in *.
  pose proof (trigF_only_flags g1 trg_step_state k None) as O. pose proof (of_keeps _ O) as K.
  rewrite (k_key _ K), stateF_key in Hk.
  exists r0. split; [exact Hr0|]. split; [exact Hk|].
  rewrite (k_state _ K), (k_deferred _ K), (k_hh _ K), (k_stored _ K).
  unfold stateF. apply N.eqb_eq in Hk. rewrite Hk. cbn. auto.
Qed.

(* validate_dynamic_job, digest unchanged (Step.set_state(PENDING, True)): the step is deferred, hence
   in no dispatch set, whatever the metadata updates compute *)
Theorem validate_unchanged_not_dispatched g k g' s :
  update_meta (set_step_state g k ST_PENDING true) = Some g' -> In s (dispatch_set g') -> s_key s <> k.
Proof.
  intros Hu Hs Hk.
  pose proof (dispatch_set_not_deferred g' s Hs) as Hd.
  unfold dispatch_set in Hs. apply filter_In in Hs. destruct Hs as [Hin _].
  (* update_meta only rewrites cached columns *)
  unfold update_meta, update_meta_with in Hu.
  destruct (update_meta_after _) as [g2|] eqn:E2; [|discriminate]. injection Hu as <-.
  unfold update_meta_ready in Hin. cbn [g_steps with_steps] in Hin. apply in_map_iff in Hin.
  destruct Hin as [s2 [Es2 Hin2]].
  assert (Hkd : s_key s = s_key s2 /\ s_deferred s = s_deferred s2).
  { destruct (s_chk_ready s2); subst s; auto. }
  unfold update_meta_after in E2. destruct (after_loop _ _ _ _ _) as [v|]; [|discriminate]. injection E2 as <-.
  unfold write_back in Hin2. cbn [g_steps with_steps] in Hin2. apply in_map_iff in Hin2.
  destruct Hin2 as [s1 [Es1 Hin1]].
  assert (Hkd1 : s_key s2 = s_key s1 /\ s_deferred s2 = s_deferred s1) by (subst s2; auto).
  unfold update_meta_safe_with in Hin1. cbn [g_steps with_steps] in Hin1. apply in_map_iff in Hin1.
  destruct Hin1 as [s0 [Es0 Hin0]].
  assert (Hkd0 : s_key s1 = s_key s0 /\ s_deferred s1 = s_deferred s0).
  { destruct (merge_vals _ _); subst s1; auto. }
  destruct Hkd as [K1 D1]. destruct Hkd1 as [K2 D2]. destruct Hkd0 as [K3 D3].
  destruct (set_step_state_row g k ST_PENDING true s0 Hin0 ltac:(congruence)) as [r0 [_ [_ [_ [Hdf _]]]]].
  assert (Hw : forall h, sholds (nenv ST_PENDING h) trg_clear_deferred_when = false) by (intros h; reflexivity).
  rewrite Hw in Hdf. congruence.
Qed.

(* with the outcome that the repository's executor produces (gen/GenSched.v, read from executor.py) *)
Lemma validate_defers_repo : validate_unchanged_state = ST_PENDING /\ validate_unchanged_deferred = true.
Proof. split; reflexivity. Qed.

Theorem validate_unchanged_not_dispatched_repo g k g' s :
  update_meta (set_step_state g k validate_unchanged_state validate_unchanged_deferred) = Some g' ->
  In s (dispatch_set g') -> s_key s <> k.
Proof.
  destruct validate_defers_repo as [-> ->]. apply validate_unchanged_not_dispatched.
Qed.

(* Executor._reset_step_to_pending ends with delete_hash: the next job of the step is a run *)
Theorem reset_to_pending_next_job_runs g k r :
  In r (g_steps (set_step_state (set_step_hash g k false) k ST_PENDING false)) -> s_key r = k ->
  dispatched_state r = dispatch_state_without_hash.
Proof.
  intros Hin Hk. destruct (set_step_state_row _ k ST_PENDING false r Hin Hk) as [r0 [Hr0 [Hk0 [_ [_ [Hh _]]]]]].
  unfold set_step_hash in Hr0. cbn [g_steps with_steps] in Hr0. apply in_map_iff in Hr0.
  destruct Hr0 as [r1 [<- _]]. unfold dispatched_state. rewrite Hh.
  destruct (s_key r1 =? k) eqn:E; [reflexivity|].
  cbn in Hk0. apply N.eqb_neq in E. contradiction.
Qed.

(* D36 (fixed by d760e3e): with Step.set_state(PENDING) -- not deferred -- the snapshot after the outcome is
   the snapshot before the dispatch up to flags, and the same job is handed out again *)
Definition g_d36 : graph :=
  mkGraph [wstep 1 22 34 None true 34 false false false;
           set_hash (wstep 2 21 32 (Some 1) true 32 false false false) true]
          [mkFile 10 [105] 13 true None false] [mkOnode 0 false None]
          [mkDep 10 2 true] [] [] [] 31.

Definition same_decision (g g' : graph) (k : N) : bool :=
  match filter (fun s => s_key s =? k) (dispatch_set g), filter (fun s => s_key s =? k) (dispatch_set g') with
  | [s], [s'] => (dispatched_state s =? dispatch_state_with_hash) && (dispatched_state s' =? dispatch_state_with_hash)
                 && (s_state s =? s_state s') && Bool.eqb (s_deferred s) (s_deferred s')
                 && (s_defer_count s =? s_defer_count s') && Bool.eqb (s_hash_stored s) (s_hash_stored s')
  | _, _ => false
  end.

Theorem validate_without_defer_refuted :
  exists g k, WF g /\ Acyclic g /\ AllCorrect g /\ HasHashInv g /\
    let dispatched := set_step_state g k dispatch_state_with_hash false in
    let outcome := set_step_state dispatched k ST_PENDING false in
    exists g', update_meta outcome = Some g' /\ AllCorrect g' /\ same_decision g g' k = true /\
               g_files g' = g_files g /\ g_deps g' = g_deps g.
Proof.
  exists g_d36, 2.
  split; [apply wf_refl; vm_compute; reflexivity|].
  split; [split; [exists (fun k => N.to_nat (k - 1)); apply creator_rank_refl | exists (fun _ => 0%nat); apply need_rank_refl]; vm_compute; reflexivity|].
  split; [apply allcorrect_refl; vm_compute; reflexivity|].
  split; [apply has_hash_inv_refl; vm_compute; reflexivity|].
  cbv zeta.
  exists (the (update_meta (set_step_state (set_step_state g_d36 2 dispatch_state_with_hash false) 2 ST_PENDING false)) g_d36).
  split; [vm_compute; reflexivity|].
  split; [apply allcorrect_refl; vm_compute; reflexivity|].
  split; [vm_compute; reflexivity|]. split; vm_compute; reflexivity.
Qed.
