(* C04: the bridge from "the build phase ended successfully" (end_of_phase_b) to the state shape the
   no-op theorems start from (quiescent_success_b):  finalize = revert_optional_steps, then
   delete_detached.  Uses the well-formedness invariant of C09 (Inv false = inv_core_b), which holds
   in every reachable state. *)
From Coq Require Import List NArith Bool Lia PeanoNat.
From SV Require Import lib.Bytes lib.Closure model.Graph model.GraphInv model.GraphDump model.Noop
  proofs.GraphBase proofs.GraphNodes proofs.GraphInvP proofs.GraphPrims proofs.GraphFrames
  proofs.GraphLife proofs.GraphNodeFrame proofs.GraphProofs proofs.NoopProofs.
Import ListNotations.
Open Scope N_scope.

(* ------------------------------------------------------------------------------------------ *)
(* Small facts about the two row updates revert_optional uses                                  *)
(* ------------------------------------------------------------------------------------------ *)
Lemma set_sstate_pending_ok l d s : exists s', set_sstate l SPending d s = Ok s'.
Proof.
  unfold set_sstate. destruct (find_step l s) as [r|]; [|eexists; reflexivity].
  change (sstate_eqb SPending SPending) with true. cbn [negb]. rewrite andb_false_r. eexists; reflexivity.
Qed.

Lemma set_planned_ok f s : exists s', set_fstate_hash f FPlanned (Some None) s = Ok s'.
Proof.
  unfold set_fstate_hash. destruct (find_file f s) as [r|]; [|eexists; reflexivity].
  change (needs_hash FPlanned) with false. change (fstate_eqb FPlanned FUndeclared) with false.
  cbn [andb]. eexists; reflexivity.
Qed.

Lemma need_of_finds l s s' : (forall l', l' <> l -> find_step l' s' = find_step l' s) ->
  need_of l s' = need_of l s -> forall l', need_of l' s' = need_of l' s.
Proof.
  intros H Hl l'. destruct (str_eq_dec l' l) as [->|Hne]; [exact Hl|].
  unfold need_of. rewrite (H l' Hne). reflexivity.
Qed.

(* one raw update to PENDING *)
Lemma raw_pending l s :
  Inv false s ->
  exists s', set_sstate_raw l SPending s = Ok s' /\ Inv false s' /\
             nodes s' = nodes s /\ deps s' = deps s /\ files s' = files s /\
             (forall l', need_of l' s' = need_of l' s) /\
             (forall l', sstate_of l' s' = sstate_of l' s \/ (l' = l /\ sstate_of l' s' = Some SPending)) /\
             (find_step l s <> None -> sstate_of l s' = Some SPending).
Proof.
  intros HI. unfold set_sstate_raw. destruct (find_step l s) as [r|] eqn:Hf.
  2:{ exists s. split; [reflexivity|]. split; [exact HI|]. repeat split; try reflexivity.
      - intros l'. left. reflexivity.
      - intros H. congruence. }
  destruct (set_sstate_pending_ok l (sdef r) s) as [s' Hs']. exists s'. split; [exact Hs'|].
  pose proof (@GraphPrims.set_sstate_spec false true l SPending (sdef r) s HI (fun _ _ => eq_refl)) as Hc.
  rewrite Hs' in Hc. cbn [wpg] in Hc. destruct Hc as [HI' [_ [_ [_ [_ [Hhit _]]]]]].
  destruct (NoopProofs.set_sstate_spec _ _ _ _ _ Hs') as [Hn [Hfl [Hd [_ [_ [Hq Hst]]]]]].
  split; [exact HI'|]. repeat split; try assumption.
  intros _. apply Hhit. congruence.
Qed.

(* one output row reverted to PLANNED *)
Lemma planned_row f s :
  Inv false s ->
  exists s', set_fstate_hash f FPlanned (Some None) s = Ok s' /\ Inv false s' /\
             nodes s' = nodes s /\ deps s' = deps s /\ steps s' = steps s /\
             (forall f', fstate_of f' s' = fstate_of f' s \/ (f' = f /\ fstate_of f' s' = Some FPlanned)) /\
             (find_file f s <> None -> fstate_of f s' = Some FPlanned).
Proof.
  intros HI. destruct (set_planned_ok f s) as [s' Hs']. exists s'. split; [exact Hs'|].
  assert (Hc := @GraphPrims.set_fstate_hash_spec false true f FPlanned (Some None) s HI).
  assert (Hc' : wpg true (set_fstate_hash f FPlanned (Some None) s)
                    (fun s' => Inv false s' /\ SO s s' /\ steps s' = steps s /\ shash s' = shash s /\
                               (forall l', l' <> f -> find_file l' s' = find_file l' s) /\
                               (find_file f s <> None -> fstate_of f s' = Some FPlanned) /\
                               (find_file f s = None -> s' = s))).
  { apply Hc; [discriminate | intros; reflexivity | intros _ H; discriminate H]. }
  rewrite Hs' in Hc'. cbn [wpg] in Hc'. destruct Hc' as [HI' [_ [_ [_ [_ [Hhit _]]]]]].
  destruct (NoopProofs.set_fstate_hash_spec _ _ _ _ _ Hs') as [Hn [Hst [Hd [_ Hfl]]]].
  split; [exact HI'|]. repeat split; assumption.
Qed.

(* ------------------------------------------------------------------------------------------ *)
(* revert_optional: always succeeds on a well-formed state; what it changes                     *)
(* ------------------------------------------------------------------------------------------ *)
Section Revert.
  Variable s : st.

  Definition OptL (l : str) : Prop := attached (KStep, l) s = true /\ required l s = false.

  Record Rv (sa : st) : Prop := {
    rv_inv : Inv false sa;
    rv_nodes : nodes sa = nodes s;
    rv_deps : deps sa = deps s;
    rv_need : forall l, need_of l sa = need_of l s;
    rv_sst : forall l st', sstate_of l sa = Some st' -> sstate_of l s = Some st' \/ (st' = SPending /\ OptL l);
    rv_fst : forall f st', fstate_of f sa = Some st' -> fstate_of f s = Some st' \/ st' = FPlanned }.

  Lemma need_of_row l sa : (forall l0, need_of l0 sa = need_of l0 s) -> (find_step l sa <> None <-> find_step l s <> None).
  Proof.
    intros H. specialize (H l). unfold need_of in H.
    destruct (find_step l sa), (find_step l s); split; congruence.
  Qed.

  Lemma revert_fold1 (L : list srow) :
    forall sa, Rv sa -> (forall r, In r L -> OptL (sl r)) ->
    exists sb, foldM (fun s0 r => if sstate_eqb (sst r) SPending then Ok s0
                                  else set_sstate_raw (sl r) SPending s0) L sa = Ok sb /\
               Rv sb /\ files sb = files sa /\
               (forall l, sstate_of l sa = Some SPending -> sstate_of l sb = Some SPending) /\
               (forall r, In r L -> (sst r = SPending -> sstate_of (sl r) sa = Some SPending) ->
                          find_step (sl r) sa <> None -> sstate_of (sl r) sb = Some SPending).
  Proof.
    induction L as [|r L IH]; intros sa HR HL; cbn [foldM].
    - exists sa. split; [reflexivity|]. split; [exact HR|]. split; [reflexivity|]. split; [auto|]. intros r [].
    - assert (HL' : forall r0, In r0 L -> OptL (sl r0)) by (intros r0 H0; apply HL; right; exact H0).
      destruct (sstate_eqb (sst r) SPending) eqn:Hp.
      + cbn [bind]. destruct (IH sa HR HL') as [sb [Hf [HRb [Hfl [Hstab Hhit]]]]].
        exists sb. split; [exact Hf|]. split; [exact HRb|]. split; [exact Hfl|]. split; [exact Hstab|].
        intros r0 [<-|Hin] Hpre Hrow.
        * apply Hstab. apply Hpre. apply sstate_eqb_eq. exact Hp.
        * apply Hhit; assumption.
      + destruct (raw_pending (sl r) sa (rv_inv _ HR)) as [s1 [H1 [HI1 [Hn1 [Hd1 [Hf1 [Hq1 [Hs1 Hhit1]]]]]]]].
        rewrite H1. cbn [bind].
        assert (HR1 : Rv s1).
        { constructor.
          - exact HI1.
          - rewrite Hn1. apply (rv_nodes _ HR).
          - rewrite Hd1. apply (rv_deps _ HR).
          - intros l. rewrite Hq1. apply (rv_need _ HR).
          - intros l st' Hst. destruct (Hs1 l) as [He|[-> He]].
            + rewrite He in Hst. apply (rv_sst _ HR). exact Hst.
            + rewrite He in Hst. injection Hst as <-. right. split; [reflexivity|]. apply HL. left. reflexivity.
          - intros f st' Hst. rewrite (fstate_of_files f sa s1 Hf1) in Hst. apply (rv_fst _ HR). exact Hst. }
        assert (Hstab1 : forall l, sstate_of l sa = Some SPending -> sstate_of l s1 = Some SPending).
        { intros l Hl. destruct (Hs1 l) as [He|[_ He]]; [rewrite He; exact Hl | exact He]. }
        destruct (IH s1 HR1 HL') as [sb [Hf [HRb [Hfl [Hstab Hhit]]]]].
        exists sb. split; [exact Hf|]. split; [exact HRb|]. split; [rewrite Hfl; exact Hf1|].
        split; [intros l Hl; apply Hstab; apply Hstab1; exact Hl|].
        intros r0 [<-|Hin] Hpre Hrow.
        * apply Hstab. apply Hhit1. exact Hrow.
        * apply Hhit; [exact Hin | intros Hp0; apply Hstab1; apply Hpre; exact Hp0 |].
          apply (need_of_row (sl r0) s1 (rv_need _ HR1)). apply (need_of_row (sl r0) sa (rv_need _ HR)). exact Hrow.
  Qed.

  Lemma revert_fold2 (F : list str) :
    forall sa, Rv sa ->
    exists sb, foldM (fun s0 f => set_fstate_hash f FPlanned (Some None) s0) F sa = Ok sb /\
               Rv sb /\ steps sb = steps sa /\
               (forall f, fstate_of f sa = Some FPlanned -> fstate_of f sb = Some FPlanned) /\
               (forall f, In f F -> fstate_of f sa <> None -> fstate_of f sb = Some FPlanned).
  Proof.
    induction F as [|f F IH]; intros sa HR; cbn [foldM].
    - exists sa. split; [reflexivity|]. split; [exact HR|]. split; [reflexivity|]. split; [auto|]. intros f [].
    - destruct (planned_row f sa (rv_inv _ HR)) as [s1 [H1 [HI1 [Hn1 [Hd1 [Hs1 [Hf1 Hhit1]]]]]]].
      rewrite H1. cbn [bind].
      assert (HR1 : Rv s1).
      { constructor.
        - exact HI1.
        - rewrite Hn1. apply (rv_nodes _ HR).
        - rewrite Hd1. apply (rv_deps _ HR).
        - intros l. rewrite (need_of_steps l sa s1 Hs1). apply (rv_need _ HR).
        - intros l st' Hst. rewrite (sstate_of_steps l sa s1 Hs1) in Hst. apply (rv_sst _ HR). exact Hst.
        - intros f' st' Hst. destruct (Hf1 f') as [He|[-> He]].
          + rewrite He in Hst. apply (rv_fst _ HR). exact Hst.
          + rewrite He in Hst. injection Hst as <-. right. reflexivity. }
      assert (Hstab1 : forall f', fstate_of f' sa = Some FPlanned -> fstate_of f' s1 = Some FPlanned).
      { intros f' Hl. destruct (Hf1 f') as [He|[_ He]]; [rewrite He; exact Hl | exact He]. }
      assert (Hrow1 : forall f', fstate_of f' sa <> None -> fstate_of f' s1 <> None).
      { intros f' Hl. destruct (Hf1 f') as [He|[_ He]]; [rewrite He; exact Hl | rewrite He; discriminate]. }
      destruct (IH s1 HR1) as [sb [Hf [HRb [Hst [Hstab Hhit]]]]].
      exists sb. split; [exact Hf|]. split; [exact HRb|]. split; [rewrite Hst; exact Hs1|].
      split; [intros f' Hl; apply Hstab; apply Hstab1; exact Hl|].
      intros f' [<-|Hin] Hrow.
      + apply Hstab. apply Hhit1. unfold fstate_of in Hrow. destruct (find_file f sa); [discriminate | congruence].
      + apply Hhit; [exact Hin | apply Hrow1; exact Hrow].
  Qed.

  Hypothesis HI : Inv false s.

  Lemma Rv_init : Rv s.
  Proof. constructor; try reflexivity; try exact HI; intros; left; assumption. Qed.

  Theorem revert_optional_spec :
    exists s1, revert_optional s = Ok s1 /\ Rv s1 /\
      (forall l, OptL l -> find_step l s <> None -> sstate_of l s1 = Some SPending) /\
      (forall l f, OptL l -> find_step l s <> None -> In f (file_sinks_of_step l s) ->
                   revertible_output f s = true -> fstate_of f s1 = Some FPlanned).
  Proof.
    unfold revert_optional.
    assert (HL : forall r, In r (optional_steps s) -> OptL (sl r)).
    { intros r Hr. unfold optional_steps in Hr. apply filter_In in Hr. destruct Hr as [_ Hc].
      apply andb_true_iff in Hc. destruct Hc as [Ha Hn]. apply negb_true_iff in Hn. split; assumption. }
    destruct (revert_fold1 (optional_steps s) s Rv_init HL) as [sb [Hf1 [HRb [Hfl [_ Hhit1]]]]].
    rewrite Hf1. cbn [bind].
    destruct (revert_fold2 (optional_outputs s) sb HRb) as [sc [Hf2 [HRc [Hst [_ Hhit2]]]]].
    exists sc. split; [exact Hf2|]. split; [exact HRc|].
    assert (Hopt : forall l, OptL l -> forall r, find_step l s = Some r -> In r (optional_steps s)).
    { intros l [Ha Hn] r Hr. destruct (find_step_in _ _ _ Hr) as [Hin Hl]. unfold optional_steps.
      apply filter_In. split; [exact Hin|]. rewrite Hl, Ha, Hn. reflexivity. }
    split.
    - intros l Ho Hrow. destruct (find_step l s) as [r|] eqn:Hr; [|congruence].
      destruct (find_step_in _ _ _ Hr) as [_ Hl].
      rewrite (sstate_of_steps l sb sc Hst). rewrite <- Hl. apply Hhit1.
      + apply (Hopt l Ho r Hr).
      + intros Hp. rewrite Hl. unfold sstate_of. rewrite Hr, Hp. reflexivity.
      + rewrite Hl, Hr. discriminate.
    - intros l f Ho Hrow Hin Hrev. destruct (find_step l s) as [r|] eqn:Hr; [|congruence].
      destruct (find_step_in _ _ _ Hr) as [_ Hl].
      apply Hhit2.
      + unfold optional_outputs. apply in_flat_map. exists r. split; [apply (Hopt l Ho r Hr)|].
        apply filter_In. split; [rewrite Hl; exact Hin | exact Hrev].
      + rewrite (fstate_of_files f s sb Hfl). unfold revertible_output in Hrev.
        destruct (fstate_of f s); [discriminate | discriminate].
  Qed.
End Revert.

(* ------------------------------------------------------------------------------------------ *)
(* delete_detached: the tables afterwards are the tables before without a set Del of keys       *)
(* ------------------------------------------------------------------------------------------ *)
Lemma filter_all {A} (p : A -> bool) l : (forall x, In x l -> p x = true) -> filter p l = l.
Proof.
  induction l as [|a l IH]; intros H; cbn [filter]; [reflexivity|].
  rewrite (H a (or_introl eq_refl)). f_equal. apply IH. intros x Hx. apply H. right. exact Hx.
Qed.

Lemma filter_filter {A} (p q : A -> bool) l : filter p (filter q l) = filter (fun x => q x && p x) l.
Proof.
  induction l as [|a l IH]; cbn [filter]; [reflexivity|].
  destruct (q a); cbn [andb filter]; [destruct (p a); rewrite IH; reflexivity | exact IH].
Qed.

Lemma find_filter_lab {A K} (lab : A -> K) (eqb : K -> K -> bool) (q : K -> bool) (rows : list A) (l : K) :
  (forall a b, eqb a b = true -> a = b) ->
  find (fun r => eqb (lab r) l) (filter (fun r => q (lab r)) rows)
  = if q l then find (fun r => eqb (lab r) l) rows else None.
Proof.
  intros Heq. induction rows as [|a rows IH]; cbn [filter find]; [destruct (q l); reflexivity|].
  destruct (eqb (lab a) l) eqn:He.
  - pose proof (Heq _ _ He) as Hl. destruct (q (lab a)) eqn:Hq; rewrite Hl in Hq; rewrite Hq.
    + cbn [find]. rewrite He. reflexivity.
    + rewrite IH, Hq. reflexivity.
  - destruct (q (lab a)); cbn [find]; [rewrite He|]; exact IH.
Qed.

Definition kept (Del : list key) (k : key) : bool := negb (mem_key k Del).

Lemma kept_cons k Del x : kept (k :: Del) x = kept Del x && negb (key_eqb x k).
Proof. unfold kept, mem_key. cbn [existsb]. rewrite negb_orb. apply andb_comm. Qed.

Record DDrel (s1 sa : st) (Del : list key) : Prop := {
  dd_nodes : nodes sa = filter (fun n => kept Del (nk n)) (nodes s1);
  dd_deps : deps sa = filter (fun d => kept Del (dsnk d)) (deps s1);
  dd_files : files sa = filter (fun r => kept Del (KFile, fl r)) (files s1);
  dd_steps : steps sa = filter (fun r => kept Del (KStep, sl r)) (steps s1);
  dd_det : forall k, In k Del -> is_detached k s1 = true;
  dd_closed : forall d, In d (deps s1) -> In (dsrc d) Del -> In (dsnk d) Del }.

Lemma DDrel_init s1 : DDrel s1 s1 [].
Proof.
  constructor; try (symmetry; apply filter_all; intros; reflexivity); intros; contradiction.
Qed.

Lemma delete_node_tables k s :
  nodes (delete_node k s) = filter (fun n => negb (key_eqb (nk n) k)) (nodes s) /\
  deps (delete_node k s) = filter (fun d => negb (key_eqb (dsnk d) k)) (deps s) /\
  files (delete_node k s) = filter (fun r => negb (key_eqb (KFile, fl r) k)) (files s) /\
  steps (delete_node k s) = filter (fun r => negb (key_eqb (KStep, sl r) k)) (steps s).
Proof.
  destruct k as [kk kl]. unfold delete_node.
  destruct kk; cbn [fst snd nodes deps files steps set_nodes set_files set_steps set_shash set_envs
                    del_all_sources del_deps_where set_deps];
    repeat split; try reflexivity; try (symmetry; apply filter_all; intros; reflexivity).
Qed.

Lemma DDrel_step s1 sa Del n :
  NoDup (map nk (nodes s1)) ->
  DDrel s1 sa Del -> In n (nodes sa) -> deletable n sa = true ->
  DDrel s1 (delete_node (nk n) sa) (nk n :: Del).
Proof.
  intros Hnd HR Hin Hdel.
  destruct (delete_node_tables (nk n) sa) as [Hn [Hd [Hf Hs]]].
  unfold deletable in Hdel. apply andb_true_iff in Hdel. destruct Hdel as [Hdel Hsrc].
  apply andb_true_iff in Hdel. destruct Hdel as [Hdet _].
  assert (Hin1 : In n (nodes s1)).
  { rewrite (dd_nodes _ _ _ HR) in Hin. apply filter_In in Hin. tauto. }
  constructor.
  - rewrite Hn, (dd_nodes _ _ _ HR), filter_filter. apply filter_ext. intros x. symmetry. apply kept_cons.
  - rewrite Hd, (dd_deps _ _ _ HR), filter_filter. apply filter_ext. intros x. symmetry. apply kept_cons.
  - rewrite Hf, (dd_files _ _ _ HR), filter_filter. apply filter_ext. intros x. symmetry. apply kept_cons.
  - rewrite Hs, (dd_steps _ _ _ HR), filter_filter. apply filter_ext. intros x. symmetry. apply kept_cons.
  - intros k [<-|Hk]; [|apply (dd_det _ _ _ HR); exact Hk].
    unfold is_detached, find_node. fold (findn (nk n) (nodes s1)). rewrite (In_findn _ _ Hnd Hin1). exact Hdet.
  - intros d Hd1 [Hsrc'|Hsrc']; [|right; apply (dd_closed _ _ _ HR d Hd1 Hsrc')].
    destruct (mem_key (dsnk d) Del) eqn:Hm; [right; apply mem_key_In; exact Hm|].
    exfalso. apply negb_true_iff in Hsrc. rewrite existsb_false_iff in Hsrc.
    assert (Hda : In d (deps sa)).
    { rewrite (dd_deps _ _ _ HR). apply filter_In. split; [exact Hd1|]. unfold kept. rewrite Hm. reflexivity. }
    specialize (Hsrc d Hda). rewrite <- Hsrc', key_eqb_refl in Hsrc. discriminate.
Qed.

(* the keys remembered for after_lost_product are steps or trees *)
Definition LostOK (lost : list key) : Prop := forall c, In c lost -> fst c = KStep \/ fst c = KTree.

Lemma detached_creator_kind ns n c :
  NWl ns -> In n ns -> ndet n = true -> ncre n = Some c -> fst c = KStep \/ fst c = KTree.
Proof.
  intros HW Hin Hdet Hc.
  assert (Hnr : nk n <> root_key).
  { intros He. pose proof (In_findn _ _ (nw_nodup _ HW) Hin) as Hf. rewrite He, (nw_root _ HW) in Hf.
    injection Hf as <-. discriminate Hdet. }
  pose proof (nw_local _ HW n Hin Hnr) as Hl. unfold local_ok in Hl. rewrite Hc in Hl.
  destruct Hl as [_ [Hk [cn [Hcn Hd]]]].
  destruct c as [ck cl]. cbn [fst] in *. destruct ck; auto.
  - exfalso. apply findn_In in Hcn. destruct Hcn as [Hcin Hck].
    assert (Hr : nk cn = root_key) by (apply (nw_kroot _ HW cn Hcin); rewrite Hck; reflexivity).
    pose proof (In_findn _ _ (nw_nodup _ HW) Hcin) as Hf. rewrite Hr, (nw_root _ HW) in Hf.
    injection Hf as <-. cbn in Hd. congruence.
  - exfalso. destruct (fst (nk n)); discriminate.
Qed.

Lemma dd_loop_rel s1 :
  Inv false s1 ->
  forall fuel lost sa Del, DDrel s1 sa Del -> LostOK lost ->
  exists Del', DDrel s1 (fst (dd_loop fuel lost sa)) Del' /\ LostOK (snd (dd_loop fuel lost sa)) /\
               ((length (nodes sa) <= fuel)%nat ->
                forall n, In n (nodes (fst (dd_loop fuel lost sa))) -> deletable n (fst (dd_loop fuel lost sa)) = false).
Proof.
  intros HI. pose proof (inv_nw _ HI) as HW.
  induction fuel as [|fuel IH]; intros lost sa Del HR HL; cbn [dd_loop].
  - exists Del. split; [exact HR|]. split; [exact HL|]. intros Hlen n Hn. cbn [fst] in Hn.
    destruct (nodes sa); [destruct Hn | cbn in Hlen; lia].
  - destruct (find (fun n => deletable n sa) (nodes sa)) as [n|] eqn:Hf.
    + apply find_some in Hf. destruct Hf as [Hin Hdel].
      assert (Hin1 : In n (nodes s1)).
      { rewrite (dd_nodes _ _ _ HR) in Hin. apply filter_In in Hin. tauto. }
      assert (Hdet : ndet n = true).
      { unfold deletable in Hdel. apply andb_true_iff in Hdel. destruct Hdel as [Hdel _].
        apply andb_true_iff in Hdel. tauto. }
      set (lost' := filter (fun x => negb (key_eqb x (nk n))) lost).
      assert (HL' : LostOK lost').
      { intros c Hc. apply filter_In in Hc. apply HL. tauto. }
      assert (HL'' : LostOK (match ncre n with
                             | Some c => if mem_key c lost' then lost' else lost' ++ [c]
                             | None => lost' end)).
      { destruct (ncre n) as [c|] eqn:Hc; [|exact HL']. destruct (mem_key c lost'); [exact HL'|].
        intros x Hx. apply in_app_or in Hx. destruct Hx as [Hx|[<-|[]]]; [apply HL'; exact Hx|].
        exact (detached_creator_kind _ n c HW Hin1 Hdet Hc). }
      destruct (IH _ _ _ (DDrel_step s1 sa Del n (nw_nodup _ HW) HR Hin Hdel) HL'') as [Del' [HR' [HLr Hfin]]].
      exists Del'. split; [exact HR'|]. split; [exact HLr|]. intros Hlen. apply Hfin.
      destruct (delete_node_tables (nk n) sa) as [Hn _]. rewrite Hn.
      assert (Hlt : (length (filter (fun n0 => negb (key_eqb (nk n0) (nk n))) (nodes sa)) < length (nodes sa))%nat).
      { clear - Hin. induction (nodes sa) as [|a l IHl]; [destruct Hin|]. cbn [filter].
        destruct Hin as [->|Hin].
        - rewrite key_eqb_refl. cbn [negb]. pose proof (filter_length_le (fun n0 => negb (key_eqb (nk n0) (nk n))) l). cbn. lia.
        - specialize (IHl Hin). destruct (negb (key_eqb (nk a) (nk n))); cbn; lia. }
      lia.
    + exists Del. split; [exact HR|]. split; [exact HL|]. intros _ n Hn. cbn [fst] in *.
      exact (find_none _ _ Hf n Hn).
Qed.

Lemma lost_fold_ok (lost : list key) :
  LostOK lost -> forall sr,
  exists s2, foldM (fun s c => match find_node c s with
                               | Some _ => after_lost_product c s
                               | None => Ok s end) lost sr = Ok s2 /\
             nodes s2 = nodes sr /\ deps s2 = deps sr /\ files s2 = files sr /\ steps s2 = steps sr.
Proof.
  induction lost as [|c lost IH]; intros HL sr; cbn [foldM].
  - exists sr. repeat split; reflexivity.
  - assert (HL' : LostOK lost) by (intros x Hx; apply HL; right; exact Hx).
    assert (H1 : exists s1, (match find_node c sr with Some _ => after_lost_product c sr | None => Ok sr end) = Ok s1 /\
                            nodes s1 = nodes sr /\ deps s1 = deps sr /\ files s1 = files sr /\ steps s1 = steps sr).
    { destruct (find_node c sr); [|exists sr; repeat split; reflexivity].
      unfold after_lost_product. destruct (HL c (or_introl eq_refl)) as [Hk|Hk]; rewrite Hk.
      - eexists. split; [reflexivity|]. repeat split; reflexivity.
      - exists sr. repeat split; reflexivity. }
    destruct H1 as [s1 [H1 [Hn [Hd [Hf Hs]]]]]. rewrite H1. cbn [bind].
    destruct (IH HL' s1) as [s2 [H2 [Hn2 [Hd2 [Hf2 Hs2]]]]].
    exists s2. split; [exact H2|]. repeat split; congruence.
Qed.

Lemma deletable_tables n s s' : nodes s' = nodes s -> deps s' = deps s -> deletable n s' = deletable n s.
Proof. intros Hn Hd. unfold deletable, products. rewrite Hn, Hd. reflexivity. Qed.

Theorem delete_detached_rel s1 :
  Inv false s1 ->
  exists s2 Del, delete_detached s1 = Ok s2 /\ DDrel s1 s2 Del /\ Inv false s2 /\
                 (forall n, In n (nodes s2) -> deletable n s2 = false).
Proof.
  intros HI. unfold delete_detached.
  destruct (dd_loop_rel s1 HI (length (nodes s1)) [] s1 [] (DDrel_init s1) (fun c H => match H with end))
    as [Del [HR [HL Hfin]]].
  destruct (lost_fold_ok _ HL (fst (dd_loop (length (nodes s1)) [] s1))) as [s2 [H2 [Hn [Hd [Hf Hs]]]]].
  exists s2, Del. split; [exact H2|]. split; [|split].
  - destruct HR as [R1 R2 R3 R4 R5 R6]. constructor; try assumption; congruence.
  - pose proof (@delete_detached_spec false s1 HI) as Hc. unfold delete_detached in Hc. rewrite H2 in Hc. exact Hc.
  - intros n Hin. rewrite (deletable_tables n _ s2 Hn Hd). apply Hfin; [apply Nat.le_refl|]. rewrite <- Hn. exact Hin.
Qed.

(* lookups after delete_detached *)
Section DDLookups.
  Variables (s1 s2 : st) (Del : list key).
  Hypothesis HR : DDrel s1 s2 Del.

  Lemma dd_find_step l : find_step l s2 = if kept Del (KStep, l) then find_step l s1 else None.
  Proof.
    unfold find_step. rewrite (dd_steps _ _ _ HR).
    apply (find_filter_lab sl str_eqb (fun l0 => kept Del (KStep, l0))). intros a b H. apply str_eqb_eq. exact H.
  Qed.
  Lemma dd_find_file f : find_file f s2 = if kept Del (KFile, f) then find_file f s1 else None.
  Proof.
    unfold find_file. rewrite (dd_files _ _ _ HR).
    apply (find_filter_lab fl str_eqb (fun l0 => kept Del (KFile, l0))). intros a b H. apply str_eqb_eq. exact H.
  Qed.
  Lemma dd_find_node k : find_node k s2 = if kept Del k then find_node k s1 else None.
  Proof.
    unfold find_node. rewrite (dd_nodes _ _ _ HR).
    apply (find_filter_lab nk key_eqb (kept Del)). intros a b H. apply key_eqb_eq. exact H.
  Qed.

  Lemma dd_attached k : attached k s2 = attached k s1.
  Proof.
    unfold attached, is_detached. rewrite dd_find_node. destruct (kept Del k) eqn:Hk; [reflexivity|].
    unfold kept in Hk. apply negb_false_iff in Hk. apply mem_key_In in Hk.
    pose proof (dd_det _ _ _ HR k Hk) as Hd. unfold is_detached in Hd. rewrite Hd. reflexivity.
  Qed.

  Lemma kept_attached k : attached k s1 = true -> kept Del k = true.
  Proof.
    intros Ha. unfold kept. destruct (mem_key k Del) eqn:Hm; [|reflexivity].
    apply mem_key_In in Hm. pose proof (dd_det _ _ _ HR k Hm) as Hd. unfold attached in Ha. rewrite Hd in Ha. discriminate.
  Qed.

  Lemma dd_has_dep a b : has_dep a b s2 = true <-> has_dep a b s1 = true /\ kept Del b = true.
  Proof.
    rewrite !has_dep_in. rewrite (dd_deps _ _ _ HR). split.
    - intros [d [Hd [Ha Hb]]]. apply filter_In in Hd. destruct Hd as [Hd Hk]. split; [exists d; auto | rewrite <- Hb; exact Hk].
    - intros [[d [Hd [Ha Hb]]] Hk]. exists d. split; [|auto]. apply filter_In. split; [exact Hd | rewrite Hb; exact Hk].
  Qed.

  Lemma dd_need_of l : need_of l s2 = if kept Del (KStep, l) then need_of l s1 else None.
  Proof. unfold need_of. rewrite dd_find_step. destruct (kept Del (KStep, l)); reflexivity. Qed.
  Lemma dd_sstate_of l : sstate_of l s2 = if kept Del (KStep, l) then sstate_of l s1 else None.
  Proof. unfold sstate_of. rewrite dd_find_step. destruct (kept Del (KStep, l)); reflexivity. Qed.
  Lemma dd_fstate_of f : fstate_of f s2 = if kept Del (KFile, f) then fstate_of f s1 else None.
  Proof. unfold fstate_of. rewrite dd_find_file. destruct (kept Del (KFile, f)); reflexivity. Qed.

  (* a file with an attached consumer is never deleted *)
  Lemma kept_file_with_attached_sink f c :
    has_dep (KFile, f) (KStep, c) s1 = true -> attached (KStep, c) s1 = true -> kept Del (KFile, f) = true.
  Proof.
    intros Hd Ha. unfold kept. destruct (mem_key (KFile, f) Del) eqn:Hm; [|reflexivity]. exfalso.
    apply mem_key_In in Hm. apply has_dep_in in Hd. destruct Hd as [d [Hd [Hs Hk]]].
    assert (Hin : In (dsnk d) Del) by (apply (dd_closed _ _ _ HR d Hd); rewrite Hs; exact Hm).
    rewrite Hk in Hin. pose proof (dd_det _ _ _ HR _ Hin) as Hdet. unfold attached in Ha. rewrite Hdet in Ha. discriminate.
  Qed.

  Lemma dd_req_edge c l : req_edge s2 c l <-> req_edge s1 c l.
  Proof.
    unfold req_edge. split.
    - intros [f [H1 [H2 [H3 H4]]]]. exists f. apply dd_has_dep in H1. apply dd_has_dep in H2.
      rewrite dd_attached in H3. rewrite dd_need_of in H4.
      destruct (kept Del (KStep, c)); [tauto | congruence].
    - intros [f [H1 [H2 [H3 H4]]]]. exists f.
      pose proof (kept_attached _ H3) as Hkc.
      split; [apply dd_has_dep; split; [exact H1 | exact (kept_file_with_attached_sink f c H2 H3)]|].
      split; [apply dd_has_dep; split; assumption|].
      split; [rewrite dd_attached; exact H3|]. rewrite dd_need_of, Hkc. exact H4.
  Qed.

  Lemma dd_required l : kept Del (KStep, l) = true -> required l s2 = required l s1.
  Proof.
    intros Hk. apply Bool.eq_iff_eq_true. split.
    - apply required_mono.
      + intros l0 n. rewrite dd_need_of. destruct (kept Del (KStep, l0)); [auto | discriminate].
      + intros c l0. apply dd_req_edge.
    - intros H. apply required_spec in H. destruct H as [Hrow [a [Ha Hp]]]. apply required_spec.
      split; [rewrite dd_need_of, Hk; exact Hrow|].
      exists a. split.
      + apply in_need_seeds. apply in_need_seeds in Ha. destruct Ha as [n [Hn Hne]]. exists n. split; [|exact Hne].
        rewrite dd_need_of.
        assert (Hka : kept Del (KStep, a) = true).
        { destruct (path_inv _ _ _ Hp) as [->|Hp1]; [exact Hk|].
          destruct Hp1 as [x y z He _]. apply in_req_edges in He. destruct He as [f [_ [_ [Hatt _]]]].
          apply kept_attached. exact Hatt. }
        rewrite Hka. exact Hn.
      + apply (path_incl (req_edges s1) (req_edges s2)); [|exact Hp].
        intros [c l0] Hin. apply in_req_edges. apply dd_req_edge. apply in_req_edges. exact Hin.
  Qed.
End DDLookups.

(* ------------------------------------------------------------------------------------------ *)
(* The bridge: end of a successful phase, then finalize, gives quiescent_success_b              *)
(* ------------------------------------------------------------------------------------------ *)
Lemma step_row_lookup s r : Inv false s -> In r (steps s) -> find_step (sl r) s = Some r.
Proof.
  intros HI Hin. change (finds (sl r) (steps s) = Some r).
  apply In_finds; [apply (rw_snodup _ _ _ _ _ (inv_rw _ HI)) | exact Hin].
Qed.
Lemma file_row_lookup s r : Inv false s -> In r (files s) -> find_file (fl r) s = Some r.
Proof.
  intros HI Hin. change (findf (fl r) (files s) = Some r).
  apply In_findf; [apply (rw_fnodup _ _ _ _ _ (inv_rw _ HI)) | exact Hin].
Qed.

Lemma eop_parts s : end_of_phase_b s = true ->
  q_no_job_b s = true /\ q_no_unconfirmed_b s = true /\ eop_steps_b s = true.
Proof.
  unfold end_of_phase_b. intros H. apply andb_true_iff in H. destruct H as [H H3].
  apply andb_true_iff in H. destruct H as [H1 H2]. auto.
Qed.

(* what each clause of end_of_phase_b says about one attached step row *)
Lemma eop_row s r : eop_steps_b s = true -> In r (steps s) -> is_detached (KStep, sl r) s = false ->
  sst r <> SFailed /\ (sst r = SPending -> required (sl r) s = false).
Proof.
  unfold eop_steps_b. intros H Hin Hatt. rewrite forallb_forall in H. specialize (H r Hin).
  rewrite Hatt in H. cbn [orb] in H. apply andb_true_iff in H. destruct H as [Hf Hp]. split.
  - intros He. rewrite He in Hf. discriminate.
  - intros He. rewrite He in Hp. cbn in Hp. apply negb_true_iff in Hp. exact Hp.
Qed.

Lemma no_job_row s r : q_no_job_b s = true -> In r (steps s) -> sst r <> SRunning /\ sst r <> SChecking.
Proof.
  unfold q_no_job_b. intros H Hin. rewrite forallb_forall in H. specialize (H r Hin).
  apply andb_true_iff in H. destruct H as [H1 H2]. split; intros He; rewrite He in *; discriminate.
Qed.

Theorem bridge_state (s : st) :
  Inv false s -> end_of_phase_b s = true ->
  exists s1 s2, revert_optional s = Ok s1 /\ delete_detached s1 = Ok s2 /\
                Inv false s1 /\ Inv false s2 /\ quiescent_success_b s2 = true.
Proof.
  intros HI Hep. destruct (eop_parts s Hep) as [Hjob [Hunc Hst]].
  destruct (revert_optional_spec s HI) as [s1 [Hrev [HRv [Hpend Hplan]]]].
  pose proof (rv_inv _ _ HRv) as HI1.
  destruct (delete_detached_rel s1 HI1) as [s2 [Del [Hdd [HR [HI2 Hnodel]]]]].
  exists s1, s2. split; [exact Hrev|]. split; [exact Hdd|]. split; [exact HI1|]. split; [exact HI2|].
  assert (Hatt1 : forall k, attached k s1 = attached k s).
  { intros k. apply attached_nodes. apply (rv_nodes _ _ HRv). }
  assert (Hreq1 : forall l, required l s1 = required l s).
  { apply required_same; [apply (rv_nodes _ _ HRv) | apply (rv_deps _ _ HRv) | apply (rv_need _ _ HRv)]. }
  (* rows of s2 are rows of s1 *)
  assert (Hrow2 : forall r2, In r2 (steps s2) ->
            kept Del (KStep, sl r2) = true /\ sstate_of (sl r2) s1 = Some (sst r2)).
  { intros r2 Hin. rewrite (dd_steps _ _ _ HR) in Hin. apply filter_In in Hin. destruct Hin as [Hin Hk].
    split; [exact Hk|]. unfold sstate_of. rewrite (step_row_lookup s1 r2 HI1 Hin). reflexivity. }
  (* a state seen in s1 was there in s, or is PENDING *)
  assert (Hst1 : forall l st', sstate_of l s1 = Some st' ->
            (exists r, In r (steps s) /\ sl r = l /\ sst r = st') \/ (st' = SPending /\ OptL s l)).
  { intros l st' H. destruct (rv_sst _ _ HRv l st' H) as [H0|H0]; [left | right; exact H0].
    unfold sstate_of in H0. destruct (find_step l s) as [r|] eqn:Hr; [|discriminate]. injection H0 as H0.
    destruct (find_step_in _ _ _ Hr). exists r. auto. }
  unfold quiescent_success_b. apply andb_true_iff. split; [apply andb_true_iff; split; [apply andb_true_iff; split|]|].
  - (* no job in flight *)
    unfold q_no_job_b. apply forallb_forall. intros r2 Hin. destruct (Hrow2 r2 Hin) as [_ Hs].
    destruct (Hst1 _ _ Hs) as [[r [Hr [_ He]]]|[He _]].
    + destruct (no_job_row s r Hjob Hr) as [Ha Hb]. rewrite He in Ha, Hb.
      destruct (sst r2); try reflexivity; congruence.
    + rewrite He. reflexivity.
  - (* attached steps: SUCCEEDED when required, reverted when not *)
    unfold q_steps_b. apply forallb_forall. intros r2 Hin. destruct (Hrow2 r2 Hin) as [Hk Hs].
    destruct (is_detached (KStep, sl r2) s2) eqn:Hdet2; [reflexivity|]. cbn [orb].
    assert (Ha1 : attached (KStep, sl r2) s1 = true).
    { rewrite <- (dd_attached s1 s2 Del HR). unfold attached. rewrite Hdet2. reflexivity. }
    assert (Ha : attached (KStep, sl r2) s = true) by (rewrite <- Hatt1; exact Ha1).
    rewrite (dd_required s1 s2 Del HR _ Hk), Hreq1.
    assert (Hrow : find_step (sl r2) s <> None).
    { apply (need_of_row s (sl r2) s1 (rv_need _ _ HRv)). unfold sstate_of in Hs.
      destruct (find_step (sl r2) s1); [discriminate | discriminate Hs]. }
    destruct (required (sl r2) s) eqn:Hreq.
    + apply sstate_eqb_eq. destruct (Hst1 _ _ Hs) as [[r [Hr [Hl He]]]|[_ [_ Hn]]]; [|congruence].
      assert (Hd : is_detached (KStep, sl r) s = false).
      { rewrite Hl. unfold attached in Ha. apply negb_true_iff in Ha. exact Ha. }
      destruct (eop_row s r Hst Hr Hd) as [Hnf Hnp]. destruct (no_job_row s r Hjob Hr) as [Hnr Hnc].
      rewrite <- He. destruct (sst r); try reflexivity; try congruence.
      rewrite Hl in Hnp. specialize (Hnp eq_refl). congruence.
    + assert (Ho : OptL s (sl r2)) by (split; assumption).
      pose proof (Hpend _ Ho Hrow) as Hp. rewrite Hs in Hp. injection Hp as Hp. rewrite Hp.
      change (sstate_eqb SPending SPending) with true. cbn [andb].
      apply forallb_forall. intros f Hf. apply negb_true_iff.
      apply file_sink_has_dep in Hf. apply (dd_has_dep s1 s2 Del HR) in Hf. destruct Hf as [Hd1 Hkf].
      unfold revertible_output. rewrite (dd_fstate_of s1 s2 Del HR), Hkf.
      rewrite (has_dep_deps _ _ s s1 (rv_deps _ _ HRv)) in Hd1.
      destruct (revertible_output f s) eqn:Hro.
      * rewrite (Hplan _ f Ho Hrow (has_dep_file_sink _ _ _ Hd1) Hro). reflexivity.
      * destruct (fstate_of f s1) as [st'|] eqn:Hf1; [|reflexivity].
        destruct (rv_fst _ _ HRv f st' Hf1) as [H0 | ->]; [|reflexivity].
        unfold revertible_output in Hro. rewrite H0 in Hro. destruct st'; try reflexivity; discriminate.
  - (* nothing left to delete *)
    unfold q_no_deletable_b. apply forallb_forall. intros n Hn. apply negb_true_iff. apply Hnodel. exact Hn.
  - (* no attached UNCONFIRMED file *)
    unfold q_no_unconfirmed_b. apply forallb_forall. intros r2 Hin.
    rewrite (dd_files _ _ _ HR) in Hin. apply filter_In in Hin. destruct Hin as [Hin Hk].
    destruct (is_detached (KFile, fl r2) s2) eqn:Hdet2; [reflexivity|]. cbn [orb].
    assert (Ha : attached (KFile, fl r2) s = true).
    { rewrite <- Hatt1, <- (dd_attached s1 s2 Del HR). unfold attached. rewrite Hdet2. reflexivity. }
    assert (Hs : fstate_of (fl r2) s1 = Some (fstt r2)).
    { unfold fstate_of. rewrite (file_row_lookup s1 r2 HI1 Hin). reflexivity. }
    destruct (rv_fst _ _ HRv _ _ Hs) as [H0|H0]; [|rewrite H0; reflexivity].
    unfold fstate_of in H0. destruct (find_file (fl r2) s) as [r|] eqn:Hr; [|discriminate]. injection H0 as H0.
    destruct (find_file_in _ _ _ Hr) as [Hrin Hl].
    unfold q_no_unconfirmed_b in Hunc. rewrite forallb_forall in Hunc. specialize (Hunc r Hrin).
    rewrite Hl in Hunc. unfold attached in Ha. apply negb_true_iff in Ha. rewrite Ha in Hunc. cbn [orb] in Hunc.
    rewrite <- H0. exact Hunc.
Qed.

(* ------------------------------------------------------------------------------------------ *)
(* ... for histories: the invariant of C09 holds after every transaction, revert_optional       *)
(* included                                                                                    *)
(* ------------------------------------------------------------------------------------------ *)
Lemma step_xop_inv_core x s : inv_core_b s = true ->
  inv_core_b (match step_xop x s with Ok s' => s' | _ => s end) = true.
Proof.
  intros H. destruct x as [o|]; cbn [step_xop].
  - exact (inv_core_preserved s o H).
  - apply inv_core_b_iff in H. destruct (revert_optional_spec s H) as [s1 [Hr [HRv _]]]. rewrite Hr.
    apply inv_core_b_iff. exact (rv_inv _ _ HRv).
Qed.

Lemma run_xops_inv_core xs : forall s, inv_core_b s = true -> inv_core_b (run_xops xs s) = true.
Proof.
  unfold run_xops. induction xs as [|x xs IH]; intros s H; cbn [fold_left]; [exact H|].
  apply IH. apply step_xop_inv_core. exact H.
Qed.

Theorem bridge (cap : N) (hist : list xop) :
  successful_history cap hist -> quiescent_success_b (run_xops hist (init_st cap)) = true.
Proof.
  intros [pre [-> Hep]]. unfold run_xops in *. rewrite fold_left_app.
  set (s := fold_left _ pre (init_st cap)) in *.
  assert (HI : Inv false s).
  { apply inv_core_b_iff. apply (run_xops_inv_core pre). apply inv_core_init. }
  destruct (bridge_state s HI Hep) as [s1 [s2 [Hr [Hd [_ [_ Hq]]]]]].
  cbn [fold_left step_xop step_op]. rewrite Hr, Hd. exact Hq.
Qed.

(* nothing satisfies the dispatch guard at the end of a successful phase *)
Lemma eop_nothing_dispatchable s : eop_steps_b s = true -> forall l, dispatch_guard l s = false.
Proof.
  intros H l. unfold dispatch_guard. destruct (find_step l s) as [r|] eqn:Hf; [|reflexivity].
  destruct (find_step_in _ _ _ Hf) as [Hin Hl].
  destruct (attached (KStep, l) s) eqn:Ha; [|reflexivity].
  destruct (sstate_eqb (sst r) SPending) eqn:Hp; [|reflexivity].
  unfold attached in Ha. apply negb_true_iff in Ha. rewrite <- Hl in Ha.
  destruct (eop_row s r H Hin Ha) as [_ Hn]. apply sstate_eqb_eq in Hp. rewrite Hl in Hn.
  rewrite (Hn Hp). rewrite andb_false_r. reflexivity.
Qed.

(* ------------------------------------------------------------------------------------------ *)
(* The statements of props/C04.v                                                               *)
(* ------------------------------------------------------------------------------------------ *)
Theorem bridge_state_b (s : st) :
  inv_core_b s = true -> end_of_phase_b s = true ->
  exists s1 s2, revert_optional s = Ok s1 /\ delete_detached s1 = Ok s2 /\
                inv_core_b s2 = true /\ quiescent_success_b s2 = true.
Proof.
  intros HI Hep. apply inv_core_b_iff in HI.
  destruct (bridge_state s HI Hep) as [s1 [s2 [H1 [H2 [_ [HI2 Hq]]]]]].
  exists s1, s2. repeat split; try assumption. apply inv_core_b_iff. exact HI2.
Qed.

Theorem end_of_phase_nothing_dispatchable (s : st) :
  end_of_phase_b s = true -> forall l, dispatch_guard l s = false.
Proof. intros H. apply eop_nothing_dispatchable. apply (eop_parts s H). Qed.

Theorem noop_after_successful_history (cap : N) (hist : list xop) :
  successful_history cap hist ->
  let q := run_xops hist (init_st cap) in
  (forall rehash, unchanged_b q rehash = true ->
     run_ops (startup_ops q [] rehash) q = q /\ (forall l, dispatch_guard l q = false) /\
     revert_optional q = Ok q /\ delete_detached q = Ok q) /\
  (forall rehash, unchanged_watch_b q rehash = true ->
     watch_ops q rehash = [] /\ run_ops (watch_ops q rehash) q = q /\
     (forall l, dispatch_guard l q = false) /\
     revert_optional q = Ok q /\ delete_detached q = Ok q).
Proof.
  intros H q. pose proof (bridge cap hist H) as Hq. split; intros rehash Hu.
  - exact (restart_noop q rehash Hq Hu).
  - exact (watch_noop q rehash Hq Hu).
Qed.
