(* C09: everything the code's own consistency check verifies (Trellis._check_consistency: per-row
   creator/detached agreement, reachability from the root, validate_row; Workflow._check_consistency:
   outputs of SUCCEEDED steps) is implied by the invariant inv_b (+ I4): the model of the check,
   model/GraphCheck.v (tied to the code by the E2 startup family), accepts every state satisfying it
   and changes nothing.  The lemmas about reachability are those of proofs/CrashProofs.v (C05), restated
   for the definitions of GraphCheck.v so that the closure of props/C09.v does not depend on C05's
   generated files. *)
From Coq Require Import List NArith Bool Lia Arith PeanoNat.
From SV Require Import lib.Bytes lib.Closure model.Graph model.GraphDump model.GraphInv model.GraphTree model.GraphTreeInv
  model.GraphCheck model.GraphExt.
Import ListNotations.
Open Scope N_scope.

Definition cc_row_b (s : st) : bool := forallb (row_flag_ok s) (nodes s).
Definition cc_reach_b (s : st) : bool :=
  forallb (fun n => negb (Bool.eqb (ndet n) (mem_key (nk n) (reach_down s)))) (nodes s).
Definition cc_valid_b (s : st) : bool := node_rows_ok s.
Definition cc_trellis_b (s : st) : bool := cc_row_b s && cc_reach_b s && cc_valid_b s.
Lemma trellis_consistent_cc s : trellis_consistent_b s = cc_trellis_b s.
Proof. reflexivity. Qed.

(* ------------------------------------------------------------------------------------------ *)
(* Keys, lookups                                                                               *)
(* ------------------------------------------------------------------------------------------ *)
Lemma kind_eqb_eq a b : kind_eqb a b = true <-> a = b.
Proof. destruct a, b; cbn; split; intro H; try reflexivity; try discriminate. Qed.

Lemma key_eqb_eq (a b : key) : key_eqb a b = true <-> a = b.
Proof.
  destruct a as [ka la], b as [kb lb]. unfold key_eqb. cbn [fst snd].
  rewrite andb_true_iff, kind_eqb_eq, str_eqb_eq. split.
  - intros [H1 H2]. subst. reflexivity.
  - intros H. inversion H. split; reflexivity.
Qed.
Lemma key_eqb_refl a : key_eqb a a = true.
Proof. apply key_eqb_eq. reflexivity. Qed.

Lemma mem_key_In k l : mem_key k l = true <-> In k l.
Proof.
  unfold mem_key. rewrite existsb_exists. split.
  - intros [x [Hin Heq]]. apply key_eqb_eq in Heq. subst. exact Hin.
  - intros Hin. exists k. split; [exact Hin | apply key_eqb_refl].
Qed.
Lemma mem_key_app k a b : mem_key k (a ++ b) = mem_key k a || mem_key k b.
Proof. unfold mem_key. apply existsb_app. Qed.

Lemma find_node_some k s n : find_node k s = Some n -> In n (nodes s) /\ nk n = k.
Proof.
  unfold find_node. intros H. apply find_some in H. destruct H as [Hin Heq].
  apply key_eqb_eq in Heq. split; assumption.
Qed.

Lemma nodup_find (l : list node) (n : node) :
  nodup_by key_eqb (map nk l) = true -> In n l -> find (fun m => key_eqb (nk m) (nk n)) l = Some n.
Proof.
  induction l as [|m l IH]; intros Hnd Hin; [destruct Hin|].
  cbn [map nodup_by] in Hnd. apply andb_true_iff in Hnd. destruct Hnd as [Hm Hnd].
  cbn [find]. destruct Hin as [Heq | Hin].
  - subst. rewrite key_eqb_refl. reflexivity.
  - destruct (key_eqb (nk m) (nk n)) eqn:E.
    + exfalso. apply negb_true_iff in Hm.
      assert (X : existsb (key_eqb (nk m)) (map nk l) = true).
      { apply existsb_exists. exists (nk n). split; [apply in_map; exact Hin | exact E]. }
      rewrite X in Hm. discriminate.
    + apply IH; assumption.
Qed.

Lemma find_node_nodup s n :
  nodup_by key_eqb (map nk (nodes s)) = true -> In n (nodes s) -> find_node (nk n) s = Some n.
Proof. intros. unfold find_node. apply nodup_find; assumption. Qed.

Lemma inv_nodes_nodup s : inv_nodes_b s = true -> nodup_by key_eqb (map nk (nodes s)) = true.
Proof.
  unfold inv_nodes_b. intros H. apply andb_true_iff in H. destruct H as [H _].
  apply andb_true_iff in H. destruct H as [H _]. exact H.
Qed.

Lemma inv_nodes_root s : inv_nodes_b s = true ->
  exists r, find_node root_key s = Some r /\ ncre r = Some root_key /\ ndet r = false.
Proof.
  unfold inv_nodes_b. intros H. apply andb_true_iff in H. destruct H as [H _].
  apply andb_true_iff in H. destruct H as [_ H].
  destruct (find_node root_key s) as [r|]; [|discriminate]. exists r. split; [reflexivity|].
  apply andb_true_iff in H. destruct H as [H1 H2]. split.
  - destruct (ncre r) as [c|]; [|discriminate]. cbn [okey_eqb] in H1. apply key_eqb_eq in H1. subst. reflexivity.
  - apply negb_true_iff in H2. exact H2.
Qed.

(* ------------------------------------------------------------------------------------------ *)
(* Reachability: the downward closure of the SQL query versus the invariant's upward walk      *)
(* ------------------------------------------------------------------------------------------ *)
Lemma prod_edges_In c k s :
  In (c, k) (prod_edges s) <->
  exists n, In n (nodes s) /\ ncre n = Some c /\ nk n = k /\ key_eqb k c = false.
Proof.
  unfold prod_edges. rewrite in_flat_map. split.
  - intros [n [Hin H]]. exists n. destruct (ncre n) as [c'|] eqn:Ec; [|destruct H].
    destruct (key_eqb (nk n) c') eqn:E; [destruct H|]. destruct H as [H|[]]. inversion H. subst.
    repeat split; assumption.
  - intros [n [Hin [Hc [Hk E]]]]. exists n. split; [exact Hin|]. rewrite Hc, Hk, E. left. reflexivity.
Qed.

Lemma prod_edges_length s : (length (prod_edges s) <= length (nodes s))%nat.
Proof.
  unfold prod_edges. induction (nodes s) as [|n l IH]; [apply le_n|].
  cbn [flat_map length]. rewrite app_length.
  destruct (ncre n) as [c|]; [destruct (key_eqb (nk n) c)|]; cbn [length]; lia.
Qed.

Lemma reaches_root_path d : forall k s, reaches_root d k s = true -> path (prod_edges s) root_key k.
Proof.
  induction d as [|d IH]; intros k s H; cbn [reaches_root] in H.
  - destruct (key_eqb k root_key) eqn:E; [|discriminate]. apply key_eqb_eq in E. subst. apply path_refl.
  - destruct (key_eqb k root_key) eqn:E; [apply key_eqb_eq in E; subst; apply path_refl|].
    unfold creator_of in H. destruct (find_node k s) as [n|] eqn:Ef; [|discriminate].
    destruct (ncre n) as [c|] eqn:Ec; [|discriminate].
    apply IH in H. apply find_node_some in Ef. destruct Ef as [Hin Hk].
    destruct (key_eqb k c) eqn:Ekc.
    + apply key_eqb_eq in Ekc. subst c. exact H.
    + eapply path_snoc; [exact H|]. apply prod_edges_In. exists n. repeat split; assumption.
Qed.

Definition attached_key (s : st) (k : key) : Prop := exists n, find_node k s = Some n /\ ndet n = false.

Lemma path_attached s : inv_nodes_b s = true -> inv_local_b s = true ->
  forall k, path (prod_edges s) root_key k -> attached_key s k.
Proof.
  intros Hn Hl. apply path_rind.
  - destruct (inv_nodes_root s Hn) as [r [Hf [_ Hd]]]. exists r. split; assumption.
  - intros b c _ [bn [Hfb Hdb]] He. apply prod_edges_In in He. destruct He as [m [Hin [Hc [Hk Hne]]]].
    unfold inv_local_b in Hl. rewrite forallb_forall in Hl. specialize (Hl m Hin).
    pose proof (find_node_nodup s m (inv_nodes_nodup s Hn) Hin) as Hfm. rewrite Hk in Hfm.
    destruct (key_eqb (nk m) root_key) eqn:Er.
    + apply key_eqb_eq in Er. rewrite Hk in Er. subst c.
      destruct (inv_nodes_root s Hn) as [r [Hf [_ Hd]]]. exists r. split; assumption.
    + cbn [orb] in Hl. rewrite Hc, Hfb in Hl.
      apply andb_true_iff in Hl. destruct Hl as [Hl _]. apply andb_true_iff in Hl. destruct Hl as [Hl _].
      apply eqb_prop in Hl. exists m. split; [exact Hfm | congruence].
Qed.


Lemma inv_b_parts s : inv_b s = true ->
  inv_nodes_b s = true /\ inv_local_b s = true /\ inv_reach_b s = true /\ inv_rows_b s = true.
Proof.
  unfold inv_b. intros H. rewrite !andb_true_iff in H. tauto.
Qed.

Lemma cc_row_of_inv s : inv_nodes_b s = true -> inv_local_b s = true -> cc_row_b s = true.
Proof.
  intros Hn Hl. unfold cc_row_b. apply forallb_forall. intros n Hin. unfold row_flag_ok.
  unfold inv_local_b in Hl. rewrite forallb_forall in Hl. specialize (Hl n Hin).
  destruct (key_eqb (nk n) root_key) eqn:Er.
  - apply key_eqb_eq in Er. destruct (inv_nodes_root s Hn) as [r [Hf [Hc Hd]]].
    pose proof (find_node_nodup s n (inv_nodes_nodup s Hn) Hin) as Hf2. rewrite Er, Hf in Hf2.
    inversion Hf2. subst r. rewrite Hc, Hf. apply eqb_reflx.
  - cbn [orb] in Hl. destruct (ncre n) as [c|].
    + destruct (find_node c s) as [cn|]; [|discriminate].
      apply andb_true_iff in Hl. destruct Hl as [Hl _]. apply andb_true_iff in Hl. destruct Hl as [Hl _]. exact Hl.
    + rewrite Hl. reflexivity.
Qed.

Lemma cc_reach_of_inv s : inv_nodes_b s = true -> inv_local_b s = true -> inv_reach_b s = true ->
  cc_reach_b s = true.
Proof.
  intros Hn Hl Hr. unfold cc_reach_b. apply forallb_forall. intros n Hin.
  unfold inv_reach_b in Hr. rewrite forallb_forall in Hr. specialize (Hr n Hin).
  assert (Hspec : mem_key (nk n) (reach_down s) = true <-> path (prod_edges s) root_key (nk n)).
  { unfold reach_down.
    change (mem_key (nk n)) with (memb key_eqb (nk n)).
    rewrite (closure_spec key_eqb key_eqb_eq); [|apply prod_edges_length]. split.
    - intros [a [[Ha|[]] Hp]]. subst a. exact Hp.
    - intros Hp. exists root_key. split; [left; reflexivity | exact Hp]. }
  destruct (ndet n) eqn:Ed.
  - destruct (mem_key (nk n) (reach_down s)) eqn:Em; [|reflexivity]. exfalso.
    pose proof (proj1 Hspec eq_refl) as Hp. apply (path_attached s Hn Hl) in Hp. destruct Hp as [m [Hf Hd]].
    rewrite (find_node_nodup s n (inv_nodes_nodup s Hn) Hin) in Hf. inversion Hf. subst m. congruence.
  - cbn [negb] in Hr. apply eqb_prop in Hr. symmetry in Hr. apply reaches_root_path in Hr.
    apply (proj2 Hspec) in Hr. rewrite Hr. reflexivity.
Qed.

Lemma cc_valid_of_inv s : inv_rows_b s = true -> cc_valid_b s = true.
Proof.
  unfold inv_rows_b, cc_valid_b, node_rows_ok. intros H.
  repeat (apply andb_true_iff in H; destruct H as [H ?]). assumption.
Qed.

Lemma trellis_check_accepts_inv s : inv_b s = true -> trellis_consistent_b s = true.
Proof.
  intros H. apply inv_b_parts in H. destruct H as [Hn [Hl [Hr Hrows]]].
  rewrite trellis_consistent_cc. unfold cc_trellis_b.
  rewrite (cc_row_of_inv s Hn Hl), (cc_reach_of_inv s Hn Hl Hr), (cc_valid_of_inv s Hrows). reflexivity.
Qed.

Lemma filter_nil {A} (p : A -> bool) l : (forall x, In x l -> p x = false) -> filter p l = [].
Proof.
  induction l as [|x l IH]; intros H; [reflexivity|]. cbn [filter].
  rewrite (H x (or_introl eq_refl)). apply IH. intros y Hy. apply H. right. exact Hy.
Qed.

(* inv_succeeded_b (I4) says exactly that the Workflow part of the check finds nothing *)
Lemma no_bad_output_of_inv s : inv_succeeded_b s = true -> succeeded_with_bad_output s = [].
Proof.
  unfold inv_succeeded_b, succeeded_with_bad_output. intros H. rewrite forallb_forall in H.
  rewrite filter_nil; [reflexivity|]. intros r Hin. specialize (H r Hin).
  destruct (sstate_eqb (sst r) SSucceeded); [|reflexivity]. cbn [negb orb andb] in *.
  rewrite forallb_forall in H.
  destruct (existsb _ (file_sinks_of_step (sl r) s)) eqn:E; [|reflexivity]. exfalso.
  apply existsb_exists in E. destruct E as [f [Hf E]]. specialize (H f Hf). unfold bad_output in E.
  destruct (is_detached (KFile, f) s); [discriminate|]. cbn [negb orb andb] in *.
  destruct (fstate_of f s) as [[]|]; discriminate.
Qed.

Lemma code_check_accepts_inv s :
  inv_b s = true -> inv_succeeded_b s = true -> code_check_accepts_b s = true.
Proof.
  intros Hi Hs. unfold code_check_accepts_b.
  rewrite (trellis_check_accepts_inv s Hi), (no_bad_output_of_inv s Hs). reflexivity.
Qed.

(* ... and then the startup check is the identity: no error, no repair *)
Lemma check_consistency_identity s :
  inv_b s = true -> inv_succeeded_b s = true -> check_consistency s = Ok s.
Proof.
  intros Hi Hs. unfold check_consistency.
  rewrite (trellis_check_accepts_inv s Hi), (no_bad_output_of_inv s Hs). reflexivity.
Qed.
