(* C14: the composition.  Watch-mode rebuild (record_change fold on the old state, FAILED reset, commit,
   build) = restart (interrupted/FAILED reset, env rescan, file + nglob rescan, build). *)
From Coq Require Import List NArith Bool Lia.
From SV Require Import lib.Bytes gen.GenWatch model.Watch model.WatchBuild proofs.WatchProofs.
Import ListNotations.
Open Scope N_scope.

Lemma ostr_eqb_refl a : ostr_eqb a a = true.
Proof. destruct a; cbn; [apply str_eqb_refl | reflexivity]. Qed.

Lemma relevant_iff_not_excluded s :
  mem_fstate s relevant_states = negb (mem_fstate s rescan_excluded_states).
Proof. destruct s; vm_compute; reflexivity. Qed.

Section FoldFacts.
  Variable relevant : bool -> path -> bool.
  Variable under : bool -> path -> list path.

  Lemma last_effect_witness items p v :
    last_effect relevant under items p = Some v ->
    exists it, In it items /\ effect relevant under it p = Some v.
  Proof.
    induction items as [|it items IH]; cbn [last_effect]; [discriminate|].
    destruct (last_effect relevant under items p) as [b|] eqn:L.
    - intros E. inversion E; subst. destruct (IH eq_refl) as [it' [H1 H2]]. exists it'. split; [right|]; assumption.
    - intros E. exists it. split; [left; reflexivity | exact E].
  Qed.

  (* a path in one of the two sets went through the relevance filter, or was listed under a directory *)
  Lemma effect_cases it p v :
    effect relevant under it p = Some v ->
    relevant (it_build it) p = true \/ In p (under (it_build it) (it_path it)).
  Proof.
    unfold effect. destruct (it_change it).
    - destruct (str_eqb (it_path it) p && relevant (it_build it) p) eqn:E; [|discriminate].
      apply andb_true_iff in E as [_ E]. left. exact E.
    - destruct (str_eqb (it_path it) p && relevant (it_build it) p) eqn:E; [|discriminate].
      apply andb_true_iff in E as [_ E]. left. exact E.
    - destruct (pmem p (under (it_build it) (it_path it))) eqn:E; [|discriminate].
      right. apply pmem_In. exact E.
  Qed.
End FoldFacts.

Section RebuildProofs.
  Variable R : Type.
  Notation below := (below R).
  Notation G := (G R).
  Variable on_action : action -> path -> list fnode * below -> list fnode * below.
  Variable on_nglob_change : str -> list fnode * below -> list fnode * below.
  Variable mark_step_pending : str -> SR R -> SR R.
  Variable hash_fs : path -> option fh.
  Variable exists_fs : path -> bool.
  Variable matches : N -> path -> bool.
  Variable universe : list path.
  Variable getenv : str -> option str.
  Variable outcome : Type.
  Variable build : G -> outcome.

  Notation fail_watch' := (fail_watch R mark_step_pending).
  Notation fail_restart' := (fail_restart R mark_step_pending).

  (* --- FAILED steps: both ways -------------------------------------------------------------- *)
  Definition no_step_in_flight (g : G) : Prop :=
    forall s, In s (fst (g_rest g)) -> s_state s <> SRunning /\ s_state s <> SChecking.

  Lemma fail_restart_eq_watch g : no_step_in_flight g -> fail_restart' g = fail_watch' g.
  Proof.
    intros H. unfold fail_restart, fail_watch. f_equal.
    apply failed_steps_pending_both_ways. exact H.
  Qed.

  (* --- environment variables: rescanned on restart only -------------------------------------- *)
  Definition env_unchanged (g : G) : Prop :=
    forall e, In e (g_envs R g) -> e_attached e = true -> getenv (e_name e) = e_value e.

  Lemma rescan_env_id g : env_unchanged g -> rescan_env R mark_step_pending getenv g = g.
  Proof.
    intros H. unfold rescan_env.
    assert (E : filter (env_changed getenv) (g_envs R g) = []).
    { unfold env_unchanged in H. induction (g_envs R g) as [|e l IH]; [reflexivity|]. cbn [filter].
      assert (C : env_changed getenv e = false).
      { unfold env_changed. destruct (e_attached e) eqn:A; [|reflexivity].
        rewrite (H e (or_introl eq_refl) A), ostr_eqb_refl. reflexivity. }
      rewrite C. apply IH. intros e' He'. apply H. right. exact He'. }
    rewrite E. reflexivity.
  Qed.

  (* The legitimate difference, made explicit: with one attached step whose recorded variable differs
     from the environment of the restarted director, the restart makes that step pending and the
     watch-mode rebuild does not (file events do not carry environment changes). *)

  (* --- what the fold guarantees about the two sets ------------------------------------------- *)
  (* recorded matches of attached patterns are not build products: an attached node on such a path is in
     a relevant state (register_nglob and _raise_if_glob_match reject the other cases) *)
  Definition matches_unowned (g : G) : Prop :=
    forall r p f, In r (g_nglobs g) -> ng_attached r = true -> In p (ng_matches r) ->
                  find_attached (g_files g) p = Some f -> mem_fstate (f_state f) relevant_states = true.

  Definition matches_sound (g : G) : Prop :=
    forall r p, In r (g_nglobs g) -> ng_attached r = true -> In p (ng_matches r) -> matches (ng_pat r) p = true.

  Lemma relevant_weaken g b p :
    change_is_relevant below matches g b p = true -> change_is_relevant below matches g false p = true.
  Proof.
    unfold change_is_relevant. destruct (find_attached (g_files g) p) as [f|]; [|trivial].
    destruct b; [apply relevant_build_subset | trivial].
  Qed.

  Lemma under_relevant g b d p :
    NoDup (map f_path (g_files g)) -> matches_sound g -> matches_unowned g ->
    In p (relevant_paths_under below g b d) -> change_is_relevant below matches g false p = true.
  Proof.
    intros ND MS MU H. apply relevant_paths_under_spec in H as [[f [H1 [H2 [H3 [_ E]]]]] | [r [H1 [H2 [H3 _]]]]].
    - subst p. unfold change_is_relevant. rewrite (find_attached_in _ f ND H1 H2).
      destruct b; [apply relevant_build_subset|]; exact H3.
    - unfold change_is_relevant. destruct (find_attached (g_files g) p) as [f|] eqn:F.
      + exact (MU r p f H1 H2 H3 F).
      + unfold matches_any_glob. apply existsb_exists. exists r. split; [exact H1|].
        rewrite H2, (MS r p H1 H2 H3). reflexivity.
  Qed.

  Lemma fold_sets_relevant g items p :
    NoDup (map f_path (g_files g)) -> matches_sound g -> matches_unowned g ->
    let w := fold_changes (change_is_relevant below matches g) (relevant_paths_under below g) items ws_empty in
    In p (ws_updated w) \/ In p (ws_deleted w) ->
    change_is_relevant below matches g false p = true.
  Proof.
    intros ND MS MU w H.
    destruct (fold_last_event_wins (change_is_relevant below matches g) (relevant_paths_under below g) items p)
      as [HU [HD _]]. fold w in HU, HD.
    assert (exists v, last_effect (change_is_relevant below matches g) (relevant_paths_under below g) items p = Some v)
      as [v L].
    { destruct H as [H|H]; apply pmem_In in H; [exists true; apply HU | exists false; apply HD]; exact H. }
    destruct (last_effect_witness _ _ items p v L) as [it [_ E]].
    destruct (effect_cases _ _ it p v E) as [Rl|Un].
    - eapply relevant_weaken. exact Rl.
    - eapply under_relevant; eassumption.
  Qed.

  Lemma fold_sets_disjoint (g : G) items p :
    let w := fold_changes (change_is_relevant below matches g) (relevant_paths_under below g) items ws_empty in
    In p (ws_updated w) -> In p (ws_deleted w) -> False.
  Proof.
    intros w HU HD.
    destruct (fold_last_event_wins (change_is_relevant below matches g) (relevant_paths_under below g) items p)
      as [_ [_ X]]. fold w in X. apply pmem_In in HU. apply pmem_In in HD. rewrite (X HU) in HD. discriminate.
  Qed.

  (* the part of `Covers` that is about the file system (what (4) changes_cover_difference is for) *)
  Record CoversFS (ao : bool) (g : G) (U D : list path) : Prop := {
    cfs_files : forall f, In f (g_files g) -> rescan_selected f = true ->
                          pmem (f_path f) (U ++ D) = false -> hash_fs (f_path f) = f_hash f;
    cfs_globs : forall r p, In r (g_nglobs g) -> ng_attached r = true -> In p universe ->
                            matches (ng_pat r) p = true ->
                            exists_fs p =
                            if pmem p D then false
                            else if pmem p U && negb (pruned hash_fs (g_files g) ao p) then true
                            else pmem p (ng_matches r)
  }.

  (* the FAILED reset does not take relevance away (it turns BUILT outputs OUTDATED, never PLANNED or
     VOLATILE, attaches / detaches nothing, leaves the nglob table alone) *)
  Definition fail_keeps_relevant (g : G) : Prop :=
    forall p, change_is_relevant below matches g false p = true ->
              change_is_relevant below matches (fail_watch' g) false p = true.

  Theorem rebuild_pre_equals_restart_pre (ao : bool) (g : G) (items : list item) :
    let w := fold_changes (change_is_relevant below matches g) (relevant_paths_under below g) items ws_empty in
    let g1 := fail_watch' g in
    NoDup (map f_path (g_files g)) -> matches_sound g -> matches_unowned g ->
    no_step_in_flight g -> fail_keeps_relevant g ->
    env_unchanged g1 ->
    WellFormed below matches g1 ->
    CoversFS ao g1 (ws_updated w) (ws_deleted w) ->
    (ao = false -> detached_unmatched below matches g1) ->
    watch_commit_gen below on_action on_nglob_change hash_fs matches universe ao g1 (ws_updated w) (ws_deleted w)
    = restart_pre R on_action on_nglob_change mark_step_pending hash_fs exists_fs matches universe getenv g.
  Proof.
    intros w g1 ND MS MU NF FK EU WF CF DU. unfold restart_pre.
    rewrite (fail_restart_eq_watch g NF). fold g1. rewrite (rescan_env_id g1 EU).
    apply watch_commit_equals_rescan_gen; [exact WF | | exact DU].
    constructor.
    - intros p Hp. apply FK. apply (fold_sets_relevant g items p ND MS MU). left. exact Hp.
    - intros p Hp. apply FK. apply (fold_sets_relevant g items p ND MS MU). right. exact Hp.
    - intros p. apply fold_sets_disjoint.
    - exact (cfs_files ao g1 _ _ CF).
    - exact (cfs_globs ao g1 _ _ CF).
  Qed.

  (* ... and therefore outputs, graph and return code of the build phase *)
  Theorem rebuild_equals_restart (ao : bool) (g : G) (items : list item) :
    let w := fold_changes (change_is_relevant below matches g) (relevant_paths_under below g) items ws_empty in
    let g1 := fail_watch' g in
    NoDup (map f_path (g_files g)) -> matches_sound g -> matches_unowned g ->
    no_step_in_flight g -> fail_keeps_relevant g ->
    env_unchanged g1 ->
    WellFormed below matches g1 ->
    CoversFS ao g1 (ws_updated w) (ws_deleted w) ->
    (ao = false -> detached_unmatched below matches g1) ->
    option_map build
      (watch_rebuild_pre_with R mark_step_pending matches
         (watch_commit_gen below on_action on_nglob_change hash_fs matches universe ao) g items)
    = restart R on_action on_nglob_change mark_step_pending hash_fs exists_fs matches universe getenv outcome build g.
  Proof.
    intros w g1 ND MS MU NF FK EU WF CF DU. unfold restart, watch_rebuild_pre_with.
    fold w. fold g1. f_equal.
    apply (rebuild_pre_equals_restart_pre ao g items); assumption.
  Qed.
End RebuildProofs.

(* ------------------------------------------------------------------------------------------ *)
(* the legitimate difference: an environment variable changed between the two directors        *)
(* ------------------------------------------------------------------------------------------ *)

Definition id_action' : action -> path -> list fnode * below unit -> list fnode * below unit := fun _ _ x => x.
Definition id_nglob' : str -> list fnode * below unit -> list fnode * below unit := fun _ x => x.
Definition env_step : str := [115].     (* "s" *)
Definition env_g : G unit :=
  mk_g [] [] ([mk_srow env_step true SSucceeded], ([mk_erow env_step true [86] (Some [49])], tt)).   (* V=1 *)
Definition env_msp : str -> SR unit -> SR unit :=
  fun l x => (map (fun s => if str_eqb (s_label s) l then mk_srow (s_label s) (s_attached s) SPending else s) (fst x), snd x).
Definition env_new : str -> option str := fun _ => Some [50].                                   (* V=2 *)

Lemma env_change_seen_by_restart_only :
  watch_rebuild_pre unit id_action' id_nglob' env_msp (fun _ => None) (fun _ _ => false) [] env_g []
  = Some env_g /\
  restart_pre unit id_action' id_nglob' env_msp (fun _ => None) (fun _ => false) (fun _ _ => false) [] env_new env_g
  = Some (mk_g [] [] ([mk_srow env_step true SPending], ([mk_erow env_step true [86] (Some [50])], tt))).
Proof. vm_compute. split; reflexivity. Qed.
