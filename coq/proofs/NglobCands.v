(* C17: the candidates of NamedGlob.glob() are complete for the compiled regex on the fragment G1
   (model/GlobTree.v): every existing path of a well-formed finite tree that the regex accepts is
   returned by glob.glob (GlobSem.glob_paths) for the translated plain pattern. *)
From Coq Require Import List NArith Bool Arith Lia.
From SV Require Import lib.Bytes.
From SV Require Import lib.Regex.
From SV Require Import model.Nglob.
From SV Require Import model.GlobSem.
From SV Require Import model.GlobTree.
From SV Require Import proofs.NglobBackref.
From SV Require Import proofs.NglobShape.
From SV Require Import proofs.NglobNamed.
From SV Require Import proofs.NglobCorrect.
Import ListNotations.
Open Scope N_scope.

(* ------------------------------------------------------------------------------------------ *)
(* 1. Character-level matching of a plain pattern text (literals, ?, * ; the separator is an     *)
(*    ordinary literal that the wildcards do not match)                                         *)
(* ------------------------------------------------------------------------------------------ *)

Inductive wm : str -> str -> Prop :=
| wm_nil : wm [] []
| wm_star0 p s : wm p s -> wm (42 :: p) s
| wm_starS p c s : c <> 47 -> wm (42 :: p) s -> wm (42 :: p) (c :: s)
| wm_q p c s : c <> 47 -> wm p s -> wm (63 :: p) (c :: s)
| wm_lit c p s : plain_char c = true -> wm p s -> wm (c :: p) (c :: s).

Lemma no_slash_nosep s : no_slash s = nosep s.
Proof. reflexivity. Qed.

Lemma plain_char_inv c : plain_char c = true -> c <> 42 /\ c <> 63 /\ c <> 91.
Proof.
  unfold plain_char. intros H. apply negb_true_iff in H. apply orb_false_iff in H as [H H3].
  apply orb_false_iff in H as [H1 H2]. apply N.eqb_neq in H1, H2, H3. auto.
Qed.

Lemma nosep_cons c s : nosep (c :: s) = negb (c =? 47) && nosep s.
Proof. reflexivity. Qed.

Lemma nosep_app a b : nosep (a ++ b) = nosep a && nosep b.
Proof. apply forallb_app. Qed.

(* R1: fnmatch on one component agrees with wm (fuel irrelevance included) *)
Lemma wm_fnm p s : wm p s -> forall fuel, (length p + length s < fuel)%nat -> fnm fuel p s = true.
Proof.
  induction 1 as [|p s H IH|p c s Hc H IH|p c s Hc H IH|c p s Hc H IH]; intros fuel Hf;
    (destruct fuel as [|f]; [cbn in Hf; lia|]); cbn [length] in Hf.
  - reflexivity.
  - cbn [fnm]. change (42 =? 42) with true. cbn iota. rewrite IH by lia. reflexivity.
  - cbn [fnm]. change (42 =? 42) with true. cbn iota. rewrite (IH f) by (cbn [length]; lia). apply orb_true_r.
  - cbn [fnm]. change (63 =? 42) with false. change (63 =? 63) with true. cbn iota. apply IH. lia.
  - cbn [fnm]. destruct (plain_char_inv c Hc) as [H1 [H2 H3]].
    apply N.eqb_neq in H1, H2, H3. rewrite H1, H2, H3, N.eqb_refl. cbn [andb]. apply IH. lia.
Qed.

Lemma wm_fnmatch p s : wm p s -> fnmatch p s = true.
Proof. intros H. unfold fnmatch. apply (wm_fnm p s H). lia. Qed.

Definition plain_pat (p : str) : bool := forallb (fun c => (c =? 42) || (c =? 63) || plain_char c) p.

Lemma fnm_wm fuel : forall p s, plain_pat p = true -> nosep s = true -> fnm fuel p s = true -> wm p s.
Proof.
  induction fuel as [|f IH]; intros p s Hp Hs H; [discriminate|].
  destruct p as [|c p'].
  - cbn [fnm] in H. destruct s; [constructor|discriminate].
  - cbn [plain_pat forallb] in Hp. apply andb_true_iff in Hp as [Hc Hp'].
    cbn [fnm] in H. destruct (N.eqb_spec c 42) as [->|H42].
    + apply orb_true_iff in H as [H|H].
      * apply wm_star0. apply IH; assumption.
      * destruct s as [|x s']; [discriminate|]. rewrite nosep_cons in Hs. apply andb_true_iff in Hs as [Hx Hs'].
        apply wm_starS; [intros ->; discriminate|]. apply IH; [|exact Hs'|exact H].
        cbn [plain_pat forallb]. rewrite Hp'. reflexivity.
    + destruct (N.eqb_spec c 63) as [->|H63].
      * destruct s as [|x s']; [discriminate|]. rewrite nosep_cons in Hs. apply andb_true_iff in Hs as [Hx Hs'].
        apply wm_q; [intros ->; discriminate|]. apply IH; assumption.
      * cbn [orb] in Hc. pose proof Hc as Hc'. apply plain_char_inv in Hc' as [_ [_ H91]].
        apply N.eqb_neq in H91. rewrite H91 in H.
        destruct s as [|x s']; [discriminate|]. rewrite nosep_cons in Hs. apply andb_true_iff in Hs as [Hx Hs'].
        apply andb_true_iff in H as [Hxc H]. apply N.eqb_eq in Hxc. subst x.
        apply wm_lit; [exact Hc|]. apply IH; assumption.
Qed.

Theorem fnmatch_component_spec p s :
  plain_pat p = true -> nosep s = true -> (fnmatch p s = true <-> wm p s).
Proof.
  intros Hp Hs. split; [apply fnm_wm; assumption|apply wm_fnmatch].
Qed.

(* a pattern that matches a separator-free text is separator-free *)
Lemma wm_nosep_pat p s : wm p s -> nosep s = true -> nosep p = true.
Proof.
  induction 1 as [|p s H IH|p c s Hc H IH|p c s Hc H IH|c p s Hc H IH]; intros Hs.
  - reflexivity.
  - rewrite nosep_cons. rewrite (IH Hs). reflexivity.
  - rewrite nosep_cons in Hs. apply andb_true_iff in Hs as [_ Hs]. exact (IH Hs).
  - rewrite nosep_cons in Hs. apply andb_true_iff in Hs as [_ Hs]. rewrite nosep_cons, (IH Hs). reflexivity.
  - rewrite nosep_cons in Hs. apply andb_true_iff in Hs as [Hx Hs]. rewrite nosep_cons, Hx, (IH Hs). reflexivity.
Qed.

(* and conversely *)
Lemma wm_nosep_str p s : wm p s -> nosep p = true -> nosep s = true.
Proof.
  induction 1 as [|p s H IH|p c s Hc H IH|p c s Hc H IH|c p s Hc H IH]; intros Hp.
  - reflexivity.
  - rewrite nosep_cons in Hp. apply andb_true_iff in Hp as [_ Hp]. exact (IH Hp).
  - rewrite nosep_cons, (IH Hp). apply N.eqb_neq in Hc. rewrite Hc. reflexivity.
  - rewrite nosep_cons in Hp. apply andb_true_iff in Hp as [_ Hp]. rewrite nosep_cons, (IH Hp).
    apply N.eqb_neq in Hc. rewrite Hc. reflexivity.
  - rewrite nosep_cons in Hp. apply andb_true_iff in Hp as [Hx Hp]. rewrite nosep_cons, Hx, (IH Hp). reflexivity.
Qed.

(* splitting at the first separator of the text *)
Lemma wm_split_str pat s : wm pat s -> forall n s2, s = n ++ 47 :: s2 -> nosep n = true ->
  exists c1 rest, pat = c1 ++ 47 :: rest /\ nosep c1 = true /\ wm c1 n /\ wm rest s2.
Proof.
  induction 1 as [|p s H IH|p c s Hc H IH|p c s Hc H IH|c p s Hc H IH]; intros n s2 Hs Hn.
  - destruct n; discriminate.
  - destruct (IH n s2 Hs Hn) as [c1 [rest [-> [H1 [H2 H3]]]]].
    exists (42 :: c1), rest. split; [reflexivity|]. split; [rewrite nosep_cons, H1; reflexivity|].
    split; [apply wm_star0; exact H2|exact H3].
  - destruct n as [|x n']; cbn [app] in Hs; inversion Hs; subst; [congruence|].
    rewrite nosep_cons in Hn. apply andb_true_iff in Hn as [Hx Hn].
    destruct (IH n' s2 eq_refl Hn) as [c1 [rest [Hp [H1 [H2 H3]]]]].
    destruct c1 as [|y c1']; cbn [app] in Hp; inversion Hp; subst.
    exists (42 :: c1'), rest. split; [reflexivity|]. split; [exact H1|].
    split; [apply wm_starS; assumption|exact H3].
  - destruct n as [|x n']; cbn [app] in Hs; inversion Hs; subst; [congruence|].
    rewrite nosep_cons in Hn. apply andb_true_iff in Hn as [Hx Hn].
    destruct (IH n' s2 eq_refl Hn) as [c1 [rest [-> [H1 [H2 H3]]]]].
    exists (63 :: c1), rest. split; [reflexivity|]. split; [rewrite nosep_cons, H1; reflexivity|].
    split; [apply wm_q; assumption|exact H3].
  - destruct n as [|x n']; cbn [app] in Hs; inversion Hs; subst.
    + exists [], p. split; [reflexivity|]. split; [reflexivity|]. split; [constructor|exact H].
    + rewrite nosep_cons in Hn. apply andb_true_iff in Hn as [Hx Hn].
      destruct (IH n' s2 eq_refl Hn) as [c1 [rest [-> [H1 [H2 H3]]]]].
      exists (x :: c1), rest. split; [reflexivity|]. split; [rewrite nosep_cons, Hx, H1; reflexivity|].
      split; [apply wm_lit; assumption|exact H3].
Qed.

(* splitting at the first separator of the pattern *)
Lemma wm_split_pat pat s : wm pat s -> forall c1 rest, pat = c1 ++ 47 :: rest -> nosep c1 = true ->
  exists n s2, s = n ++ 47 :: s2 /\ nosep n = true /\ wm c1 n /\ wm rest s2.
Proof.
  induction 1 as [|p s H IH|p c s Hc H IH|p c s Hc H IH|c p s Hc H IH]; intros c1 rest Hp Hn.
  - destruct c1; discriminate.
  - destruct c1 as [|y c1']; cbn [app] in Hp; inversion Hp; subst.
    rewrite nosep_cons in Hn. apply andb_true_iff in Hn as [_ Hn].
    destruct (IH c1' rest eq_refl Hn) as [n [s2 [-> [H1 [H2 H3]]]]].
    exists n, s2. split; [reflexivity|]. split; [exact H1|]. split; [apply wm_star0; exact H2|exact H3].
  - destruct (IH c1 rest Hp Hn) as [n [s2 [-> [H1 [H2 H3]]]]].
    destruct c1 as [|y c1']; cbn [app] in Hp; inversion Hp; subst.
    exists (c :: n), s2. split; [reflexivity|]. apply N.eqb_neq in Hc as Hc'.
    split; [rewrite nosep_cons, Hc', H1; reflexivity|]. split; [apply wm_starS; assumption|exact H3].
  - destruct c1 as [|y c1']; cbn [app] in Hp; inversion Hp; subst.
    rewrite nosep_cons in Hn. apply andb_true_iff in Hn as [_ Hn].
    destruct (IH c1' rest eq_refl Hn) as [n [s2 [-> [H1 [H2 H3]]]]].
    exists (c :: n), s2. split; [reflexivity|]. apply N.eqb_neq in Hc as Hc'.
    split; [rewrite nosep_cons, Hc', H1; reflexivity|]. split; [apply wm_q; assumption|exact H3].
  - destruct c1 as [|y c1']; cbn [app] in Hp; inversion Hp; subst.
    + exists [], s. split; [reflexivity|]. split; [reflexivity|]. split; [constructor|exact H].
    + rewrite nosep_cons in Hn. apply andb_true_iff in Hn as [Hy Hn].
      destruct (IH c1' rest eq_refl Hn) as [n [s2 [-> [H1 [H2 H3]]]]].
      exists (y :: n), s2. split; [reflexivity|]. split; [rewrite nosep_cons, Hy, H1; reflexivity|].
      split; [apply wm_lit; assumption|exact H3].
Qed.

(* ------------------------------------------------------------------------------------------ *)
(* 2. Components                                                                               *)
(* ------------------------------------------------------------------------------------------ *)

Lemma split_slash_nosep s : forall acc, nosep s = true -> split_slash s acc = [rev acc ++ s].
Proof.
  induction s as [|x r IH]; intros acc H; cbn [split_slash]; [rewrite app_nil_r; reflexivity|].
  rewrite nosep_cons in H. apply andb_true_iff in H as [Hx Hr]. apply negb_true_iff in Hx. rewrite Hx.
  rewrite (IH (x :: acc) Hr). cbn [rev]. rewrite <- app_assoc. reflexivity.
Qed.

Lemma split_slash_sep c1 rest : forall acc, nosep c1 = true ->
  split_slash (c1 ++ 47 :: rest) acc = (rev acc ++ c1) :: split_slash rest [].
Proof.
  induction c1 as [|x r IH]; intros acc H; cbn [app split_slash].
  - change (47 =? 47) with true. cbn iota. rewrite app_nil_r. reflexivity.
  - rewrite nosep_cons in H. apply andb_true_iff in H as [Hx Hr]. apply negb_true_iff in Hx. rewrite Hx.
    rewrite (IH (x :: acc) Hr). cbn [rev]. rewrite <- app_assoc. reflexivity.
Qed.

Definition okn (n : str) : Prop := name_ok n = true.

Lemma okn_inv n : okn n -> n <> [] /\ nosep n = true /\ n <> [46] /\ n <> [46; 46].
Proof.
  unfold okn, name_ok. intros H. apply andb_true_iff in H as [H H4]. apply andb_true_iff in H as [H H3].
  apply andb_true_iff in H as [H1 H2]. split; [destruct n; [discriminate|discriminate]|]. split; [exact H2|].
  split; intros ->; discriminate.
Qed.

Lemma jn_cons2 n n2 r : jn (n :: n2 :: r) = n ++ 47 :: jn (n2 :: r).
Proof. reflexivity. Qed.

(* a text "n1/../nk" matched by a pattern: the pattern has k components, matched one by one *)
Lemma wm_comps names : names <> [] -> Forall okn names ->
  forall gt, wm gt (jn names) -> Forall2 wm (split_slash gt []) names.
Proof.
  induction names as [|n r IH]; intros Hne Hok gt H; [congruence|].
  inversion Hok as [|? ? Hn Hr]; subst. destruct (okn_inv n Hn) as [_ [Hns _]].
  destruct r as [|n2 r'].
  - cbn [jn] in H. rewrite (split_slash_nosep gt [] (wm_nosep_pat _ _ H Hns)). cbn [rev app].
    constructor; [exact H|constructor].
  - rewrite jn_cons2 in H. destruct (wm_split_str _ _ H n _ eq_refl Hns) as [c1 [rest [-> [H1 [H2 H3]]]]].
    rewrite (split_slash_sep c1 rest [] H1). cbn [rev app]. constructor; [exact H2|].
    apply IH; [discriminate|exact Hr|exact H3].
Qed.

(* ------------------------------------------------------------------------------------------ *)
(* 3. Trees: the recursive listing of a well-formed tree enumerates chains of names             *)
(* ------------------------------------------------------------------------------------------ *)

Fixpoint node_ind2 (P : node -> Prop) (HF : P File)
    (HD : forall es, Forall (fun e => P (snd e)) es -> P (Dir es)) (n : node) : P n :=
  match n with
  | File => HF
  | Dir es =>
    HD es ((fix go (l : list (str * node)) : Forall (fun e => P (snd e)) l :=
              match l with
              | [] => Forall_nil _
              | e :: r => Forall_cons e (node_ind2 P HF HD (snd e)) (go r)
              end) es)
  end.

Lemma rlist_dir d es :
  rlist d (Dir es) =
  flat_map (fun e => if d && negb (is_dir (snd e)) then []
                     else (fst e, snd e) :: map (fun x => (fst e ++ [47] ++ fst x, snd x)) (rlist d (snd e))) es.
Proof.
  cbn [rlist]. induction es as [|[nm ch] r IH]; [reflexivity|].
  cbn [flat_map fst snd]. rewrite <- IH. reflexivity.
Qed.

Lemma wf_node_dir es :
  wf_node (Dir es) = forallb (fun e => name_ok (fst e)) es && nodup_str (map fst es)
                     && forallb (fun e => wf_node (snd e)) es.
Proof.
  cbn [wf_node]. f_equal. induction es as [|[nm ch] r IH]; [reflexivity|]. cbn [forallb snd]. rewrite IH. reflexivity.
Qed.

Lemma lookup_e_In n es ch : lookup_e n es = Some ch -> In (n, ch) es.
Proof.
  induction es as [|[n0 ch0] r IH]; cbn [lookup_e]; [discriminate|].
  destruct (str_eqb n n0) eqn:E.
  - intros H. inversion H; subst. apply str_eqb_eq in E. subst. left. reflexivity.
  - intros H. right. exact (IH H).
Qed.

Lemma In_lookup_e n es ch : nodup_str (map fst es) = true -> In (n, ch) es -> lookup_e n es = Some ch.
Proof.
  induction es as [|[n0 ch0] r IH]; intros Hnd Hin; [destruct Hin|].
  cbn [map fst nodup_str] in Hnd. apply andb_true_iff in Hnd as [Hn0 Hnd]. apply negb_true_iff in Hn0.
  cbn [lookup_e]. destruct Hin as [Heq|Hin].
  - inversion Heq; subst. rewrite str_eqb_refl. reflexivity.
  - destruct (str_eqb n n0) eqn:E; [|exact (IH Hnd Hin)].
    apply str_eqb_eq in E. subst n0. exfalso.
    assert (Hm : mem_str n (map fst r) = true) by (apply mem_str_In'; apply (in_map fst) in Hin; exact Hin).
    congruence.
Qed.

Lemma resolve_none names : resolve None names = None.
Proof. induction names as [|n r IH]; [reflexivity|]. cbn [resolve children lookup_e]. exact IH. Qed.

Lemma resolve_file n r : resolve (Some File) (n :: r) = None.
Proof. cbn [resolve children lookup_e]. apply resolve_none. Qed.

Lemma rlist_resolve n : wf_node n = true -> forall rp nd, In (rp, nd) (rlist false n) ->
  exists names, names <> [] /\ Forall okn names /\ rp = jn names /\ resolve (Some n) names = Some nd.
Proof.
  induction n as [|es IHes] using node_ind2; intros Hwf rp nd Hin; [destruct Hin|].
  rewrite wf_node_dir in Hwf. apply andb_true_iff in Hwf as [Hwf Hch]. apply andb_true_iff in Hwf as [Hnm Hnd].
  rewrite rlist_dir in Hin. apply in_flat_map in Hin as [[nm ch] [He Hin]]. cbn [fst snd andb] in Hin.
  rewrite forallb_forall in Hnm, Hch. pose proof (Hnm _ He) as Hnm1. pose proof (Hch _ He) as Hch1.
  cbn [fst snd] in Hnm1, Hch1. rewrite Forall_forall in IHes. pose proof (IHes _ He) as IH1. cbn [snd] in IH1.
  pose proof (In_lookup_e nm es ch Hnd He) as Hl.
  destruct Hin as [Heq|Hin].
  - inversion Heq; subst. exists [rp]. split; [discriminate|]. split; [constructor; [exact Hnm1|constructor]|].
    split; [reflexivity|]. cbn [resolve children]. exact Hl.
  - apply in_map_iff in Hin as [[rp' nd'] [Heq Hin]]. cbn [fst snd] in Heq. inversion Heq; subst.
    destruct (IH1 Hch1 rp' nd Hin) as [names [Hne [Hok [-> Hres]]]].
    exists (nm :: names). split; [discriminate|]. split; [constructor; assumption|].
    split; [destruct names; [congruence|reflexivity]|]. cbn [resolve children]. rewrite Hl. exact Hres.
Qed.

(* ------------------------------------------------------------------------------------------ *)
(* 4. The walk of glob.glob finds every chain whose names match the components                  *)
(* ------------------------------------------------------------------------------------------ *)

Lemma ends_slash_sep s : ends_slash s = ends_sep s.
Proof. unfold ends_slash, ends_sep, head_is. destruct (rev s); reflexivity. Qed.

Lemma okn_ends n : okn n -> ends_slash n = false.
Proof. intros H. destruct (okn_inv n H) as [H1 [H2 _]]. rewrite ends_slash_sep. apply nosep_ends; assumption. Qed.

Lemma ends_slash_join P n : okn n -> ends_slash (P ++ 47 :: n) = false.
Proof.
  intros H. destruct (okn_inv n H) as [H1 [H2 _]]. rewrite ends_slash_sep.
  change (P ++ 47 :: n) with (P ++ [47] ++ n). rewrite app_assoc, ends_sep_app by exact H1.
  apply nosep_ends; assumption.
Qed.

Lemma pjoin_ok P n : P <> [] -> ends_slash P = false -> pjoin P n = P ++ 47 :: n.
Proof. intros H1 H2. unfold pjoin. destruct P; [congruence|]. rewrite H2. reflexivity. Qed.

Lemma pjoin_ends P n : okn n -> ends_slash P = false -> ends_slash (pjoin P n) = false.
Proof.
  intros Hn HP. destruct P as [|x P'].
  - cbn [pjoin]. apply okn_ends. exact Hn.
  - rewrite pjoin_ok by (try discriminate; exact HP). apply ends_slash_join. exact Hn.
Qed.

Definition pj (P : str) (names : list str) : str := fold_left pjoin names P.

Lemma pj_cons_ok names : forall P, P <> [] -> ends_slash P = false -> Forall okn names -> names <> [] ->
  pj P names = P ++ 47 :: jn names.
Proof.
  induction names as [|n r IH]; intros P HP He Hok Hne; [congruence|].
  inversion Hok as [|? ? Hn Hr]; subst. unfold pj. cbn [fold_left]. rewrite pjoin_ok by assumption.
  destruct r as [|n2 r']; [reflexivity|]. fold (pj (P ++ 47 :: n) (n2 :: r')).
  rewrite IH; [|destruct P; discriminate|apply ends_slash_join; exact Hn|exact Hr|discriminate].
  rewrite jn_cons2, <- app_assoc. reflexivity.
Qed.

Lemma pj_nil names : Forall okn names -> names <> [] -> pj [] names = jn names.
Proof.
  intros Hok Hne. destruct names as [|n r]; [congruence|]. inversion Hok as [|? ? Hn Hr]; subst.
  unfold pj. cbn [fold_left pjoin]. destruct r as [|n2 r']; [reflexivity|]. fold (pj n (n2 :: r')).
  destruct (okn_inv n Hn) as [H1 _].
  rewrite pj_cons_ok; [reflexivity|exact H1|apply okn_ends; exact Hn|exact Hr|discriminate].
Qed.

Lemma jn_ends names : Forall okn names -> names <> [] -> ends_slash (jn names) = false.
Proof.
  induction names as [|n r IH]; intros Hok Hne; [congruence|]. inversion Hok as [|? ? Hn Hr]; subst.
  destruct r as [|n2 r']; [apply okn_ends; exact Hn|]. rewrite jn_cons2.
  change (n ++ 47 :: jn (n2 :: r')) with (n ++ [47] ++ jn (n2 :: r')). rewrite app_assoc, ends_slash_sep, ends_sep_app.
  - rewrite <- ends_slash_sep. apply IH; [exact Hr|discriminate].
  - inversion Hr as [|? ? Hn2 _]; subst. destruct (okn_inv n2 Hn2) as [H1 _].
    destruct r'; [exact H1|]. rewrite jn_cons2. destruct n2; [congruence|discriminate].
Qed.

Lemma has_magic_cons c p : has_magic (c :: p) = ((c =? 42) || (c =? 63) || (c =? 91)) || has_magic p.
Proof. reflexivity. Qed.

Lemma wm_nomagic c n : wm c n -> has_magic c = false -> c = n.
Proof.
  induction 1 as [|p s H IH|p c s Hc H IH|p c s Hc H IH|c p s Hc H IH]; intros Hm;
    try reflexivity; try (rewrite has_magic_cons in Hm; discriminate).
  rewrite has_magic_cons in Hm. apply orb_false_iff in Hm as [_ Hm]. rewrite (IH Hm). reflexivity.
Qed.

Lemma step1_complete seen is_last c n P nd ch :
  wm c n -> is_rec c = false -> okn n -> lookup_e n (children nd) = Some ch ->
  (is_last = true \/ is_dir ch = true) ->
  In (pjoin P n, Some ch) (step1 seen is_last c (P, nd)).
Proof.
  intros Hw Hr Hn Hl Hd. unfold step1. cbn [fst snd]. rewrite Hr. destruct (has_magic c) eqn:Em.
  - apply in_map_iff. exists (n, ch). split; [reflexivity|]. apply filter_In. split; [apply lookup_e_In; exact Hl|].
    cbn [fst snd]. rewrite (wm_fnmatch _ _ Hw), andb_true_r. destruct Hd as [->| ->]; [reflexivity|apply orb_true_r].
  - pose proof (wm_nomagic _ _ Hw Em) as ->. destruct (okn_inv n Hn) as [Hne _].
    destruct n as [|x n']; [congruence|]. rewrite Hl.
    destruct (negb seen && negb is_last); left; reflexivity.
Qed.

Definition cmatch1 (c n : str) : Prop := wm c n /\ is_rec c = false /\ okn n.

Lemma walk_complete_tail cs names : Forall2 cmatch1 cs names ->
  forall tail seen st P nd final, In (P, nd) st -> ends_slash P = false -> resolve nd names = Some final ->
  (tail <> [] -> is_dir final = true) ->
  exists seen' st', walk (cs ++ tail) seen st = walk tail seen' st' /\ In (pj P names, Some final) st'.
Proof.
  induction 1 as [|c n cs' names' [Hw [Hr Hn]] Hrest IH]; intros tail seen st P nd final Hin HP Hres Htail.
  - cbn [app pj fold_left resolve] in *. subst nd. exists seen, st. split; [reflexivity|exact Hin].
  - cbn [app walk]. unfold pj. cbn [fold_left]. fold (pj (pjoin P n) names'). cbn [resolve] in Hres.
    destruct (lookup_e n (children nd)) as [ch|] eqn:El; [|rewrite resolve_none in Hres; discriminate].
    apply (IH tail _ _ (pjoin P n) (Some ch) final); [|apply pjoin_ends; assumption|exact Hres|exact Htail].
    apply in_flat_map. exists (P, nd). split; [exact Hin|].
    apply step1_complete; try assumption.
    inversion Hrest as [|c2 n2 cs2 names2 _ _]; subst.
    + cbn [resolve] in Hres. inversion Hres; subst ch. cbn [app].
      destruct tail as [|t0 tail']; [left; reflexivity|right; apply Htail; discriminate].
    + right. destruct ch as [|es]; [rewrite resolve_file in Hres; discriminate|reflexivity].
Qed.

Lemma walk_complete cs names : Forall2 cmatch1 cs names ->
  forall seen st P nd final, In (P, nd) st -> ends_slash P = false -> resolve nd names = Some final ->
  In (pj P names, Some final) (walk cs seen st).
Proof.
  intros H seen st P nd final Hin HP Hres.
  destruct (walk_complete_tail cs names H [] seen st P nd final Hin HP Hres) as [seen' [st' [Hw Hin']]]; [congruence|].
  rewrite app_nil_r in Hw. rewrite Hw. exact Hin'.
Qed.

Lemma cmatch1_all cs names :
  Forall2 wm cs names -> Forall (fun c => is_rec c = false) cs -> Forall okn names -> Forall2 cmatch1 cs names.
Proof.
  induction 1 as [|c n cs ns Hcn Hrest IH]; intros Hrec Hok; [constructor|].
  inversion Hrec; subst. inversion Hok; subst. constructor; [repeat split; assumption|apply IH; assumption].
Qed.

(* R2 (completeness direction): every existing chain whose spelling matches the pattern text is a
   candidate, spelled as NamedGlob.glob() spells it *)
Lemma glob_paths_complete t pat names final :
  Forall (fun c => is_rec c = false) (split_slash pat []) ->
  names <> [] -> Forall okn names -> resolve (Some (Dir t)) names = Some final ->
  wm pat (jn names) ->
  In (spell names final) (glob_paths t pat).
Proof.
  intros Hrec Hne Hok Hres Hw. unfold glob_paths, walked.
  apply in_map_iff. exists (jn names, Some final). split.
  - unfold canon, spell. cbn [fst snd is_dir_opt]. rewrite (jn_ends names Hok Hne). cbn [negb].
    destruct final; reflexivity.
  - apply filter_In. split; [|unfold kept; cbn [fst snd]; rewrite (jn_ends names Hok Hne); apply orb_true_r].
    apply filter_In. split.
    + rewrite <- (pj_nil names Hok Hne). apply (walk_complete _ names) with (nd := Some (Dir t)); [|left; reflexivity|reflexivity|exact Hres].
      apply cmatch1_all; [apply wm_comps; assumption|exact Hrec|exact Hok].
    + cbn [fst]. destruct names as [|n r]; [congruence|]. inversion Hok as [|? ? Hn _]; subst.
      destruct (okn_inv n Hn) as [H1 _]. destruct r; [destruct n; [congruence|reflexivity]|].
      rewrite jn_cons2. destruct n; [congruence|reflexivity].
Qed.

Lemma split_slash_snoc G : forall acc, split_slash (G ++ [47]) acc = split_slash G acc ++ [[]].
Proof.
  induction G as [|x r IH]; intros acc; cbn [app split_slash].
  - change (47 =? 47) with true. reflexivity.
  - destruct (x =? 47); [rewrite IH; reflexivity|apply IH].
Qed.

Lemma wm_snoc_inv pat s : wm pat s -> forall a, pat = a ++ [47] -> exists s', s = s' ++ [47] /\ wm a s'.
Proof.
  induction 1 as [|p s H IH|p c s Hc H IH|p c s Hc H IH|c p s Hc H IH]; intros a Hp.
  - destruct a; discriminate.
  - destruct a as [|x a']; cbn [app] in Hp; inversion Hp; subst.
    destruct (IH a' eq_refl) as [s' [-> Hs']]. exists s'. split; [reflexivity|apply wm_star0; exact Hs'].
  - destruct (IH a Hp) as [s' [-> Hs']]. destruct a as [|x a']; cbn [app] in Hp; inversion Hp; subst.
    exists (c :: s'). split; [reflexivity|apply wm_starS; assumption].
  - destruct a as [|x a']; cbn [app] in Hp; inversion Hp; subst.
    destruct (IH a' eq_refl) as [s' [-> Hs']]. exists (c :: s'). split; [reflexivity|apply wm_q; assumption].
  - destruct a as [|x a']; cbn [app] in Hp; inversion Hp; subst.
    + inversion H; subst. exists []. split; [reflexivity|constructor].
    + destruct (IH a' eq_refl) as [s' [-> Hs']]. exists (x :: s'). split; [reflexivity|apply wm_lit; assumption].
Qed.

(* the same for a pattern that ends with a separator: it selects directories *)
Lemma glob_paths_complete_dir t G names final :
  Forall (fun c => is_rec c = false) (split_slash G []) ->
  names <> [] -> Forall okn names -> resolve (Some (Dir t)) names = Some final -> is_dir final = true ->
  wm G (jn names) ->
  In (jn names ++ [47]) (glob_paths t (G ++ [47])).
Proof.
  intros Hrec Hne Hok Hres Hdir Hw. unfold glob_paths, walked. rewrite split_slash_snoc.
  pose proof (cmatch1_all _ _ (wm_comps names Hne Hok G Hw) Hrec Hok) as Hc.
  destruct (walk_complete_tail _ names Hc [[]] false [([], Some (Dir t))] [] (Some (Dir t)) final)
    as [seen' [st' [Hwk Hin]]]; [left; reflexivity|reflexivity|exact Hres|intros _; exact Hdir|].
  rewrite Hwk. rewrite (pj_nil names Hok Hne) in Hin. pose proof (jn_ends names Hok Hne) as He.
  assert (Hj : jn names <> []) by (intros E; destruct names as [|n r]; [congruence|];
    inversion Hok as [|? ? Hn _]; subst; destruct (okn_inv n Hn) as [H1 _]; destruct r; cbn in E;
    [congruence|destruct n; [congruence|discriminate]]).
  apply in_map_iff. exists (jn names ++ [47], Some final). split.
  - unfold canon. cbn [fst snd is_dir_opt]. destruct final; [discriminate|].
    rewrite ends_slash_sep, ends_sep_app by discriminate. reflexivity.
  - apply filter_In. split; [|unfold kept; cbn [fst snd is_dir_opt]; destruct final; [discriminate|reflexivity]].
    apply filter_In. split; [|cbn [fst]; destruct (jn names); [congruence|reflexivity]].
    cbn [walk]. apply in_flat_map. exists (jn names, Some final). split; [exact Hin|].
    unfold step1. cbn [fst snd]. change (is_rec []) with false. change (has_magic []) with false. cbn iota.
    destruct final; [discriminate|]. cbn [is_dir_opt]. rewrite pjoin_ok by assumption. left. reflexivity.
Qed.

(* ------------------------------------------------------------------------------------------ *)
(* 5. convert_nglob_to_glob on F1, and acceptance by the specification parts as wm              *)
(* ------------------------------------------------------------------------------------------ *)

Lemma glob_parts_f1 subs ts : forall seen prev,
  f1_toks ts subs seen prev = true -> glob_parts ts subs = COk (map starify ts).
Proof.
  induction ts as [|t ts IH]; intros seen prev Hf; [reflexivity|].
  destruct t; cbn [f1_toks] in Hf; try discriminate; cbn [glob_parts map starify].
  - apply andb_true_iff in Hf as [_ Hf]. rewrite (IH _ _ Hf). reflexivity.
  - rewrite (IH _ _ Hf). reflexivity.
  - apply andb_true_iff in Hf as [_ Hf]. rewrite (IH _ _ Hf). reflexivity.
  - apply andb_true_iff in Hf as [_ Hf]. rewrite (IH _ _ Hf). reflexivity.
  - apply andb_true_iff in Hf as [Hf Hr]. apply andb_true_iff in Hf as [Hf Hsub].
    apply andb_true_iff in Hf as [Hf Hseen]. apply andb_true_iff in Hf as [Hp Hnn].
    apply negb_true_iff in Hnn. rewrite Hnn, (IH _ _ Hr).
    assert (Hsub' : subs_get name subs = None) by (destruct (subs_get name subs); [discriminate|reflexivity]).
    rewrite (sub_of_default _ _ Hsub'). reflexivity.
Qed.

Definition head_star (acc : list tok) : bool :=
  match acc with l :: _ => is_tstar (Some l) || is_tdstar (Some l) | [] => false end.

Lemma merge_f1 subs ts : forall seen prev acc,
  f1_toks ts subs seen prev = true -> (head_star acc = true -> prev = true) ->
  fold_left glob_merge1 (map starify ts) acc = rev (map starify ts) ++ acc.
Proof.
  induction ts as [|t ts IH]; intros seen prev acc Hf Hacc; [reflexivity|].
  assert (Hgo : forall t' seen' prev', f1_toks ts subs seen' prev' = true ->
            glob_merge1 acc (starify t) = t' :: acc -> starify t = t' ->
            (head_star (t' :: acc) = true -> prev' = true) ->
            fold_left glob_merge1 (map starify (t :: ts)) acc = rev (map starify (t :: ts)) ++ acc).
  { intros t' seen' prev' Hf' Hm Ht Hh. cbn [map fold_left rev]. rewrite Hm, (IH _ _ _ Hf' Hh), Ht, <- app_assoc. reflexivity. }
  destruct t; cbn [f1_toks] in Hf; try discriminate.
  - apply andb_true_iff in Hf as [_ Hf]. apply (Hgo (TLit s) _ _ Hf); [destruct acc; reflexivity|reflexivity|].
    cbn. discriminate.
  - apply (Hgo TQ _ _ Hf); [destruct acc; reflexivity|reflexivity|]. cbn. discriminate.
  - apply andb_true_iff in Hf as [Hp Hf]. apply negb_true_iff in Hp. subst prev.
    apply (Hgo TStar _ _ Hf); [|reflexivity|reflexivity].
    destruct acc as [|l rest]; [reflexivity|]. cbn [starify glob_merge1]. cbn [head_star] in Hacc.
    destruct (is_tstar (Some l) || is_tdstar (Some l)); [specialize (Hacc eq_refl); discriminate|reflexivity].
  - apply andb_true_iff in Hf as [_ Hf]. apply (Hgo (TCls inner) _ _ Hf); [destruct acc; reflexivity|reflexivity|].
    cbn. discriminate.
  - apply andb_true_iff in Hf as [Hf Hr]. apply andb_true_iff in Hf as [Hf _].
    apply andb_true_iff in Hf as [Hf _]. apply andb_true_iff in Hf as [Hp _].
    apply negb_true_iff in Hp. subst prev.
    apply (Hgo TStar _ _ Hr); [|reflexivity|reflexivity].
    destruct acc as [|l rest]; [reflexivity|]. cbn [starify glob_merge1]. cbn [head_star] in Hacc.
    destruct (is_tstar (Some l) || is_tdstar (Some l)); [specialize (Hacc eq_refl); discriminate|reflexivity].
Qed.

(* on F1 the translated pattern is the pattern with every named wildcard replaced by `*` *)
Lemma conv_glob_f1 p subs gp : f1 p subs = true -> conv_glob p subs = COk gp -> gp = gtext (tokenize p).
Proof.
  unfold f1, conv_glob. intros Hf Hc. apply andb_true_iff in Hf as [_ Hf].
  rewrite (glob_parts_f1 _ _ _ _ Hf) in Hc.
  rewrite (merge_f1 subs (tokenize p) [] false [] Hf) in Hc by (cbn; discriminate).
  rewrite app_nil_r, rev_involutive in Hc. inversion Hc. reflexivity.
Qed.

Lemma acc_cons r rs s :
  acc (r :: rs) s <-> exists y s', s = y ++ s' /\ pieceb r y = true /\ acc rs s'.
Proof.
  split.
  - intros [ss [Hc Hp]]. inversion Hp as [|? y ? ss' Hy Hrest]; subst.
    exists y, (concat ss'). split; [reflexivity|]. split; [exact Hy|]. exists ss'. split; [reflexivity|exact Hrest].
  - intros [y [s' [-> [Hy [ss' [Hc Hp]]]]]]. exists (y :: ss'). split; [cbn; rewrite Hc; reflexivity|].
    constructor; assumption.
Qed.

Lemma wm_app_lit l p s : forallb plain_char l = true -> wm p s -> wm (l ++ p) (l ++ s).
Proof.
  induction l as [|c l IH]; intros Hl H; [exact H|]. cbn [forallb] in Hl. apply andb_true_iff in Hl as [Hc Hl].
  cbn [app]. apply wm_lit; [exact Hc|]. apply IH; assumption.
Qed.

Lemma wm_star_run y p s : nosep y = true -> wm p s -> wm (42 :: p) (y ++ s).
Proof.
  induction y as [|c y IH]; intros Hy H; [apply wm_star0; exact H|].
  rewrite nosep_cons in Hy. apply andb_true_iff in Hy as [Hc Hy]. cbn [app].
  apply wm_starS; [intros ->; discriminate|]. apply IH; assumption.
Qed.

Lemma gtext_cons t ts : gtext (t :: ts) = tok_text (starify t) ++ gtext ts.
Proof. reflexivity. Qed.

Lemma acc_wm subs ts sp : Forall2 (tok_part subs) ts sp -> forallb tok_plain ts = true ->
  forall s, acc sp s -> wm (gtext ts) s.
Proof.
  induction 1 as [|t r ts sp Ht Hrest IH]; intros Hpl s Hacc.
  - apply acc_nil in Hacc. subst. constructor.
  - cbn [forallb] in Hpl. apply andb_true_iff in Hpl as [Hpt Hpl].
    apply acc_cons in Hacc as [y [s' [-> [Hy Hacc]]]]. specialize (IH Hpl s' Hacc). rewrite gtext_cons.
    destruct t; cbn [tok_part] in Ht; try contradiction; try discriminate.
    + subst r. cbn [pieceb] in Hy. apply str_eqb_eq in Hy. subst y. cbn [starify tok_text tok_plain] in *.
      apply wm_app_lit; assumption.
    + subst r. unfold notslash in Hy. cbn [pieceb] in Hy. destruct y as [|c [|c2 y']]; try discriminate.
      rewrite notslash_char in Hy. cbn [starify tok_text app]. apply wm_q; [intros ->; discriminate|exact IH].
    + subst r. unfold re_star in Hy. cbn [pieceb] in Hy. cbn [starify tok_text app]. apply wm_star_run; assumption.
    + destruct Ht as [-> _]. unfold re_star in Hy. cbn [pieceb] in Hy. cbn [starify tok_text app].
      apply wm_star_run; assumption.
Qed.

(* ------------------------------------------------------------------------------------------ *)
(* 6. Existing paths of a well-formed tree are canonical paths                                  *)
(* ------------------------------------------------------------------------------------------ *)

Lemma nosep_no_dslash n : nosep n = true -> no_dslash n = true.
Proof.
  induction n as [|x r IH]; intros H; [reflexivity|]. rewrite nosep_cons in H. apply andb_true_iff in H as [Hx Hr].
  cbn [no_dslash]. destruct r as [|y r']; [reflexivity|]. apply negb_true_iff in Hx. rewrite Hx, (IH Hr). reflexivity.
Qed.

Lemma no_dslash_app a b : no_dslash a = true -> no_dslash b = true ->
  (ends_sep a = false \/ head_is 47 b = false) -> no_dslash (a ++ b) = true.
Proof.
  induction a as [|x a IH]; intros Ha Hb Hor; [exact Hb|].
  destruct a as [|y a'].
  - cbn [app]. destruct b as [|z b']; [reflexivity|].
    change (no_dslash (x :: z :: b')) with (negb ((x =? 47) && (z =? 47)) && no_dslash (z :: b')). rewrite Hb, andb_true_r.
    unfold ends_sep in Hor. cbn in Hor. destruct Hor as [->| ->]; [reflexivity|apply negb_true_iff, andb_false_r].
  - cbn [app no_dslash] in *. apply andb_true_iff in Ha as [H1 H2]. rewrite H1. cbn [andb]. apply IH; [exact H2|exact Hb|].
    destruct Hor as [Hor|Hor]; [left|right; exact Hor].
    change (x :: y :: a') with ([x] ++ y :: a') in Hor. rewrite ends_sep_app in Hor by discriminate. exact Hor.
Qed.

Lemma okn_head n : okn n -> head_is 47 n = false.
Proof.
  intros H. destruct (okn_inv n H) as [H1 [H2 _]]. destruct n as [|c n']; [congruence|].
  rewrite nosep_cons in H2. apply andb_true_iff in H2 as [Hc _]. apply negb_true_iff in Hc. exact Hc.
Qed.

Lemma jn_head names : Forall okn names -> names <> [] -> head_is 47 (jn names) = false /\ jn names <> [].
Proof.
  intros Hok Hne. destruct names as [|n r]; [congruence|]. inversion Hok as [|? ? Hn _]; subst.
  pose proof (okn_head n Hn) as Hh. destruct (okn_inv n Hn) as [H1 _].
  destruct r as [|n2 r']; [split; assumption|]. rewrite jn_cons2.
  destruct n as [|c n']; [congruence|]. split; [exact Hh|discriminate].
Qed.

Lemma jn_no_dslash names : Forall okn names -> names <> [] -> no_dslash (jn names) = true.
Proof.
  induction names as [|n r IH]; intros Hok Hne; [congruence|]. inversion Hok as [|? ? Hn Hr]; subst.
  destruct (okn_inv n Hn) as [H1 [H2 _]].
  destruct r as [|n2 r']; [apply nosep_no_dslash; exact H2|]. rewrite jn_cons2.
  apply no_dslash_app; [apply nosep_no_dslash; exact H2| |left; apply nosep_ends; assumption].
  change (47 :: jn (n2 :: r')) with ([47] ++ jn (n2 :: r')).
  apply no_dslash_app; [reflexivity|apply IH; [exact Hr|discriminate]|right].
  apply jn_head; [exact Hr|discriminate].
Qed.

Lemma spell_wf names nd : Forall okn names -> names <> [] -> wf_path (spell names nd) = true.
Proof.
  intros Hok Hne. destruct (jn_head names Hok Hne) as [Hh Hn]. pose proof (jn_no_dslash names Hok Hne) as Hd.
  pose proof (jn_ends names Hok Hne) as He. rewrite ends_slash_sep in He.
  assert (Hd2 : no_dslash (jn names ++ [47]) = true) by (apply no_dslash_app; [exact Hd|reflexivity|left; exact He]).
  unfold spell, wf_path. destruct (is_dir nd).
  - rewrite Hd2. destruct (jn names) as [|c j]; [congruence|]. cbn [app is_nil head_is negb andb] in *. rewrite Hh. reflexivity.
  - rewrite Hd, Hh. destruct (jn names); [congruence|reflexivity].
Qed.

(* ------------------------------------------------------------------------------------------ *)
(* 6b. No component of the translated pattern of an F1 pattern is the recursive wildcard        *)
(* ------------------------------------------------------------------------------------------ *)

Lemma split_slash_sub s : forall acc c, In c (split_slash s acc) -> exists A B, rev acc ++ s = A ++ c ++ B.
Proof.
  induction s as [|x r IH]; intros acc c Hin; cbn [split_slash] in Hin.
  - destruct Hin as [<-|[]]. exists [], []. rewrite !app_nil_r. reflexivity.
  - destruct (x =? 47) eqn:E.
    + destruct Hin as [<-|Hin]; [exists [], (x :: r); reflexivity|].
      destruct (IH [] c Hin) as [A [B HAB]]. cbn [rev app] in HAB. exists (rev acc ++ x :: A), B.
      rewrite HAB, <- app_assoc. reflexivity.
    + destruct (IH (x :: acc) c Hin) as [A [B HAB]]. exists A, B. rewrite <- HAB. cbn [rev].
      rewrite <- app_assoc. reflexivity.
Qed.

Lemma lit_prefix_star l : forallb plain_char l = true -> forall X A Y, l ++ X = A ++ 42 :: Y ->
  exists A', A = l ++ A' /\ X = A' ++ 42 :: Y.
Proof.
  induction l as [|c l IH]; intros Hl X A Y H; [exists A; split; [reflexivity|exact H]|].
  cbn [forallb] in Hl. apply andb_true_iff in Hl as [Hc Hl]. destruct (plain_char_inv c Hc) as [H42 _].
  destruct A as [|a A0]; cbn [app] in H; inversion H; subst; [congruence|].
  destruct (IH Hl X A0 Y ltac:(assumption)) as [A' [-> HX]]. exists A'. split; [reflexivity|exact HX].
Qed.

Lemma gtext_no_dstar subs ts : forall seen prev,
  f1_toks ts subs seen prev = true -> forallb tok_plain ts = true ->
  (forall A B, gtext ts <> A ++ 42 :: 42 :: B) /\ (prev = true -> forall B, gtext ts <> 42 :: B).
Proof.
  induction ts as [|t ts IH]; intros seen prev Hf Hpl.
  - split; [intros A B H; destruct A; discriminate|intros _ B H; discriminate].
  - cbn [forallb] in Hpl. apply andb_true_iff in Hpl as [Hpt Hpl]. rewrite gtext_cons.
    assert (Hstar : forall seen' , f1_toks ts subs seen' true = true -> prev = false ->
              (forall A B, 42 :: gtext ts <> A ++ 42 :: 42 :: B) /\ (prev = true -> forall B, 42 :: gtext ts <> 42 :: B)).
    { intros seen' Hf' Hprev. destruct (IH _ _ Hf' Hpl) as [I1 I2]. split; [|rewrite Hprev; discriminate].
      intros A B H. destruct A as [|a A0]; cbn [app] in H; inversion H; subst.
      - eapply (I2 eq_refl). eassumption.
      - eapply I1. eassumption. }
    destruct t; cbn [f1_toks] in Hf; try discriminate; cbn [starify tok_text tok_plain] in *.
    + apply andb_true_iff in Hf as [Hs Hf]. destruct (IH _ _ Hf Hpl) as [I1 _]. split.
      * intros A B H. destruct (lit_prefix_star s Hpt _ _ _ H) as [A' [_ HX]]. eapply I1. exact HX.
      * intros _ B H. destruct s as [|c s']; [discriminate|]. cbn [forallb] in Hpt. apply andb_true_iff in Hpt as [Hc _].
        destruct (plain_char_inv c Hc) as [H42 _]. cbn [app] in H. inversion H. congruence.
    + destruct (IH _ _ Hf Hpl) as [I1 _]. split; [|intros _ B H; discriminate].
      intros A B H. destruct A as [|a A0]; cbn [app] in H; inversion H; subst. eapply I1. eassumption.
    + apply andb_true_iff in Hf as [Hp Hf]. apply negb_true_iff in Hp. exact (Hstar _ Hf Hp).
    + apply andb_true_iff in Hf as [Hf Hr]. apply andb_true_iff in Hf as [Hf _].
      apply andb_true_iff in Hf as [Hf _]. apply andb_true_iff in Hf as [Hp _]. apply negb_true_iff in Hp.
      exact (Hstar _ Hr Hp).
Qed.

Lemma f1_no_rec p subs : f1 p subs = true -> forallb tok_plain (tokenize p) = true ->
  Forall (fun c => is_rec c = false) (split_slash (gtext (tokenize p)) []).
Proof.
  unfold f1. intros Hf Hpl. apply andb_true_iff in Hf as [_ Hf].
  destruct (gtext_no_dstar subs _ _ _ Hf Hpl) as [H _]. apply Forall_forall. intros c Hc.
  destruct (is_rec c) eqn:E; [|reflexivity]. exfalso. unfold is_rec in E. apply str_eqb_eq in E. subst c.
  destruct (split_slash_sub _ _ _ Hc) as [A [B HAB]]. cbn [rev app] in HAB. eapply H. exact HAB.
Qed.

(* ------------------------------------------------------------------------------------------ *)
(* 7. Completeness of the candidates on G1                                                     *)
(* ------------------------------------------------------------------------------------------ *)

Lemma all_paths_spell t q : wf_tree t = true -> In q (all_paths t) ->
  exists names nd, names <> [] /\ Forall okn names /\ resolve (Some (Dir t)) names = Some nd /\ q = spell names nd.
Proof.
  intros Hwf Hin. unfold all_paths in Hin. apply in_map_iff in Hin as [[rp nd] [Hq Hin]]. cbn [fst snd] in Hq.
  destruct (rlist_resolve (Dir t) Hwf rp nd Hin) as [names [Hne [Hok [-> Hres]]]].
  exists names, nd. repeat split; try assumption. symmetry. exact Hq.
Qed.

Lemma crisp_rp sp names nd :
  Forall okn names -> names <> [] ->
  (ends_sep (spell names nd) = false /\ acc sp (spell names nd))
  \/ (ends_sep (spell names nd) = true /\ acc sp (removelast (spell names nd))) ->
  acc sp (jn names).
Proof.
  intros Hok Hne H. pose proof (jn_ends names Hok Hne) as He. rewrite ends_slash_sep in He.
  unfold spell in H. destruct (is_dir nd).
  - rewrite ends_sep_app, removelast_last in H by discriminate. destruct H as [[H _]|[_ H]]; [discriminate|exact H].
  - rewrite He in H. destruct H as [[_ H]|[H _]]; [exact H|discriminate].
Qed.

Lemma gtext_app a b : gtext (a ++ b) = gtext a ++ gtext b.
Proof. unfold gtext. rewrite map_app, flat_map_app. reflexivity. Qed.

Theorem glob_candidates_complete_partial :
  forall (t : list entry) (p : str) (subs : subs_t) (ps : list re) (gp q : str),
    wf_tree t = true -> g1 p subs = true ->
    conv_regex p subs = COk ps -> conv_glob p subs = COk gp ->
    In q (all_paths t) -> accepts (rcat ps) q = true -> In q (glob_paths t gp).
Proof.
  intros t p subs ps gp q Hwf Hg Hc Hgp Hin Hacc.
  unfold g1 in Hg. apply andb_true_iff in Hg as [Hf1 Hpl].
  pose proof (f1_no_rec p subs Hf1 Hpl) as Hrec.
  destruct (all_paths_spell t q Hwf Hin) as [names [nd [Hne [Hok [Hres ->]]]]].
  pose proof (spell_wf names nd Hok Hne) as Hwfp.
  destruct (f1_crisp p subs ps _ Hf1 Hc Hwfp) as [sp [_ [H6 [H4 [Hts [_ Hcrisp]]]]]].
  apply Hcrisp in Hacc. clear Hcrisp.
  rewrite (conv_glob_f1 p subs gp Hf1 Hgp) in *.
  pose proof (acc_wm subs _ sp H6 Hpl) as Hwm.
  destruct (exists_last Hts) as [ts0 [tl Hts0]]. rewrite Hts0 in *.
  apply Forall2_app_inv_l in H6 as [sp0 [spl [_ [H6l ->]]]].
  inversion H6l as [|? L ? ? HtL Hnil]; subst. inversion Hnil; subst.
  unfold crispP in Hacc. rewrite last_last in Hacc.
  assert (Hplain : (ends_sep (spell names nd) = false /\ acc (sp0 ++ [L]) (spell names nd))
                   \/ (ends_sep (spell names nd) = true /\ acc (sp0 ++ [L]) (removelast (spell names nd))) ->
                   In (spell names nd) (glob_paths t (gtext (ts0 ++ [tl])))).
  { intros H. apply glob_paths_complete; try assumption. apply Hwm. apply (crisp_rp _ names nd Hok Hne H). }
  destruct tl; cbn [tok_part] in HtL; try contradiction.
  - subst L. destruct (ends_sep s) eqn:El; [|apply Hplain; left; exact Hacc].
    (* the pattern ends with a separator: only directories are accepted *)
    assert (Hs : s <> []).
    { apply Forall_app in H4 as [_ H4]. inversion H4 as [|? ? Hsh _]; subst.
      destruct Hsh as [[l [Hl Hn]]|[[neg [body [Hl _]]]|[Hl|[n Hl]]]]; try discriminate. inversion Hl; subst. exact Hn. }
    pose proof (acc_ends_lit _ _ _ Hs Hacc) as He. rewrite El in He.
    pose proof (jn_ends names Hok Hne) as Hje. rewrite ends_slash_sep in Hje.
    unfold spell in *. destruct (is_dir nd) eqn:Ed; [|congruence].
    destruct (ends_sep_inv s El) as [s' ->].
    rewrite gtext_app in *. cbn [gtext map starify flat_map tok_text] in *. rewrite app_nil_r in *. rewrite app_assoc in *.
    apply Hwm in Hacc. destruct (wm_snoc_inv _ _ Hacc _ eq_refl) as [j [Hj Hw]]. apply app_inj_tail in Hj as [<- _].
    rewrite split_slash_snoc in Hrec. apply Forall_app in Hrec as [Hrec _].
    apply glob_paths_complete_dir with (final := nd); assumption.
  - subst L. unfold notslash in Hacc. apply Hplain. left. exact Hacc.
  - subst L. unfold re_star in Hacc. apply Hplain. exact Hacc.
  - destruct (re_cls_is_cls inner) as [neg [body Hr]]. subst L. rewrite Hr in *. apply Hplain. left. exact Hacc.
  - destruct HtL as [-> _]. apply Hplain. exact Hacc.
Qed.

(* ------------------------------------------------------------------------------------------ *)
(* 8. The hypotheses are satisfiable: a tree with a hidden directory, a hidden file, a nested   *)
(*    directory, and the pattern `src/${*n}.c` resp. `src/${*d}`                                *)
(* ------------------------------------------------------------------------------------------ *)

Definition ex_tree : list entry :=
  [ ([46;104], Dir [([120;46;99], File)]);                           (* .h/x.c *)
    ([115;114;99], Dir [ ([97;46;99], File);                         (* src/a.c *)
                         ([115;117;98], Dir [([98;46;99], File)]);   (* src/sub/b.c *)
                         ([46;104;105;100;46;99], File) ]);          (* src/.hid.c *)
    ([116;111;112;46;99], File) ].                                   (* top.c *)

Definition ex_pat1 : str := [115;114;99;47;36;123;42;110;125;46;99].       (* src/${*n}.c *)
Definition ex_pat2 : str := [115;114;99;47;36;123;42;100;125].             (* src/${*d} *)
Definition ex_pat3 : str := [115;114;99;47;36;123;42;100;125;47].          (* src/${*d}/ *)

Example glob_candidates_complete_dir_pattern :
  g1 ex_pat3 [] = true /\ conv_glob ex_pat3 [] = COk [115;114;99;47;42;47]
  /\ (exists ps, conv_regex ex_pat3 [] = COk ps
        /\ filter (accepts (rcat ps)) (all_paths ex_tree) = [[115;114;99;47;115;117;98;47]]
        /\ glob_paths ex_tree [115;114;99;47;42;47] = [[115;114;99;47;115;117;98;47]]).
Proof.
  split; [vm_compute; reflexivity|]. split; [vm_compute; reflexivity|].
  eexists; (split; [vm_compute; reflexivity|]); split; vm_compute; reflexivity.
Qed.

Example glob_candidates_complete_hyps_satisfiable :
  wf_tree ex_tree = true
  /\ g1 ex_pat1 [] = true /\ g1 ex_pat2 [] = true
  /\ conv_glob ex_pat1 [] = COk [115;114;99;47;42;46;99]
  /\ conv_glob ex_pat2 [] = COk [115;114;99;47;42]
  /\ (exists ps, conv_regex ex_pat1 [] = COk ps
        /\ filter (accepts (rcat ps)) (all_paths ex_tree)
           = [[115;114;99;47;97;46;99]; [115;114;99;47;46;104;105;100;46;99]]
        /\ glob_paths ex_tree [115;114;99;47;42;46;99]
           = [[115;114;99;47;97;46;99]; [115;114;99;47;46;104;105;100;46;99]])
  /\ (exists ps, conv_regex ex_pat2 [] = COk ps
        /\ filter (accepts (rcat ps)) (all_paths ex_tree)
           = [[115;114;99;47;97;46;99]; [115;114;99;47;115;117;98;47]; [115;114;99;47;46;104;105;100;46;99]]
        /\ glob_paths ex_tree [115;114;99;47;42]
           = [[115;114;99;47;97;46;99]; [115;114;99;47;115;117;98;47]; [115;114;99;47;46;104;105;100;46;99]]).
Proof.
  split; [vm_compute; reflexivity|]. split; [vm_compute; reflexivity|]. split; [vm_compute; reflexivity|].
  split; [vm_compute; reflexivity|]. split; [vm_compute; reflexivity|].
  split; eexists; (split; [vm_compute; reflexivity|]); split; vm_compute; reflexivity.
Qed.
