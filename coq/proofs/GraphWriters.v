(* C09: the frame argument for the writers that the model does not describe.  gen/GenWriters.v lists
   EVERY write statement of stepup/core (Python code and triggers) with its table, the columns it
   assigns ("*" = a whole row is inserted or deleted) and its class: 0 = frame, 1 = described by a
   function of model/Graph.v / GraphTree.v / GraphExt.v, 2 = temp table.  A frame writer assigns no
   column that the canonical dump reads (gen_dump_columns = harness/e2.py DUMP_COLUMNS, checked
   against the SELECTs of Impl._dump): it cannot change the state the model describes, hence not
   the invariant.  Conversely every writer classified 1 does touch the dump (no stale entry), and
   a temp writer is not on a persistent table. *)
From Coq Require Import List NArith Bool.
From SV Require Import lib.Bytes gen.GenWriters.
Import ListNotations.
Open Scope N_scope.

Definition writer := (str * list str * N)%type.
Definition cols_of (t : str) : list str :=
  match find (fun p => str_eqb (fst p) t) gen_dump_columns with Some p => snd p | None => [] end.
Definition star : str := [42].
Definition touches_dump (t : str) (cols : list str) : bool :=
  existsb (fun c => (str_eqb c star && negb (match cols_of t with [] => true | _ => false end))
                    || existsb (str_eqb c) (cols_of t)) cols.
Definition persistent (t : str) : bool := existsb (str_eqb t) gen_persistent_tables.

Definition frame_ok (w : writer) : bool :=
  let '(t, cols, cls) := w in negb (cls =? 0) || (persistent t && negb (touches_dump t cols)).
Definition model_ok (w : writer) : bool :=
  let '(t, cols, cls) := w in negb (cls =? 1) || (persistent t && touches_dump t cols).
Definition temp_ok (w : writer) : bool :=
  let '(t, cols, cls) := w in negb (cls =? 2) || negb (persistent t).
Definition class_ok (w : writer) : bool := let '(_, _, cls) := w in cls <=? 2.

Lemma gen_writers_classified :
  forallb (fun w => class_ok w && frame_ok w && model_ok w && temp_ok w) gen_writers = true.
Proof. vm_compute. reflexivity. Qed.

Lemma unmodelled_writers_frame t cols :
  In (t, cols, 0) gen_writers -> touches_dump t cols = false.
Proof.
  intros H. pose proof gen_writers_classified as G. rewrite forallb_forall in G. specialize (G _ H).
  cbn [class_ok frame_ok model_ok temp_ok] in G. rewrite !andb_true_iff in G. destruct G as [[[_ G] _] _].
  cbn in G. apply andb_true_iff in G. destruct G as [_ G]. apply negb_true_iff in G. exact G.
Qed.

Lemma dump_tables_persistent : forallb (fun p => persistent (fst p)) gen_dump_columns = true.
Proof. vm_compute. reflexivity. Qed.
