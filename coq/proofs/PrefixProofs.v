(* C18: every prefix-selection idiom used by the code selects exactly the strings with the
   given prefix.  Depends on gen/GenPrefix.v (regenerated from /repo on every run). *)
From Coq Require Import List Arith NArith Bool Lia.
From SV Require Import lib.Bytes lib.SqlText gen.GenPrefix model.Prefix.
Import ListNotations.
Open Scope N_scope.

(* ---------- substr idiom ---------- *)
Lemma substr_selects_prefix (l a : str) : substr_eq l a = is_prefix l a.
Proof.
  unfold substr_eq. revert a; induction l as [|x l IH]; intros a; cbn.
  - reflexivity.
  - destruct a as [|y a]; cbn; [reflexivity|]. rewrite IH. reflexivity.
Qed.

(* ---------- LIKE idiom ---------- *)
Lemma replace1_app c r a b : replace1 c r (a ++ b) = replace1 c r a ++ replace1 c r b.
Proof. unfold replace1. apply flat_map_app. Qed.

Lemma apply_chain_app chain a b :
  apply_chain chain (a ++ b) = apply_chain chain a ++ apply_chain chain b.
Proof.
  unfold apply_chain. revert a b; induction chain as [|cr chain IH]; intros a b; cbn.
  - reflexivity.
  - rewrite replace1_app. apply IH.
Qed.

Lemma apply_chain_nil chain : apply_chain chain [] = [].
Proof. unfold apply_chain. induction chain as [|cr chain IH]; cbn; auto. Qed.

(* This lemma is where a change of the replace chain in prefix_clause breaks the proof. *)
Lemma gen_chain_single x :
  apply_chain esc_chain [x] = if (x =? 92) || (x =? 37) || (x =? 95) then [92; x] else [x].
Proof.
  unfold apply_chain, esc_chain, replace1. cbn [fold_left fst snd flat_map app].
  destruct (N.eqb_spec x 92) as [->|H92]; [reflexivity|].
  destruct (N.eqb_spec x 37) as [->|H37]; [reflexivity|].
  destruct (N.eqb_spec x 95) as [->|H95]; [reflexivity|].
  cbn. rewrite ?app_nil_r.
  repeat match goal with
  | |- context [?y =? ?c] => destruct (N.eqb_spec y c); [congruence|]; cbn
  end. reflexivity.
Qed.

Lemma gen_chain_is_escape_std p : apply_chain esc_chain p = escape_std p.
Proof.
  induction p as [|x p IH]; [apply apply_chain_nil|].
  change (x :: p) with ([x] ++ p). rewrite apply_chain_app, IH, gen_chain_single.
  unfold escape_std. cbn [flat_map]. reflexivity.
Qed.

Lemma like_escaped_prefix_cs p s :
  like false 92 (escape_std p ++ [PCT]) s = is_prefix p s.
Proof.
  revert s; induction p as [|x p IH]; intros s.
  - cbn [escape_std flat_map app is_prefix].
    cbn [like]. change (PCT =? 92) with false. cbn iota. rewrite N.eqb_refl.
    induction s as [|y s IHs]; cbn; [reflexivity|]. exact IHs.
  - unfold escape_std. cbn [flat_map]. fold (escape_std p).
    destruct ((x =? 92) || (x =? 37) || (x =? 95)) eqn:E.
    + cbn [app like]. rewrite N.eqb_refl.
      destruct s as [|y s]; cbn [is_prefix]; [reflexivity|].
      unfold ceq. rewrite IH. reflexivity.
    + apply orb_false_iff in E as [E E95]. apply orb_false_iff in E as [E92 E37].
      cbn [app like]. unfold PCT, USC in *. rewrite E92, E37, E95.
      destruct s as [|y s]; cbn [is_prefix]; [reflexivity|].
      unfold ceq. rewrite IH. reflexivity.
Qed.

(* With ASCII case folding the idiom is NOT a prefix test: the witness of defect D1. *)
Lemma like_nocase_refuted :
  exists p s, like true 92 (escape_std p ++ [PCT]) s = true /\ is_prefix p s = false.
Proof.
  exists [100;97;116;97;47], [68;97;116;97;47;120]. vm_compute. split; reflexivity.
Qed.

(* ---------- range idiom ---------- *)
Lemma firstn_app_exact {A} (a b : list A) : firstn (length (a ++ b) - length b) (a ++ b) = a.
Proof.
  rewrite app_length. replace (length a + length b - length b)%nat with (length a) by lia.
  rewrite firstn_app, Nat.sub_diag, firstn_all. cbn. apply app_nil_r.
Qed.

Lemma ends_with_app d g : ends_with (d ++ g) g = true.
Proof.
  induction d as [|x d IH]; cbn.
  - destruct g; cbn; [reflexivity|]. rewrite N.eqb_refl, str_eqb_refl. reflexivity.
  - rewrite IH. apply orb_true_r.
Qed.

Lemma gen_range_upper d : range_upper (d ++ [47]) = Some (d ++ [48]).
Proof.
  unfold range_upper, range_guard, range_cut, range_last.
  rewrite ends_with_app. f_equal. f_equal.
  exact (firstn_app_exact d [47]).
Qed.

(* ---------- all idioms ---------- *)
Lemma every_idiom_selects_prefix (i : idiom) (d s : str) :
  idiom_select i (d ++ [47]) s = Some (is_prefix (d ++ [47]) s).
Proof.
  destruct i; unfold idiom_select.
  - (* LIKE: needs like_case_sensitive = true in the generated facts *)
    change like_case_sensitive with true. cbn [negb].
    rewrite gen_chain_is_escape_std.
    change like_esc with 92. change like_suffix with [PCT].
    rewrite like_escaped_prefix_cs. reflexivity.
  - rewrite substr_selects_prefix. reflexivity.
  - rewrite gen_range_upper. rewrite range_prefix_gen. reflexivity.
  - reflexivity.
Qed.

Lemma all_sites_known : forallb (fun si => known_idiom (snd si)) sites = true.
Proof. vm_compute. reflexivity. Qed.
