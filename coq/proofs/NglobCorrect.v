(* C17 part 3: on the fragment F1 the compiled regex is the reference semantics, and a named
   wildcard in place of an anonymous `*` does not change acceptance (compiler level). *)
From Coq Require Import List NArith Bool Arith Lia.
From SV Require Import lib.Bytes.
From SV Require Import lib.Regex.
From SV Require Import model.Nglob.
From SV Require Import proofs.NglobBackref.
From SV Require Import proofs.NglobShape.
From SV Require Import proofs.NglobNamed.
Import ListNotations.
Open Scope N_scope.

(* ------------------------------------------------------------------------------------------ *)
(* 1. The loop of convert_nglob_to_regex on F1 produces exactly the specification parts         *)
(* ------------------------------------------------------------------------------------------ *)

(* shapes of the parts before post-processing *)
Definition shape0 (r : re) : Prop :=
  (exists l, r = RStr l /\ l <> [])
  \/ (exists neg body, r = RCls neg body /\ cls_accepts neg body 47 = false)
  \/ r = re_star
  \/ (exists n, r = RGrp n re_star).

Definition bind_ok (parts : list re) (stars : list (nat * str)) : Prop :=
  forall i n, stars_get i stars = Some n <-> nth_error parts i = Some (RGrp n re_star).

Definition grp_in_enc (parts : list re) (enc : list str) : Prop :=
  forall i n a, nth_error parts i = Some (RGrp n a) -> mem_str n enc = true.

Lemma bind_ok_snoc_plain parts stars x :
  bind_ok parts stars -> (forall n, x <> RGrp n re_star) -> bind_ok (parts ++ [x]) stars.
Proof.
  intros H Hx i n. rewrite nth_error_snoc. destruct (Nat.ltb_spec i (length parts)) as [Hlt|Hge].
  - apply H.
  - split.
    + intros Hs. apply H in Hs. assert (i < length parts)%nat by (apply nth_error_Some; congruence). lia.
    + destruct (i =? length parts)%nat; [|discriminate]. intros Heq. inversion Heq. exfalso. eapply Hx. eassumption.
Qed.

Lemma grp_in_enc_snoc_plain parts enc x :
  grp_in_enc parts enc -> (forall n a, x <> RGrp n a) -> grp_in_enc (parts ++ [x]) enc.
Proof.
  intros H Hx i n a. rewrite nth_error_snoc. destruct (i <? length parts)%nat; [apply H|].
  destruct (i =? length parts)%nat; [|discriminate]. intros Heq. inversion Heq. exfalso. eapply Hx. eassumption.
Qed.

Lemma mem_str_cons n m l : mem_str n (m :: l) = str_eqb n m || mem_str n l.
Proof. reflexivity. Qed.

Lemma bind_ok_snoc_group parts stars enc n :
  bind_ok parts stars -> grp_in_enc parts enc -> mem_str n enc = false ->
  bind_ok (parts ++ [RGrp n re_star]) ((length (parts ++ [RGrp n re_star]) - 1, n)%nat :: stars).
Proof.
  intros H Hg Hn i m. rewrite app_length. cbn [length stars_get].
  replace (length parts + 1 - 1)%nat with (length parts) by lia.
  rewrite nth_error_snoc. destruct (Nat.eqb_spec i (length parts)) as [->|Hne].
  - rewrite Nat.ltb_irrefl. split; intros Heq; inversion Heq; reflexivity.
  - destruct (Nat.ltb_spec i (length parts)) as [Hlt|Hge]; [apply H|].
    split; [|discriminate]. intros Hs. apply H in Hs.
    assert (i < length parts)%nat by (apply nth_error_Some; congruence). lia.
Qed.

Lemma grp_in_enc_snoc_group parts enc n a :
  grp_in_enc parts enc -> grp_in_enc (parts ++ [RGrp n a]) (n :: enc).
Proof.
  intros H i m b. rewrite nth_error_snoc, mem_str_cons. destruct (i <? length parts)%nat.
  - intros Hi. rewrite (H _ _ _ Hi). apply orb_true_r.
  - destruct (i =? length parts)%nat; [|discriminate]. intros Heq. inversion Heq; subst.
    rewrite str_eqb_refl. reflexivity.
Qed.

Lemma conv_sub_default : conv_sub [42] = COk [re_star].
Proof. reflexivity. Qed.

Lemma spec_sub_default : spec_sub (tokenize [42]) = Some [re_star].
Proof. reflexivity. Qed.

Lemma sub_of_default n subs : subs_get n subs = None -> sub_of n subs = [42].
Proof. unfold sub_of. intros ->. reflexivity. Qed.

Lemma re_cls_is_cls inner : exists neg body, re_cls inner = RCls neg body.
Proof. unfold re_cls. destruct (head_is 33 inner); eauto. Qed.

Definition tok_part (subs : subs_t) (t : tok) (r : re) : Prop :=
  match t with
  | TLit s => r = RStr s
  | TQ => r = notslash
  | TCls inner => r = re_cls inner
  | TStar => r = re_star
  | TName n => r = RGrp n re_star /\ subs_get n subs = None
  | _ => False
  end.

Definition starlike_part (r : re) : bool := match r with RStar _ | RPlus _ | RGrp _ _ => true | _ => false end.

Fixpoint nadj (prev : bool) (ps : list re) : bool :=
  match ps with
  | [] => true
  | r :: rs => negb (prev && starlike_part r) && nadj (starlike_part r) rs
  end.

Lemma conv_step_name subs st n :
  is_nil n = false -> mem_str n (c_enc st) = false -> subs_get n subs = None ->
  conv_step (top_named subs) st (TName n) =
  COk (mk_cst (c_parts st ++ [RGrp n re_star]) (Some (TName n)) (n :: c_enc st)
              ((length (c_parts st ++ [RGrp n re_star]) - 1, n)%nat :: c_stars st)).
Proof.
  intros H1 H2 H3. cbn [conv_step]. unfold top_named.
  rewrite H1, H2, (sub_of_default _ _ H3), conv_sub_default. cbn [rcat].
  change (str_eqb (pr re_star) star_text) with true. cbn iota.
  rewrite push_some by reflexivity. reflexivity.
Qed.

Lemma loop_f1 subs ts : forall seen prev st,
  f1_toks ts subs seen prev = true ->
  c_enc st = seen ->
  (is_tstar (c_last st) || is_tdstar (c_last st) = true -> prev = true) ->
  bind_ok (c_parts st) (c_stars st) -> grp_in_enc (c_parts st) (c_enc st) ->
  exists sp st',
    spec_parts ts subs seen = Some sp /\
    conv_loop (top_named subs) ts st = COk st' /\
    c_parts st' = c_parts st ++ sp /\
    Forall shape0 sp /\
    bind_ok (c_parts st') (c_stars st') /\
    Forall2 (tok_part subs) ts sp /\ nadj prev sp = true.
Proof.
  induction ts as [|t ts IH]; intros seen prev st Hf Henc Hlast Hb Hg.
  - exists [], st. cbn. rewrite app_nil_r. split; [reflexivity|]. split; [reflexivity|].
    split; [reflexivity|]. split; [constructor|]. split; [exact Hb|]. split; [constructor|reflexivity].
  - destruct t; cbn [f1_toks] in Hf; try discriminate.
    + (* TLit *)
      apply andb_true_iff in Hf as [Hs Hf].
      set (st1 := mk_cst (c_parts st ++ [RStr s]) (Some (TLit s)) (c_enc st) (c_stars st)).
      destruct (IH seen false st1 Hf Henc) as [sp [st' [H1 [H2 [H3 [H4 [H5 [H6 H7]]]]]]]].
      * cbn. discriminate.
      * apply bind_ok_snoc_plain; [exact Hb|]. intros n. discriminate.
      * apply grp_in_enc_snoc_plain; [exact Hg|]. intros n a. discriminate.
      * exists (RStr s :: sp), st'. cbn [spec_parts conv_loop conv_step]. rewrite H1. fold st1. rewrite H2.
        split; [reflexivity|]. split; [reflexivity|]. split; [rewrite H3; cbn; rewrite <- app_assoc; reflexivity|].
        split; [constructor; [|exact H4]; left; exists s; split; [reflexivity|destruct s; discriminate]|]. split; [exact H5|].
        split; [constructor; [reflexivity|exact H6]|]. cbn [nadj starlike_part]. rewrite andb_false_r. exact H7.
    + (* TQ *)
      set (st1 := mk_cst (c_parts st ++ [re_q]) (Some TQ) (c_enc st) (c_stars st)).
      destruct (IH seen false st1 Hf Henc) as [sp [st' [H1 [H2 [H3 [H4 [H5 [H6 H7]]]]]]]].
      * cbn. discriminate.
      * apply bind_ok_snoc_plain; [exact Hb|]. intros n. discriminate.
      * apply grp_in_enc_snoc_plain; [exact Hg|]. intros n a. discriminate.
      * exists (notslash :: sp), st'. cbn [spec_parts conv_loop conv_step]. rewrite H1.
        rewrite push_some by reflexivity. cbn zeta. fold st1. rewrite H2.
        split; [reflexivity|]. split; [reflexivity|]. split; [rewrite H3; cbn; rewrite <- app_assoc; reflexivity|].
        split; [constructor; [|exact H4]; right; left; exists true, [47]; split; reflexivity|]. split; [exact H5|].
        split; [constructor; [reflexivity|exact H6]|]. cbn [nadj starlike_part notslash]. rewrite andb_false_r. exact H7.
    + (* TStar *)
      apply andb_true_iff in Hf as [Hp Hf]. apply negb_true_iff in Hp. subst prev.
      assert (Hns : is_tstar (c_last st) || is_tdstar (c_last st) = false).
      { destruct (is_tstar (c_last st) || is_tdstar (c_last st)); [|reflexivity]. specialize (Hlast eq_refl). discriminate. }
      set (st1 := mk_cst (c_parts st ++ [re_star]) (Some TStar) (c_enc st) (c_stars st)).
      destruct (IH seen true st1 Hf Henc) as [sp [st' [H1 [H2 [H3 [H4 [H5 [H6 H7]]]]]]]].
      * reflexivity.
      * apply bind_ok_snoc_plain; [exact Hb|]. intros n. discriminate.
      * apply grp_in_enc_snoc_plain; [exact Hg|]. intros n a. discriminate.
      * exists (re_star :: sp), st'. cbn [spec_parts conv_loop conv_step]. rewrite H1, Hns.
        rewrite push_some by reflexivity. cbn zeta. fold st1. rewrite H2.
        split; [reflexivity|]. split; [reflexivity|]. split; [rewrite H3; cbn; rewrite <- app_assoc; reflexivity|].
        split; [constructor; [|exact H4]; right; right; left; reflexivity|]. split; [exact H5|].
        split; [constructor; [reflexivity|exact H6]|]. cbn [nadj starlike_part re_star andb negb]. exact H7.
    + (* TCls *)
      apply andb_true_iff in Hf as [Hc Hf]. unfold cls_rejects_sep in Hc.
      destruct (re_cls_is_cls inner) as [neg [body Hr]]. rewrite Hr in Hc. apply negb_true_iff in Hc.
      set (st1 := mk_cst (c_parts st ++ [re_cls inner]) (Some (TCls inner)) (c_enc st) (c_stars st)).
      destruct (IH seen false st1 Hf Henc) as [sp [st' [H1 [H2 [H3 [H4 [H5 [H6 H7]]]]]]]].
      * cbn. discriminate.
      * apply bind_ok_snoc_plain; [exact Hb|]. intros n. rewrite Hr. discriminate.
      * apply grp_in_enc_snoc_plain; [exact Hg|]. intros n a. rewrite Hr. discriminate.
      * exists (re_cls inner :: sp), st'. cbn [spec_parts conv_loop conv_step]. rewrite H1.
        assert (Hsc : spec_cls inner = Some (re_cls inner)).
        { unfold spec_cls. rewrite Hr, Hc. reflexivity. }
        rewrite Hsc. rewrite push_some by (rewrite Hr; reflexivity). cbn zeta. fold st1. rewrite H2.
        split; [reflexivity|]. split; [reflexivity|]. split; [rewrite H3; cbn; rewrite <- app_assoc; reflexivity|].
        split; [constructor; [|exact H4]; right; left; exists neg, body; split; assumption|]. split; [exact H5|].
        split; [constructor; [reflexivity|exact H6]|]. cbn [nadj]. rewrite Hr. cbn [starlike_part]. rewrite andb_false_r. exact H7.
    + (* TName *)
      apply andb_true_iff in Hf as [Hf Hr]. apply andb_true_iff in Hf as [Hf Hsub].
      apply andb_true_iff in Hf as [Hf Hseen]. apply andb_true_iff in Hf as [Hp Hnn].
      apply negb_true_iff in Hp, Hnn, Hseen. subst prev.
      assert (Hsub' : subs_get name subs = None) by (destruct (subs_get name subs); [discriminate|reflexivity]).
      set (parts1 := c_parts st ++ [RGrp name re_star]).
      set (st1 := mk_cst parts1 (Some (TName name)) (name :: c_enc st) ((length parts1 - 1, name)%nat :: c_stars st)).
      destruct (IH (name :: seen) true st1 Hr) as [sp [st' [H1 [H2 [H3 [H4 [H5 [H6 H7]]]]]]]].
      * cbn. rewrite Henc. reflexivity.
      * reflexivity.
      * apply bind_ok_snoc_group with (enc := c_enc st); [exact Hb|exact Hg|]. rewrite Henc. exact Hseen.
      * apply grp_in_enc_snoc_group. exact Hg.
      * exists (RGrp name re_star :: sp), st'. cbn [spec_parts conv_loop].
        rewrite (conv_step_name subs st name Hnn) by (try rewrite Henc; assumption).
        rewrite Hnn, Hseen, (sub_of_default _ _ Hsub'), spec_sub_default, H1. cbn [rcat is_nil].
        split; [reflexivity|]. split; [exact H2|].
        split; [rewrite H3; unfold st1, parts1; cbn; rewrite <- app_assoc; reflexivity|].
        split; [constructor; [|exact H4]; right; right; right; exists name; reflexivity|]. split; [exact H5|].
        split; [constructor; [split; [reflexivity|exact Hsub']|exact H6]|]. cbn [nadj starlike_part andb negb]. exact H7.
Qed.

(* ------------------------------------------------------------------------------------------ *)
(* 2. What each part of an F1 pattern matches, without environments                            *)
(* ------------------------------------------------------------------------------------------ *)

Definition nosep (s : str) : bool := forallb (fun c => negb (c =? 47)) s.

Inductive shape : re -> Prop :=
| sh_str l : l <> [] -> shape (RStr l)
| sh_cls neg body : cls_accepts neg body 47 = false -> shape (RCls neg body)
| sh_star : shape re_star
| sh_plus : shape re_plus
| sh_gstar n : shape (RGrp n re_star)
| sh_gplus n : shape (RGrp n re_plus).

Lemma shape0_shape r : shape0 r -> shape r.
Proof.
  intros [[l [-> H]]|[[neg [body [-> H]]]|[->|[n ->]]]]; constructor; assumption.
Qed.

Definition pieceb (r : re) (s : str) : bool :=
  match r with
  | RStr l => str_eqb s l
  | RCls neg body => match s with [c] => cls_accepts neg body c | _ => false end
  | RStar _ => nosep s
  | RPlus _ => nosep s && negb (is_nil s)
  | RGrp _ (RStar _) => nosep s
  | RGrp _ (RPlus _) => nosep s && negb (is_nil s)
  | _ => false
  end.

Lemma notslash_char c : cls_accepts true [47] c = negb (c =? 47).
Proof.
  unfold cls_accepts. cbn [cls_in]. rewrite orb_false_r, (N.eqb_sym 47 c). destruct (c =? 47); reflexivity.
Qed.

Lemma mt_star_notslash e s e' : mt re_star e s e' <-> e' = e /\ nosep s = true.
Proof.
  split.
  - intros H. remember re_star as r eqn:Hr. induction H; try discriminate; inversion Hr; subst.
    + split; reflexivity.
    + inversion H; subst. destruct (IHmt2 eq_refl) as [-> Hn]. split; [reflexivity|].
      unfold nosep in *. cbn. rewrite Hn, andb_true_r.
      match goal with Hc : cls_accepts _ _ _ = true |- _ => rewrite notslash_char in Hc; exact Hc end.
  - intros [-> Hn]. induction s as [|c s IH]; [constructor|].
    cbn in Hn. apply andb_true_iff in Hn as [Hc Hn]. change (c :: s) with ([c] ++ s).
    econstructor; [|apply IH; exact Hn]. constructor. rewrite notslash_char. exact Hc.
Qed.

Lemma mt_plus_notslash e s e' : mt re_plus e s e' <-> e' = e /\ nosep s = true /\ s <> [].
Proof.
  split.
  - intros H. inversion H; subst.
    match goal with Ha : mt notslash _ _ _ |- _ => inversion Ha; subst end.
    match goal with Hs : mt (RStar notslash) _ _ _ |- _ => apply mt_star_notslash in Hs as [-> Hn] end.
    split; [reflexivity|]. split; [|discriminate]. unfold nosep in *. cbn. rewrite Hn, andb_true_r.
    match goal with Hc : cls_accepts _ _ _ = true |- _ => rewrite notslash_char in Hc; exact Hc end.
  - intros [-> [Hn Hne]]. destruct s as [|c s]; [congruence|].
    cbn in Hn. apply andb_true_iff in Hn as [Hc Hn]. change (c :: s) with ([c] ++ s).
    econstructor; [|apply mt_star_notslash; split; [reflexivity|exact Hn]].
    constructor. rewrite notslash_char. exact Hc.
Qed.

Lemma piece_spec r e s : shape r -> ((exists e', mt r e s e') <-> pieceb r s = true).
Proof.
  intros Hs. destruct Hs; unfold pieceb, re_star, re_plus; fold re_star re_plus.
  - split.
    + intros [e' Hm]. inversion Hm; subst. apply str_eqb_refl.
    + intros Hq. apply str_eqb_eq in Hq. subst. exists e. constructor.
  - split.
    + intros [e' Hm]. inversion Hm; subst. assumption.
    + destruct s as [|c [|c2 s]]; try discriminate. intros Hc. exists e. constructor. exact Hc.
  - split.
    + intros [e' Hm]. apply mt_star_notslash in Hm. apply Hm.
    + intros Hn. exists e. apply mt_star_notslash. split; [reflexivity|exact Hn].
  - split.
    + intros [e' Hm]. apply mt_plus_notslash in Hm as [_ [Hn Hne]]. rewrite Hn. destruct s; [congruence|reflexivity].
    + intros Hn. apply andb_true_iff in Hn as [Hn Hne]. exists e. apply mt_plus_notslash.
      split; [reflexivity|]. split; [exact Hn|]. destruct s; [discriminate|discriminate].
  - split.
    + intros [e' Hm]. inversion Hm; subst.
      match goal with Ha : mt re_star _ _ _ |- _ => apply mt_star_notslash in Ha; apply Ha end.
    + intros Hn. eexists. constructor. apply mt_star_notslash. split; [reflexivity|exact Hn].
  - split.
    + intros [e' Hm]. inversion Hm; subst.
      match goal with Ha : mt re_plus _ _ _ |- _ => apply mt_plus_notslash in Ha as [_ [Hn Hne]] end.
      rewrite Hn. destruct s; [congruence|reflexivity].
    + intros Hn. apply andb_true_iff in Hn as [Hn Hne]. eexists. constructor. apply mt_plus_notslash.
      split; [reflexivity|]. split; [exact Hn|]. destruct s; [discriminate|discriminate].
Qed.

Definition pieces_ok (ps : list re) (ss : list str) : Prop := Forall2 (fun r x => pieceb r x = true) ps ss.

Lemma parts_spec ps : Forall shape ps -> forall e ss,
  (exists e', mt_parts ps e ss e') <-> pieces_ok ps ss.
Proof.
  induction 1 as [|r rs Hr Hrs IH]; intros e ss.
  - split.
    + intros [e' H]. apply mt_parts_nil_inv in H as [-> _]. constructor.
    + intros H. inversion H; subst. exists e. constructor.
  - split.
    + intros [e' H]. apply mt_parts_cons_inv in H as [s0 [ss' [e1 [-> [Hm Hp]]]]].
      constructor; [apply (piece_spec r e s0 Hr); exists e1; exact Hm|]. apply (IH e1). exists e'. exact Hp.
    + intros H. inversion H as [|? x ? ss' Hx Hrest]; subst.
      apply (piece_spec r e x Hr) in Hx as [e1 Hm]. apply (IH e1) in Hrest as [e' Hp].
      exists e'. econstructor; eassumption.
Qed.

(* acceptance of a part list, in terms of pieces *)
Definition acc (ps : list re) (s : str) : Prop := exists ss, concat ss = s /\ pieces_ok ps ss.

Lemma accepted_acc ps s : Forall shape ps -> (accepted (rcat ps) s <-> acc ps s).
Proof.
  intros Hs. unfold accepted, acc. split.
  - intros [e' H]. apply mt_rcat in H as [ss [Hc Hp]]. exists ss. split; [exact Hc|].
    apply (parts_spec ps Hs []). exists e'. exact Hp.
  - intros [ss [Hc Hp]]. apply (parts_spec ps Hs []) in Hp as [e' Hp]. exists e'. apply mt_rcat.
    exists ss. split; assumption.
Qed.

(* the optional separator at the end *)
Lemma mt_optslash e x e' : mt re_optslash e x e' <-> e' = e /\ (x = [] \/ x = [47]).
Proof.
  unfold re_optslash. split.
  - intros H. inversion H; subst; [split; [reflexivity|left; reflexivity]|].
    match goal with Ha : mt (RStr _) _ _ _ |- _ => inversion Ha; subst end. split; [reflexivity|right; reflexivity].
  - intros [-> [->| ->]]; [apply MOptN|apply MOptS; constructor].
Qed.

Lemma accepted_optslash ps s : Forall shape ps ->
  (accepted (rcat (ps ++ [re_optslash])) s <-> acc ps s \/ exists s', s = s' ++ [47] /\ acc ps s').
Proof.
  intros Hs. unfold accepted. split.
  - intros [e' H]. apply mt_rcat in H as [ss [Hc H]]. apply mt_parts_app in H as [ss1 [ss2 [e1 [-> [H1 H2]]]]].
    apply mt_parts_cons_inv in H2 as [x [ss' [e2 [-> [Hx Hn]]]]]. apply mt_parts_nil_inv in Hn as [-> _].
    apply mt_optslash in Hx as [_ Hx].
    assert (Hacc : acc ps (concat ss1)).
    { exists ss1. split; [reflexivity|]. apply (parts_spec ps Hs []). exists e1. exact H1. }
    rewrite concat_app in Hc. cbn in Hc. rewrite app_nil_r in Hc. destruct Hx as [->| ->].
    + left. rewrite app_nil_r in Hc. subst s. exact Hacc.
    + right. exists (concat ss1). split; [symmetry; exact Hc|exact Hacc].
  - intros [[ss [Hc Hp]]|[s' [-> [ss [Hc Hp]]]]]; apply (parts_spec ps Hs []) in Hp as [e1 Hp].
    + exists e1. apply mt_rcat. exists (ss ++ [[]]). split; [rewrite concat_app; cbn; rewrite !app_nil_r; exact Hc|].
      apply mt_parts_app. exists ss, [[]], e1. split; [reflexivity|]. split; [exact Hp|].
      econstructor; [apply mt_optslash; split; [reflexivity|left; reflexivity]|constructor].
    + exists e1. apply mt_rcat. exists (ss ++ [[47]]). split; [rewrite concat_app; cbn; rewrite Hc; reflexivity|].
      apply mt_parts_app. exists ss, [[47]], e1. split; [reflexivity|]. split; [exact Hp|].
      econstructor; [apply mt_optslash; split; [reflexivity|right; reflexivity]|constructor].
Qed.

(* ------------------------------------------------------------------------------------------ *)
(* 3. Strings and the printed text of parts                                                     *)
(* ------------------------------------------------------------------------------------------ *)

Lemma no_dslash_mid a b : no_dslash (a ++ 47 :: 47 :: b) = false.
Proof.
  induction a as [|x a IH]; [reflexivity|].
  destruct a as [|y a']; cbn [app] in *; cbn [no_dslash]; cbn [no_dslash] in IH.
  - change (no_dslash (47 :: 47 :: b)) with false. apply andb_false_r.
  - rewrite IH. apply andb_false_r.
Qed.

Lemma ends_sep_inv l : ends_sep l = true -> exists l', l = l' ++ [47].
Proof.
  unfold ends_sep, head_is. intros H. destruct (rev l) as [|c r] eqn:E; [discriminate|].
  apply N.eqb_eq in H. subst c. exists (rev r). rewrite <- (rev_involutive l), E. reflexivity.
Qed.

Lemma head_sep_inv l : head_is 47 l = true -> exists l', l = 47 :: l'.
Proof. destruct l as [|c l']; cbn; [discriminate|]. intros H. apply N.eqb_eq in H. subst. eauto. Qed.

Lemma last_char_app c a b : b <> [] -> last_char_is c (a ++ b) = last_char_is c b.
Proof.
  intros Hb. unfold last_char_is. rewrite rev_app_distr.
  destruct (rev b) as [|x r] eqn:E; [|reflexivity].
  exfalso. apply Hb. rewrite <- (rev_involutive b), E. reflexivity.
Qed.

Lemma last_char_single c x : last_char_is c [x] = (x =? c).
Proof. reflexivity. Qed.

Lemma re_escape_last c l : last_char_is c (re_escape l) = last_char_is c l.
Proof.
  destruct l as [|c0 l0]; [reflexivity|].
  assert (Hne : c0 :: l0 <> []) by discriminate.
  destruct (exists_last Hne) as [l' [x Hx]]. rewrite Hx. clear Hx Hne.
  unfold re_escape. rewrite flat_map_app. cbn [flat_map]. rewrite app_nil_r.
  rewrite !last_char_app by (try discriminate; unfold esc_char; destruct (mem_N x re_escape_specials); discriminate).
    unfold esc_char. destruct (mem_N x re_escape_specials); reflexivity.
Qed.

Lemma pr_last_sep r : shape r -> last_char_is 47 (pr r) = true -> exists l, r = RStr l /\ ends_sep l = true.
Proof.
  intros Hs. destruct Hs as [l Hl|neg body Hc| | |n|n]; intros H.
  - exists l. split; [reflexivity|]. cbn [pr] in H. rewrite re_escape_last in H. exact H.
  - exfalso. unfold last_char_is in H. cbn [pr] in H. rewrite !rev_app_distr in H. cbn in H. discriminate.
  - discriminate.
  - discriminate.
  - exfalso. unfold last_char_is in H. cbn [pr] in H. rewrite !rev_app_distr in H. cbn in H. discriminate.
  - exfalso. unfold last_char_is in H. cbn [pr] in H. rewrite !rev_app_distr in H. cbn in H. discriminate.
Qed.

Lemma pr_head_sep r : shape r -> head_is 47 (pr r) = true -> exists l, r = RStr l /\ head_is 47 l = true.
Proof.
  intros Hs. destruct Hs as [l Hl|neg body Hc| | |n|n]; intros H; try discriminate.
  exists l. split; [reflexivity|]. destruct l as [|c l']; [congruence|].
  cbn [pr re_escape flat_map] in H. unfold esc_char in H. destruct (mem_N c re_escape_specials) eqn:E.
  - discriminate.
  - exact H.
Qed.

Lemma pr_star_text r : shape r -> str_eqb (pr r) star_text = true -> r = re_star.
Proof.
  intros Hs. destruct Hs as [l Hl|neg body Hc| | |n|n]; intros H; try reflexivity; try discriminate.
  - exfalso. destruct l as [|c l']; [congruence|].
    cbn [pr re_escape flat_map] in H. unfold esc_char in H. destruct (mem_N c re_escape_specials) eqn:E.
    + discriminate.
    + cbn in H. apply andb_true_iff in H as [Hc _]. apply N.eqb_eq in Hc. subst c. discriminate.
  - exfalso. apply str_eqb_eq in H. apply (f_equal (last_char_is 42)) in H.
    unfold last_char_is in H. cbn [pr] in H. rewrite !rev_app_distr in H. cbn in H. discriminate.
Qed.

(* ------------------------------------------------------------------------------------------ *)
(* 4. The enclosed rule does not change acceptance of paths without empty components           *)
(* ------------------------------------------------------------------------------------------ *)

Lemma split3 {A} (l : list A) i : (0 < i)%nat -> (i < length l - 1)%nat ->
  exists a p x q b, l = a ++ p :: x :: q :: b /\ length a = (i - 1)%nat.
Proof.
  intros H0 H1. exists (firstn (i - 1) l).
  assert (Hl : (length (skipn (i - 1) l) >= 3)%nat) by (rewrite skipn_length; lia).
  destruct (skipn (i - 1) l) as [|p [|x [|q b]]] eqn:E; cbn in Hl; try lia.
  exists p, x, q, b. split; [rewrite <- E; symmetry; apply firstn_skipn|].
  rewrite firstn_length. lia.
Qed.

Lemma upd_app {A} (a : list A) : forall k y l, upd (length a + k) y (a ++ l) = a ++ upd k y l.
Proof. induction a as [|z a IH]; intros k y l; [reflexivity|]. cbn. rewrite IH. reflexivity. Qed.

Lemma nth_error_mid {A} (a : list A) x b : nth_error (a ++ x :: b) (length a) = Some x.
Proof. rewrite nth_error_app2 by lia. rewrite Nat.sub_diag. reflexivity. Qed.

Lemma pieces_app_inv a b ss : pieces_ok (a ++ b) ss ->
  exists s1 s2, ss = s1 ++ s2 /\ pieces_ok a s1 /\ pieces_ok b s2.
Proof.
  intros H. apply Forall2_app_inv_l in H as [s1 [s2 [H1 [H2 ->]]]]. exists s1, s2. repeat split; assumption.
Qed.

Lemma pieces_app a b s1 s2 : pieces_ok a s1 -> pieces_ok b s2 -> pieces_ok (a ++ b) (s1 ++ s2).
Proof. apply Forall2_app. Qed.

(* replacing a star between two separators by its non-empty version *)
Lemma sandwich a l1 x x' l2 b s :
  ends_sep l1 = true -> head_is 47 l2 = true ->
  (forall y, pieceb x' y = pieceb x y && negb (is_nil y)) ->
  no_dslash s = true ->
  (acc (a ++ RStr l1 :: x :: RStr l2 :: b) s <-> acc (a ++ RStr l1 :: x' :: RStr l2 :: b) s).
Proof.
  intros He Hh Hx Hs. apply ends_sep_inv in He as [l1' ->]. apply head_sep_inv in Hh as [l2' ->].
  assert (Hinv : forall z ss, pieces_ok (a ++ RStr (l1' ++ [47]) :: z :: RStr (47 :: l2') :: b) ss ->
            exists sa y r3, ss = sa ++ (l1' ++ [47]) :: y :: (47 :: l2') :: r3 /\ pieces_ok a sa /\
                            pieceb z y = true /\ pieces_ok b r3).
  { intros z ss Hp. apply pieces_app_inv in Hp as [sa [sr [-> [Ha Hr]]]].
    inversion Hr as [|? y1 ? r1 Hy1 Hr1]; subst. inversion Hr1 as [|? y ? r2 Hy Hr2]; subst.
    inversion Hr2 as [|? y2 ? r3 Hy2 Hr3]; subst.
    cbn [pieceb] in Hy1, Hy2. apply str_eqb_eq in Hy1, Hy2. subst y1 y2.
    exists sa, y, r3. repeat split; assumption. }
  assert (Hmk : forall z sa y r3, pieces_ok a sa -> pieceb z y = true -> pieces_ok b r3 ->
            pieces_ok (a ++ RStr (l1' ++ [47]) :: z :: RStr (47 :: l2') :: b)
                      (sa ++ (l1' ++ [47]) :: y :: (47 :: l2') :: r3)).
  { intros z sa y r3 Ha Hy Hb. apply pieces_app; [exact Ha|].
    constructor; [apply str_eqb_refl|]. constructor; [exact Hy|]. constructor; [apply str_eqb_refl|exact Hb]. }
  split; intros [ss [Hc Hp]]; apply Hinv in Hp as [sa [y [r3 [-> [Ha [Hy Hb]]]]]];
    (exists (sa ++ (l1' ++ [47]) :: y :: (47 :: l2') :: r3); split; [exact Hc|]); apply Hmk; try assumption.
  - rewrite Hx, Hy. destruct y; [|reflexivity]. exfalso. subst s.
    rewrite concat_app in Hs. cbn [concat app] in Hs.
    rewrite <- !app_assoc in Hs. cbn [app] in Hs. rewrite app_assoc in Hs.
    rewrite no_dslash_mid in Hs. discriminate.
  - rewrite Hx in Hy. apply andb_true_iff in Hy as [Hy _]. exact Hy.
Qed.

Record pst (stars : list (nat * str)) (sp ps : list re) : Prop := {
  p_shape : Forall shape ps;
  p_bind : forall i n, stars_get i stars = Some n ->
             exists b, nth_error ps i = Some (RGrp n b) /\ (b = re_star \/ b = re_plus);
  p_eqv : forall s, no_dslash s = true -> (acc sp s <-> acc ps s);
  p_len : length ps = length sp;
  p_lit : forall j l, nth_error ps j = Some (RStr l) <-> nth_error sp j = Some (RStr l);
  p_cls : forall j neg body, nth_error ps j = Some (RCls neg body) <-> nth_error sp j = Some (RCls neg body);
  p_last : nth_error ps (length sp - 1) = nth_error sp (length sp - 1)
}.

Lemma nth_error_replace (a : list re) p x x' r j :
  nth_error (a ++ p :: x' :: r) j =
  if (j =? length a + 1)%nat then Some x' else nth_error (a ++ p :: x :: r) j.
Proof.
  destruct (Nat.eqb_spec j (length a + 1)) as [->|Hne].
  - change (a ++ p :: x' :: r) with (a ++ [p] ++ x' :: r). rewrite app_assoc.
    replace (length a + 1)%nat with (length (a ++ [p])) by (rewrite app_length; reflexivity).
    apply nth_error_mid.
  - destruct (Nat.ltb_spec j (length a)) as [Hlt|Hge].
    + rewrite !nth_error_app1 by exact Hlt. reflexivity.
    + rewrite !nth_error_app2 by exact Hge. destruct (j - length a)%nat as [|[|k]] eqn:E; try reflexivity. lia.
Qed.

Definition repl_ok (x x' : re) : Prop :=
  shape x' /\ ((forall y, pieceb x' y = pieceb x y && negb (is_nil y)) \/ x' = x)
  /\ (forall l, x <> RStr l) /\ (forall l, x' <> RStr l)
  /\ (forall neg body, x <> RCls neg body) /\ (forall neg body, x' <> RCls neg body)
  /\ (forall n bb, x = RGrp n bb -> exists b', x' = RGrp n b' /\ (b' = re_star \/ b' = re_plus)).

Lemma pst_replace stars sp a l1 x x' l2 b :
  pst stars sp (a ++ RStr l1 :: x :: RStr l2 :: b) ->
  ends_sep l1 = true -> head_is 47 l2 = true -> repl_ok x x' ->
  pst stars sp (a ++ RStr l1 :: x' :: RStr l2 :: b).
Proof.
  intros [P1 P2 P3 P4 P5 P7 P6] He Hh [R1 [R2 [R3 [R4 [R6 [R7 R5]]]]]]. constructor.
  - apply Forall_app in P1 as [Pa Pr]. apply Forall_app. split; [exact Pa|].
    inversion Pr as [|? ? Hp Pr1]; subst. inversion Pr1 as [|? ? Hx Pr2]; subst.
    constructor; [exact Hp|]. constructor; [exact R1|exact Pr2].
  - intros i n Hs. destruct (P2 i n Hs) as [b0 [Hn Hb]]. rewrite (nth_error_replace a (RStr l1) x x').
    destruct (Nat.eqb_spec i (length a + 1)) as [->|Hne]; [|exists b0; split; assumption].
    rewrite (nth_error_replace a (RStr l1) x x), Nat.eqb_refl in Hn. inversion Hn as [Hx].
    destruct (R5 n b0 Hx) as [b' [-> Hb']]. exists b'. split; [reflexivity|exact Hb'].
  - intros s Hs. rewrite (P3 s Hs). destruct R2 as [R2| ->]; [|reflexivity].
    apply (sandwich a l1 x x' l2 b s He Hh R2 Hs).
  - rewrite <- P4, !app_length. reflexivity.
  - intros j l. rewrite <- P5, (nth_error_replace a (RStr l1) x x').
    destruct (Nat.eqb_spec j (length a + 1)) as [->|Hne]; [|reflexivity].
    rewrite (nth_error_replace a (RStr l1) x x), Nat.eqb_refl.
    split; intros H; inversion H; [exfalso; eapply R4; eassumption|exfalso; eapply R3; eassumption].
  - intros j neg body. rewrite <- P7, (nth_error_replace a (RStr l1) x x').
    destruct (Nat.eqb_spec j (length a + 1)) as [->|Hne]; [|reflexivity].
    rewrite (nth_error_replace a (RStr l1) x x), Nat.eqb_refl.
    split; intros H; inversion H; [exfalso; eapply R7; eassumption|exfalso; eapply R6; eassumption].
  - rewrite <- P6, (nth_error_replace a (RStr l1) x x').
    destruct (Nat.eqb_spec (length sp - 1) (length a + 1)) as [Heq|Hne]; [|reflexivity].
    exfalso. rewrite <- P4, app_length in Heq. cbn [length] in Heq. lia.
Qed.

Lemma upd_same {A} (l : list A) : forall i x, nth_error l i = Some x -> upd i x l = l.
Proof.
  induction l as [|y l IH]; intros i x H; [destruct i; discriminate|].
  destruct i as [|i]; cbn in *; [inversion H; reflexivity|]. rewrite (IH i x H). reflexivity.
Qed.

Lemma star_to_plus_shape x : shape x -> x <> re_star -> star_to_plus x = x.
Proof. intros Hs Hne. destruct Hs; try reflexivity. congruence. Qed.

Lemma enclosed_pst stars sp n : forall i ps, pst stars sp ps -> pst stars sp (enclosed stars n i ps).
Proof.
  induction n as [|n IH]; intros i ps Hp; cbn [enclosed]; [exact Hp|]. apply IH.
  match goal with |- pst _ _ (if ?c then _ else _) => destruct c eqn:Ec end; [|exact Hp].
  apply andb_true_iff in Ec as [Ec Eq]. apply andb_true_iff in Ec as [Ec Ep].
  apply andb_true_iff in Ec as [E0 E1]. apply Nat.ltb_lt in E0, E1.
  destruct (split3 ps i E0 E1) as [a [p [x [q [b [Hps Hla]]]]]].
  assert (Hi : i = (length a + 1)%nat) by lia.
  assert (Hnp : nth_error ps (i - 1) = Some p) by (rewrite Hps, <- Hla; apply nth_error_mid).
  assert (Hnx : nth_error ps i = Some x).
  { rewrite Hps, Hi. change (a ++ p :: x :: q :: b) with (a ++ [p] ++ x :: q :: b). rewrite app_assoc.
    replace (length a + 1)%nat with (length (a ++ [p])) by (rewrite app_length; reflexivity). apply nth_error_mid. }
  assert (Hnq : nth_error ps (i + 1) = Some q).
  { rewrite Hps, Hi. change (a ++ p :: x :: q :: b) with (a ++ [p; x] ++ q :: b). rewrite app_assoc.
    replace (length a + 1 + 1)%nat with (length (a ++ [p; x])) by (rewrite app_length; cbn; lia). apply nth_error_mid. }
  rewrite (nth_nth_error _ _ _ Hnp) in Ep. rewrite (nth_nth_error _ _ _ Hnq) in Eq. rewrite (nth_nth_error _ _ _ Hnx).
  assert (Hsh := p_shape _ _ _ Hp). rewrite Forall_forall in Hsh.
  destruct (pr_last_sep p (Hsh _ (nth_error_In _ _ Hnp)) Ep) as [l1 [-> He]].
  destruct (pr_head_sep q (Hsh _ (nth_error_In _ _ Hnq)) Eq) as [l2 [-> Hh]].
  assert (Hsx : shape x) by (apply Hsh; eapply nth_error_In; exact Hnx).
  assert (Hupd : forall y, upd i y ps = a ++ RStr l1 :: y :: RStr l2 :: b).
  { intros y. rewrite Hps, Hi, upd_app. reflexivity. }
  assert (Hp' : pst stars sp (a ++ RStr l1 :: x :: RStr l2 :: b)) by (rewrite <- Hps; exact Hp).
  destruct (stars_get i stars) as [sn|] eqn:Es.
  - rewrite Hupd. destruct (p_bind _ _ _ Hp i sn Es) as [b0 [Hb0 Hb]].
    rewrite Hnx in Hb0. inversion Hb0; subst x.
    apply (pst_replace stars sp a l1 (RGrp sn b0) (RGrp sn re_plus) l2 b); try assumption. split; [constructor|]. split.
    + destruct Hb as [->| ->]; [left; intros y; reflexivity|right; reflexivity].
    + split; [intros l; discriminate|]. split; [intros l; discriminate|].
      split; [intros ng bd; discriminate|]. split; [intros ng bd; discriminate|].
      intros n0 bb H. inversion H; subst. exists re_plus. split; [reflexivity|right; reflexivity].
  - destruct (last_char_is 42 (pr x)) eqn:E42; [|exact Hp].
    destruct Hsx as [l Hl|neg body Hc| | |m|m];
      try (cbn [star_to_plus re_plus]; rewrite (upd_same _ _ _ Hnx); exact Hp).
    cbn [star_to_plus re_star]. fold re_plus. rewrite Hupd.
    apply (pst_replace stars sp a l1 re_star re_plus l2 b); try assumption.
    split; [constructor|]. split; [left; intros y; reflexivity|].
    split; [intros l; discriminate|]. split; [intros l; discriminate|].
    split; [intros ng bd; discriminate|]. split; [intros ng bd; discriminate|]. intros n0 bb H. discriminate.
Qed.


(* ------------------------------------------------------------------------------------------ *)
(* 5. The trailing rule                                                                        *)
(* ------------------------------------------------------------------------------------------ *)

Lemma no_dslash_app_l a : forall b, no_dslash (a ++ b) = true -> no_dslash a = true.
Proof.
  induction a as [|x a IH]; intros b H; [reflexivity|].
  destruct a as [|y a']; [reflexivity|]. cbn [app] in *. cbn [no_dslash] in *.
  apply andb_true_iff in H as [H1 H2]. rewrite H1. apply (IH b H2).
Qed.

Lemma ends_sep_app a b : b <> [] -> ends_sep (a ++ b) = ends_sep b.
Proof. apply (last_char_app 47). Qed.

Lemma nosep_ends y : nosep y = true -> y <> [] -> ends_sep y = false.
Proof.
  intros Hn Hne. destruct (exists_last Hne) as [y' [c ->]]. unfold nosep in Hn. rewrite forallb_app in Hn.
  apply andb_true_iff in Hn as [_ Hc]. cbn in Hc. rewrite andb_true_r in Hc.
  rewrite ends_sep_app by discriminate. unfold ends_sep. cbn. apply negb_true_iff. exact Hc.
Qed.

Lemma acc_nil u : acc [] u <-> u = [].
Proof.
  split.
  - intros [ss [Hc Hp]]. inversion Hp; subst. reflexivity.
  - intros ->. exists []. split; [reflexivity|constructor].
Qed.

Lemma acc_snoc P0 X u :
  acc (P0 ++ [X]) u <-> exists u0 y, u = u0 ++ y /\ acc P0 u0 /\ pieceb X y = true.
Proof.
  split.
  - intros [ss [Hc Hp]]. apply pieces_app_inv in Hp as [s1 [s2 [-> [H1 H2]]]].
    inversion H2 as [|? y ? r Hy Hr]; subst. inversion Hr; subst.
    exists (concat s1), y. rewrite concat_app. cbn. rewrite app_nil_r. split; [reflexivity|].
    split; [exists s1; split; [reflexivity|exact H1]|exact Hy].
  - intros [u0 [y [-> [[s1 [Hc H1]] Hy]]]]. exists (s1 ++ [y]). rewrite concat_app. cbn. rewrite app_nil_r, Hc.
    split; [reflexivity|]. apply pieces_app; [exact H1|]. constructor; [exact Hy|constructor].
Qed.

Lemma acc_ends_lit P00 l u : l <> [] -> acc (P00 ++ [RStr l]) u -> ends_sep u = ends_sep l.
Proof.
  intros Hl H. apply acc_snoc in H as [u0 [y [-> [_ Hy]]]]. cbn [pieceb] in Hy. apply str_eqb_eq in Hy. subst y.
  apply ends_sep_app. exact Hl.
Qed.

Lemma acc_ends_cls P00 neg body u :
  cls_accepts neg body 47 = false -> acc (P00 ++ [RCls neg body]) u -> ends_sep u = false.
Proof.
  intros Hc H. apply acc_snoc in H as [u0 [y [-> [_ Hy]]]]. cbn [pieceb] in Hy.
  destruct y as [|c [|c2 y']]; try discriminate. rewrite ends_sep_app by discriminate.
  unfold ends_sep. cbn. destruct (N.eqb_spec c 47) as [->|]; [congruence|reflexivity].
Qed.

(* is the part a literal that ends with a separator *)
Definition lit_ends_sep (r : re) : bool := match r with RStr l => ends_sep l | _ => false end.

Lemma last_char_lit r : shape r -> last_char_is 47 (pr r) = lit_ends_sep r.
Proof.
  intros Hs. destruct (last_char_is 47 (pr r)) eqn:E.
  - destruct (pr_last_sep r Hs E) as [l [-> He]]. cbn. symmetry. exact He.
  - destruct Hs; try reflexivity. cbn [pr] in E. rewrite re_escape_last in E. cbn. symmetry. exact E.
Qed.

(* the star-like last part, with the body chosen by the trailing rule *)
Definition with_body (L : re) (plus : bool) : re :=
  match L with
  | RGrp n _ => RGrp n (if plus then re_plus else re_star)
  | _ => if plus then re_plus else re_star
  end.

Definition prev_sep (P0 : list re) : bool := lit_ends_sep (last P0 REps).

Lemma trailing_key P0 L u :
  (L = re_star \/ exists m, L = RGrp m re_star) ->
  Forall shape P0 ->
  (P0 <> [] -> starlike_part (last P0 REps) = false) ->
  u <> [] ->
  (acc (P0 ++ [with_body L (prev_sep P0)]) u <-> acc (P0 ++ [L]) u /\ ends_sep u = false).
Proof.
  intros HL Hsh Hna Hu.
  assert (HpL : forall y, pieceb L y = nosep y) by (intros y; destruct HL as [->|[m ->]]; reflexivity).
  assert (HpB : forall y, pieceb (with_body L (prev_sep P0)) y = nosep y && (negb (prev_sep P0) || negb (is_nil y))).
  { intros y. destruct HL as [->|[m ->]]; cbn [with_body]; destruct (prev_sep P0); cbn [pieceb re_star re_plus];
      try reflexivity; rewrite ?andb_true_r; reflexivity. }
  rewrite !acc_snoc. split.
  - intros [u0 [y [-> [H0 Hy]]]]. rewrite HpB in Hy. apply andb_true_iff in Hy as [Hn Hy].
    split; [exists u0, y; rewrite HpL; repeat split; assumption|].
    destruct y as [|c y'].
    + rewrite app_nil_r in *. cbn in Hy. rewrite orb_false_r in Hy. apply negb_true_iff in Hy.
      destruct P0 as [|p0 P0'] using rev_ind; [apply acc_nil in H0; congruence|]. clear IHP0'.
      unfold prev_sep in Hy. rewrite last_last in Hy.
      specialize (Hna ltac:(intros Hx; destruct P0'; discriminate)). rewrite last_last in Hna.
      apply Forall_app in Hsh as [_ Hp]. inversion Hp as [|? ? Hs0 _]; subst.
      destruct Hs0 as [l Hl|neg body Hc| | |m|m]; try (cbn in Hna; discriminate).
      * rewrite (acc_ends_lit _ _ _ Hl H0). exact Hy.
      * apply (acc_ends_cls _ _ _ _ Hc H0).
    + rewrite ends_sep_app by discriminate. apply nosep_ends; [exact Hn|discriminate].
  - intros [[u0 [y [-> [H0 Hy]]]] He]. exists u0, y. split; [reflexivity|]. split; [exact H0|].
    rewrite HpB. rewrite HpL in Hy. rewrite Hy. cbn [andb].
    destruct (prev_sep P0) eqn:Eps; [|reflexivity]. cbn [negb orb].
    destruct y as [|c y']; [|reflexivity]. exfalso. rewrite app_nil_r in *.
    destruct P0 as [|p0 P0'] using rev_ind; [discriminate|]. clear IHP0'.
    unfold prev_sep in Eps. rewrite last_last in Eps. destruct p0; try discriminate. cbn in Eps.
    apply Forall_app in Hsh as [_ Hp]. inversion Hp as [|? ? Hs0 _]; subst. inversion Hs0; subst.
    match goal with Hl : _ <> [] |- _ => rewrite (acc_ends_lit _ _ _ Hl H0) in He end. congruence.
Qed.

Lemma upd_last {A} (a : list A) x y : upd (length a) y (a ++ [x]) = a ++ [y].
Proof. rewrite <- (Nat.add_0_r (length a)), upd_app. reflexivity. Qed.

Lemma body_cond P0 L : Forall shape P0 ->
  (Nat.leb 2 (length (P0 ++ [L])) && last_char_is 47 (pr (nth (length (P0 ++ [L]) - 2) (P0 ++ [L]) REps)))
  = prev_sep P0.
Proof.
  intros Hsh. destruct P0 as [|M P00] using rev_ind; [reflexivity|]. clear IHP00.
  rewrite !app_length. cbn [length]. unfold prev_sep. rewrite last_last.
  replace (Nat.leb 2 (length P00 + 1 + 1)) with true by (symmetry; apply Nat.leb_le; lia).
  replace (length P00 + 1 + 1 - 2)%nat with (length P00) by lia.
  rewrite <- app_assoc. cbn [app andb].
  rewrite (nth_nth_error _ _ _ (nth_error_mid P00 M [L])).
  apply last_char_lit. apply Forall_app in Hsh as [_ Hm]. inversion Hm; assumption.
Qed.

Lemma trailing_snoc stars P0 L : Forall shape P0 ->
  trailing stars (P0 ++ [L]) =
  match stars_get (length P0) stars with
  | Some name => P0 ++ [RGrp name (if prev_sep P0 then re_plus else re_star)] ++ [re_optslash]
  | None => if str_eqb (pr L) star_text
            then P0 ++ [if prev_sep P0 then re_plus else re_star] ++ [re_optslash]
            else P0 ++ [L]
  end.
Proof.
  intros Hsh. unfold trailing. rewrite (body_cond P0 L Hsh). rewrite last_last, app_length. cbn [length].
  replace (length P0 + 1 - 1)%nat with (length P0) by lia.
  destruct (stars_get (length P0) stars) as [name|]; cbn [orb].
  - rewrite upd_last, <- app_assoc. reflexivity.
  - destruct (str_eqb (pr L) star_text); [|reflexivity]. rewrite upd_last, <- app_assoc. reflexivity.
Qed.

(* the documented path rules, on the specification parts *)
Definition crispP (sp : list re) (s : str) : Prop :=
  match last sp REps with
  | RStr l => if ends_sep l then acc sp s else (ends_sep s = false /\ acc sp s)
  | RCls _ _ => ends_sep s = false /\ acc sp s
  | _ => (ends_sep s = false /\ acc sp s) \/ (ends_sep s = true /\ acc sp (removelast s))
  end.

Lemma wf_path_parts s : wf_path s = true -> s <> [] /\ head_is 47 s = false /\ no_dslash s = true.
Proof.
  unfold wf_path. intros H. apply andb_true_iff in H as [H H3]. apply andb_true_iff in H as [H1 H2].
  apply negb_true_iff in H1, H2. split; [destruct s; [discriminate|discriminate]|]. split; assumption.
Qed.

Lemma ends_sep_snoc_inv s : ends_sep s = true -> s = removelast s ++ [47].
Proof.
  intros H. destruct (ends_sep_inv s H) as [s' ->]. rewrite removelast_last. reflexivity.
Qed.

Lemma shape_forall0 sp : Forall shape0 sp -> Forall shape sp.
Proof. intros H. eapply Forall_impl; [|exact H]. apply shape0_shape. Qed.

Lemma pst_init stars sp : Forall shape0 sp -> bind_ok sp stars -> pst stars sp sp.
Proof.
  intros Hs Hb. constructor; try reflexivity.
  - apply shape_forall0. exact Hs.
  - intros i n H. apply Hb in H. exists re_star. split; [exact H|left; reflexivity].
Qed.

Lemma nadj_last2 prev P00 M L : nadj prev (P00 ++ [M; L]) = true -> starlike_part L = true -> starlike_part M = false.
Proof.
  revert prev. induction P00 as [|r P00 IH]; intros prev H HL; cbn [app nadj] in H.
  - apply andb_true_iff in H as [_ H]. apply andb_true_iff in H as [H _]. rewrite HL, andb_true_r in H.
    apply negb_true_iff in H. exact H.
  - apply andb_true_iff in H as [_ H]. eapply IH; eassumption.
Qed.

Lemma with_body_shape L b : (L = re_star \/ exists m, L = RGrp m re_star) -> shape (with_body L b).
Proof. intros [->|[m ->]]; destruct b; constructor. Qed.

Lemma star_case sp P0 L s :
  (L = re_star \/ exists m, L = RGrp m re_star) ->
  Forall shape P0 ->
  (P0 <> [] -> starlike_part (last P0 REps) = false) ->
  (forall u, no_dslash u = true -> (acc sp u <-> acc (P0 ++ [L]) u)) ->
  s <> [] -> head_is 47 s = false -> no_dslash s = true ->
  (accepted (rcat ((P0 ++ [with_body L (prev_sep P0)]) ++ [re_optslash])) s
   <-> (ends_sep s = false /\ acc sp s) \/ (ends_sep s = true /\ acc sp (removelast s))).
Proof.
  intros HL Hsh Hna Heqv Hsne Hhd Hnd.
  assert (HshB : Forall shape (P0 ++ [with_body L (prev_sep P0)])).
  { apply Forall_app. split; [exact Hsh|]. constructor; [apply with_body_shape; exact HL|constructor]. }
  rewrite (accepted_optslash _ s HshB).
  assert (Hkey : forall u, u <> [] -> no_dslash u = true ->
            (acc (P0 ++ [with_body L (prev_sep P0)]) u <-> acc sp u /\ ends_sep u = false)).
  { intros u Hu Hdu. rewrite (trailing_key P0 L u HL Hsh Hna Hu), (Heqv u Hdu). reflexivity. }
  split.
  - intros [H|[s' [-> H]]].
    + apply (Hkey s Hsne Hnd) in H as [H1 H2]. left. split; assumption.
    + right. rewrite ends_sep_app by discriminate. split; [reflexivity|]. rewrite removelast_last.
      assert (Hs' : s' <> []) by (intros ->; cbn in Hhd; discriminate).
      apply (Hkey s' Hs' (no_dslash_app_l _ _ Hnd)) in H. apply H.
  - intros [[He H]|[He H]].
    + left. apply (Hkey s Hsne Hnd). split; assumption.
    + right. pose proof (ends_sep_snoc_inv s He) as Hs. set (s' := removelast s) in *.
      exists s'. split; [exact Hs|].
      assert (Hs' : s' <> []) by (intros E; rewrite E in Hs; rewrite Hs in Hhd; cbn in Hhd; discriminate).
      assert (Hd' : no_dslash s' = true) by (rewrite Hs in Hnd; apply (no_dslash_app_l _ _ Hnd)).
      apply (Hkey s' Hs' Hd'). split; [exact H|].
      destruct (ends_sep s') eqn:E'; [|reflexivity]. exfalso.
      destruct (ends_sep_inv s' E') as [s'' Hs'']. rewrite Hs, Hs'', <- app_assoc in Hnd. cbn [app] in Hnd.
      rewrite no_dslash_mid in Hnd. discriminate.
Qed.

Theorem trailing_crisp stars sp P s :
  sp <> [] -> Forall shape0 sp -> bind_ok sp stars -> nadj false sp = true ->
  pst stars sp P -> wf_path s = true ->
  (accepted (rcat (trailing stars P)) s <-> crispP sp s).
Proof.
  intros Hne Hs0 Hb Hadj Hp Hwf. destruct (wf_path_parts s Hwf) as [Hsne [Hhd Hnd]].
  destruct (exists_last Hne) as [sp0 [L Hsp]].
  assert (HlenP : length P = (length sp0 + 1)%nat) by (rewrite (p_len _ _ _ Hp), Hsp, app_length; reflexivity).
  assert (HlastP : nth_error P (length sp0) = Some L).
  { pose proof (p_last _ _ _ Hp) as H. rewrite Hsp, app_length in H. cbn [length] in H.
    replace (length sp0 + 1 - 1)%nat with (length sp0) in H by lia. rewrite H. apply nth_error_mid. }
  assert (HP : exists P0, P = P0 ++ [L] /\ length P0 = length sp0).
  { assert (HPne : P <> []) by (intros ->; cbn in HlenP; lia).
    destruct (exists_last HPne) as [P0 [L' HP]]. exists P0.
    assert (Hl0 : length P0 = length sp0) by (rewrite HP, app_length in HlenP; cbn in HlenP; lia).
    rewrite HP, <- Hl0, nth_error_mid in HlastP. inversion HlastP; subst L'. split; [exact HP|exact Hl0]. }
  destruct HP as [P0 [HP Hl0]].
  assert (HshP : Forall shape P) by apply (p_shape _ _ _ Hp).
  assert (HshP0 : Forall shape P0) by (rewrite HP in HshP; apply Forall_app in HshP; apply HshP).
  assert (HL0 : shape0 L) by (rewrite Hsp in Hs0; apply Forall_app in Hs0 as [_ H]; inversion H; assumption).
  assert (Heqv : forall u, no_dslash u = true -> (acc sp u <-> acc P u)) by apply (p_eqv _ _ _ Hp).
  assert (Hbind : forall m, stars_get (length sp0) stars = Some m <-> L = RGrp m re_star).
  { intros m. rewrite (Hb (length sp0) m), Hsp, nth_error_mid. split; intros H; [inversion H; reflexivity|subst; reflexivity]. }
  assert (Hprev : starlike_part L = true -> P0 <> [] -> starlike_part (last P0 REps) = false).
  { intros HLs HP0. destruct (exists_last HP0) as [P00 [Mp HP00]].
    assert (Hsp0 : sp0 <> []) by (intros ->; rewrite HP00, app_length in Hl0; cbn in Hl0; lia).
    destruct (exists_last Hsp0) as [sp00 [M Hsp00]].
    assert (Hl00 : length P00 = length sp00) by (rewrite HP00, Hsp00, !app_length in Hl0; cbn in Hl0; lia).
    rewrite HP00, last_last.
    assert (HM : starlike_part M = false).
    { rewrite Hsp, Hsp00, <- app_assoc in Hadj. cbn [app] in Hadj. eapply nadj_last2; eassumption. }
    assert (HMs : shape0 M).
    { rewrite Hsp, Hsp00 in Hs0. apply Forall_app in Hs0 as [H _]. apply Forall_app in H as [_ H]. inversion H; assumption. }
    assert (HnM : nth_error sp (length sp00) = Some M).
    { rewrite Hsp, Hsp00, <- app_assoc. apply nth_error_mid. }
    assert (HnP : nth_error P (length sp00) = Some Mp).
    { rewrite HP, HP00, <- app_assoc, <- Hl00. apply nth_error_mid. }
    destruct HMs as [[l [-> Hl]]|[[neg [body [-> Hc]]]|[->|[m ->]]]]; try discriminate.
    - apply (p_lit _ _ _ Hp) in HnM. rewrite HnM in HnP. inversion HnP. reflexivity.
    - apply (p_cls _ _ _ Hp) in HnM. rewrite HnM in HnP. inversion HnP. reflexivity. }
  unfold crispP. rewrite Hsp at 1. rewrite last_last. rewrite HP, (trailing_snoc stars P0 L HshP0), Hl0.
  destruct HL0 as [[l [-> Hl]]|[[neg [body [-> Hc]]]|[->|[m ->]]]].
  - (* literal *)
    destruct (stars_get (length sp0) stars) as [m|] eqn:Es; [discriminate (proj1 (Hbind m) eq_refl)|].
    destruct (str_eqb (pr (RStr l)) star_text) eqn:Et;
      [apply (pr_star_text _ (sh_str l Hl)) in Et; discriminate|].
    rewrite <- HP, (accepted_acc P s HshP), <- (Heqv s Hnd).
    destruct (ends_sep l) eqn:El; [reflexivity|]. split; [|intros [_ H]; exact H].
    intros H. split; [|exact H]. rewrite Hsp in H. rewrite (acc_ends_lit _ _ _ Hl H). exact El.
  - (* class *)
    destruct (stars_get (length sp0) stars) as [m|] eqn:Es; [discriminate (proj1 (Hbind m) eq_refl)|].
    destruct (str_eqb (pr (RCls neg body)) star_text) eqn:Et;
      [apply (pr_star_text _ (sh_cls neg body Hc)) in Et; discriminate|].
    rewrite <- HP, (accepted_acc P s HshP), <- (Heqv s Hnd).
    split; [|intros [_ H]; exact H]. intros H. split; [|exact H]. rewrite Hsp in H.
    apply (acc_ends_cls _ _ _ _ Hc H).
  - (* anonymous star *)
    destruct (stars_get (length sp0) stars) as [m|] eqn:Es; [discriminate (proj1 (Hbind m) eq_refl)|].
    change (str_eqb (pr re_star) star_text) with true. cbn iota.
    rewrite app_assoc. change (if prev_sep P0 then re_plus else re_star) with (with_body re_star (prev_sep P0)).
    apply star_case; try assumption; [left; reflexivity| |intros u Hu; rewrite <- HP; apply Heqv; exact Hu].
    apply Hprev. reflexivity.
  - (* named star *)
    destruct (stars_get (length sp0) stars) as [m'|] eqn:Es;
      [|pose proof (proj2 (Hbind m) eq_refl) as Hx; discriminate Hx].
    pose proof (proj1 (Hbind m') eq_refl) as Hx. inversion Hx; subst m'.
    rewrite app_assoc.
    change (RGrp m (if prev_sep P0 then re_plus else re_star)) with (with_body (RGrp m re_star) (prev_sep P0)).
    apply star_case; try assumption; [right; exists m; reflexivity| |intros u Hu; rewrite <- HP; apply Heqv; exact Hu].
    apply Hprev. reflexivity.
Qed.


(* ------------------------------------------------------------------------------------------ *)
(* 6. compile_regex_correct on F1                                                              *)
(* ------------------------------------------------------------------------------------------ *)

Lemma shape_wf_re r : shape r -> wf_re r = true.
Proof. intros H; destruct H; reflexivity. Qed.

Lemma wf_re_rcat ps : forallb wf_re ps = true -> wf_re (rcat ps) = true.
Proof.
  induction ps as [|r rs IH]; [reflexivity|]. cbn [forallb]. intros H. apply andb_true_iff in H as [Hr Hrs].
  destruct rs as [|r2 rs']; [exact Hr|]. change (rcat (r :: r2 :: rs')) with (RCat r (rcat (r2 :: rs'))).
  cbn [wf_re]. rewrite Hr. exact (IH Hrs).
Qed.

Lemma shapes_wf ps : Forall shape ps -> forallb wf_re ps = true.
Proof. intros H. apply forallb_forall. rewrite Forall_forall in H. intros r Hr. apply shape_wf_re, H, Hr. Qed.

Lemma trailing_wf stars P : Forall shape P -> P <> [] -> wf_re (rcat (trailing stars P)) = true.
Proof.
  intros Hsh Hne. destruct (exists_last Hne) as [P0 [L ->]].
  assert (Hsh0 : Forall shape P0) by (apply Forall_app in Hsh; apply Hsh).
  rewrite (trailing_snoc stars P0 L Hsh0). apply wf_re_rcat.
  destruct (stars_get (length P0) stars) as [name|].
  - rewrite !forallb_app, (shapes_wf _ Hsh0). destruct (prev_sep P0); reflexivity.
  - destruct (str_eqb (pr L) star_text); [|apply shapes_wf; exact Hsh].
    rewrite !forallb_app, (shapes_wf _ Hsh0). destruct (prev_sep P0); reflexivity.
Qed.

Lemma f1_last_name subs n a : forall seen prev,
  f1_toks (a ++ [TName n]) subs seen prev = true ->
  mem_str n seen = false /\ (forall t, In t a -> t <> TName n).
Proof.
  induction a as [|t a IH]; intros seen prev H.
  - cbn in H. apply andb_true_iff in H as [H _]. apply andb_true_iff in H as [H _].
    apply andb_true_iff in H as [_ H]. apply negb_true_iff in H. split; [exact H|intros t []].
  - cbn [app f1_toks] in H. destruct t; try discriminate.
    + apply andb_true_iff in H as [_ H]. destruct (IH _ _ H) as [H1 H2]. split; [exact H1|].
      intros t [<-|Hin]; [discriminate|apply H2; exact Hin].
    + destruct (IH _ _ H) as [H1 H2]. split; [exact H1|]. intros t [<-|Hin]; [discriminate|apply H2; exact Hin].
    + apply andb_true_iff in H as [_ H]. destruct (IH _ _ H) as [H1 H2]. split; [exact H1|].
      intros t [<-|Hin]; [discriminate|apply H2; exact Hin].
    + apply andb_true_iff in H as [_ H]. destruct (IH _ _ H) as [H1 H2]. split; [exact H1|].
      intros t [<-|Hin]; [discriminate|apply H2; exact Hin].
    + apply andb_true_iff in H as [_ H]. destruct (IH _ _ H) as [H1 H2].
      rewrite mem_str_cons in H1. apply orb_false_iff in H1 as [Hne H1]. split; [exact H1|].
      intros t [<-|Hin]; [|apply H2; exact Hin]. intros Heq. inversion Heq; subst.
      rewrite str_eqb_refl in Hne. discriminate.
Qed.

Lemma last_tok_snoc a t : last_tok (a ++ [t]) = Some t.
Proof. unfold last_tok. rewrite rev_app_distr. reflexivity. Qed.

Lemma ends_starlike_snoc subs a t :
  ends_starlike subs (a ++ [t]) false =
  match t with
  | TStar => true
  | TName n =>
    negb (existsb (fun t => match t with TName m => str_eqb n m | _ => false end) (rev a))
    && (let st := tokenize (sub_of n subs) in
        negb (is_nil st) && forallb (fun t => match t with TStar => true | _ => false end) st)
  | _ => false
  end.
Proof. unfold ends_starlike. rewrite rev_app_distr. reflexivity. Qed.

Lemma bool_iff (a b : bool) : (a = true <-> b = true) -> a = b.
Proof. destruct a, b; intros [H1 H2]; try reflexivity; [symmetry; apply H1; reflexivity|apply H2; reflexivity]. Qed.

Lemma f1_crisp :
  forall (p : str) (subs : subs_t) (ps : list re) (s : str),
    f1 p subs = true -> conv_regex p subs = COk ps -> wf_path s = true ->
    exists sp, spec_parts (tokenize p) subs [] = Some sp /\ Forall2 (tok_part subs) (tokenize p) sp
               /\ Forall shape0 sp /\ tokenize p <> []
               /\ f1_toks (tokenize p) subs [] false = true
               /\ (accepts (rcat ps) s = true <-> crispP sp s).
Proof.
  intros p subs ps s Hf Hc Hwf. unfold f1 in Hf. apply andb_true_iff in Hf as [Hne Hf].
  assert (Hts : tokenize p <> []) by (destruct (tokenize p); [discriminate|discriminate]).
  assert (Hp : is_nil p = false) by (destruct p; [exfalso; apply Hts; reflexivity|reflexivity]).
  destruct (loop_f1 subs (tokenize p) [] false st0 Hf eq_refl) as [sp [st' [H1 [H2 [H3 [H4 [H5 [H6 H7]]]]]]]].
  { cbn. discriminate. }
  { intros i n. cbn. destruct i; split; discriminate. }
  { intros i n a. destruct i; discriminate. }
  cbn [c_parts st0 app] in H3.
  unfold conv_regex in Hc. rewrite Hp, H2 in Hc. apply COk_inj in Hc. subst ps. rewrite H3 in *.
  set (stars := c_stars st') in *.
  assert (Hspne : sp <> []).
  { intros ->. inversion H6; subst. apply Hts. symmetry. assumption. }
  pose proof (enclosed_pst stars sp (length sp) 0 sp (pst_init stars sp H4 H5)) as Hpst.
  set (P := enclosed stars (length sp) 0 sp) in *.
  assert (HPne : P <> []) by (intros E; pose proof (p_len _ _ _ Hpst) as Hl; rewrite E in Hl; destruct sp; [congruence|discriminate]).
  pose proof (trailing_crisp stars sp P s Hspne H4 H5 H7 Hpst Hwf) as Hcrisp.
  pose proof (trailing_wf stars P (p_shape _ _ _ Hpst) HPne) as Hwfre.
  exists sp. split; [exact H1|]. split; [exact H6|]. split; [exact H4|]. split; [exact Hts|]. split; [exact Hf|].
  rewrite (accepts_spec _ s Hwfre). exact Hcrisp.
Qed.

Theorem compile_regex_correct_partial :
  forall (p : str) (subs : subs_t) (ps : list re) (s : str),
    f1 p subs = true -> conv_regex p subs = COk ps -> wf_path s = true ->
    nglob_ref false p subs s = Some (accepts (rcat ps) s).
Proof.
  intros p subs ps s Hf0 Hc Hwf.
  destruct (f1_crisp p subs ps s Hf0 Hc Hwf) as [sp [H1 [H6 [H4 [Hts [Hf Hcrisp]]]]]].
  unfold nglob_ref. rewrite H1, Hwf. cbn [andb]. f_equal. symmetry. apply bool_iff.
  rewrite Hcrisp. clear Hcrisp.
  assert (Hshsp : Forall shape sp) by (apply shape_forall0; exact H4).
  assert (Hacc : forall u, accepts (rcat sp) u = true <-> acc sp u).
  { intros u. rewrite (accepts_spec _ u (wf_re_rcat _ (shapes_wf _ Hshsp))). apply accepted_acc. exact Hshsp. }
  destruct (exists_last Hts) as [ts0 [t Hts0]]. rewrite Hts0 in *.
  apply Forall2_app_inv_l in H6 as [sp0 [spl [H60 [H6l ->]]]].
  inversion H6l as [|? L ? ? HtL Hnil]; subst. inversion Hnil; subst.
  unfold crispP, pat_ends_sep. rewrite last_last, last_tok_snoc, ends_starlike_snoc.
  destruct t; cbn [tok_part] in HtL; try contradiction.
  - (* literal *) subst L. cbn [is_tdstar orb]. destruct (ends_sep s0) eqn:El.
    + cbn [orb]. symmetry. apply Hacc.
    + cbn [orb andb]. rewrite orb_false_r, andb_true_iff, negb_true_iff, Hacc. reflexivity.
  - (* ? *) subst L. cbn [is_tdstar orb andb notslash]. rewrite orb_false_r, andb_true_iff, negb_true_iff, Hacc. reflexivity.
  - (* * *) subst L. cbn [is_tdstar orb andb re_star].
    rewrite orb_true_iff, !andb_true_iff, negb_true_iff, !Hacc. reflexivity.
  - (* class *) subst L. destruct (re_cls_is_cls inner) as [neg [body Hr]]. rewrite Hr in *.
    cbn [is_tdstar orb andb]. rewrite orb_false_r, andb_true_iff, negb_true_iff, Hacc. reflexivity.
  - (* named *) destruct HtL as [-> Hsub]. cbn [is_tdstar orb].
    destruct (f1_last_name subs name ts0 [] false Hf) as [_ Hno].
    assert (Hex : existsb (fun t => match t with TName m => str_eqb name m | _ => false end) (rev ts0) = false).
    { destruct (existsb _ (rev ts0)) eqn:E; [|reflexivity]. exfalso.
      apply existsb_exists in E as [t [Hin Ht]]. apply in_rev in Hin. destruct t; try discriminate.
      apply str_eqb_eq in Ht. subst. eapply Hno; [exact Hin|reflexivity]. }
    rewrite Hex, (sub_of_default _ _ Hsub). change (tokenize [42]) with [TStar]. cbn [negb is_nil forallb andb].
    rewrite orb_true_iff, !andb_true_iff, negb_true_iff, !Hacc. reflexivity.
Qed.

(* ------------------------------------------------------------------------------------------ *)
(* 7. A named wildcard in place of an anonymous `*`, at the level of the compiler (F1)          *)
(* ------------------------------------------------------------------------------------------ *)

Definition part_of (t : tok) : re :=
  match t with
  | TLit s => RStr s
  | TQ => notslash
  | TCls i => re_cls i
  | TStar => re_star
  | TName n => RGrp n re_star
  | _ => REps
  end.

Lemma tok_part_map subs ts sp : Forall2 (tok_part subs) ts sp -> sp = map part_of ts.
Proof.
  induction 1 as [|t r ts sp Ht _ IH]; [reflexivity|]. cbn [map]. rewrite <- IH. f_equal.
  destruct t; cbn [tok_part part_of] in *; try contradiction; try assumption. apply Ht.
Qed.

Lemma acc_swap A x x' B u : (forall y, pieceb x y = pieceb x' y) ->
  (acc (A ++ x :: B) u <-> acc (A ++ x' :: B) u).
Proof.
  intros Hx. assert (Hdir : forall z z', (forall y, pieceb z y = pieceb z' y) -> acc (A ++ z :: B) u -> acc (A ++ z' :: B) u).
  { intros z z' Hz [ss [Hc Hp]]. apply pieces_app_inv in Hp as [s1 [s2 [-> [H1 H2]]]].
    inversion H2 as [|? y ? r Hy Hr]; subst. exists (s1 ++ y :: r). split; [reflexivity|].
    apply pieces_app; [exact H1|]. constructor; [rewrite <- Hz; exact Hy|exact Hr]. }
  split; apply Hdir; [exact Hx|intros y; symmetry; apply Hx].
Qed.

Lemma last_mid (A : list re) x B d : last (A ++ x :: B) d = last (x :: B) d.
Proof.
  induction A as [|a A IH]; [reflexivity|]. cbn [app]. rewrite <- IH.
  destruct (A ++ x :: B) eqn:E; [destruct A; discriminate|reflexivity].
Qed.

Lemma crispP_swap A B n s : crispP (A ++ re_star :: B) s <-> crispP (A ++ RGrp n re_star :: B) s.
Proof.
  assert (Hacc : forall u, acc (A ++ re_star :: B) u <-> acc (A ++ RGrp n re_star :: B) u)
    by (intros u; apply acc_swap; intros y; reflexivity).
  unfold crispP. rewrite !last_mid. destruct B as [|b B'].
  - cbn [last re_star]. rewrite !Hacc. reflexivity.
  - change (last (re_star :: b :: B') REps) with (last (b :: B') REps).
    change (last (RGrp n re_star :: b :: B') REps) with (last (b :: B') REps).
    destruct (last (b :: B') REps); try (rewrite !Hacc; reflexivity).
    destruct (ends_sep s0); rewrite !Hacc; reflexivity.
Qed.

Theorem named_equals_star_partial :
  forall (p1 p2 : str) (subs : subs_t) (pre post : list tok) (n : str) (ps1 ps2 : list re) (s : str),
    tokenize p1 = pre ++ TStar :: post -> tokenize p2 = pre ++ TName n :: post ->
    f1 p1 subs = true -> f1 p2 subs = true ->
    conv_regex p1 subs = COk ps1 -> conv_regex p2 subs = COk ps2 ->
    wf_path s = true ->
    accepts (rcat ps2) s = accepts (rcat ps1) s.
Proof.
  intros p1 p2 subs pre post n ps1 ps2 s Ht1 Ht2 Hf1 Hf2 Hc1 Hc2 Hwf.
  destruct (f1_crisp p1 subs ps1 s Hf1 Hc1 Hwf) as [sp1 [_ [Hm1 [_ [_ [_ Hcr1]]]]]].
  destruct (f1_crisp p2 subs ps2 s Hf2 Hc2 Hwf) as [sp2 [_ [Hm2 [_ [_ [_ Hcr2]]]]]].
  apply tok_part_map in Hm1, Hm2. rewrite Ht1 in Hm1. rewrite Ht2 in Hm2.
  rewrite map_app in Hm1, Hm2. cbn [map part_of] in Hm1, Hm2. subst sp1 sp2.
  apply bool_iff. rewrite Hcr1, Hcr2. symmetry. apply crispP_swap.
Qed.
