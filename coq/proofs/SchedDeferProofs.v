(* C10 (D39): a deferred step waits for something.  Invariant DeferInv = unique keys + every deferred step
   is PENDING and has a dynamic input that is unusable (detached, or not CONFIRMED / BUILT).
   Proved for every sequence of events of model/SchedDefer.v in the repaired shape (trigger on
   re-attachment + flag of the validation outcome computed in its transaction); refuted for the three
   other shapes by the history of D39 (sequential / race). *)
From Coq Require Import List NArith Bool Arith Lia.
From SV Require Import lib.Bytes lib.SqlExpr gen.GenSched model.Sched model.SchedDefer
  proofs.SchedProofs proofs.SchedPrims proofs.SchedSkel proofs.SchedTermination.
Import ListNotations.
Open Scope N_scope.

(* ---- the invariant on the skeleton ---- *)
Definition unus (files : list file) (deps : list dep) (k : N) : bool :=
  existsb (fun d => (d_snk d =? k) && d_dyn d
                    && existsb (fun f => (f_key f =? d_src d) && negb (file_usable f)) files) deps.

Lemma unusable_dyn_eq g k : unusable_dyn g k = unus (g_files g) (g_deps g) k.
Proof. reflexivity. Qed.

Definition DJs (sk : list sskel) (files : list file) (deps : list dep) : Prop :=
  forall t, In t sk -> q_deferred t = true -> q_state t = ST_PENDING /\ unus files deps (q_key t) = true.

Definition DeferJustified (g : graph) : Prop := DJs (sks g) (g_files g) (g_deps g).
Definition DeferInv (g : graph) : Prop := WF g /\ DeferJustified g.

Lemma DeferJustified_rows g : DeferJustified g <->
  forall s, In s (g_steps g) -> s_deferred s = true -> s_state s = ST_PENDING /\ unusable_dyn g (s_key s) = true.
Proof.
  unfold DeferJustified, DJs, sks. split.
  - intros H s Hs Hd. apply (H (sk_step s)); [apply in_map; exact Hs | exact Hd].
  - intros H t Ht Hd. apply in_map_iff in Ht. destruct Ht as [s [<- Hs]]. apply (H s Hs Hd).
Qed.

Lemma defer_justified_refl g : defer_justified_b g = true <-> DeferJustified g.
Proof.
  rewrite DeferJustified_rows. unfold defer_justified_b. rewrite forallb_forall. split.
  - intros H s Hs Hd. specialize (H s Hs). rewrite Hd in H. cbn [negb orb] in H.
    apply andb_true_iff in H. destruct H as [H1 H2]. apply N.eqb_eq in H1. auto.
  - intros H s Hs. destruct (s_deferred s) eqn:Hd; [|reflexivity]. cbn [negb orb].
    destruct (H s Hs Hd) as [H1 H2]. rewrite H1, H2, N.eqb_refl. reflexivity.
Qed.

Lemma WF_keys g g' : map q_key (sks g') = map q_key (sks g) -> WF g -> WF g'.
Proof.
  assert (K : forall h, map q_key (sks h) = map s_key (g_steps h)).
  { intros h. unfold sks. rewrite map_map. reflexivity. }
  intros E H. unfold WF in *. rewrite <- K, E, K. exact H.
Qed.

Lemma map_keys_F (F : sskel -> sskel) l : (forall t, q_key (F t) = q_key t) -> map q_key (map F l) = map q_key l.
Proof. intros H. rewrite map_map. apply map_ext. exact H. Qed.

(* unusable is monotone in the file rows and in the edges *)
Lemma unus_mono files deps files' deps' k :
  (forall d, In d deps -> d_snk d = k -> d_dyn d = true ->
     exists d', In d' deps' /\ d_snk d' = k /\ d_dyn d' = true /\ d_src d' = d_src d) ->
  (forall f, In f files -> file_usable f = false ->
     (exists d, In d deps /\ d_snk d = k /\ d_dyn d = true /\ d_src d = f_key f) ->
     exists f', In f' files' /\ f_key f' = f_key f /\ file_usable f' = false) ->
  unus files deps k = true -> unus files' deps' k = true.
Proof.
  intros Hd Hf H. unfold unus in *. apply existsb_exists in H. destruct H as [d [Hin H]].
  apply andb_true_iff in H. destruct H as [H Hx]. apply andb_true_iff in H. destruct H as [Hk Hy].
  apply N.eqb_eq in Hk. apply existsb_exists in Hx. destruct Hx as [f [Hfin Hfx]].
  apply andb_true_iff in Hfx. destruct Hfx as [Hfk Hfu]. apply N.eqb_eq in Hfk. apply negb_true_iff in Hfu.
  destruct (Hd d Hin Hk Hy) as [d' [Hin' [Hk' [Hy' Hs']]]].
  destruct (Hf f Hfin Hfu) as [f' [Hfin' [Hfk' Hfu']]].
  { exists d. auto. }
  apply existsb_exists. exists d'. split; [exact Hin'|].
  rewrite Hk', N.eqb_refl, Hy'. cbn [andb]. apply existsb_exists. exists f'. split; [exact Hfin'|].
  rewrite Hfk', Hfk, Hs', N.eqb_refl, Hfu'. reflexivity.
Qed.

(* rows keep key, state and deferred; files and edges only grow more unusable *)
Lemma DJs_map (F : sskel -> sskel) sk files deps files' deps' :
  (forall t, q_key (F t) = q_key t /\ q_state (F t) = q_state t /\ q_deferred (F t) = q_deferred t) ->
  (forall k, unus files deps k = true -> unus files' deps' k = true) ->
  DJs sk files deps -> DJs (map F sk) files' deps'.
Proof.
  intros HF Hu H t' Ht' Hd. apply in_map_iff in Ht'. destruct Ht' as [t [<- Ht]].
  destruct (HF t) as [Ek [Es Ed]]. rewrite Ed in Hd. destruct (H t Ht Hd) as [H1 H2].
  rewrite Es, Ek. split; [exact H1 | apply Hu; exact H2].
Qed.

(* ---- Step.set_state ---- *)
Lemma sk_apply_state_deferred t st df : q_deferred (sk_apply_state t st df) = true -> df = true.
Proof. unfold sk_apply_state. cbn [q_deferred]. destruct (sholds _ _); [discriminate | auto]. Qed.

Lemma keys_set_step_state g k st df : map q_key (sks (set_step_state g k st df)) = map q_key (sks g).
Proof.
  destruct (skel_set_step_state g k st df) as [Hs _]. rewrite Hs. apply map_keys_F.
  intros t. destruct (q_key t =? k); reflexivity.
Qed.

Lemma dj_set_step_state g k st df :
  DeferJustified g -> (df = true -> st = ST_PENDING /\ unusable_dyn g k = true) ->
  DeferJustified (set_step_state g k st df).
Proof.
  intros H Hdf. unfold DeferJustified.
  destruct (skel_set_step_state g k st df) as [Hs [Hf [_ Hd]]]. rewrite Hs, Hf, Hd.
  intros t' Ht' Hdef. apply in_map_iff in Ht'. destruct Ht' as [t [<- Ht]].
  destruct (q_key t =? k) eqn:Ek.
  - apply N.eqb_eq in Ek. destruct (Hdf (sk_apply_state_deferred _ _ _ Hdef)) as [-> Hu].
    cbn [sk_apply_state q_state q_key]. rewrite Ek. split; [reflexivity | exact Hu].
  - exact (H t Ht Hdef).
Qed.

Lemma inv_set_step_state g k st df :
  DeferInv g -> (df = true -> st = ST_PENDING /\ unusable_dyn g k = true) -> DeferInv (set_step_state g k st df).
Proof.
  intros [W H] Hdf. split; [eapply WF_keys; [apply keys_set_step_state | exact W] | apply dj_set_step_state; assumption].
Qed.

(* a row that is still deferred after set_state(st, False) on k is a row of another key *)
Lemma dj_set_step_state_false_rows g k st t' :
  In t' (sks (set_step_state g k st false)) -> q_deferred t' = true -> In t' (sks g) /\ q_key t' <> k.
Proof.
  destruct (skel_set_step_state g k st false) as [Hs _]. rewrite Hs. intros Ht' Hd.
  apply in_map_iff in Ht'. destruct Ht' as [t [<- Ht]]. destruct (q_key t =? k) eqn:Ek.
  - apply sk_apply_state_deferred in Hd. discriminate.
  - apply N.eqb_neq in Ek. auto.
Qed.

(* ---- mark_completed (defer) ---- *)
Lemma file_unavailable_unusable f : file_available f = false -> file_usable f = false.
Proof. unfold file_usable, file_available. intros ->. apply andb_false_r. Qed.

Lemma unavailable_unusable g k : unavailable_dyn g k = true -> unusable_dyn g k = true.
Proof.
  unfold unavailable_dyn, unusable_dyn, src_is. intros H. apply existsb_exists in H. destruct H as [d [Hin H]].
  apply andb_true_iff in H. destruct H as [H Hx]. apply existsb_exists. exists d. split; [exact Hin|].
  rewrite H. cbn [andb]. apply existsb_exists in Hx. destruct Hx as [f [Hf Hx]].
  apply andb_true_iff in Hx. destruct Hx as [Hk Hu]. apply existsb_exists. exists f. split; [exact Hf|].
  rewrite Hk. cbn [andb]. apply negb_true_iff in Hu. rewrite (file_unavailable_unusable f Hu). reflexivity.
Qed.

Lemma inv_inc_defer g k : DeferInv g -> DeferInv (inc_defer g k).
Proof.
  intros [W H]. pose proof (skel_inc_defer g k) as Hs. split.
  - eapply WF_keys; [|exact W]. rewrite Hs. apply map_keys_F. intros t. unfold sk_set_life.
    destruct (q_key t =? k); reflexivity.
  - unfold DeferJustified. rewrite Hs. change (g_files (inc_defer g k)) with (g_files g).
    change (g_deps (inc_defer g k)) with (g_deps g). refine (DJs_map _ _ (g_files g) (g_deps g) _ _ _ _ H); [|auto].
    intros t. unfold sk_set_life. destruct (q_key t =? k); auto.
Qed.

(* ---- file state ---- *)
Lemma keys_wake_step g k : map q_key (sks (wake_step g k)) = map q_key (sks g).
Proof.
  unfold wake_step. destruct (find_step g k) as [s|]; [|reflexivity].
  destruct (mem_N (s_state s) _); [reflexivity | apply keys_set_step_state].
Qed.

Lemma skel_wake_step_rest g k :
  g_files (wake_step g k) = g_files g /\ g_deps (wake_step g k) = g_deps g.
Proof.
  unfold wake_step. destruct (find_step g k) as [s|]; [|auto].
  destruct (mem_N (s_state s) _); [auto|].
  destruct (skel_set_step_state g k ST_PENDING false) as [_ [Hf [_ Hd]]]. auto.
Qed.

(* weak invariant while the consumers in `l` are still to be woken *)
Definition DJw (l : list N) (g : graph) : Prop :=
  forall t, In t (sks g) -> q_deferred t = true ->
    q_state t = ST_PENDING /\ (unus (g_files g) (g_deps g) (q_key t) = true \/ In (q_key t) l).

Lemma pending_not_in_flight : mem_N ST_PENDING [ST_RUNNING; ST_CHECKING] = false.
Proof. reflexivity. Qed.

Lemma wake_step_DJw g k l : WF g -> DJw (k :: l) g -> DJw l (wake_step g k).
Proof.
  intros W H. destruct (skel_wake_step_rest g k) as [Hf Hd]. unfold DJw. rewrite Hf, Hd.
  intros t' Ht' Hdef.
  assert (Hrow : In t' (sks g) /\ q_key t' <> k).
  { unfold wake_step in Ht'. destruct (find_step g k) as [s|] eqn:Efs.
    - destruct (mem_N (s_state s) [ST_RUNNING; ST_CHECKING]) eqn:Em.
      + split; [exact Ht'|]. intros Ek.
        destruct (H t' Ht' Hdef) as [Hp _].
        unfold sks in Ht'. apply in_map_iff in Ht'. destruct Ht' as [s' [<- Hs']].
        cbn [sk_step q_key q_state] in Ek, Hp.
        pose proof (find_step_in g s' W Hs') as Ef. rewrite Ek, Efs in Ef. injection Ef as ->.
        rewrite Hp, pending_not_in_flight in Em. discriminate.
      + apply (dj_set_step_state_false_rows g k ST_PENDING t' Ht' Hdef).
    - split; [exact Ht'|]. intros Ek. apply find_step_none in Efs. apply Efs.
      unfold sks in Ht'. apply in_map_iff in Ht'. destruct Ht' as [s' [<- Hs']]. cbn [sk_step q_key] in Ek.
      rewrite <- Ek. apply in_map. exact Hs'. }
  destruct Hrow as [Hin Hne]. destruct (H t' Hin Hdef) as [Hp [Hu|Hl]].
  - auto.
  - split; [exact Hp|]. right. destruct Hl as [E|Hl]; [congruence | exact Hl].
Qed.

Lemma wake_fold_DJw l : forall g, WF g -> DJw l g -> DeferInv (fold_left wake_step l g).
Proof.
  induction l as [|k l IH]; intros g W H.
  - cbn [fold_left]. split; [exact W|]. intros t Ht Hd. destruct (H t Ht Hd) as [Hp [Hu|[]]]. auto.
  - cbn [fold_left]. apply IH.
    + eapply WF_keys; [apply keys_wake_step | exact W].
    + apply wake_step_DJw; assumption.
Qed.

Lemma usable_set_fstate f st h : mem_N st dyn_available_states = false -> file_usable (set_fstate f st h) = false.
Proof. intros H. unfold file_usable. cbn [set_fstate f_state f_detached]. rewrite H. apply andb_false_r. Qed.

Lemma in_consumers g f k : (exists d, In d (g_deps g) /\ d_src d = f /\ d_snk d = k) -> In k (consumers_of_node g f).
Proof.
  intros [d [Hin [Hs Hk]]]. unfold consumers_of_node. apply in_map_iff. exists d. split; [exact Hk|].
  apply filter_In. split; [exact Hin | apply N.eqb_eq; exact Hs].
Qed.

Lemma inv_file_state u r c g f st h : DeferInv g -> DeferInv (dstepR u r c g (DFileState f st h)).
Proof.
  intros [W H]. cbn [dstepR].
  destruct (skel_set_file_state g f st h) as [Hs [Hf [_ Hd]]].
  set (g1 := set_file_state g f st h) in *.
  assert (W1 : WF g1) by (eapply WF_keys; [rewrite Hs; reflexivity | exact W]).
  destruct (mem_N st dyn_available_states) eqn:Eav.
  - (* the file becomes available: its consumers are woken *)
    unfold wake_consumers. apply wake_fold_DJw; [exact W1|].
    intros t Ht Hdef. rewrite Hs in Ht. destruct (H t Ht Hdef) as [Hp Hu]. split; [exact Hp|].
    unfold unus in Hu. apply existsb_exists in Hu. destruct Hu as [d [Hin Hx]].
    apply andb_true_iff in Hx. destruct Hx as [Hx Hy]. apply andb_true_iff in Hx. destruct Hx as [Hk Hdyn].
    apply N.eqb_eq in Hk.
    destruct (d_src d =? f) eqn:Esrc.
    + right. apply N.eqb_eq in Esrc. apply in_consumers. exists d. rewrite Hd. auto.
    + left. rewrite Hf, Hd. unfold unus. apply existsb_exists. exists d. split; [exact Hin|].
      rewrite Hk, N.eqb_refl, Hdyn. cbn [andb]. apply existsb_exists in Hy. destruct Hy as [f0 [Hf0 Hz]].
      apply andb_true_iff in Hz. destruct Hz as [Hfk Hfu]. apply existsb_exists.
      exists f0. split.
      * apply in_map_iff. exists f0. split; [|exact Hf0].
        apply N.eqb_eq in Hfk. rewrite Hfk, Esrc. reflexivity.
      * rewrite Hfk, Hfu. reflexivity.
  - (* the new state is not an available one: whatever was unusable stays unusable *)
    split; [exact W1|]. unfold DeferJustified. rewrite Hs, Hf, Hd.
    rewrite <- (map_id (sks g)). refine (DJs_map (fun t => t) _ (g_files g) (g_deps g) _ _ _ _ H); [auto|].
    intros k. apply unus_mono.
    + intros d Hin Hk Hy. exists d. auto.
    + intros f0 Hf0 Hu _. exists (if f_key f0 =? f then set_fstate f0 st h else f0). split.
      * apply in_map_iff. exists f0. auto.
      * destruct (f_key f0 =? f); [|auto]. split; [reflexivity | apply usable_set_fstate; exact Eav].
Qed.

(* ---- detached flags ---- *)
Lemma skel_set_detached_nodes_core g ks b :
  sks (set_detached_nodes_core g ks b) = map (sk_set_det ks b) (sks g) /\
  g_files (set_detached_nodes_core g ks b) =
    map (fun f => if mem_N (f_key f) ks then set_fplace f b (f_creator f) else f) (g_files g) /\
  g_deps (set_detached_nodes_core g ks b) = g_deps g.
Proof.
  unfold set_detached_nodes_core.
  match goal with |- context [fold_left ?f ?l ?a] =>
    destruct (same_skel_fold_trigger trg_node_detached l a) as [Hs [Hf [Ho Hd]]] end.
  rewrite Hs, Hf, Hd. cbn [g_files g_deps]. split; [|auto].
  unfold sks. cbn [g_steps]. rewrite !map_map. apply map_ext. intros s. unfold sk_set_det. cbn [sk_step q_key].
  destruct (mem_N (s_key s) ks); reflexivity.
Qed.

Lemma sk_set_det_fields ks b t :
  q_key (sk_set_det ks b t) = q_key t /\ q_state (sk_set_det ks b t) = q_state t /\
  q_deferred (sk_set_det ks b t) = q_deferred t.
Proof. unfold sk_set_det. destruct (mem_N (q_key t) ks); auto. Qed.

Definition sk_undefer (r : bool) (files : list file) (deps : list dep) (R : list N) (t : sskel) : sskel :=
  if q_deferred t && (existsb (fun d => mem_N (d_src d) R && (d_snk d =? q_key t)) deps
                      && (negb r || negb (unus files deps (q_key t))))
  then mkSk (q_key t) (q_state t) (q_need t) false (q_dc t) (q_holding t) (q_detached t) (q_creator t)
            (q_stored t) (q_hh t)
  else t.

Lemma skel_undefer_consumers r g R :
  sks (undefer_consumers_with r g R) = map (sk_undefer r (g_files g) (g_deps g) R) (sks g) /\
  g_files (undefer_consumers_with r g R) = g_files g /\ g_deps (undefer_consumers_with r g R) = g_deps g.
Proof.
  unfold undefer_consumers_with. split; [|auto]. unfold sks. cbn [g_steps with_steps]. rewrite !map_map.
  apply map_ext. intros s. unfold undeferF_with, sk_undefer. cbn [sk_step q_deferred q_key].
  rewrite unusable_dyn_eq.
  destruct (s_deferred s && _); reflexivity.
Qed.

Lemma in_reattached_file g ks f : In f (g_files g) -> mem_N (f_key f) ks = true -> f_detached f = true ->
  In (f_key f) (reattached_nodes g ks).
Proof.
  intros Hf Hm Hd. unfold reattached_nodes. apply in_or_app. right. apply in_or_app. left.
  apply in_map. apply filter_In. split; [exact Hf|]. rewrite Hm, Hd. reflexivity.
Qed.

Lemma inv_set_detached r c g ks b : DeferInv g -> DeferInv (dstepR true r c g (DSetDetached ks b)).
Proof.
  intros [W H]. cbn [dstepR]. unfold set_detached_nodes_with.
  destruct (skel_set_detached_nodes_core g ks b) as [Hs [Hf Hd]].
  set (g1 := set_detached_nodes_core g ks b) in *.
  assert (K1 : map q_key (sks g1) = map q_key (sks g)).
  { rewrite Hs. apply map_keys_F. intros t. apply sk_set_det_fields. }
  destruct b; cbn [negb andb].
  - (* nodes are detached: more inputs become unusable *)
    split; [eapply WF_keys; [exact K1 | exact W]|]. unfold DeferJustified. rewrite Hs, Hf, Hd.
    refine (DJs_map _ _ (g_files g) (g_deps g) _ _ _ _ H); [apply sk_set_det_fields|].
    intros k. apply unus_mono.
    + intros d Hin Hk Hy. exists d. auto.
    + intros f0 Hf0 Hu _. exists (if mem_N (f_key f0) ks then set_fplace f0 true (f_creator f0) else f0). split.
      * apply in_map_iff. exists f0. auto.
      * destruct (mem_N (f_key f0) ks); [|auto]. split; [reflexivity|]. reflexivity.
  - (* nodes are re-attached: the trigger clears `deferred` of their consumers (refined: of those that have no
       unusable dynamic input left) *)
    destruct (skel_undefer_consumers r g1 (reattached_nodes g ks)) as [Hs2 [Hf2 Hd2]].
    split.
    + eapply WF_keys; [|exact W]. rewrite Hs2, <- K1. apply map_keys_F. intros t. unfold sk_undefer.
      destruct (q_deferred t && _); reflexivity.
    + unfold DeferJustified. rewrite Hs2, Hf2, Hd2.
      intros t2 Ht2 Hdef. apply in_map_iff in Ht2. destruct Ht2 as [t1 [<- Ht1]].
      pose proof Ht1 as Ht1'. rewrite Hs in Ht1'.
      apply in_map_iff in Ht1'. destruct Ht1' as [t [E1 Ht]].
      destruct (sk_set_det_fields ks false t) as [Ek [Es Ed]]. rewrite E1 in Ek, Es, Ed.
      unfold sk_undefer in *.
      destruct (q_deferred t1) eqn:Edef1; cbn [andb] in *; [|rewrite Edef1 in Hdef; discriminate].
      assert (Edef : q_deferred t = true) by congruence.
      destruct (H t Ht Edef) as [Hp Hu].
      destruct (existsb (fun d => mem_N (d_src d) (reattached_nodes g ks) && (d_snk d =? q_key t1)) (g_deps g1)) eqn:Ex;
        cbn [andb] in *.
      * (* a consumer of a re-attached node that keeps the flag: the refined trigger found an unusable input *)
        destruct (negb r || negb (unus (g_files g1) (g_deps g1) (q_key t1))) eqn:Eg; [discriminate|].
        apply orb_false_iff in Eg. destruct Eg as [_ Eg]. apply negb_false_iff in Eg.
        split; [congruence | exact Eg].
      * (* not a consumer of any re-attached node: its unusable input is untouched *)
        split; [congruence|]. rewrite Hf, Hd. rewrite Ek. revert Hu. apply unus_mono.
        -- intros d Hin Hk Hy. exists d. auto.
        -- intros f0 Hf0 Hu [d [Hin [Hk [Hy Hsrc]]]].
           exists (if mem_N (f_key f0) ks then set_fplace f0 false (f_creator f0) else f0). split.
           { apply in_map_iff. exists f0. auto. }
           destruct (mem_N (f_key f0) ks) eqn:Em; [|auto]. split; [reflexivity|].
           destruct (f_detached f0) eqn:Edet.
           { exfalso. pose proof (in_reattached_file g ks f0 Hf0 Em Edet) as HR.
             assert (Hc : existsb (fun d => mem_N (d_src d) (reattached_nodes g ks) && (d_snk d =? q_key t1)) (g_deps g1) = true).
             { apply existsb_exists. exists d. split; [rewrite Hd; exact Hin|]. rewrite Hsrc, Hk, Ek, N.eqb_refl.
               apply mem_N_In in HR. rewrite HR. reflexivity. }
             rewrite Hc in Ex. discriminate. }
           { unfold file_usable in *. cbn [set_fplace f_detached f_state]. rewrite Edet in Hu. exact Hu. }
Qed.

(* ---- edges ---- *)
Lemma inv_ins_dep g d : DeferInv g -> DeferInv (ins_dep g d).
Proof.
  intros [W H]. destruct (skel_ins_dep g d) as [Hs [Hf [_ Hd]]]. split.
  - eapply WF_keys; [rewrite Hs; reflexivity | exact W].
  - unfold DeferJustified. rewrite Hs, Hf, Hd. rewrite <- (map_id (sks g)).
    refine (DJs_map (fun t => t) _ (g_files g) (g_deps g) _ _ _ _ H); [auto|].
    intros k. apply unus_mono.
    + intros e Hin Hk Hy.
      assert (Hin' : In e (g_deps g ++ [mkDep (d_src d) (d_snk d) false])) by (apply in_or_app; auto).
      destruct (d_dyn d).
      * exists (if dep_eqb e d then mkDep (d_src e) (d_snk e) true else e). split.
        { apply in_map_iff. exists e. auto. }
        destruct (dep_eqb e d); cbn [d_snk d_dyn d_src]; auto.
      * exists e. auto.
    + intros f0 Hf0 Hu _. exists f0. auto.
Qed.

Lemma drop_keeps l : forall g k e,
  (forall d, In d l -> d_snk d = k) -> In e (g_deps g) -> d_snk e <> k -> In e (g_deps (fold_left del_dep l g)).
Proof.
  induction l as [|d l IH]; intros g k e Hl Hin Hne; [exact Hin|]. cbn [fold_left].
  apply (IH _ k); [intros x Hx; apply Hl; right; exact Hx | | exact Hne].
  destruct (skel_del_dep g d) as [_ [_ [_ Hd]]]. rewrite Hd. apply filter_In. split; [exact Hin|].
  apply negb_true_iff. unfold dep_eqb. apply andb_false_iff. right. apply N.eqb_neq.
  rewrite (Hl d (or_introl eq_refl)). exact Hne.
Qed.

Lemma drop_skel l : forall g, sks (fold_left del_dep l g) = sks g /\ g_files (fold_left del_dep l g) = g_files g.
Proof.
  induction l as [|d l IH]; intros g; [auto|]. cbn [fold_left]. destruct (IH (del_dep g d)) as [A B].
  destruct (skel_del_dep g d) as [Hs [Hf _]]. rewrite A, B. auto.
Qed.

Lemma inv_reset_step u r c g k st dynonly : DeferInv g -> DeferInv (dstepR u r c g (DResetStep k st dynonly)).
Proof.
  intros [W H]. cbn [dstepR]. unfold drop_inputs.
  set (l := filter (fun d => (d_snk d =? k) && (negb dynonly || d_dyn d)) (g_deps g)).
  assert (Hl : forall d, In d l -> d_snk d = k).
  { intros d Hd. apply filter_In in Hd. destruct Hd as [_ Hd]. apply andb_true_iff in Hd. apply N.eqb_eq. apply Hd. }
  destruct (drop_skel l g) as [Hs Hf]. set (g1 := fold_left del_dep l g) in *.
  split.
  - eapply WF_keys; [|exact W]. rewrite keys_set_step_state, Hs. reflexivity.
  - unfold DeferJustified. intros t' Ht' Hdef.
    destruct (dj_set_step_state_false_rows g1 k st t' Ht' Hdef) as [Hin Hne].
    destruct (skel_set_step_state g1 k st false) as [_ [Hf2 [_ Hd2]]]. rewrite Hf2, Hd2, Hf.
    rewrite Hs in Hin. destruct (H t' Hin Hdef) as [Hp Hu]. split; [exact Hp|].
    revert Hu. apply unus_mono.
    + intros e Hine Hk Hy. exists e. split; [|auto]. apply (drop_keeps l g k e Hl Hine). congruence.
    + intros f0 Hf0 Hu _. exists f0. auto.
Qed.

(* ---- metadata updates only rewrite cached columns and flags ---- *)
Lemma d_update_meta_safe_same_skel pol g : same_skel g (update_meta_safe_with pol g).
Proof.
  apply (same_skel_mapg (fun s => match merge_vals pol (trace_vals (safe_fuel_of g) g s) with
                                  | None => set_chk_safe s false
                                  | Some v => set_chk_safe (set_safe s (fst v) (snd v)) false end)).
  intros s. destruct (merge_vals _ _); reflexivity.
Qed.
Lemma d_write_back_same_skel g v : same_skel g (write_back g v).
Proof.
  apply (same_skel_mapg (fun s => set_chk_after (set_after s (fst (v (s_key s))) (snd (v (s_key s)))) false)).
  intros s. reflexivity.
Qed.
Lemma d_update_meta_ready_same_skel g : same_skel g (update_meta_ready g).
Proof.
  apply (same_skel_mapg (fun s => if s_chk_ready s then set_ready s (ready_spec g (s_key s)) false else s)).
  intros s. destruct (s_chk_ready s); reflexivity.
Qed.
Lemma d_update_meta_same_skel g g' : update_meta g = Some g' -> same_skel g g'.
Proof.
  unfold update_meta, update_meta_with. destruct (update_meta_after _) as [g2|] eqn:E2; [|discriminate].
  intros E. injection E as <-.
  unfold update_meta_after in E2. destruct (after_loop _ _ _ _ _) as [v|]; [|discriminate]. injection E2 as <-.
  eapply same_skel_trans; [apply d_update_meta_safe_same_skel|].
  eapply same_skel_trans; [apply d_write_back_same_skel | apply d_update_meta_ready_same_skel].
Qed.

Lemma inv_same_skel g g' : same_skel g g' -> DeferInv g -> DeferInv g'.
Proof.
  intros [Hs [Hf [_ Hd]]] [W H]. split.
  - eapply WF_keys; [rewrite Hs; reflexivity | exact W].
  - unfold DeferJustified. rewrite Hs, Hf, Hd. exact H.
Qed.

(* ---- the repaired shape: every event keeps the invariant ---- *)
Lemma validate_state_is_pending : validate_unchanged_state = ST_PENDING.
Proof. reflexivity. Qed.
Lemma defer_within_is_pending : defer_state_within = ST_PENDING.
Proof. reflexivity. Qed.

(* for the trigger in either form (r = false: repo 84081f2, r = true: refined) *)
Theorem repaired_event_keeps_invariant_gen r g e : DeferInv g -> DeferInv (dstepR true r true g e).
Proof.
  intros H. destruct e as [k st|k|k within|f st h|ks b|d|k st dynonly|].
  - cbn [dstepR]. apply inv_set_step_state; [exact H | discriminate].
  - cbn [dstepR validate_flag]. apply inv_set_step_state; [exact H|]. intros Hu.
    split; [apply validate_state_is_pending | exact Hu].
  - cbn [dstepR]. apply inv_set_step_state; [apply inv_inc_defer; exact H|]. intros Hd.
    apply andb_true_iff in Hd. destruct Hd as [-> Hu]. split; [apply defer_within_is_pending|].
    apply unavailable_unusable. exact Hu.
  - apply inv_file_state. exact H.
  - apply inv_set_detached. exact H.
  - cbn [dstepR]. apply inv_ins_dep. exact H.
  - apply inv_reset_step. exact H.
  - cbn [dstepR]. destruct (update_meta g) as [g'|] eqn:E; [|exact H].
    apply (inv_same_skel g g' (d_update_meta_same_skel g g' E) H).
Qed.

Theorem repaired_history_keeps_invariant_gen r evs : forall g, DeferInv g -> DeferInv (drunR true r true evs g).
Proof.
  induction evs as [|e evs IH]; intros g H; [exact H|]. cbn [drunR fold_left].
  apply IH. apply repaired_event_keeps_invariant_gen. exact H.
Qed.

Theorem repaired_event_keeps_invariant g e : DeferInv g -> DeferInv (dstep true true g e).
Proof. apply repaired_event_keeps_invariant_gen. Qed.
Theorem repaired_history_keeps_invariant evs : forall g, DeferInv g -> DeferInv (drun true true evs g).
Proof. apply repaired_history_keeps_invariant_gen. Qed.

(* no step is parked for nothing, in particular when a phase ends *)
Theorem repaired_nothing_parked evs g s :
  DeferInv g -> In s (g_steps (drun true true evs g)) -> parked_for_nothing (drun true true evs g) s = false.
Proof.
  intros H Hs. destruct (repaired_history_keeps_invariant evs g H) as [_ HJ].
  rewrite DeferJustified_rows in HJ. unfold parked_for_nothing.
  destruct (s_deferred s) eqn:Ed; [|rewrite andb_false_r; reflexivity].
  destruct (HJ s Hs Ed) as [_ Hu]. rewrite Hu. cbn [negb]. apply andb_false_r.
Qed.

(* a database in which no step is deferred (e.g. a new one) satisfies the invariant *)
Lemma nothing_deferred_inv g : WF g -> (forall s, In s (g_steps g) -> s_deferred s = false) -> DeferInv g.
Proof.
  intros W H. split; [exact W|]. apply DeferJustified_rows. intros s Hs Hd. rewrite (H s Hs) in Hd. discriminate.
Qed.

(* with the shape the repository has (GenSched) *)
Theorem repo_history_keeps_invariant :
  trg_undefer_on_reattach && validate_unchanged_computed = true ->
  forall evs g, DeferInv g -> DeferInv (drun_repo evs g).
Proof.
  intros Hr. apply andb_true_iff in Hr. destruct Hr as [Hu Hc]. unfold drun_repo. rewrite Hu, Hc.
  apply repaired_history_keeps_invariant_gen.
Qed.

(* ---- the other shapes: the history of D39 parks `user` for nothing ---- *)
Definition parked_b (g : graph) : bool := existsb (parked_for_nothing g) (g_steps g).

Lemma g_d39_inv : DeferInv g_d39.
Proof. split; [apply wf_refl; vm_compute; reflexivity | apply defer_justified_refl; vm_compute; reflexivity]. Qed.

Lemma d39_sequential_parks_without_trigger c : parked_b (drun false c d39_sequential g_d39) = true.
Proof. destruct c; vm_compute; reflexivity. Qed.
Lemma d39_race_parks_without_computed_flag u : parked_b (drun u false d39_race g_d39) = true.
Proof. destruct u; vm_compute; reflexivity. Qed.
Lemma d39_repaired_not_parked :
  parked_b (drun true true d39_sequential g_d39) = false /\ parked_b (drun true true d39_race g_d39) = false.
Proof. split; vm_compute; reflexivity. Qed.

Theorem unrepaired_shapes_refuted u c : u && c = false ->
  exists g evs s, DeferInv g /\ (forall x, In x (g_steps g) -> s_deferred x = false) /\
    In s (g_steps (drun u c evs g)) /\ parked_for_nothing (drun u c evs g) s = true /\
    ~ DeferInv (drun u c evs g).
Proof.
  intros Huc.
  assert (Hnd : forall x, In x (g_steps g_d39) -> s_deferred x = false).
  { intros x Hx. cbn in Hx. repeat (destruct Hx as [<-|Hx]; [reflexivity|]). destruct Hx. }
  assert (K : forall evs, parked_b (drun u c evs g_d39) = true ->
            exists s, In s (g_steps (drun u c evs g_d39)) /\ parked_for_nothing (drun u c evs g_d39) s = true /\
                      ~ DeferInv (drun u c evs g_d39)).
  { intros evs Hp. unfold parked_b in Hp. apply existsb_exists in Hp. destruct Hp as [s [Hs Hp]].
    exists s. split; [exact Hs|]. split; [exact Hp|]. intros [_ HJ]. rewrite DeferJustified_rows in HJ.
    unfold parked_for_nothing in Hp. apply andb_true_iff in Hp. destruct Hp as [Hp Hn].
    apply andb_true_iff in Hp. destruct Hp as [_ Hd]. destruct (HJ s Hs Hd) as [_ Hu].
    rewrite Hu in Hn. discriminate. }
  destruct u.
  - (* the trigger alone: the race *)
    destruct c; [discriminate|]. destruct (K d39_race (d39_race_parks_without_computed_flag true)) as [s Hs].
    exists g_d39, d39_race, s. split; [apply g_d39_inv|]. split; [exact Hnd | exact Hs].
  - destruct (K d39_sequential (d39_sequential_parks_without_trigger c)) as [s Hs].
    exists g_d39, d39_sequential, s. split; [apply g_d39_inv|]. split; [exact Hnd | exact Hs].
Qed.

(* ---- the outcome of the validation job and the next dispatch (both shapes of the source) ---- *)
(* If the step is in a dispatch set again after an unchanged validation, its flag was computed and no dynamic
   input was unusable when the outcome was recorded: the job derived then is a hash check (try_skip_job),
   not the same validation job (Scheduler._derive_job: dynamic_inputs_ready). *)
Theorem validate_outcome_redispatch g k g' s :
  update_meta (set_step_state g k validate_unchanged_state (validate_flag validate_unchanged_computed g k)) = Some g' ->
  In s (dispatch_set g') -> s_key s = k ->
  validate_unchanged_computed = true /\ unusable_dyn g k = false.
Proof.
  intros Hu Hs Hk. unfold validate_flag in Hu.
  destruct validate_unchanged_computed eqn:Ec.
  - split; [reflexivity|]. destruct (unusable_dyn g k) eqn:Eu; [|reflexivity]. exfalso.
    rewrite validate_state_is_pending in Hu.
    exact (validate_unchanged_not_dispatched g k g' s Hu Hs Hk).
  - exfalso. assert (Hd : validate_unchanged_deferred = true) by reflexivity. rewrite Hd, validate_state_is_pending in Hu.
    exact (validate_unchanged_not_dispatched g k g' s Hu Hs Hk).
Qed.

(* ---- D39-refine: the trigger wakes only the consumers that have nothing left to wait for ---- *)

(* the refined shape repairs both histories of D39 as well *)
Lemma d39_refined_not_parked :
  parked_b (drunR true true true d39_sequential g_d39) = false /\ parked_b (drunR true true true d39_race g_d39) = false.
Proof. split; vm_compute; reflexivity. Qed.

(* Converse of the invariant: a re-attachment never clears the flag of a step that still has an unusable dynamic
   input afterwards (with the unconditional trigger it does: defer_reattach_order_matters_unconditional) *)
Theorem refined_reattach_keeps_waiting c g ks t :
  In t (sks g) -> q_deferred t = true ->
  let gR := dstepR true true c g (DSetDetached ks false) in
  unusable_dyn gR (q_key t) = true ->
  exists t', In t' (sks gR) /\ q_key t' = q_key t /\ q_deferred t' = true /\ q_state t' = q_state t.
Proof.
  intros Ht Hd gR Hu. unfold gR in *. cbn [dstepR] in *. unfold set_detached_nodes_with in *. cbn [negb andb] in *.
  destruct (skel_set_detached_nodes_core g ks false) as [Hs [Hf Hdp]].
  set (g1 := set_detached_nodes_core g ks false) in *.
  destruct (skel_undefer_consumers true g1 (reattached_nodes g ks)) as [Hs2 [Hf2 Hd2]].
  rewrite unusable_dyn_eq, Hf2, Hd2 in Hu.
  destruct (sk_set_det_fields ks false t) as [Ek [Es Ed]].
  exists (sk_undefer true (g_files g1) (g_deps g1) (reattached_nodes g ks) (sk_set_det ks false t)).
  split.
  - rewrite Hs2, Hs. apply in_map. apply in_map. exact Ht.
  - unfold sk_undefer. rewrite Ek, Hu. cbn [negb orb]. rewrite !andb_false_r.
    repeat split; congruence.
Qed.

(* the flag that mark_completed (defer) computes does not depend on which nodes are attached *)
Lemma existsb_ext' {A} (p q : A -> bool) l : (forall x, p x = q x) -> existsb p l = existsb q l.
Proof. intros H. induction l as [|a l IH]; [reflexivity|]. cbn [existsb]. rewrite H, IH. reflexivity. Qed.
Lemma existsb_map' {A B} (p : B -> bool) (m : A -> B) l : existsb p (map m l) = existsb (fun x => p (m x)) l.
Proof. induction l as [|a l IH]; [reflexivity|]. cbn [map existsb]. rewrite IH. reflexivity. Qed.

Lemma unavailable_dyn_reattach u r g ks b k :
  unavailable_dyn (set_detached_nodes_with u r g ks b) k = unavailable_dyn g k.
Proof.
  assert (Hcore : unavailable_dyn (set_detached_nodes_core g ks b) k = unavailable_dyn g k).
  { destruct (skel_set_detached_nodes_core g ks b) as [_ [Hf Hd]].
    unfold unavailable_dyn, src_is. rewrite Hf, Hd. apply existsb_ext'. intros d. f_equal.
    rewrite existsb_map'. apply existsb_ext'. intros f.
    destruct (mem_N (f_key f) ks); reflexivity. }
  unfold set_detached_nodes_with. destruct (u && negb b); [|exact Hcore].
  destruct (skel_undefer_consumers r (set_detached_nodes_core g ks b) (reattached_nodes g ks)) as [_ [Hf2 Hd2]].
  unfold unavailable_dyn, src_is in *. rewrite Hf2, Hd2. exact Hcore.
Qed.

(* c02d's pair on the model: with the refined trigger both orders leave S deferred; with the unconditional
   trigger of repo 84081f2 the order decides *)
Lemma comm_refined_agree c :
  deferred_of (drunR true true c (comm_r1 ++ comm_r2) g_comm) 3 = true /\
  deferred_of (drunR true true c (comm_r2 ++ comm_r1) g_comm) 3 = true.
Proof. destruct c; split; vm_compute; reflexivity. Qed.
Theorem defer_reattach_order_matters_unconditional c :
  exists g k r1 r2, DeferInv g /\
    deferred_of (drunR true false c (r1 ++ r2) g) k = false /\
    deferred_of (drunR true false c (r2 ++ r1) g) k = true /\
    unusable_dyn (drunR true false c (r1 ++ r2) g) k = true.
Proof.
  exists g_comm, 3, comm_r1, comm_r2.
  split; [split; [apply wf_refl; vm_compute; reflexivity | apply defer_justified_refl; vm_compute; reflexivity]|].
  destruct c; repeat split; vm_compute; reflexivity.
Qed.

(* ---- defer and re-attachment commute on the deferred flag (refined trigger), for ALL snapshots ---- *)

Lemma sk_undefer_fields r files deps R t :
  q_key (sk_undefer r files deps R t) = q_key t /\ q_holding (sk_undefer r files deps R t) = q_holding t.
Proof. unfold sk_undefer. destruct (q_deferred t && _); auto. Qed.
Lemma sk_set_det_holding ks b t : q_holding (sk_set_det ks b t) = q_holding t.
Proof. unfold sk_set_det. destruct (mem_N (q_key t) ks); reflexivity. Qed.

Lemma NoDup_qkey_eq (l : list sskel) t1 t2 :
  NoDup (map q_key l) -> In t1 l -> In t2 l -> q_key t1 = q_key t2 -> t1 = t2.
Proof.
  induction l as [|a l IH]; intros Hnd H1 H2 E; [destruct H1|].
  cbn [map] in Hnd. inversion Hnd as [|x y Hni Hnd']; subst.
  destruct H1 as [<-|H1], H2 as [<-|H2].
  - reflexivity.
  - exfalso. apply Hni. rewrite E. apply in_map. exact H2.
  - exfalso. apply Hni. rewrite <- E. apply in_map. exact H1.
  - apply IH; assumption.
Qed.

Lemma WF_sks g : WF g -> NoDup (map q_key (sks g)).
Proof. unfold WF, sks. rewrite map_map. auto. Qed.

(* the row of k after "defer, then re-attach" and after "re-attach, then defer", as functions of the row before *)
Section Commute.
  Variables (g : graph) (k : N) (within : bool) (ks : list N) (c : bool).
  Let stD := if within then defer_state_within else defer_state_beyond.
  Let df := within && unavailable_dyn g k.
  Let gA1 := dstepR true true c g (DDefer k within).
  Let gA := dstepR true true c gA1 (DSetDetached ks false).
  Let gB1 := dstepR true true c g (DSetDetached ks false).
  Let gB := dstepR true true c gB1 (DDefer k within).
  Let filesC := map (fun f => if mem_N (f_key f) ks then set_fplace f false (f_creator f) else f) (g_files g).
  Let inc := fun t : sskel => (q_dc t + 1, q_holding t).

  Definition rowA (R : list N) (t : sskel) : sskel :=
    sk_undefer true filesC (g_deps g) R
      (sk_set_det ks false (let t' := sk_set_life k inc t in if q_key t' =? k then sk_apply_state t' stD df else t')).
  Definition rowB (R : list N) (t : sskel) : sskel :=
    let u := sk_set_life k inc (sk_undefer true filesC (g_deps g) R (sk_set_det ks false t)) in
    if q_key u =? k then sk_apply_state u stD df else u.

  Lemma sks_A : exists R, sks gA = map (rowA R) (sks g).
  Proof.
    unfold gA, gA1. cbn [dstepR]. unfold set_detached_nodes_with. cbn [negb andb].
    fold stD. fold df.
    set (h := set_step_state (inc_defer g k) k stD df).
    destruct (skel_set_step_state (inc_defer g k) k stD df) as [Hs [Hf [_ Hd]]]. fold h in Hs, Hf, Hd.
    change (g_files (inc_defer g k)) with (g_files g) in Hf. change (g_deps (inc_defer g k)) with (g_deps g) in Hd.
    rewrite (skel_inc_defer g k) in Hs.
    destruct (skel_set_detached_nodes_core h ks false) as [Hs1 [Hf1 Hd1]].
    destruct (skel_undefer_consumers true (set_detached_nodes_core h ks false) (reattached_nodes h ks)) as [Hs2 _].
    exists (reattached_nodes h ks). rewrite Hs2, Hs1, Hf1, Hd1, Hs, Hf, Hd. rewrite !map_map.
    apply map_ext. intros t. reflexivity.
  Qed.

  Lemma sks_B : exists R, sks gB = map (rowB R) (sks g).
  Proof.
    unfold gB, gB1. cbn [dstepR].
    rewrite (unavailable_dyn_reattach true true g ks false k). fold stD. fold df.
    unfold set_detached_nodes_with. cbn [negb andb].
    set (h := undefer_consumers_with true (set_detached_nodes_core g ks false) (reattached_nodes g ks)).
    destruct (skel_set_step_state (inc_defer h k) k stD df) as [Hs _].
    rewrite (skel_inc_defer h k) in Hs.
    destruct (skel_set_detached_nodes_core g ks false) as [Hs1 [Hf1 Hd1]].
    destruct (skel_undefer_consumers true (set_detached_nodes_core g ks false) (reattached_nodes g ks)) as [Hs2 _].
    fold h in Hs2. exists (reattached_nodes g ks). rewrite Hs, Hs2, Hs1, Hf1, Hd1. rewrite !map_map.
    apply map_ext. intros t. reflexivity.
  Qed.

  Lemma unavailable_unus_C : unavailable_dyn g k = true -> unus filesC (g_deps g) k = true.
  Proof.
    intros H. rewrite <- (unavailable_dyn_reattach false true g ks false k) in H.
    apply unavailable_unusable in H. unfold set_detached_nodes_with in H. cbn [andb] in H.
    rewrite unusable_dyn_eq in H. destruct (skel_set_detached_nodes_core g ks false) as [_ [Hf Hd]].
    rewrite Hf, Hd in H. exact H.
  Qed.

  Lemma rows_agree RA RB t : q_key t = k -> q_deferred (rowA RA t) = q_deferred (rowB RB t).
  Proof.
    intros Ek.
    (* row B: set_state overwrites the flag *)
    assert (EB : q_deferred (rowB RB t) =
                 if sholds (nenv stD (q_holding t)) trg_clear_deferred_when then false else df).
    { unfold rowB. cbv zeta.
      set (u0 := sk_undefer true filesC (g_deps g) RB (sk_set_det ks false t)).
      assert (Eu0 : q_key u0 = k /\ q_holding u0 = q_holding t).
      { unfold u0. destruct (sk_undefer_fields true filesC (g_deps g) RB (sk_set_det ks false t)) as [A B].
        rewrite A, B, sk_set_det_holding. destruct (sk_set_det_fields ks false t) as [A' _]. rewrite A'. auto. }
      destruct Eu0 as [E1 E2]. unfold sk_set_life. rewrite E1, N.eqb_refl. cbn [q_key]. rewrite ?E1, N.eqb_refl.
      unfold sk_apply_state. cbn [q_deferred q_holding inc snd]. rewrite E2. reflexivity. }
    rewrite EB. clear EB.
    (* row A: set_state, then the trigger *)
    unfold rowA. cbv zeta. unfold sk_set_life. rewrite Ek, N.eqb_refl. cbn [q_key]. rewrite ?Ek, N.eqb_refl.
    unfold sk_apply_state. cbn [q_holding inc snd fst q_key q_deferred].
    set (clr := sholds (nenv stD (q_holding t)) trg_clear_deferred_when).
    unfold sk_set_det. cbn [q_key]. unfold sk_undefer.
    assert (Hdf : df = true -> unus filesC (g_deps g) k = true).
    { intros Edf. unfold df in Edf. apply andb_true_iff in Edf. destruct Edf as [_ Eu]. apply unavailable_unus_C. exact Eu. }
    destruct (mem_N k ks); cbn [q_key q_deferred]; destruct clr; cbn [andb]; try reflexivity;
      (case_eq df; intros Edf; cbn [andb]; [|reflexivity]);
      rewrite (Hdf Edf); cbn [negb orb]; rewrite ?andb_false_r; reflexivity.
  Qed.

  Theorem defer_reattach_commute_row tA tB :
    WF g -> In tA (sks gA) -> In tB (sks gB) -> q_key tA = k -> q_key tB = k ->
    q_deferred tA = q_deferred tB.
  Proof.
    intros W HA HB EA EB. destruct sks_A as [RA SA]. destruct sks_B as [RB SB].
    rewrite SA in HA. rewrite SB in HB. apply in_map_iff in HA. apply in_map_iff in HB.
    destruct HA as [t1 [<- H1]]. destruct HB as [t2 [<- H2]].
    assert (KD : forall u, q_key (let t' := sk_set_life k inc u in
                                  if q_key t' =? k then sk_apply_state t' stD df else t') = q_key u).
    { intros u. cbv zeta. unfold sk_set_life. destruct (q_key u =? k) eqn:E; cbn [q_key]; rewrite ?E; reflexivity. }
    assert (K1 : q_key (rowA RA t1) = q_key t1).
    { unfold rowA. rewrite (proj1 (sk_undefer_fields _ _ _ _ _)).
      rewrite (proj1 (sk_set_det_fields ks false _)). apply KD. }
    assert (K2 : q_key (rowB RB t2) = q_key t2).
    { unfold rowB. rewrite KD. rewrite (proj1 (sk_undefer_fields _ _ _ _ _)).
      apply (proj1 (sk_set_det_fields ks false _)). }
    assert (t1 = t2) by (apply (NoDup_qkey_eq (sks g)); [apply WF_sks; exact W | exact H1 | exact H2 | congruence]).
    subst t2. apply rows_agree. congruence.
  Qed.
End Commute.

(* the same on step rows *)
Theorem defer_reattach_commute c g k within ks sA sB :
  WF g ->
  In sA (g_steps (dstepR true true c (dstepR true true c g (DDefer k within)) (DSetDetached ks false))) ->
  In sB (g_steps (dstepR true true c (dstepR true true c g (DSetDetached ks false)) (DDefer k within))) ->
  s_key sA = k -> s_key sB = k -> s_deferred sA = s_deferred sB.
Proof.
  intros W HA HB EA EB.
  apply (defer_reattach_commute_row g k within ks c (sk_step sA) (sk_step sB) W);
    [apply in_map; exact HA | apply in_map; exact HB | exact EA | exact EB].
Qed.
