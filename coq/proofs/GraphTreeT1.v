(* C09, static trees, conjunct T1: a file whose creator is a static tree lies under the tree and is
   in a STATIC state.  The frame TT ("every tree-created file of the new state is either freshly
   established, or was tree-created by the same tree before and stayed STATIC") and its primitive
   instances. *)
From Coq Require Import List NArith Bool Lia.
From SV Require Import lib.Bytes lib.Closure model.Graph model.GraphInv model.GraphTree model.GraphTreeInv
  proofs.GraphBase proofs.GraphNodes proofs.GraphInvP proofs.GraphPrims proofs.GraphFrames proofs.GraphCreate
  proofs.GraphOps proofs.GraphLife proofs.GraphSucc proofs.GraphTrans proofs.GraphTreeSim proofs.GraphNodeFrame
  proofs.GraphProofs.
Import ListNotations.
Open Scope N_scope.

Definition T1 (s : st) : Prop :=
  forall f t, creator_of (KFile, f) s = Some (KTree, t) ->
              is_prefix t f = true /\ is_static_fstate f s = true.

Definition TT (s s' : st) : Prop :=
  forall f t, creator_of (KFile, f) s' = Some (KTree, t) ->
    (is_prefix t f = true /\ is_static_fstate f s' = true) \/
    (creator_of (KFile, f) s = Some (KTree, t) /\
     (is_static_fstate f s = true -> is_static_fstate f s' = true)).

Lemma TT_refl s : TT s s.
Proof. intros f t H. right. auto. Qed.
Lemma TT_trans s1 s2 s3 : TT s1 s2 -> TT s2 s3 -> TT s1 s3.
Proof.
  intros A B f t H3. destruct (B f t H3) as [L|[H2 S23]]; [left; exact L|].
  destruct (A f t H2) as [[P S2]|[H1 S12]]; [left; auto | right; auto].
Qed.
Lemma T1_TT s s' : T1 s -> TT s s' -> T1 s'.
Proof.
  intros HT A f t H. destruct (A f t H) as [L|[H0 S]]; [exact L|].
  destruct (HT f t H0) as [P S0]. auto.
Qed.

(* reflection *)
Lemma T1_reflect s : NoDup (map nk (nodes s)) -> (inv_treefile_b s = true <-> T1 s).
Proof.
  intros Hnd. unfold inv_treefile_b. rewrite forallb_forall. split.
  - intros H f t Hc. rewrite creator_of_findn in Hc.
    destruct (findn (KFile, f) (nodes s)) as [n|] eqn:Hn; [|discriminate].
    pose proof (findn_In _ _ _ Hn) as [Hin Hk]. specialize (H n Hin). rewrite Hk, Hc in H.
    apply andb_true_iff in H. exact H.
  - intros HT n Hin. destruct (nk n) as [[] f] eqn:Hk; try reflexivity.
    destruct (ncre n) as [[[] t]|] eqn:Hc; try reflexivity.
    apply andb_true_iff. apply HT. rewrite creator_of_findn, <- Hk, (In_findn _ _ Hnd Hin). exact Hc.
Qed.

(* ------------------------------------------------------------------------------------------ *)
(* ways to obtain TT                                                                           *)
(* ------------------------------------------------------------------------------------------ *)
Lemma TT_cre_files s s' :
  (forall f c, creator_of (KFile, f) s' = Some c -> creator_of (KFile, f) s = Some c) ->
  files s' = files s -> TT s s'.
Proof.
  intros Hc Hf f t H. right. split; [apply Hc; exact H|].
  unfold is_static_fstate, fstate_of, find_file. rewrite Hf. auto.
Qed.

Lemma TT_nodes_files s s' : nodes s' = nodes s -> files s' = files s -> TT s s'.
Proof. intros Hn Hf. apply TT_cre_files; [|exact Hf]. intros f c. rewrite !creator_of_findn, Hn. auto. Qed.

Lemma static_trans a b : file_trans_b a b = true -> is_static_state a = true -> is_static_state b = true.
Proof. destruct a, b; cbn; congruence. Qed.

Lemma is_static_fstate_find f s :
  is_static_fstate f s = match find_file f s with Some r => is_static_state (fstt r) | None => false end.
Proof. unfold is_static_fstate, fstate_of. destruct (find_file f s) as [r|]; [destruct (fstt r)|]; reflexivity. Qed.

(* the rows of the file nodes exist *)
Definition Rows (s : st) : Prop := forall f, creator_of (KFile, f) s <> None -> find_file f s <> None.

Lemma Inv_Rows hh s : Inv hh s -> Rows s.
Proof.
  intros HI f H. rewrite creator_of_findn in H.
  destruct (findn (KFile, f) (nodes s)) as [n|] eqn:Hn; [|congruence].
  apply find_file_FL. apply (rw_files _ _ _ _ _ (inv_rw _ HI)). apply findn_some_iff. eexists. exact Hn.
Qed.

Lemma ND_creator s s' : ND s s' ->
  forall f c, creator_of (KFile, f) s' = Some c -> creator_of (KFile, f) s = Some c.
Proof.
  intros HN f c. rewrite !creator_of_findn.
  destruct (findn (KFile, f) (nodes s')) as [n'|] eqn:Hn'; [|discriminate].
  destruct (HN _ _ Hn') as [n [Hn [[Hc|Hc] _]]]; rewrite Hn; congruence.
Qed.

Lemma TT_ND_FT s s' : ND s s' -> FT s s' -> Rows s' -> TT s s'.
Proof.
  intros HN [HF _] HR f t H. right. split; [eapply ND_creator; eassumption|].
  rewrite !is_static_fstate_find. destruct (find_file f s) as [r|] eqn:Hr; [|discriminate].
  assert (Hr' : find_file f s' <> None) by (apply HR; rewrite H; discriminate).
  destruct (find_file f s') as [r'|] eqn:Er; [|congruence].
  apply static_trans. eapply HF; eassumption.
Qed.

(* ------------------------------------------------------------------------------------------ *)
(* File.initialize_row                                                                         *)
(* ------------------------------------------------------------------------------------------ *)
Lemma find_file_findf l s : find_file l s = findf l (files s).
Proof. reflexivity. Qed.

Lemma fir_frame l req s s' : file_initialize_row l req s = Ok s' ->
  (forall x r r', x <> l -> find_file x s = Some r -> find_file x s' = Some r' ->
                  file_trans_b (fstt r) (fstt r') = true) /\
  (req = FUnconfirmed -> fstate_of l s' = Some FUnconfirmed).
Proof.
  unfold file_initialize_row.
  set (state := match req, find_file l s with
                | FUndeclared, Some r => _ | FPlanned, Some r => _ | _, _ => req end).
  assert (Hstate : req = FUnconfirmed -> state = FUnconfirmed).
  { intros ->. unfold state. destruct (find_file l s); reflexivity. }
  destruct (match find_file l s with Some _ => set_fstate l state s | None => _ end) as [s1|t|t] eqn:E1; try discriminate.
  cbn [bind].
  assert (H1 : (forall x, x <> l -> find_file x s1 = find_file x s) /\ fstate_of l s1 = Some state).
  { destruct (find_file l s) as [r0|] eqn:Hf.
    - unfold set_fstate, set_fstate_hash in E1. rewrite Hf in E1.
      destruct (needs_hash state && _); [discriminate|]. destruct (fstate_eqb state FUndeclared && _); [discriminate|].
      inversion E1; subst s1. clear E1. split.
      + intros x Hx. rewrite !find_file_findf, files_upd_file, findf_updf; [|reflexivity].
        apply str_eqb_neq in Hx. rewrite Hx. reflexivity.
      + unfold fstate_of. rewrite find_file_findf, files_upd_file, findf_updf; [|reflexivity].
        rewrite str_eqb_refl. rewrite find_file_findf in Hf. rewrite Hf. reflexivity.
    - destruct (needs_hash state); [discriminate|]. destruct (fstate_eqb state FUndeclared && _); [discriminate|].
      inversion E1; subst s1. clear E1. split.
      + intros x Hx. unfold find_file. cbn [files set_files]. rewrite find_app.
        destruct (find (fun r => str_eqb (fl r) x) (files s)); [reflexivity|]. cbn.
        apply str_eqb_neq in Hx. rewrite str_eqb_sym, Hx. reflexivity.
      + unfold fstate_of, find_file in *. cbn [files set_files]. rewrite find_app, Hf. cbn. rewrite str_eqb_refl. reflexivity. }
  destruct H1 as [H1 H2].
  assert (Hplain : Ok s1 = Ok s' ->
            (forall x r r', x <> l -> find_file x s = Some r -> find_file x s' = Some r' ->
                            file_trans_b (fstt r) (fstt r') = true) /\
            (req = FUnconfirmed -> fstate_of l s' = Some FUnconfirmed)).
  { intros H; inversion H; subst s'. split.
    - intros x r r' Hx Hr Hr'. rewrite (H1 x Hx), Hr in Hr'. inversion Hr'. apply file_trans_b_refl.
    - intros Hq. rewrite H2, (Hstate Hq). reflexivity. }
  destruct state eqn:Est; try exact Hplain.
  intros H. pose proof (ok_of_wpg _ _ _ (mark_file_outdated_FT l s1) H) as [HF _]. split.
  - intros x r r' Hx Hr Hr'. rewrite <- (H1 x Hx) in Hr. eapply HF; eassumption.
  - intros Hq. specialize (Hstate Hq). discriminate.
Qed.

(* ------------------------------------------------------------------------------------------ *)
(* Trellis.create                                                                              *)
(* ------------------------------------------------------------------------------------------ *)
Section HH.
Context {hh : bool}.

Lemma create_struct k creator arg s :
  Inv hh s -> arg_ok k creator arg ->
  wpg false (create k creator arg s)
      (fun s' => (forall x n', x <> k -> findn x (nodes s') = Some n' ->
                    exists n0, findn x (nodes s) = Some n0 /\ (ncre n' = None \/ ncre n' = ncre n0)) /\
                 (forall f r r', (KFile, f) <> k -> find_file f s = Some r -> find_file f s' = Some r' ->
                    file_trans_b (fstt r) (fstt r') = true) /\
                 (arg = InitFile FUnconfirmed -> fstate_of (snd k) s' = Some FUnconfirmed)).
Proof.
  intros HI Harg. rewrite create_unfold.
  destruct (creator_ok k creator s) as [[]|t|t] eqn:Hco; try exact I.
  cbn [bind]. apply wpg_bind.
  assert (Hkind : fst k <> KRoot).
  { destruct arg; cbn in Harg; [destruct Harg as [H _]; rewrite H; discriminate | rewrite Harg; discriminate | rewrite Harg; discriminate]. }
  eapply wpg_weaken.
  { apply (@create_nodes_spec hh); [exact HI | exact Hkind | apply creator_ok_new_node; exact Hco | intros Hs; discriminate Hs]. }
  intros s1 HP.
  assert (Hsame : forall s', nodes s' = nodes s1 -> files s' = files s1 ->
            (forall x n', x <> k -> findn x (nodes s') = Some n' ->
               exists n0, findn x (nodes s) = Some n0 /\ (ncre n' = None \/ ncre n' = ncre n0)) /\
            (forall f r r', (KFile, f) <> k -> find_file f s = Some r -> find_file f s' = Some r' ->
               file_trans_b (fstt r) (fstt r') = true)).
  { intros s' En Ef. split.
    - intros x n' Hx Hn'. rewrite En in Hn'. exact (np_cre _ _ _ _ _ HP _ _ Hx Hn').
    - intros f r r' _ Hr Hr'. unfold find_file in *. rewrite Ef, (np_files _ _ _ _ _ HP), Hr in Hr'.
      inversion Hr'. apply file_trans_b_refl. }
  destruct arg as [f0|nd|].
  - destruct k as [kk l]. destruct Harg as [Hk _]. cbn in Hk. subst kk. cbn [snd].
    apply wpg_of_ok. intros s' Hfir.
    pose proof (file_initialize_row_nodes _ _ _ _ Hfir) as En.
    destruct (fir_frame _ _ _ _ Hfir) as [F1 F2]. split; [|split].
    + intros x n' Hx Hn'. rewrite En in Hn'. exact (np_cre _ _ _ _ _ HP _ _ Hx Hn').
    + intros f r r' Hne Hr Hr'. apply (F1 f r r'); [intros E; apply Hne; rewrite E; reflexivity | | exact Hr'].
      unfold find_file in *. rewrite (np_files _ _ _ _ _ HP). exact Hr.
    + intros E. injection E as E0. apply F2. exact E0.
  - unfold step_initialize_row. cbn [wpg]. destruct (Hsame (set_steps s1 (filter (fun r => negb (str_eqb (sl r) (snd k))) (steps s1) ++
                    [mkS (snd k) SPending nd false 0 0])) eq_refl eq_refl) as [A B].
    split; [exact A|]. split; [exact B | intros E; discriminate E].
  - cbn [wpg]. destruct (Hsame s1 eq_refl eq_refl) as [A B]. split; [exact A|]. split; [exact B | intros E; discriminate E].
Qed.

Lemma create_TT k creator arg s :
  Inv hh s -> arg_ok k creator arg ->
  (forall t, creator = Some (KTree, t) -> fst k = KFile ->
             arg = InitFile FUnconfirmed /\ is_prefix t (snd k) = true) ->
  wpg false (create k creator arg s) (TT s).
Proof.
  intros HI Harg Htree. eapply wpg_weaken.
  { apply wpg_conj; [apply (@create_spec hh false k creator arg s HI Harg); intros H; discriminate H
                    | apply create_struct; assumption]. }
  intros s' [[I' [_ [_ [_ [Hcre _]]]]] [P1 [P2 P3]]] f t H.
  destruct (key_eq_dec (KFile, f) k) as [E|Hne].
  - left. subst k. rewrite Hcre in H. destruct (Htree t H eq_refl) as [Ea Hp]. split; [exact Hp|].
    unfold is_static_fstate. cbn [snd] in P3. rewrite (P3 Ea). reflexivity.
  - right. rewrite creator_of_findn in H.
    destruct (findn (KFile, f) (nodes s')) as [n'|] eqn:Hn'; [|discriminate].
    destruct (P1 _ _ Hne Hn') as [n0 [Hn0 [Hc|Hc]]]; [congruence|].
    split; [rewrite creator_of_findn, Hn0; congruence|].
    rewrite !is_static_fstate_find. destruct (find_file f s) as [r|] eqn:Hr; [|discriminate].
    assert (Hr' : find_file f s' <> None).
    { apply (Inv_Rows hh s' I'). rewrite creator_of_findn, Hn', H. discriminate. }
    destruct (find_file f s') as [r'|] eqn:Er; [|congruence].
    apply static_trans. eapply P2; [exact Hne | exact Hr | exact Er].
Qed.

End HH.

(* ------------------------------------------------------------------------------------------ *)
(* T2 / T3: attached trees are not nested; a file with a creator under an attached tree is a    *)
(* file of that tree.  Frames: ATF (no tree becomes attached), U (a file creator is kept or is  *)
(* consistent with every attached tree)                                                        *)
(* ------------------------------------------------------------------------------------------ *)
Definition AT (s : st) (t : str) : Prop := is_detached (KTree, t) s = false.
Definition ATF (s s' : st) : Prop := forall t, AT s' t -> AT s t.
Definition U (s s' : st) : Prop :=
  forall f c, creator_of (KFile, f) s' = Some c ->
    creator_of (KFile, f) s = Some c \/ (forall t, AT s' t -> is_prefix t f = true -> c = (KTree, t)).
Definition W (s s' : st) : Prop := TT s s' /\ U s s'.

Definition T2p (s : st) : Prop := forall t1 t2, AT s t1 -> AT s t2 -> is_prefix t1 t2 = true -> t1 = t2.
Definition T3p (s : st) : Prop :=
  forall f c t, creator_of (KFile, f) s = Some c -> AT s t -> is_prefix t f = true -> c = (KTree, t).

Lemma ATF_refl s : ATF s s.
Proof. intros t H. exact H. Qed.
Lemma ATF_trans s1 s2 s3 : ATF s1 s2 -> ATF s2 s3 -> ATF s1 s3.
Proof. intros A B t H. apply A. apply B. exact H. Qed.
Lemma ATF_nodes s s' : nodes s' = nodes s -> ATF s s'.
Proof. intros E t. unfold AT. rewrite !is_detached_findn, E. auto. Qed.
Lemma ATF_ND s s' : ND s s' -> ATF s s'.
Proof.
  intros HN t. unfold AT. rewrite !is_detached_findn.
  destruct (findn (KTree, t) (nodes s')) as [n'|] eqn:Hn'; [|discriminate].
  destruct (HN _ _ Hn') as [n [Hn [_ Hd]]]. rewrite Hn. intros H. destruct (ndet n); [|reflexivity].
  rewrite (Hd eq_refl) in H. discriminate.
Qed.
Lemma ATF_NF K s s' : (forall x, In x K -> fst x <> KTree) -> NF K s s' -> ATF s s'.
Proof.
  intros HK [_ H] t. unfold AT. intros Ha. destruct (is_detached (KTree, t) s) eqn:E; [|reflexivity].
  rewrite (H (KTree, t)) in Ha; [discriminate | | exact E]. intros Hin. apply (HK _ Hin). reflexivity.
Qed.

Lemma U_refl s : U s s.
Proof. intros f c H. left. exact H. Qed.
Lemma U_trans s1 s2 s3 : U s1 s2 -> U s2 s3 -> ATF s2 s3 -> U s1 s3.
Proof.
  intros A B HA f c H3. destruct (B f c H3) as [H2|G]; [|right; exact G].
  destruct (A f c H2) as [H1|G]; [left; exact H1|]. right. intros t Ht. apply G. apply HA. exact Ht.
Qed.
Lemma U_cre s s' :
  (forall f c, creator_of (KFile, f) s' = Some c -> creator_of (KFile, f) s = Some c) -> U s s'.
Proof. intros H f c Hc. left. apply H. exact Hc. Qed.

Lemma W_refl s : W s s.
Proof. split; [apply TT_refl | apply U_refl]. Qed.
Lemma W_trans s1 s2 s3 : W s1 s2 -> W s2 s3 -> ATF s2 s3 -> W s1 s3.
Proof. intros [A1 A2] [B1 B2] HA. split; [eapply TT_trans; eassumption | eapply U_trans; eassumption]. Qed.
Lemma W_cre_files s s' :
  (forall f c, creator_of (KFile, f) s' = Some c -> creator_of (KFile, f) s = Some c) ->
  files s' = files s -> W s s'.
Proof. intros Hc Hf. split; [apply TT_cre_files; assumption | apply U_cre; exact Hc]. Qed.
Lemma W_nodes_files s s' : nodes s' = nodes s -> files s' = files s -> W s s'.
Proof. intros Hn Hf. apply W_cre_files; [|exact Hf]. intros f c. rewrite !creator_of_findn, Hn. auto. Qed.
Lemma W_ND_FT s s' : ND s s' -> FT s s' -> Rows s' -> W s s'.
Proof. intros HN HF HR. split; [apply TT_ND_FT; assumption | apply U_cre; apply ND_creator; exact HN]. Qed.

Lemma T2p_ATF s s' : T2p s -> ATF s s' -> T2p s'.
Proof. intros H HA t1 t2 H1 H2. apply H; apply HA; assumption. Qed.
Lemma T3p_U s s' : T3p s -> ATF s s' -> U s s' -> T3p s'.
Proof.
  intros H HA HU f c t Hc Ht Hp. destruct (HU f c Hc) as [H0|G]; [|apply G; assumption].
  apply (H f c t H0); [apply HA; exact Ht | exact Hp].
Qed.

Section HH2.
Context {hh : bool}.

Lemma create_W k creator arg s :
  Inv hh s -> arg_ok k creator arg ->
  (forall c, creator = Some c -> fst k = KFile ->
     (forall t, AT s t -> is_prefix t (snd k) = true -> c = (KTree, t)) /\
     (forall t, c = (KTree, t) -> arg = InitFile FUnconfirmed /\ is_prefix t (snd k) = true)) ->
  wpg false (create k creator arg s) (W s).
Proof.
  intros HI Harg Hcond. eapply wpg_weaken.
  { apply wpg_conj; [apply wpg_conj|];
      [apply (@create_spec hh false k creator arg s HI Harg); intros H; discriminate H
      | apply (@create_struct hh); assumption
      | apply (@create_TT hh); [exact HI | exact Harg|]].
    intros t Hc Hk. destruct (Hcond _ Hc Hk) as [_ H]. apply H. reflexivity. }
  intros s' [[[I' [NF' [_ [_ [Hcre _]]]]] [P1 _]] HT]. split; [exact HT|].
  intros f c H. destruct (key_eq_dec (KFile, f) k) as [E|Hne].
  - right. subst k. rewrite Hcre in H. destruct (Hcond c H eq_refl) as [G _]. intros t Ht. apply G.
    apply (ATF_NF [(KFile, f)] s s'); [intros x [<-|[]]; discriminate | exact NF' | exact Ht].
  - left. rewrite creator_of_findn in H. destruct (findn (KFile, f) (nodes s')) as [n'|] eqn:Hn'; [|discriminate].
    destruct (P1 _ _ Hne Hn') as [n0 [Hn0 [Hc|Hc]]]; [congruence|]. rewrite creator_of_findn, Hn0. congruence.
Qed.

End HH2.

(* reflection of T2 and of the claims conjunct *)
Lemma AT_attached_trees s t : NoDup (map nk (nodes s)) -> (In t (attached_trees s) <-> AT s t).
Proof.
  intros Hnd. unfold attached_trees, AT. rewrite in_map_iff, is_detached_findn. split.
  - intros [n [Hn Hin]]. apply filter_In in Hin. destruct Hin as [Hin Hc]. apply andb_true_iff in Hc.
    destruct Hc as [C1 C2]. apply kind_eqb_eq in C1. apply negb_true_iff in C2.
    assert (E : nk n = (KTree, t)) by (destruct (nk n) as [a b]; cbn in *; subst; reflexivity).
    rewrite <- E, (In_findn _ _ Hnd Hin). exact C2.
  - destruct (findn (KTree, t) (nodes s)) as [n|] eqn:Hn; [|discriminate]. intros Hd.
    pose proof (findn_In _ _ _ Hn) as [Hin Hk]. exists n. split; [rewrite Hk; reflexivity|].
    apply filter_In. split; [exact Hin|]. rewrite Hk, Hd. reflexivity.
Qed.

Lemma T2p_reflect s : NoDup (map nk (nodes s)) -> (inv_trees_nonnested_b s = true <-> T2p s).
Proof.
  intros Hnd. unfold inv_trees_nonnested_b, T2p. rewrite forallb_forall. split.
  - intros H t1 t2 H1 H2 Hp. apply (AT_attached_trees s t1 Hnd) in H1. apply (AT_attached_trees s t2 Hnd) in H2.
    specialize (H t1 H1). rewrite forallb_forall in H. specialize (H t2 H2). rewrite Hp in H. cbn in H.
    rewrite orb_false_r in H. apply str_eqb_eq. exact H.
  - intros H t1 H1. apply forallb_forall. intros t2 H2.
    destruct (is_prefix t1 t2) eqn:Hp; [|apply orb_true_r].
    apply (AT_attached_trees s t1 Hnd) in H1. apply (AT_attached_trees s t2 Hnd) in H2.
    rewrite (H t1 t2 H1 H2 Hp), str_eqb_refl. reflexivity.
Qed.

Lemma T3p_reflect s : NoDup (map nk (nodes s)) -> (inv_tree_claims_b s = true <-> T3p s).
Proof.
  intros Hnd. unfold inv_tree_claims_b, T3p. rewrite forallb_forall. split.
  - intros H f c t Hc Ht Hp. rewrite creator_of_findn in Hc.
    destruct (findn (KFile, f) (nodes s)) as [n|] eqn:Hn; [|discriminate].
    pose proof (findn_In _ _ _ Hn) as [Hin Hk]. specialize (H n Hin). rewrite Hk, Hc in H.
    rewrite forallb_forall in H. apply (AT_attached_trees s t Hnd) in Ht. specialize (H t Ht).
    rewrite Hp in H. cbn in H. apply key_eqb_eq in H. exact H.
  - intros H n Hin. destruct (nk n) as [[] f] eqn:Hk; try reflexivity.
    destruct (ncre n) as [c|] eqn:Hc; [|reflexivity]. apply forallb_forall. intros t Ht.
    destruct (is_prefix t f) eqn:Hp; [|reflexivity]. cbn. apply key_eqb_eq.
    apply (H f c t); [rewrite creator_of_findn, <- Hk, (In_findn _ _ Hnd Hin); exact Hc | | exact Hp].
    apply (AT_attached_trees s t Hnd). exact Ht.
Qed.

(* T3 (the boolean over attached files) follows from the claims conjunct and T1 *)
Lemma tree_owns_of_claims s :
  NWl (nodes s) -> T1 s -> T3p s -> inv_tree_owns_b s = true.
Proof.
  intros HW H1 H3. unfold inv_tree_owns_b. apply forallb_forall. intros n Hin.
  destruct (nk n) as [[] f] eqn:Hk; try reflexivity.
  destruct (ndet n) eqn:Hd; [reflexivity|]. cbn. apply forallb_forall. intros t Ht.
  destruct (is_prefix t f) eqn:Hp; [|reflexivity]. cbn.
  assert (Hl : local_ok (nodes s) n). { apply (nw_local _ HW); [exact Hin | rewrite Hk; discriminate]. }
  unfold local_ok in Hl. destruct (ncre n) as [c|] eqn:Hc; [|congruence].
  assert (Hcre : creator_of (KFile, f) s = Some c).
  { rewrite creator_of_findn, <- Hk, (In_findn _ _ (nw_nodup _ HW) Hin). exact Hc. }
  apply (AT_attached_trees s t (nw_nodup _ HW)) in Ht.
  pose proof (H3 f c t Hcre Ht Hp) as E. subst c. destruct (H1 f t Hcre) as [_ Hs].
  rewrite Hs. cbn. apply str_eqb_refl.
Qed.
