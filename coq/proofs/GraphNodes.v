(* C09: the node table (creator links, detached flags) as a list; its well-formedness NWl
   (unique keys, root row, local flag agreement with the creator, creator kinds, every attached
   node reaches the root) and preservation by the five transformations the trellis performs:
   append, delete a detached leaf, detach (with subtree), reattach (with subtree), recycle. *)
From Coq Require Import List NArith Bool Lia.
From SV Require Import lib.Bytes lib.Closure model.Graph model.GraphInv proofs.GraphBase.
Import ListNotations.
Open Scope N_scope.

Definition findn (k : key) (ns : list node) : option node := find (fun n => key_eqb (nk n) k) ns.

Inductive Reach (ns : list node) : key -> Prop :=
| Reach_root : Reach ns root_key
| Reach_step k n c : findn k ns = Some n -> ncre n = Some c -> Reach ns c -> Reach ns k.

Definition local_ok (ns : list node) (n : node) : Prop :=
  match ncre n with
  | None => ndet n = true
  | Some c => c <> nk n /\ creator_kind_ok (fst (nk n)) (fst c) = true /\
              exists cn, findn c ns = Some cn /\ ndet n = ndet cn
  end.

Definition root_node : node := mkNode root_key (Some root_key) false.

Record NWl (ns : list node) : Prop := {
  nw_nodup : NoDup (map nk ns);
  nw_root : findn root_key ns = Some root_node;
  nw_kroot : forall n, In n ns -> fst (nk n) = KRoot -> nk n = root_key;
  nw_local : forall n, In n ns -> nk n <> root_key -> local_ok ns n;
  nw_reach : forall n, In n ns -> ndet n = false -> Reach ns (nk n) }.

(* ------------------------------------------------------------------------------------------ *)
(* findn                                                                                       *)
(* ------------------------------------------------------------------------------------------ *)
Lemma findn_In k ns n : findn k ns = Some n -> In n ns /\ nk n = k.
Proof.
  intros H. apply find_some in H. destruct H as [H1 H2]. apply key_eqb_eq in H2. auto.
Qed.

Lemma findn_key k ns n : findn k ns = Some n -> nk n = k.
Proof. intros H. apply findn_In in H. tauto. Qed.

Lemma findn_none k ns : findn k ns = None <-> ~ In k (map nk ns).
Proof.
  unfold findn. rewrite find_none_iff. split.
  - intros H Hin. apply in_map_iff in Hin. destruct Hin as [n [Hn1 Hn2]].
    specialize (H n Hn2). rewrite Hn1, key_eqb_refl in H. discriminate.
  - intros H n Hn. apply key_eqb_neq. intros He. apply H. rewrite <- He. apply in_map. exact Hn.
Qed.

Lemma In_findn ns n : NoDup (map nk ns) -> In n ns -> findn (nk n) ns = Some n.
Proof.
  intros Hd Hn. destruct (findn (nk n) ns) as [m|] eqn:Hf.
  - apply findn_In in Hf. destruct Hf as [Hm He]. f_equal.
    eapply NoDup_map_inj; eassumption.
  - apply findn_none in Hf. exfalso. apply Hf. apply in_map. exact Hn.
Qed.

Lemma findn_some_in k ns : In k (map nk ns) -> exists n, findn k ns = Some n.
Proof.
  intros H. destruct (findn k ns) eqn:Hf; [eexists; reflexivity|].
  apply findn_none in Hf. contradiction.
Qed.

Lemma findn_map k (g : node -> node) ns :
  (forall n, nk (g n) = nk n) -> findn k (map g ns) = option_map g (findn k ns).
Proof. intros H. unfold findn. apply find_map_key. intros n. rewrite H. reflexivity. Qed.

Lemma findn_app k ns1 ns2 :
  findn k (ns1 ++ ns2) = match findn k ns1 with Some n => Some n | None => findn k ns2 end.
Proof. apply find_app. Qed.

Lemma findn_app_l k ns1 ns2 n : findn k ns1 = Some n -> findn k (ns1 ++ ns2) = Some n.
Proof. intros H. rewrite findn_app, H. reflexivity. Qed.

Lemma findn_remove k x ns :
  findn k (filter (fun n => negb (key_eqb (nk n) x)) ns) = if key_eqb k x then None else findn k ns.
Proof.
  unfold findn. rewrite find_filter. destruct (key_eqb k x) eqn:Hkx.
  - apply key_eqb_eq in Hkx. subst. apply find_none_iff. intros n _.
    destruct (key_eqb (nk n) x); reflexivity.
  - apply find_ext. intros n _. destruct (key_eqb (nk n) k) eqn:Hnk; [|apply andb_false_r].
    apply key_eqb_eq in Hnk. rewrite Hnk, Hkx. reflexivity.
Qed.

Lemma map_nk_map (g : node -> node) ns : (forall n, nk (g n) = nk n) -> map nk (map g ns) = map nk ns.
Proof. intros H. rewrite map_map. apply map_ext. exact H. Qed.

(* ------------------------------------------------------------------------------------------ *)
(* Reach                                                                                       *)
(* ------------------------------------------------------------------------------------------ *)
Lemma root_in ns : NWl ns -> In root_node ns.
Proof. intros H. apply (findn_In root_key). apply nw_root. exact H. Qed.

Lemma findn_root_key ns n : NWl ns -> In n ns -> nk n = root_key -> n = root_node.
Proof.
  intros H Hn Hk. pose proof (In_findn ns n (nw_nodup _ H) Hn) as Hf.
  rewrite Hk, (nw_root _ H) in Hf. congruence.
Qed.

Lemma reach_attached ns k : NWl ns -> Reach ns k -> forall n, findn k ns = Some n -> ndet n = false.
Proof.
  intros HW HR. induction HR as [|k n0 c Hf Hc HR IH]; intros n Hn.
  - rewrite (nw_root _ HW) in Hn. inversion Hn. reflexivity.
  - rewrite Hf in Hn. inversion Hn; subst n0. clear Hn.
    destruct (key_eq_dec k root_key) as [->|Hk].
    + rewrite (nw_root _ HW) in Hf. inversion Hf. reflexivity.
    + pose proof (findn_In _ _ _ Hf) as [Hin Hkey].
      assert (Hl : local_ok ns n). { apply (nw_local _ HW); [exact Hin | rewrite Hkey; exact Hk]. }
      unfold local_ok in Hl. rewrite Hc in Hl. destruct Hl as [_ [_ [cn [Hcn Hd]]]].
      rewrite Hd. apply IH. exact Hcn.
Qed.

Lemma reach_exists ns k : NWl ns -> Reach ns k -> exists n, findn k ns = Some n.
Proof.
  intros HW HR. destruct HR as [|k n c Hf _ _]; [exists root_node; apply nw_root; exact HW | exists n; exact Hf].
Qed.

(* attached <-> reachable, for nodes of the table *)
Lemma attached_iff_reach ns n : NWl ns -> In n ns -> (ndet n = false <-> Reach ns (nk n)).
Proof.
  intros HW Hn. split; [apply (nw_reach _ HW); exact Hn|].
  intros HR. eapply reach_attached; [exact HW | exact HR | apply In_findn; [apply nw_nodup; exact HW | exact Hn]].
Qed.

Lemma reach_frame (P : key -> Prop) ns ns' :
  (forall x n c, P x -> x <> root_key -> findn x ns = Some n -> ncre n = Some c ->
                 P c /\ exists n', findn x ns' = Some n' /\ ncre n' = Some c) ->
  forall x, Reach ns x -> P x -> Reach ns' x.
Proof.
  intros H x HR. induction HR as [|k n c Hf Hc HR IH]; intros HP; [apply Reach_root|].
  destruct (key_eq_dec k root_key) as [->|Hk]; [apply Reach_root|].
  destruct (H k n c HP Hk Hf Hc) as [HPc [n' [Hf' Hc']]].
  eapply Reach_step; [exact Hf' | exact Hc' | apply IH; exact HPc].
Qed.

(* the usual instance: nodes that are attached in ns keep their creator in ns' *)
Lemma reach_frame_attached ns ns' :
  NWl ns ->
  (forall x n, findn x ns = Some n -> ndet n = false -> x <> root_key ->
               exists n', findn x ns' = Some n' /\ ncre n' = ncre n) ->
  forall x, Reach ns x -> Reach ns' x.
Proof.
  intros HW H x HR.
  apply (reach_frame (fun y => forall n, findn y ns = Some n -> ndet n = false) ns ns'); [|exact HR|].
  - intros y n c HP Hy Hf Hc. pose proof (HP n Hf) as Hd.
    pose proof (findn_In _ _ _ Hf) as [Hin Hkey].
    assert (Hl : local_ok ns n). { apply (nw_local _ HW); [exact Hin | rewrite Hkey; exact Hy]. }
    unfold local_ok in Hl. rewrite Hc in Hl. destruct Hl as [_ [_ [cn [Hcn Hdd]]]].
    split.
    + intros m Hm. rewrite Hcn in Hm. inversion Hm; subst m. congruence.
    + destruct (H y n Hf Hd Hy) as [n' [Hf' Hc']]. exists n'. split; [exact Hf' | congruence].
  - apply reach_attached; assumption.
Qed.

(* ------------------------------------------------------------------------------------------ *)
(* T1: append a fresh node                                                                     *)
(* ------------------------------------------------------------------------------------------ *)
Definition new_node_ok (ns : list node) (k : key) (cre : option key) (det : bool) : Prop :=
  match cre with
  | None => det = true
  | Some c => c <> k /\ creator_kind_ok (fst k) (fst c) = true /\
              exists cn, findn c ns = Some cn /\ det = ndet cn
  end.

Lemma reach_app ns l x : Reach ns x -> Reach (ns ++ l) x.
Proof.
  intros HR. induction HR as [|k n c Hf Hc HR IH]; [apply Reach_root|].
  eapply Reach_step; [apply findn_app_l; exact Hf | exact Hc | exact IH].
Qed.

Lemma local_ok_app ns l n : local_ok ns n -> local_ok (ns ++ l) n.
Proof.
  unfold local_ok. destruct (ncre n) as [c|]; [|auto].
  intros [H1 [H2 [cn [H3 H4]]]]. split; [exact H1|]. split; [exact H2|].
  exists cn. split; [apply findn_app_l; exact H3 | exact H4].
Qed.

Lemma NW_append ns k cre det :
  NWl ns -> findn k ns = None -> fst k <> KRoot -> new_node_ok ns k cre det ->
  NWl (ns ++ [mkNode k cre det]).
Proof.
  intros HW Hnone Hkind Hnew.
  assert (Hfk : findn k (ns ++ [mkNode k cre det]) = Some (mkNode k cre det)).
  { rewrite findn_app, Hnone. unfold findn. cbn. rewrite key_eqb_refl. reflexivity. }
  constructor.
  - rewrite map_app. cbn. apply NoDup_app_single; [apply nw_nodup; exact HW|].
    apply findn_none. exact Hnone.
  - apply findn_app_l. apply nw_root. exact HW.
  - intros n Hn Hr. apply in_app_or in Hn. destruct Hn as [Hn|[<-|[]]].
    + apply (nw_kroot _ HW); assumption.
    + cbn in Hr. contradiction.
  - intros n Hn Hr. apply in_app_or in Hn. destruct Hn as [Hn|[<-|[]]].
    + apply local_ok_app. apply (nw_local _ HW); assumption.
    + unfold local_ok. cbn. unfold new_node_ok in Hnew. destruct cre as [c|]; [|exact Hnew].
      destruct Hnew as [H1 [H2 [cn [H3 H4]]]]. split; [exact H1|]. split; [exact H2|].
      exists cn. split; [apply findn_app_l; exact H3 | exact H4].
  - intros n Hn Hd. apply in_app_or in Hn. destruct Hn as [Hn|[<-|[]]].
    + apply reach_app. apply (nw_reach _ HW); assumption.
    + cbn in Hd. cbn [nk]. unfold new_node_ok in Hnew. destruct cre as [c|]; [|congruence].
      destruct Hnew as [H1 [H2 [cn [H3 H4]]]].
      eapply Reach_step; [exact Hfk | reflexivity |]. apply reach_app.
      pose proof (findn_In _ _ _ H3) as [Hcin Hckey]. rewrite <- Hckey.
      apply (nw_reach _ HW); [exact Hcin | congruence].
Qed.

(* ------------------------------------------------------------------------------------------ *)
(* T5: delete a detached node without products                                                 *)
(* ------------------------------------------------------------------------------------------ *)
Definition removen (k : key) (ns : list node) : list node :=
  filter (fun n => negb (key_eqb (nk n) k)) ns.

Lemma NW_remove ns k kn :
  NWl ns -> findn k ns = Some kn -> ndet kn = true ->
  (forall n, In n ns -> ncre n = Some k -> nk n = k) ->
  NWl (removen k ns).
Proof.
  intros HW Hk Hdet Hnoprod.
  assert (Hkroot : k <> root_key).
  { intros ->. rewrite (nw_root _ HW) in Hk. inversion Hk; subst kn. discriminate. }
  assert (Hin : forall n, In n (removen k ns) <-> In n ns /\ nk n <> k).
  { intros n. unfold removen. rewrite filter_In, negb_true_iff, key_eqb_neq. tauto. }
  constructor.
  - unfold removen. apply NoDup_map_filter. apply nw_nodup. exact HW.
  - unfold removen. rewrite findn_remove.
    destruct (key_eqb root_key k) eqn:E; [apply key_eqb_eq in E; congruence|]. apply nw_root. exact HW.
  - intros n Hn. apply Hin in Hn. apply (nw_kroot _ HW). tauto.
  - intros n Hn Hr. apply Hin in Hn. destruct Hn as [Hn Hnk].
    pose proof (nw_local _ HW n Hn Hr) as Hl. unfold local_ok in *.
    destruct (ncre n) as [c|] eqn:Hc; [|exact Hl].
    destruct Hl as [H1 [H2 [cn [H3 H4]]]]. split; [exact H1|]. split; [exact H2|].
    exists cn. split; [|exact H4]. unfold removen. rewrite findn_remove.
    destruct (key_eqb c k) eqn:E; [|exact H3]. apply key_eqb_eq in E. subst c.
    exfalso. apply Hnk. apply Hnoprod; assumption.
  - intros n Hn Hd. apply Hin in Hn. destruct Hn as [Hn Hnk].
    apply (reach_frame_attached ns); [exact HW | | apply (nw_reach _ HW); assumption].
    intros x m Hx Hm Hxr. exists m. split; [|reflexivity].
    unfold removen. rewrite findn_remove. destruct (key_eqb x k) eqn:E; [|exact Hx].
    apply key_eqb_eq in E. subst x. rewrite Hk in Hx. inversion Hx; subst m. congruence.
Qed.

(* ------------------------------------------------------------------------------------------ *)
(* creator -> product edges and the recursive products of a node                               *)
(* ------------------------------------------------------------------------------------------ *)
Definition pedge_of (n : node) : list (key * key) :=
  match ncre n with
  | Some c => if key_eqb (nk n) c then [] else [(c, nk n)]
  | None => [] end.
Definition pedges (ns : list node) : list (key * key) := flat_map pedge_of ns.

Definition recl (k : key) (ns : list node) : list key :=
  filter (fun x => negb (key_eqb x k)) (closure_from key_eqb (pedges ns) (length ns) [k]).

Lemma prod_edges_pedges s : prod_edges s = pedges (nodes s).
Proof. reflexivity. Qed.
Lemma rec_products_recl k s : rec_products k s = recl k (nodes s).
Proof. reflexivity. Qed.

Lemma pedges_In ns c x :
  In (c, x) (pedges ns) <-> exists n, In n ns /\ nk n = x /\ ncre n = Some c /\ x <> c.
Proof.
  unfold pedges. rewrite in_flat_map. split.
  - intros [n [Hn He]]. exists n. unfold pedge_of in He.
    destruct (ncre n) as [c'|] eqn:Hc; [|contradiction].
    destruct (key_eqb (nk n) c') eqn:E; [contradiction|].
    destruct He as [He|[]]. inversion He; subst. apply key_eqb_neq in E. auto.
  - intros [n [Hn [Hk [Hc Hne]]]]. exists n. split; [exact Hn|]. unfold pedge_of. rewrite Hc.
    subst x. apply key_eqb_neq in Hne. rewrite Hne. left. reflexivity.
Qed.

Lemma pedges_length ns : (length (pedges ns) <= length ns)%nat.
Proof.
  unfold pedges. induction ns as [|n ns IH]; cbn [flat_map length]; [lia|]. rewrite app_length.
  assert ((length (pedge_of n) <= 1)%nat); [|lia].
  unfold pedge_of. destruct (ncre n); [destruct (key_eqb _ _)|]; cbn; lia.
Qed.

Lemma pedges_findn ns c x : NoDup (map nk ns) ->
  (In (c, x) (pedges ns) <-> exists n, findn x ns = Some n /\ ncre n = Some c /\ x <> c).
Proof.
  intros Hd. rewrite pedges_In. split.
  - intros [n [Hn [Hk [Hc Hne]]]]. exists n. subst x. split; [apply In_findn; assumption | auto].
  - intros [n [Hf [Hc Hne]]]. exists n. apply findn_In in Hf. tauto.
Qed.

Definition Desc (ns : list node) (k x : key) : Prop := x <> k /\ path (pedges ns) k x.

Lemma mem_key_filter x p l : mem_key x (filter p l) = true <-> p x = true /\ mem_key x l = true.
Proof. rewrite !mem_key_In, filter_In. tauto. Qed.

Lemma recl_spec ns k x : mem_key x (recl k ns) = true <-> Desc ns k x.
Proof.
  unfold recl, Desc. rewrite mem_key_filter, negb_true_iff, key_eqb_neq.
  change (mem_key x (closure_from key_eqb (pedges ns) (length ns) [k]))
    with (memb key_eqb x (closure_from key_eqb (pedges ns) (length ns) [k])).
  rewrite (closure_spec key_eqb key_eqb_eq); [|apply pedges_length].
  split.
  - intros [H1 [a [[<-|[]] Hp]]]. auto.
  - intros [H1 H2]. split; [exact H1|]. exists k. split; [left; reflexivity | exact H2].
Qed.

Lemma desc_unfold ns k x nx : NoDup (map nk ns) -> findn x ns = Some nx -> x <> k ->
  (Desc ns k x <-> exists c, ncre nx = Some c /\ x <> c /\ (c = k \/ Desc ns k c)).
Proof.
  intros Hd Hf Hxk. split.
  - intros [_ Hp]. apply path_inv in Hp. destruct Hp as [Hp|Hp]; [congruence|].
    apply path1_last in Hp. destruct Hp as [b [Hb He]].
    apply (pedges_findn _ _ _ Hd) in He. destruct He as [n [Hn [Hc Hne]]].
    rewrite Hf in Hn. inversion Hn; subst n. exists b. split; [exact Hc|]. split; [exact Hne|].
    destruct (key_eq_dec b k) as [->|Hbk]; [left; reflexivity | right; split; assumption].
  - intros [c [Hc [Hne Hck]]]. split; [exact Hxk|].
    assert (He : In (c, x) (pedges ns)). { apply (pedges_findn _ _ _ Hd). exists nx. auto. }
    destruct Hck as [->|[_ Hp]].
    + eapply path_step; [exact He | apply path_refl].
    + eapply path_snoc; eassumption.
Qed.

Lemma desc_not_root ns k : NoDup (map nk ns) -> findn root_key ns = Some root_node ->
  ~ Desc ns k root_key.
Proof.
  intros Hd Hr [Hne Hp]. apply path_inv in Hp. destruct Hp as [Hp|Hp]; [congruence|].
  apply path1_last in Hp. destruct Hp as [b [_ He]].
  apply (pedges_findn _ _ _ Hd) in He. destruct He as [n [Hn [Hc Hnb]]].
  rewrite Hr in Hn. inversion Hn; subst n. cbn in Hc. congruence.
Qed.

(* products of a detached node are detached *)
Lemma desc_detached ns k kn x : NWl ns -> findn k ns = Some kn -> ndet kn = true ->
  path (pedges ns) k x -> forall nx, findn x ns = Some nx -> ndet nx = true.
Proof.
  intros HW Hk Hdet Hp. pattern x. eapply path_rind; [| |exact Hp].
  - intros nx Hnx. rewrite Hk in Hnx. inversion Hnx; subst. exact Hdet.
  - intros b c _ IH He nc Hnc.
    apply (pedges_findn _ _ _ (nw_nodup _ HW)) in He. destruct He as [n [Hn [Hc Hne]]].
    rewrite Hnc in Hn. inversion Hn; subst n. clear Hn.
    destruct (key_eq_dec c root_key) as [->|Hcr].
    { rewrite (nw_root _ HW) in Hnc. inversion Hnc; subst nc. cbn in Hc. congruence. }
    pose proof (findn_In _ _ _ Hnc) as [Hin Hkey].
    assert (Hl : local_ok ns nc). { apply (nw_local _ HW); [exact Hin | rewrite Hkey; exact Hcr]. }
    unfold local_ok in Hl. rewrite Hc in Hl. destruct Hl as [_ [_ [cn [Hcn Hd]]]].
    rewrite Hd. apply IH. exact Hcn.
Qed.

(* ------------------------------------------------------------------------------------------ *)
(* key-preserving updates                                                                      *)
(* ------------------------------------------------------------------------------------------ *)
Definition updn (k : key) (f : node -> node) (ns : list node) : list node :=
  map (fun n => if key_eqb (nk n) k then f n else n) ns.
Definition setdet (ps : list key) (b : bool) (ns : list node) : list node :=
  map (fun n => if mem_key (nk n) ps then mkNode (nk n) (ncre n) b else n) ns.

Lemma nodes_upd_node k f s : nodes (upd_node k f s) = updn k f (nodes s).
Proof. reflexivity. Qed.
Lemma nodes_set_detached_rec k b s :
  nodes (set_detached_rec k b s) = setdet (recl k (nodes s)) b (nodes s).
Proof. reflexivity. Qed.

Lemma map_nk_updn k f ns : (forall n, nk (f n) = nk n) -> map nk (updn k f ns) = map nk ns.
Proof.
  intros H. unfold updn. apply map_nk_map. intros n. destruct (key_eqb (nk n) k); [apply H | reflexivity].
Qed.
Lemma map_nk_setdet ps b ns : map nk (setdet ps b ns) = map nk ns.
Proof. unfold setdet. apply map_nk_map. intros n. destruct (mem_key (nk n) ps); reflexivity. Qed.
Lemma length_updn k f ns : length (updn k f ns) = length ns.
Proof. apply map_length. Qed.

Lemma findn_updn x k f ns : (forall n, nk (f n) = nk n) ->
  findn x (updn k f ns) = if key_eqb x k then option_map f (findn x ns) else findn x ns.
Proof.
  intros H. unfold updn. rewrite findn_map.
  - destruct (findn x ns) as [n|] eqn:Hf; cbn; [|destruct (key_eqb x k); reflexivity].
    apply findn_key in Hf. rewrite Hf. destruct (key_eqb x k); reflexivity.
  - intros n. destruct (key_eqb (nk n) k); [apply H | reflexivity].
Qed.

Lemma findn_setdet x ps b ns :
  findn x (setdet ps b ns) =
  option_map (fun n => if mem_key x ps then mkNode (nk n) (ncre n) b else n) (findn x ns).
Proof.
  unfold setdet. rewrite findn_map.
  - destruct (findn x ns) as [n|] eqn:Hf; cbn; [|reflexivity].
    apply findn_key in Hf. rewrite Hf. reflexivity.
  - intros n. destruct (mem_key (nk n) ps); reflexivity.
Qed.

Lemma NW_intro_findn ns ns' :
  NWl ns -> map nk ns' = map nk ns -> findn root_key ns' = Some root_node ->
  (forall x n', findn x ns' = Some n' -> x <> root_key -> local_ok ns' n') ->
  (forall x n', findn x ns' = Some n' -> ndet n' = false -> Reach ns' x) ->
  NWl ns'.
Proof.
  intros HW Hk Hr Hl HR.
  assert (Hd : NoDup (map nk ns')). { rewrite Hk. apply nw_nodup. exact HW. }
  constructor.
  - exact Hd.
  - exact Hr.
  - intros n Hn Hkr. assert (Hi : In (nk n) (map nk ns)). { rewrite <- Hk. apply in_map. exact Hn. }
    apply in_map_iff in Hi. destruct Hi as [n0 [Hn0 Hin0]]. rewrite <- Hn0.
    apply (nw_kroot _ HW); [exact Hin0 | rewrite Hn0; exact Hkr].
  - intros n Hn Hnr. apply (Hl (nk n) n); [apply In_findn; assumption | exact Hnr].
  - intros n Hn Hdn. apply (HR (nk n) n); [apply In_findn; assumption | exact Hdn].
Qed.

(* boolean view of the recursive products, unfolded one creator step *)
Lemma recl_unfold ns k x nx : NoDup (map nk ns) -> findn x ns = Some nx -> x <> k ->
  (mem_key x (recl k ns) = true <->
   exists c, ncre nx = Some c /\ x <> c /\ (c = k \/ mem_key c (recl k ns) = true)).
Proof.
  intros Hd Hf Hxk. rewrite recl_spec, (desc_unfold ns k x nx Hd Hf Hxk).
  split; intros [c [H1 [H2 H3]]]; exists c; (split; [exact H1|]); (split; [exact H2|]);
    (destruct H3 as [H3|H3]; [left; exact H3 | right; apply recl_spec; exact H3]).
Qed.

Lemma recl_self ns k : mem_key k (recl k ns) = false.
Proof.
  destruct (mem_key k (recl k ns)) eqn:E; [|reflexivity].
  apply recl_spec in E. destruct E as [E _]. congruence.
Qed.

Lemma recl_root ns k : NoDup (map nk ns) -> findn root_key ns = Some root_node ->
  mem_key root_key (recl k ns) = false.
Proof.
  intros Hd Hr. destruct (mem_key root_key (recl k ns)) eqn:E; [|reflexivity].
  apply recl_spec in E. exfalso. eapply desc_not_root; eassumption.
Qed.

(* ------------------------------------------------------------------------------------------ *)
(* T2: Node.detach                                                                             *)
(* ------------------------------------------------------------------------------------------ *)
Definition detach_nodes (k : key) (n : node) (ns : list node) : list node :=
  let ns1 := updn k (fun n => mkNode (nk n) None true) ns in
  if ndet n then ns1 else setdet (recl k ns1) true ns1.

Lemma NW_detach ns k n :
  NWl ns -> k <> root_key -> findn k ns = Some n -> NWl (detach_nodes k n ns).
Proof.
  intros HW Hkr Hk. unfold detach_nodes.
  set (ns1 := updn k (fun n => mkNode (nk n) None true) ns).
  assert (Hk1 : map nk ns1 = map nk ns). { apply map_nk_updn. reflexivity. }
  assert (Hd1 : NoDup (map nk ns1)). { rewrite Hk1. apply nw_nodup. exact HW. }
  assert (Hf1 : forall x, findn x ns1 = if key_eqb x k then Some (mkNode k None true) else findn x ns).
  { intros x. unfold ns1. rewrite findn_updn; [|reflexivity].
    destruct (key_eqb x k) eqn:E; [|reflexivity]. apply key_eqb_eq in E. subst x.
    rewrite Hk. cbn. rewrite (findn_key _ _ _ Hk). reflexivity. }
  assert (Hr1 : findn root_key ns1 = Some root_node).
  { rewrite Hf1. destruct (key_eqb root_key k) eqn:E; [apply key_eqb_eq in E; congruence|].
    apply nw_root. exact HW. }
  assert (Hloc : forall x n0, x <> root_key -> findn x ns = Some n0 -> local_ok ns n0).
  { intros x n0 Hx Hf. pose proof (findn_In _ _ _ Hf) as [Hin Hkey].
    apply (nw_local _ HW); [exact Hin | rewrite Hkey; exact Hx]. }
  destruct (ndet n) eqn:Hdn.
  - (* already detached: only the creator link is cut *)
    apply (NW_intro_findn ns); [exact HW | exact Hk1 | exact Hr1 | |].
    + intros x n' Hf Hx. rewrite Hf1 in Hf. destruct (key_eqb x k) eqn:E.
      * inversion Hf; subst n'. unfold local_ok. cbn. reflexivity.
      * pose proof (Hloc x n' Hx Hf) as Hl. unfold local_ok in *.
        destruct (ncre n') as [c|]; [|exact Hl].
        destruct Hl as [H1 [H2 [cn [H3 H4]]]]. split; [exact H1|]. split; [exact H2|].
        rewrite Hf1. destruct (key_eqb c k) eqn:Eck.
        -- apply key_eqb_eq in Eck. subst c. rewrite Hk in H3. inversion H3; subst cn.
           eexists. split; [reflexivity|]. cbn. congruence.
        -- exists cn. auto.
    + intros x n' Hf Hdet. rewrite Hf1 in Hf. destruct (key_eqb x k) eqn:E.
      * inversion Hf; subst n'. discriminate.
      * pose proof (findn_In _ _ _ Hf) as [Hin Hkey].
        apply (reach_frame_attached ns); [exact HW | |rewrite <- Hkey; apply (nw_reach _ HW); assumption].
        intros y m Hy Hm Hyr. exists m. split; [|reflexivity]. rewrite Hf1.
        destruct (key_eqb y k) eqn:Eyk; [|exact Hy].
        apply key_eqb_eq in Eyk. subst y. rewrite Hk in Hy. inversion Hy; subst m. congruence.
  - (* attached: the whole subtree becomes detached *)
    set (D := fun x => mem_key x (recl k ns1)).
    assert (Hf2 : forall x, findn x (setdet (recl k ns1) true ns1) =
                 option_map (fun n => if D x then mkNode (nk n) (ncre n) true else n) (findn x ns1)).
    { intros x. apply findn_setdet. }
    assert (HDk : D k = false) by apply recl_self.
    assert (HDr : D root_key = false). { apply recl_root; assumption. }
    assert (HDu : forall x nx, x <> k -> findn x ns = Some nx ->
              (D x = true <-> exists c, ncre nx = Some c /\ x <> c /\ (c = k \/ D c = true))).
    { intros x nx Hxk Hfx. apply recl_unfold; [exact Hd1 | | exact Hxk].
      rewrite Hf1. apply key_eqb_neq in Hxk. rewrite Hxk. exact Hfx. }
    apply (NW_intro_findn ns); [exact HW | rewrite map_nk_setdet; exact Hk1 | | |].
    + rewrite Hf2, Hr1. cbn. rewrite HDr. reflexivity.
    + intros x n2 Hf Hx. rewrite Hf2, Hf1 in Hf. destruct (key_eqb x k) eqn:E.
      * apply key_eqb_eq in E. subst x. cbn in Hf. rewrite HDk in Hf. inversion Hf; subst n2.
        unfold local_ok. cbn. reflexivity.
      * apply key_eqb_neq in E. destruct (findn x ns) as [n0|] eqn:Hf0; [|discriminate].
        cbn in Hf. pose proof (Hloc x n0 Hx Hf0) as Hl. pose proof (findn_key _ _ _ Hf0) as Hkey.
        pose proof (HDu x n0 E Hf0) as Hu.
        unfold local_ok in Hl. destruct (ncre n0) as [c|] eqn:Hc.
        -- destruct Hl as [H1 [H2 [cn [H3 H4]]]].
           assert (Hgoal : exists cn2, findn c (setdet (recl k ns1) true ns1) = Some cn2 /\
                            (if D x then true else ndet n0) = ndet cn2).
           { rewrite Hf2, Hf1. destruct (key_eqb c k) eqn:Eck.
             - apply key_eqb_eq in Eck. subst c. cbn. rewrite HDk. eexists. split; [reflexivity|].
               cbn. assert (HDx : D x = true). { apply Hu. exists k. rewrite <- Hkey. auto. }
               rewrite HDx. reflexivity.
             - apply key_eqb_neq in Eck. rewrite H3. cbn. eexists. split; [reflexivity|].
               destruct (D x) eqn:HDx, (D c) eqn:HDc; cbn; try reflexivity; try exact H4.
               + exfalso. destruct (proj1 Hu eq_refl) as [c' [Hc' [_ [Hck|Hck]]]];
                   inversion Hc'; subst c'; congruence.
               + exfalso. assert (false = true); [|discriminate]. apply Hu. exists c.
                 rewrite <- Hkey. auto. }
           destruct Hgoal as [cn2 [Hg1 Hg2]].
           destruct (D x); inversion Hf; subst n2; unfold local_ok; cbn [ncre nk ndet]; rewrite ?Hc;
             (split; [exact H1|]); (split; [exact H2|]); exists cn2; auto.
        -- destruct (D x); inversion Hf; subst n2; unfold local_ok; cbn [ncre nk ndet]; rewrite ?Hc;
             auto.
    + intros x n2 Hf Hdet. rewrite Hf2, Hf1 in Hf. destruct (key_eqb x k) eqn:E.
      * cbn in Hf. apply key_eqb_eq in E. subst x. rewrite HDk in Hf. inversion Hf; subst n2. discriminate.
      * apply key_eqb_neq in E. destruct (findn x ns) as [n0|] eqn:Hf0; [|discriminate].
        cbn in Hf. destruct (D x) eqn:HDx; inversion Hf; subst n2; [discriminate|].
        pose proof (findn_In _ _ _ Hf0) as [Hin Hkey].
        apply (reach_frame (fun y => y <> k /\ D y = false) ns);
          [| rewrite <- Hkey; apply (nw_reach _ HW); assumption | split; assumption].
        intros y m c [Hyk HDy] Hyr Hy Hc.
        pose proof (Hloc y m Hyr Hy) as Hl. unfold local_ok in Hl. rewrite Hc in Hl.
        destruct Hl as [H1 _]. rewrite (findn_key _ _ _ Hy) in H1.
        pose proof (HDu y m Hyk Hy) as Hu.
        split; [split|].
        -- intros ->. assert (D y = true); [|congruence]. apply Hu. exists k. auto.
        -- destruct (D c) eqn:HDc; [|reflexivity].
           assert (D y = true); [|congruence]. apply Hu. exists c. auto.
        -- exists m. split; [|exact Hc]. rewrite Hf2, Hf1.
           apply key_eqb_neq in Hyk. rewrite Hyk, Hy. cbn. rewrite HDy. reflexivity.
Qed.

(* ------------------------------------------------------------------------------------------ *)
(* T3: Node.reattach                                                                           *)
(* ------------------------------------------------------------------------------------------ *)
Definition reattach_nodes (k c : key) (det : bool) (ns : list node) : list node :=
  let ns1 := updn k (fun n => mkNode (nk n) (Some c) det) ns in
  setdet (recl k ns1) det ns1.

Lemma NW_reattach ns k c n cn :
  NWl ns -> findn k ns = Some n -> findn c ns = Some cn -> ndet n = true -> c <> k ->
  creator_kind_ok (fst k) (fst c) = true -> NWl (reattach_nodes k c (ndet cn) ns).
Proof.
  intros HW Hk Hc Hdn Hck Hkind. unfold reattach_nodes.
  set (det := ndet cn).
  set (ns1 := updn k (fun n => mkNode (nk n) (Some c) det) ns).
  assert (Hkr : k <> root_key).
  { intros ->. rewrite (nw_root _ HW) in Hk. inversion Hk; subst n. discriminate. }
  assert (Hk1 : map nk ns1 = map nk ns). { apply map_nk_updn. reflexivity. }
  assert (Hd1 : NoDup (map nk ns1)). { rewrite Hk1. apply nw_nodup. exact HW. }
  assert (Hf1 : forall x, findn x ns1 = if key_eqb x k then Some (mkNode k (Some c) det) else findn x ns).
  { intros x. unfold ns1. rewrite findn_updn; [|reflexivity].
    destruct (key_eqb x k) eqn:E; [|reflexivity]. apply key_eqb_eq in E. subst x.
    rewrite Hk. cbn. rewrite (findn_key _ _ _ Hk). reflexivity. }
  assert (Hr1 : findn root_key ns1 = Some root_node).
  { rewrite Hf1. destruct (key_eqb root_key k) eqn:E; [apply key_eqb_eq in E; congruence|].
    apply nw_root. exact HW. }
  assert (Hloc : forall x n0, x <> root_key -> findn x ns = Some n0 -> local_ok ns n0).
  { intros x n0 Hx Hf. pose proof (findn_In _ _ _ Hf) as [Hin Hkey].
    apply (nw_local _ HW); [exact Hin | rewrite Hkey; exact Hx]. }
  set (D := fun x => mem_key x (recl k ns1)).
  set (ns2 := setdet (recl k ns1) det ns1).
  assert (Hf2 : forall x, findn x ns2 =
               option_map (fun n => if D x then mkNode (nk n) (ncre n) det else n) (findn x ns1)).
  { intros x. apply findn_setdet. }
  assert (HDk : D k = false) by apply recl_self.
  assert (HDr : D root_key = false). { apply recl_root; assumption. }
  assert (HDu : forall x nx, x <> k -> findn x ns = Some nx ->
            (D x = true <-> exists c, ncre nx = Some c /\ x <> c /\ (c = k \/ D c = true))).
  { intros x nx Hxk Hfx. apply recl_unfold; [exact Hd1 | | exact Hxk].
    rewrite Hf1. apply key_eqb_neq in Hxk. rewrite Hxk. exact Hfx. }
  assert (Hkc : key_eqb c k = false) by (apply key_eqb_neq; exact Hck).
  assert (Hfc2 : findn c ns2 = Some (if D c then mkNode (nk cn) (ncre cn) det else cn)).
  { rewrite Hf2, Hf1, Hkc, Hc. reflexivity. }
  assert (Hfk2 : findn k ns2 = Some (mkNode k (Some c) det)).
  { rewrite Hf2, Hf1, key_eqb_refl. cbn. rewrite HDk. reflexivity. }
  (* nodes that were attached stay reachable *)
  assert (HA : forall y m, findn y ns = Some m -> ndet m = false -> Reach ns2 y).
  { intros y m Hy Hm. pose proof (findn_In _ _ _ Hy) as [Hin Hkey].
    apply (reach_frame_attached ns); [exact HW | | rewrite <- Hkey; apply (nw_reach _ HW); assumption].
    intros z mz Hz Hmz Hzr.
    assert (Hzk : key_eqb z k = false).
    { apply key_eqb_neq. intros ->. rewrite Hk in Hz. inversion Hz; subst mz. congruence. }
    rewrite Hf2, Hf1, Hzk, Hz. cbn. eexists. split; [reflexivity|]. destruct (D z); reflexivity. }
  apply (NW_intro_findn ns); [exact HW | unfold ns2; rewrite map_nk_setdet; exact Hk1 | | |].
  - rewrite Hf2, Hr1. cbn. rewrite HDr. reflexivity.
  - intros x n2 Hf Hx. destruct (key_eqb x k) eqn:E.
    + apply key_eqb_eq in E. subst x. rewrite Hfk2 in Hf. inversion Hf; subst n2.
      unfold local_ok. cbn [ncre nk ndet]. split; [exact Hck|]. split; [exact Hkind|].
      eexists. split; [exact Hfc2|]. destruct (D c); reflexivity.
    + rewrite Hf2, Hf1, E in Hf. apply key_eqb_neq in E.
      destruct (findn x ns) as [n0|] eqn:Hf0; [|discriminate].
      cbn in Hf. pose proof (Hloc x n0 Hx Hf0) as Hl. pose proof (findn_key _ _ _ Hf0) as Hkey.
      pose proof (HDu x n0 E Hf0) as Hu.
      unfold local_ok in Hl. destruct (ncre n0) as [c0|] eqn:Hc0.
      * destruct Hl as [H1 [H2 [cn0 [H3 H4]]]].
        assert (Hgoal : exists cn2, findn c0 ns2 = Some cn2 /\
                          (if D x then det else ndet n0) = ndet cn2).
        { destruct (key_eqb c0 k) eqn:Eck.
          - apply key_eqb_eq in Eck. subst c0. eexists. split; [exact Hfk2|]. cbn.
            assert (HDx : D x = true). { apply Hu. exists k. rewrite <- Hkey. auto. }
            rewrite HDx. reflexivity.
          - rewrite Hf2, Hf1, Eck, H3. apply key_eqb_neq in Eck. cbn. eexists. split; [reflexivity|].
            destruct (D x) eqn:HDx, (D c0) eqn:HDc; cbn; try reflexivity; try exact H4.
            + exfalso. destruct (proj1 Hu eq_refl) as [c' [Hc' [_ [Hck'|Hck']]]];
                inversion Hc'; subst c'; congruence.
            + exfalso. assert (false = true); [|discriminate]. apply Hu. exists c0.
              rewrite <- Hkey. auto. }
        destruct Hgoal as [cn2 [Hg1 Hg2]].
        destruct (D x); inversion Hf; subst n2; unfold local_ok; cbn [ncre nk ndet]; rewrite ?Hc0;
          (split; [exact H1|]); (split; [exact H2|]); exists cn2; auto.
      * destruct (D x) eqn:HDx.
        -- exfalso. destruct (proj1 Hu eq_refl) as [c' [Hc' _]]. discriminate.
        -- inversion Hf; subst n2. unfold local_ok. rewrite Hc0. exact Hl.
  - intros x n2 Hf Hdet.
    assert (HRk : det = false -> Reach ns2 k).
    { intros Hdf. eapply Reach_step; [exact Hfk2 | reflexivity |]. eapply HA; [exact Hc | exact Hdf]. }
    destruct (key_eqb x k) eqn:E.
    + apply key_eqb_eq in E. subst x. rewrite Hfk2 in Hf. inversion Hf; subst n2. apply HRk. exact Hdet.
    + rewrite Hf2, Hf1, E in Hf. apply key_eqb_neq in E.
      destruct (findn x ns) as [n0|] eqn:Hf0; [|discriminate]. cbn in Hf.
      destruct (D x) eqn:HDx; inversion Hf; subst n2; [|eapply HA; eassumption].
      cbn in Hdet. unfold D in HDx. apply recl_spec in HDx. destruct HDx as [_ Hp].
      pattern x. eapply path_rind; [| |exact Hp]; [apply HRk; exact Hdet|].
      intros b y _ IH He. apply (pedges_findn _ _ _ Hd1) in He. destruct He as [m [Hm [Hcm _]]].
      apply (Reach_step ns2 y (if D y then mkNode (nk m) (ncre m) det else m) b);
        [rewrite Hf2, Hm; reflexivity | destruct (D y); exact Hcm | exact IH].
Qed.

(* ------------------------------------------------------------------------------------------ *)
(* T4: Trellis.create on an existing detached node (partial recycle)                           *)
(* ------------------------------------------------------------------------------------------ *)
Definition is_prod_of (k : key) (n : node) : bool :=
  okey_eqb (ncre n) (Some k) && negb (key_eqb (nk n) k).

Definition recycle_nodes (k : key) (cre : option key) (cdet : bool) (ns : list node) : list node :=
  map (fun n => if is_prod_of k n then mkNode (nk n) None true else n)
      (updn k (fun n => mkNode (nk n) cre cdet) ns).

Lemma is_prod_of_true k n : is_prod_of k n = true <-> ncre n = Some k /\ nk n <> k.
Proof. unfold is_prod_of. rewrite andb_true_iff, okey_eqb_eq, negb_true_iff, key_eqb_neq. tauto. Qed.

Lemma NW_recycle ns k n cre cdet :
  NWl ns -> findn k ns = Some n -> ndet n = true -> new_node_ok ns k cre cdet ->
  NWl (recycle_nodes k cre cdet ns).
Proof.
  intros HW Hk Hdn Hnew. unfold recycle_nodes.
  set (ns1 := updn k (fun n => mkNode (nk n) cre cdet) ns).
  set (g2 := fun n => if is_prod_of k n then mkNode (nk n) None true else n).
  assert (Hkr : k <> root_key).
  { intros ->. rewrite (nw_root _ HW) in Hk. inversion Hk; subst n. discriminate. }
  assert (Hk1 : map nk ns1 = map nk ns). { apply map_nk_updn. reflexivity. }
  assert (Hg2 : forall n, nk (g2 n) = nk n). { intros m. unfold g2. destruct (is_prod_of k m); reflexivity. }
  assert (Hf1 : forall x, findn x ns1 = if key_eqb x k then Some (mkNode k cre cdet) else findn x ns).
  { intros x. unfold ns1. rewrite findn_updn; [|reflexivity].
    destruct (key_eqb x k) eqn:E; [|reflexivity]. apply key_eqb_eq in E. subst x.
    rewrite Hk. cbn. rewrite (findn_key _ _ _ Hk). reflexivity. }
  assert (Hf2 : forall x, findn x (map g2 ns1) = option_map g2 (findn x ns1)).
  { intros x. apply findn_map. exact Hg2. }
  assert (Hloc : forall x n0, x <> root_key -> findn x ns = Some n0 -> local_ok ns n0).
  { intros x n0 Hx Hf. pose proof (findn_In _ _ _ Hf) as [Hin Hkey].
    apply (nw_local _ HW); [exact Hin | rewrite Hkey; exact Hx]. }
  assert (Hprod : forall y m, findn y ns = Some m -> is_prod_of k m = true -> ndet m = true).
  { intros y m Hy Hp. apply is_prod_of_true in Hp. destruct Hp as [Hp1 Hp2].
    assert (Hyr : y <> root_key).
    { intros ->. rewrite (nw_root _ HW) in Hy. inversion Hy; subst m. cbn in Hp1. congruence. }
    pose proof (Hloc y m Hyr Hy) as Hl. unfold local_ok in Hl. rewrite Hp1 in Hl.
    destruct Hl as [_ [_ [kn [Hkn Hd]]]]. rewrite Hk in Hkn. inversion Hkn; subst kn. congruence. }
  assert (Hfk2 : findn k (map g2 ns1) = Some (mkNode k cre cdet)).
  { rewrite Hf2, Hf1, key_eqb_refl. cbn. unfold g2, is_prod_of. cbn. rewrite key_eqb_refl.
    rewrite andb_false_r. reflexivity. }
  assert (Hfo2 : forall x, x <> k -> findn x (map g2 ns1) = option_map g2 (findn x ns)).
  { intros x Hx. rewrite Hf2, Hf1. apply key_eqb_neq in Hx. rewrite Hx. reflexivity. }
  assert (HA : forall y m, findn y ns = Some m -> ndet m = false -> Reach (map g2 ns1) y).
  { intros y m Hy Hm. pose proof (findn_In _ _ _ Hy) as [Hin Hkey].
    apply (reach_frame_attached ns); [exact HW | | rewrite <- Hkey; apply (nw_reach _ HW); assumption].
    intros z mz Hz Hmz Hzr.
    assert (Hzk : z <> k). { intros ->. rewrite Hk in Hz. inversion Hz; subst mz. congruence. }
    rewrite (Hfo2 z Hzk), Hz. cbn. exists (g2 mz). split; [reflexivity|]. unfold g2.
    destruct (is_prod_of k mz) eqn:Ep; [|reflexivity].
    pose proof (Hprod z mz Hz Ep). congruence. }
  apply (NW_intro_findn ns); [exact HW | rewrite (map_nk_map g2 ns1 Hg2); exact Hk1 | | |].
  - rewrite (Hfo2 root_key (not_eq_sym Hkr)), (nw_root _ HW). cbn. unfold g2, is_prod_of. cbn.
    destruct k as [kk kl]. destruct kk; cbn; try reflexivity.
    destruct kl; [exfalso; apply Hkr; reflexivity | reflexivity].
  - intros x n2 Hf Hx. destruct (key_eqb x k) eqn:E.
    + apply key_eqb_eq in E. subst x. rewrite Hfk2 in Hf. inversion Hf; subst n2.
      unfold local_ok. cbn [ncre nk ndet]. unfold new_node_ok in Hnew.
      destruct cre as [c|]; [|exact Hnew]. destruct Hnew as [H1 [H2 [cn [H3 H4]]]].
      split; [exact H1|]. split; [exact H2|]. rewrite (Hfo2 c H1), H3. cbn.
      eexists. split; [reflexivity|]. unfold g2. destruct (is_prod_of k cn) eqn:Ep; [|exact H4].
      cbn. rewrite H4. apply (Hprod c cn H3 Ep).
    + apply key_eqb_neq in E. rewrite (Hfo2 x E) in Hf.
      destruct (findn x ns) as [n0|] eqn:Hf0; [|discriminate]. cbn in Hf. inversion Hf; subst n2.
      change (g2 n0) with (if is_prod_of k n0 then mkNode (nk n0) None true else n0).
      destruct (is_prod_of k n0) eqn:Ep.
      * unfold local_ok. cbn. reflexivity.
      * pose proof (Hloc x n0 Hx Hf0) as Hl. unfold local_ok in *.
        destruct (ncre n0) as [c0|] eqn:Hc0; [|exact Hl].
        destruct Hl as [H1 [H2 [cn0 [H3 H4]]]]. split; [exact H1|]. split; [exact H2|].
        assert (Hc0k : c0 <> k).
        { intros ->. assert (is_prod_of k n0 = true); [|congruence]. apply is_prod_of_true.
          split; [exact Hc0|]. rewrite (findn_key _ _ _ Hf0). exact E. }
        rewrite (Hfo2 c0 Hc0k), H3. cbn. eexists. split; [reflexivity|]. unfold g2.
        destruct (is_prod_of k cn0) eqn:Ep0; [|exact H4]. cbn. rewrite H4. apply (Hprod c0 cn0 H3 Ep0).
  - intros x n2 Hf Hdet. destruct (key_eqb x k) eqn:E.
    + apply key_eqb_eq in E. subst x. rewrite Hfk2 in Hf. inversion Hf; subst n2. cbn in Hdet.
      unfold new_node_ok in Hnew. destruct cre as [c|]; [|congruence].
      destruct Hnew as [H1 [H2 [cn [H3 H4]]]].
      eapply Reach_step; [exact Hfk2 | reflexivity |]. eapply HA; [exact H3 | congruence].
    + apply key_eqb_neq in E. rewrite (Hfo2 x E) in Hf.
      destruct (findn x ns) as [n0|] eqn:Hf0; [|discriminate]. cbn in Hf. inversion Hf; subst n2.
      unfold g2 in Hdet. destruct (is_prod_of k n0) eqn:Ep; [discriminate|].
      eapply HA; eassumption.
Qed.

(* ------------------------------------------------------------------------------------------ *)
(* reaches_root (fuel = number of nodes) decides Reach                                         *)
(* ------------------------------------------------------------------------------------------ *)
Lemma reaches_root_sound fuel : forall k s, reaches_root fuel k s = true -> Reach (nodes s) k.
Proof.
  induction fuel as [|fuel IH]; intros k s H; cbn [reaches_root] in H.
  - destruct (key_eqb k root_key) eqn:E; [|discriminate]. apply key_eqb_eq in E. subst. apply Reach_root.
  - destruct (key_eqb k root_key) eqn:E; [apply key_eqb_eq in E; subst; apply Reach_root|].
    unfold creator_of in H. destruct (find_node k s) as [n|] eqn:Hf; [|discriminate].
    destruct (ncre n) as [c|] eqn:Hc; [|discriminate].
    eapply Reach_step; [exact Hf | exact Hc | apply IH; exact H].
Qed.

Inductive chain (ns : list node) : key -> list key -> Prop :=
| chain_root : chain ns root_key []
| chain_step k n c l : k <> root_key -> findn k ns = Some n -> ncre n = Some c -> chain ns c l ->
                       chain ns k (k :: l).

Lemma reach_chain ns k : Reach ns k -> exists l, chain ns k l.
Proof.
  intros HR. induction HR as [|k n c Hf Hc HR [l IH]]; [exists []; constructor|].
  destruct (key_eq_dec k root_key) as [->|Hk]; [exists []; constructor|].
  exists (k :: l). econstructor; eassumption.
Qed.

Lemma chain_fuel ns_s k l : chain (nodes ns_s) k l ->
  forall fuel, (length l <= fuel)%nat -> reaches_root fuel k ns_s = true.
Proof.
  intros Hc. induction Hc as [|k n c l Hk Hf Hcr Hc IH]; intros fuel Hl.
  - destruct fuel; reflexivity.
  - destruct fuel as [|fuel]; [cbn in Hl; lia|]. cbn [reaches_root].
    apply key_eqb_neq in Hk. rewrite Hk. unfold creator_of, find_node. fold (findn k (nodes ns_s)).
    rewrite Hf, Hcr. apply IH. cbn in Hl. lia.
Qed.

Lemma chain_suffix ns k l : chain ns k l ->
  forall x, In x l -> exists pre l', l = pre ++ l' /\ chain ns x l'.
Proof.
  intros Hc. induction Hc as [|k n c l Hk Hf Hcr Hc IH]; intros x Hx; [contradiction|].
  destruct Hx as [<-|Hx].
  - exists [], (k :: l). split; [reflexivity | econstructor; eassumption].
  - destruct (IH x Hx) as [pre [l' [He Hl']]]. exists (k :: pre), l'. split; [rewrite He; reflexivity | exact Hl'].
Qed.

Lemma chain_nodup ns k l : chain ns k l -> exists l', chain ns k l' /\ NoDup l'.
Proof.
  intros Hc. induction Hc as [|k n c l Hk Hf Hcr Hc [l0 [Hc0 Hd0]]].
  - exists []. split; constructor.
  - destruct (in_dec key_eq_dec k l0) as [Hin|Hnin].
    + destruct (chain_suffix _ _ _ Hc0 k Hin) as [pre [l' [He Hl']]].
      exists l'. split; [exact Hl'|]. subst l0. eapply NoDup_app_r. exact Hd0.
    + exists (k :: l0). split; [econstructor; eassumption | constructor; assumption].
Qed.

Lemma chain_members ns k l : chain ns k l -> forall x, In x l -> x <> root_key /\ In x (map nk ns).
Proof.
  intros Hc. induction Hc as [|k n c l Hk Hf Hcr Hc IH]; intros x Hx; [contradiction|].
  destruct Hx as [<-|Hx]; [|apply IH; exact Hx].
  split; [exact Hk|]. apply findn_In in Hf. destruct Hf as [Hf1 Hf2]. rewrite <- Hf2. apply in_map. exact Hf1.
Qed.

Lemma reaches_root_complete s k :
  In root_key (map nk (nodes s)) -> Reach (nodes s) k ->
  reaches_root (length (nodes s)) k s = true.
Proof.
  intros Hroot HR. apply reach_chain in HR. destruct HR as [l Hc].
  apply chain_nodup in Hc. destruct Hc as [l' [Hc Hd]].
  apply (chain_fuel _ _ _ Hc).
  assert (Hincl : incl (root_key :: l') (map nk (nodes s))).
  { intros x [<-|Hx]; [exact Hroot|]. apply (chain_members _ _ _ Hc x Hx). }
  assert (Hnd : NoDup (root_key :: l')).
  { constructor; [|exact Hd]. intros Hin. apply (chain_members _ _ _ Hc) in Hin. destruct Hin as [Hin _].
    apply Hin. reflexivity. }
  pose proof (NoDup_incl_length Hnd Hincl) as Hlen. rewrite map_length in Hlen. cbn in Hlen. lia.
Qed.

(* ------------------------------------------------------------------------------------------ *)
(* the boolean conjuncts I0, I1 (local), I1 (global) reflect NWl                               *)
(* ------------------------------------------------------------------------------------------ *)
Lemma local_b_iff s n : nk n <> root_key ->
  (key_eqb (nk n) root_key ||
   match ncre n with
   | None => ndet n
   | Some c => match find_node c s with
               | Some cn => Bool.eqb (ndet n) (ndet cn) && negb (key_eqb c (nk n))
                            && creator_kind_ok (fst (nk n)) (fst c)
               | None => false
               end
   end = true) <-> local_ok (nodes s) n.
Proof.
  intros Hr. apply key_eqb_neq in Hr. rewrite Hr. cbn [orb]. unfold local_ok.
  destruct (ncre n) as [c|]; [|tauto].
  change (find_node c s) with (findn c (nodes s)).
  destruct (findn c (nodes s)) as [cn|].
  - rewrite !andb_true_iff, eqb_true_iff, negb_true_iff, key_eqb_neq. split.
    + intros [[H1 H2] H3]. split; [exact H2|]. split; [exact H3|]. exists cn. auto.
    + intros [H1 [H2 [cn' [H3 H4]]]]. inversion H3; subst cn'. auto.
  - split; [discriminate|]. intros [_ [_ [cn [H _]]]]. discriminate.
Qed.

Lemma NW_reflect s : inv_nodes_b s && inv_local_b s && inv_reach_b s = true <-> NWl (nodes s).
Proof.
  split.
  - intros H. apply andb_true_iff in H. destruct H as [H HR]. apply andb_true_iff in H. destruct H as [HN HL].
    unfold inv_nodes_b in HN. apply andb_true_iff in HN. destruct HN as [HN HN3].
    apply andb_true_iff in HN. destruct HN as [HN1 HN2].
    apply (nodup_by_NoDup key_eqb _ key_eqb_eq) in HN1.
    change (find_node root_key s) with (findn root_key (nodes s)) in HN2.
    destruct (findn root_key (nodes s)) as [r|] eqn:Hfr; [|discriminate].
    apply andb_true_iff in HN2. destruct HN2 as [Hr1 Hr2]. apply okey_eqb_eq in Hr1. apply negb_true_iff in Hr2.
    assert (Hr : r = root_node).
    { pose proof (findn_key _ _ _ Hfr) as Hk. destruct r as [rk rc rd]. cbn in *. subst. reflexivity. }
    subst r. rewrite forallb_forall in HN3. unfold inv_local_b in HL. rewrite forallb_forall in HL.
    unfold inv_reach_b in HR. rewrite forallb_forall in HR.
    constructor.
    + exact HN1.
    + exact Hfr.
    + intros n Hn Hk. specialize (HN3 n Hn). apply orb_true_iff in HN3. destruct HN3 as [HN3|HN3].
      * apply negb_true_iff in HN3. rewrite Hk in HN3. discriminate.
      * apply key_eqb_eq. exact HN3.
    + intros n Hn Hk. apply (local_b_iff s n Hk). apply HL. exact Hn.
    + intros n Hn Hd. specialize (HR n Hn). rewrite Hd in HR. cbn in HR.
      apply (reaches_root_sound (length (nodes s))).
      destruct (reaches_root (length (nodes s)) (nk n) s); [reflexivity | discriminate].
  - intros HW. rewrite !andb_true_iff. split; [split|].
    + unfold inv_nodes_b. rewrite !andb_true_iff. split; [split|].
      * apply (nodup_by_NoDup key_eqb _ key_eqb_eq). apply nw_nodup. exact HW.
      * change (find_node root_key s) with (findn root_key (nodes s)). rewrite (nw_root _ HW). reflexivity.
      * apply forallb_forall. intros n Hn. destruct (kind_eqb (fst (nk n)) KRoot) eqn:E; [|reflexivity].
        apply kind_eqb_eq in E. cbn. apply key_eqb_eq. apply (nw_kroot _ HW); assumption.
    + unfold inv_local_b. apply forallb_forall. intros n Hn.
      destruct (key_eq_dec (nk n) root_key) as [Hk|Hk].
      * apply key_eqb_eq in Hk. rewrite Hk. reflexivity.
      * apply (local_b_iff s n Hk). apply (nw_local _ HW); assumption.
    + unfold inv_reach_b. apply forallb_forall. intros n Hn.
      destruct (ndet n) eqn:Hd; cbn.
      * destruct (reaches_root (length (nodes s)) (nk n) s) eqn:E; [|reflexivity].
        apply reaches_root_sound in E.
        pose proof (proj2 (attached_iff_reach _ _ HW Hn) E). congruence.
      * rewrite reaches_root_complete; [reflexivity | |apply (nw_reach _ HW); assumption].
        change root_key with (nk root_node). apply in_map. apply root_in. exact HW.
Qed.
