(* C04: every EXECUTED step of a rebuild has a cause (model/NoopExec.v), on the engine model/Engine.v.
   Uses the invariant Pre / K (no stale success) and the frame lemmas of proofs/EngineProofs.v (C01). *)
From Coq Require Import List NArith Bool Lia.
From SV Require Import model.Engine proofs.EngineProofs model.NoopExec.
Import ListNotations.
Open Scope N_scope.

Lemma oN_eqb_refl (a : option N) : oN_eqb a a = true.
Proof. destruct a; cbn; [apply N.eqb_refl|reflexivity]. Qed.

Lemma oN_dec (a b : option N) : {a = b} + {a <> b}.
Proof. decide equality. apply N.eq_dec. Qed.

(* two ingredient lists over the same keys differ: some key has another value *)
Lemma ingr_neq (f g : N -> option N) (ks : list N) :
  ingr_eqb (ingredients f ks) (ingredients g ks) = false -> exists k, In k ks /\ f k <> g k.
Proof.
  induction ks as [|a ks IH]; cbn [ingredients map ingr_eqb]; [discriminate|].
  rewrite N.eqb_refl. cbn [andb]. destruct (oN_eqb (f a) (g a)) eqn:E; cbn [andb].
  - intros H. destruct (IH H) as (k & Hk & Hne). exists k. split; [right; exact Hk|exact Hne].
  - intros _. exists a. split; [left; reflexivity|]. intros Heq. rewrite Heq, oN_eqb_refl in E. discriminate.
Qed.

Section ExecConeProofs.
  Variable run : N -> list (option N) -> list (option N) -> N -> N.
  Notation step_build := (step_build run).
  Notation build_from := (build_from run).
  Notation build := (build run).
  Notation build_log := (build_log run).
  Notation Pre := (Pre run).

  Lemma build_from_app proj a b y : build_from proj (a ++ b) y = build_from proj b (build_from proj a y).
  Proof. unfold Engine.build_from. apply fold_left_app. Qed.

  Lemma build_from_cons proj s r y : build_from proj (s :: r) y = build_from proj r (step_build proj s y).
  Proof. reflexivity. Qed.

  Lemma log_head proj s r y :
    build_log proj (s :: r) y =
    (if is_succ (stt y (sid s)) || negb (ready proj y s) then []
     else [(sid s, negb (can_skip s y))]) ++ build_log proj r (step_build proj s y).
  Proof. cbn [Engine.build_log]. destruct (is_succ (stt y (sid s)) || negb (ready proj y s)); reflexivity. Qed.

  Lemma build_log_app proj a : forall b y,
    build_log proj (a ++ b) y = build_log proj a y ++ build_log proj b (build_from proj a y).
  Proof.
    induction a as [|s a IH]; intros b y; [reflexivity|].
    rewrite <- app_comm_cons. rewrite !log_head, build_from_cons, IH, app_assoc. reflexivity.
  Qed.

  (* the dispatch decision at [s] in state [y] is "run the command" *)
  Definition runs_at (proj : project) (s : step) (y : sys) : Prop :=
    is_succ (stt y (sid s)) = false /\ ready proj y s = true /\ can_skip s y = false.

  Lemma in_log_true proj id : forall todo y,
    In (id, true) (build_log proj todo y) ->
    exists d s r, todo = d ++ s :: r /\ sid s = id /\ runs_at proj s (build_from proj d y).
  Proof.
    induction todo as [|s r IH]; intros y H; [contradiction|].
    rewrite log_head in H. apply in_app_or in H. destruct H as [H|H].
    - destruct (is_succ (stt y (sid s)) || negb (ready proj y s)) eqn:E; [contradiction|].
      destruct H as [H|[]]. injection H as H1 H2.
      apply orb_false_iff in E. destruct E as [E1 E2]. apply negb_false_iff in E2.
      apply negb_true_iff in H2.
      exists [], s, r. split; [reflexivity|]. split; [exact H1|]. cbn. repeat split; assumption.
    - destruct (IH _ H) as (d & s' & r' & Ht & Hid & Hr).
      exists (s :: d), s', r'. split; [rewrite Ht; reflexivity|]. split; [exact Hid|].
      rewrite build_from_cons. exact Hr.
  Qed.

  Lemma runs_in_log proj d s r y :
    runs_at proj s (build_from proj d y) -> In (sid s, true) (build_log proj (d ++ s :: r) y).
  Proof.
    intros (H1 & H2 & H3). rewrite build_log_app. apply in_or_app. right.
    rewrite log_head, H1, H2, H3. cbn. left. reflexivity.
  Qed.

  (* only a run changes a file, and only an output of the step *)
  Lemma step_build_fs_changed proj s y p :
    fs (step_build proj s y) p <> fs y p -> In p (out s) /\ runs_at proj s y.
  Proof.
    unfold Engine.step_build, runs_at.
    destruct (is_succ (stt y (sid s))) eqn:E1; [congruence|].
    destruct (ready proj y s) eqn:E2; cbn [negb]; [|congruence].
    destruct (can_skip s y) eqn:E3; [cbn; congruence|].
    intros H. split; [|auto]. destruct (in_dec N.eq_dec p (out s)) as [Hi|Hn]; [exact Hi|].
    exfalso. apply H. apply fs_do_run_other. exact Hn.
  Qed.

  Lemma build_from_fs_other proj p : forall todo y,
    (forall q, In q todo -> ~ In p (out q)) -> fs (build_from proj todo y) p = fs y p.
  Proof.
    induction todo as [|s r IH]; intros y H; [reflexivity|].
    rewrite build_from_cons, IH; [|intros q Hq; apply H; right; exact Hq].
    destruct (oN_dec (fs (step_build proj s y) p) (fs y p)) as [He|Hne]; [exact He|].
    apply step_build_fs_changed in Hne. exfalso. apply (H s); [left; reflexivity|apply Hne].
  Qed.

  (* what a prefix of the build changes: traces and states of its own steps only, never the
     environment, and a file only as an output of a step that RAN *)
  Lemma prefix_inv proj y1 : forall d,
    (forall id, (forall q, In q d -> sid q <> id) ->
                tr (build_from proj d y1) id = tr y1 id /\ stt (build_from proj d y1) id = stt y1 id) /\
    (forall n, ev (build_from proj d y1) n = ev y1 n) /\
    (forall p, fs (build_from proj d y1) p <> fs y1 p ->
               exists q, In q d /\ In p (out q) /\ In (sid q, true) (build_log proj d y1)).
  Proof.
    induction d as [|s d IH] using rev_ind.
    - cbn. split; [auto|]. split; [auto|]. intros p H. congruence.
    - destruct IH as (I1 & I2 & I3). rewrite build_from_app.
      change (build_from proj [s] (build_from proj d y1)) with (step_build proj s (build_from proj d y1)).
      set (y' := build_from proj d y1) in *.
      destruct (step_build_frame run proj s y') as (F1 & F2 & F3 & F4).
      split; [|split].
      + intros id Hid. assert (Hne : id <> sid s).
        { intros ->. apply (Hid s); [apply in_or_app; right; left; reflexivity|reflexivity]. }
        rewrite (F3 id Hne), (F4 id Hne). apply I1. intros q Hq. apply Hid. apply in_or_app. left. exact Hq.
      + intros n. rewrite F2. apply I2.
      + intros p Hp. destruct (oN_dec (fs (step_build proj s y') p) (fs y' p)) as [He|Hne].
        * rewrite He in Hp. destruct (I3 p Hp) as (q & Hq & Hpo & Hlog). exists q.
          split; [apply in_or_app; left; exact Hq|]. split; [exact Hpo|].
          rewrite build_log_app. apply in_or_app. left. exact Hlog.
        * apply step_build_fs_changed in Hne. destruct Hne as [Hpo Hr]. exists s.
          split; [apply in_or_app; right; left; reflexivity|]. split; [exact Hpo|].
          apply runs_in_log. exact Hr.
  Qed.

  (* The core: a step with a recorded trace that matched the state [y] the previous build left,
     and that the build starting in [y1] executes, has a cause. *)
  Lemma exec_core proj y y1 (s : step) d r :
    WF proj -> proj = d ++ s :: r ->
    runs_at proj s (build_from proj d y1) ->
    tr y1 (sid s) = tr y (sid s) ->
    K_step y s -> stt y (sid s) = Succeeded ->
    (forall p, In p (outs proj) -> fs y1 p = fs y p) ->
    exec_cause run proj y y1 (build proj y1) s.
  Proof.
    intros (Hid & Hnd & Htopo) Hp (R1 & R2 & R3) Htr HK Hst Hout.
    destruct (HK Hst) as (t & Ht & Hi & He & Ho).
    destruct (prefix_inv proj y1 d) as (I1 & I2 & I3).
    set (y' := build_from proj d y1) in *.
    assert (Hs : In s proj) by (rewrite Hp; apply in_or_app; right; left; reflexivity).
    assert (Hfresh : forall q, In q d -> sid q <> sid s).
    { intros q Hq. apply (sid_before d r s q); [rewrite <- Hp; exact Hid|exact Hq]. }
    destruct (I1 (sid s) Hfresh) as [Htr' _].
    assert (Hlater : forall p q, In q d -> In p (out q) -> fs (build proj y1) p = fs y' p).
    { intros p q Hq Hpo. unfold Engine.build. rewrite Hp at 2. rewrite build_from_app.
      apply build_from_fs_other. intros q' Hq' Hpo'.
      rewrite Hp, outs_app in Hnd. apply (NoDup_app_disjoint _ _ p Hnd); apply in_outs; eauto. }
    assert (Hlog : forall id, In (id, true) (build_log proj d y1) -> ran run proj y1 id).
    { intros id H. unfold ran. rewrite Hp at 2. rewrite build_log_app. apply in_or_app. left. exact H. }
    unfold can_skip in R3. rewrite Htr', Htr, Ht, Hi, He, Ho in R3.
    apply andb_false_iff in R3. destruct R3 as [R3|R3]; [apply andb_false_iff in R3; destruct R3 as [R3|R3]|].
    - (* an input *)
      apply ingr_neq in R3. destruct R3 as (k & Hk & Hne).
      destruct (oN_dec (fs y1 k) (fs y k)) as [Heq|Hne1].
      + right. right. right.
        assert (Hne2 : fs y' k <> fs y1 k) by congruence.
        destruct (I3 k Hne2) as (q & Hq & Hko & Hql).
        exists k, q. split; [exact Hk|]. split; [rewrite Hp; apply in_or_app; left; exact Hq|].
        split; [exact Hko|]. split; [apply Hfresh; exact Hq|]. split; [apply Hlog; exact Hql|].
        rewrite (Hlater k q Hq Hko). congruence.
      + right. left. exists k. split; [exact Hk|]. split; [|exact Hne1].
        destruct (is_output proj k) eqn:E; [|reflexivity].
        exfalso. apply Hne1. apply Hout. apply memN_In. exact E.
    - (* a variable *)
      apply ingr_neq in R3. destruct R3 as (n & Hn & Hne). right. right. left.
      exists n. split; [exact Hn|]. rewrite <- (I2 n). congruence.
    - (* an output of the step itself: only the step writes it, and it has not run yet *)
      apply ingr_neq in R3. destruct R3 as (k & Hk & Hne). exfalso.
      assert (Hko : In k (outs proj)) by (apply in_outs; eauto).
      assert (Hne2 : fs y' k <> fs y1 k) by (rewrite (Hout k Hko); congruence).
      destruct (I3 k Hne2) as (q & Hq & Hkq & _).
      assert (Hqp : In q proj) by (rewrite Hp; apply in_or_app; left; exact Hq).
      rewrite Hp, outs_app in Hnd.
      apply (NoDup_app_disjoint _ _ k Hnd); apply in_outs; [exists q; auto|exists s; split; [left; reflexivity|exact Hk]].
  Qed.

  (* from membership in the log to the decomposition of the project at the step *)
  Lemma ran_decomp proj y1 (s : step) :
    WF proj -> In s proj -> ran run proj y1 (sid s) ->
    exists d r, proj = d ++ s :: r /\ runs_at proj s (build_from proj d y1).
  Proof.
    intros (Hid & _ & _) Hs H. destruct (in_log_true proj (sid s) proj y1 H) as (d & s' & r & Hp & He & Hr).
    assert (Hs' : In s' proj) by (rewrite Hp; apply in_or_app; right; left; reflexivity).
    rewrite (sid_unique proj s' s Hid Hs' Hs He) in *. exists d, r. auto.
  Qed.

  Lemma resync_out proj y w p : In p (outs proj) -> fs (resync proj y w) p = fs y p.
  Proof. intros H. cbn. assert (E : is_output proj p = true) by (apply memN_In; exact H). rewrite E. reflexivity. Qed.

  Lemma stt_cases (y : sys) id : stt y id = Pending \/ stt y id = Succeeded.
  Proof. destruct (stt y id); auto. Qed.

  Theorem exec_cone_restart : C04_exec_cone_restart run.
  Proof.
    intros proj y w s Hwf HPre Hs Hran. apply wf_WF in Hwf.
    destruct (stt_cases y (sid s)) as [Hst|Hst]; [left; exact Hst|].
    destruct (ran_decomp proj _ s Hwf Hs Hran) as (d & r & Hp & Hr).
    unfold build_world. apply (exec_core proj y _ s d r Hwf Hp Hr); [reflexivity| |exact Hst|].
    - destruct HPre as (_ & HK & _). apply HK. exact Hs.
    - intros p Hpo. apply resync_out. exact Hpo.
  Qed.

  Lemma edits_frame proj es : forall y,
    (forall id, tr (fold_left (apply_edit proj) es y) id = tr y id) /\
    (forall p, In p (outs proj) -> fs (fold_left (apply_edit proj) es y) p = fs y p).
  Proof.
    induction es as [|e es IH]; intros y; [cbn; auto|]. cbn [fold_left].
    destruct (IH (apply_edit proj y e)) as [H1 H2]. split.
    - intros id. rewrite H1. destruct e as [p c|n v]; cbn; [destruct (is_output proj p)|]; reflexivity.
    - intros p Hp. rewrite (H2 p Hp). destruct e as [p' c|n v]; cbn; [|reflexivity].
      destruct (is_output proj p') eqn:E; [reflexivity|]. cbn. apply upd_other. intros ->.
      apply memN_In in Hp. unfold is_output in E. congruence.
  Qed.

  Theorem exec_cone_watch : C04_exec_cone_watch run.
  Proof.
    intros proj y es s Hwf HPre Hs Hran. apply wf_WF in Hwf.
    destruct (stt_cases y (sid s)) as [Hst|Hst]; [left; exact Hst|].
    destruct (ran_decomp proj _ s Hwf Hs Hran) as (d & r & Hp & Hr).
    destruct (edits_frame proj es y) as [E1 E2].
    unfold phase. apply (exec_core proj y _ s d r Hwf Hp Hr); [apply E1| |exact Hst|exact E2].
    destruct HPre as (_ & HK & _). apply HK. exact Hs.
  Qed.

  Theorem exec_cone_replan : C04_exec_cone_replan run.
  Proof.
    intros P P' y w s Hwf HPre Hs Hran. apply wf_WF in Hwf. pose proof Hwf as (Hid' & _ & _).
    destruct (kept P P' (sid s)) eqn:Ek; [right|left; reflexivity].
    destruct (stt_cases y (sid s)) as [Hst|Hst]; [left; exact Hst|].
    destruct (ran_decomp P' _ s Hwf Hs Hran) as (d & r & Hp & Hr).
    unfold rebuild_dyn. apply (exec_core P' y _ s d r Hwf Hp Hr); [| |exact Hst|].
    - cbn. rewrite Ek. reflexivity.
    - destruct HPre as (_ & HK & _). apply HK. apply (kept_in_old P P' s Hid' Hs Ek).
    - intros p Hpo. rewrite resync_out by exact Hpo. reflexivity.
  Qed.

  Theorem exec_cone_histories : C04_exec_cone_histories run.
  Proof.
    intros hist P' w s Hh Hwf Hs P y Hran. apply exec_cone_replan; auto.
    unfold P, y, run_dyn. apply (run_dyn_inv run hist ([], empty_sys) Hh). apply empty_Pre.
  Qed.

  Theorem absorbed_cone_stops : C04_absorbed_cone_stops run.
  Proof.
    intros P P' y w s Hwf HPre Hs Ek Hst Hsrc Henv Hbuilt Hran.
    destruct (exec_cone_replan P P' y w s Hwf HPre Hs Hran) as [H|[H|[H|[H|H]]]].
    - congruence.
    - congruence.
    - destruct H as (p & Hp & Ho & Hne). apply Hne. cbn. rewrite Ho. apply Hsrc; assumption.
    - destruct H as (n & Hn & Hne). apply Hne. cbn. apply Henv. exact Hn.
    - destruct H as (p & q & Hp & Hq & Hpo & _ & _ & Hne). apply Hne. apply Hbuilt; [exact Hp|].
      apply memN_In. apply in_outs. eauto.
  Qed.
  (* ---------------------------------------------------------------------------------------- *)
  (* All schedules                                                                            *)
  (* ---------------------------------------------------------------------------------------- *)
  Lemma stt_mono_step proj q y id : stt y id = Succeeded -> stt (step_build proj q y) id = Succeeded.
  Proof.
    intros H. unfold Engine.step_build.
    destruct (is_succ (stt y (sid q))); [exact H|].
    destruct (negb (ready proj y q)); [exact H|].
    destruct (can_skip q y); cbn; unfold upd; destruct (id =? sid q); auto.
  Qed.

  Lemma stt_mono_from proj id : forall todo y,
    stt y id = Succeeded -> stt (build_from proj todo y) id = Succeeded.
  Proof.
    induction todo as [|q r IH]; intros y H; [exact H|]. rewrite build_from_cons. apply IH.
    apply stt_mono_step. exact H.
  Qed.

  Lemma step_build_noop_succ proj q y : stt y (sid q) = Succeeded -> step_build proj q y = y.
  Proof. intros H. unfold Engine.step_build. rewrite H. reflexivity. Qed.

  Lemma runs_at_succ proj q y : runs_at proj q y -> stt (step_build proj q y) (sid q) = Succeeded.
  Proof.
    intros (H1 & H2 & H3). unfold Engine.step_build. rewrite H1, H2, H3. cbn. apply upd_same.
  Qed.

  (* a step that is still PENDING after a part of the build has its trace untouched *)
  Lemma pending_untouched proj y1 : forall d id,
    stt (build_from proj d y1) id = Pending -> tr (build_from proj d y1) id = tr y1 id.
  Proof.
    induction d as [|q d IH] using rev_ind; intros id H; [reflexivity|].
    rewrite build_from_app in *.
    change (build_from proj [q] (build_from proj d y1)) with (step_build proj q (build_from proj d y1)) in *.
    set (y' := build_from proj d y1) in *.
    destruct (step_build_frame run proj q y') as (_ & _ & F3 & F4).
    destruct (N.eq_dec id (sid q)) as [->|Hne].
    - revert H. unfold Engine.step_build.
      destruct (is_succ (stt y' (sid q))); [intros H; apply IH; exact H|].
      destruct (negb (ready proj y' q)); [intros H; apply IH; exact H|].
      destruct (can_skip q y'); cbn; rewrite upd_same; discriminate.
    - rewrite (F4 id Hne). apply IH. rewrite <- (F3 id Hne). exact H.
  Qed.

  Lemma ran_succ proj y1 id : forall d,
    In (id, true) (build_log proj d y1) -> stt (build_from proj d y1) id = Succeeded.
  Proof.
    intros d H. destruct (in_log_true proj id d y1 H) as (d1 & q & r1 & Hd & Hid & Hr). subst d id.
    rewrite build_from_app, build_from_cons. apply stt_mono_from. apply runs_at_succ. exact Hr.
  Qed.

  (* a file all of whose (possible) producers in the rest of the schedule are SUCCEEDED stays *)
  Lemma fs_stable_succ proj p : forall todo y,
    (forall q, In q todo -> In p (out q) -> stt y (sid q) = Succeeded) ->
    fs (build_from proj todo y) p = fs y p.
  Proof.
    induction todo as [|q r IH]; intros y H; [reflexivity|]. rewrite build_from_cons.
    destruct (in_dec N.eq_dec p (out q)) as [Hi|Hn].
    - rewrite (step_build_noop_succ proj q y (H q (or_introl eq_refl) Hi)).
      apply IH. intros q' Hq'. apply H. right. exact Hq'.
    - rewrite IH.
      + destruct (oN_dec (fs (step_build proj q y) p) (fs y p)) as [He|Hne]; [exact He|].
        apply step_build_fs_changed in Hne. exfalso. apply Hn. apply Hne.
      + intros q' Hq' Hp'. apply stt_mono_step. apply H; [right; exact Hq'|exact Hp'].
  Qed.

  Lemma exec_core_s proj sched y y1 (s : step) d r :
    NoDup (map sid proj) -> NoDup (outs proj) -> (forall q, In q sched -> In q proj) ->
    sched = d ++ s :: r ->
    runs_at proj s (build_from proj d y1) ->
    tr y1 (sid s) = tr y (sid s) ->
    K_step y s -> stt y (sid s) = Succeeded ->
    (forall p, In p (outs proj) -> fs y1 p = fs y p) ->
    exec_cause_s run proj sched y y1 (build_from proj sched y1) s.
  Proof.
    intros Hid Hnd Hsub Hp (R1 & R2 & R3) Htr HK Hst Hout.
    destruct (HK Hst) as (t & Ht & Hi & He & Ho).
    destruct (prefix_inv proj y1 d) as (_ & I2 & I3).
    set (y' := build_from proj d y1) in *.
    assert (Hs : In s proj) by (apply Hsub; rewrite Hp; apply in_or_app; right; left; reflexivity).
    assert (Hd : forall q, In q d -> In q proj) by (intros q Hq; apply Hsub; rewrite Hp; apply in_or_app; left; exact Hq).
    assert (Hpend : stt y' (sid s) = Pending) by (destruct (stt y' (sid s)); [reflexivity|discriminate]).
    pose proof (pending_untouched proj y1 d (sid s) Hpend) as Htr'. fold y' in Htr'.
    assert (Hransucc : forall q, In (sid q, true) (build_log proj d y1) -> stt y' (sid q) = Succeeded).
    { intros q H. apply ran_succ. exact H. }
    assert (Hlog : forall id, In (id, true) (build_log proj d y1) -> ran_s run proj sched y1 id).
    { intros id H. unfold ran_s. rewrite Hp. rewrite build_log_app. apply in_or_app. left. exact H. }
    unfold can_skip in R3. rewrite Htr', Htr, Ht, Hi, He, Ho in R3.
    apply andb_false_iff in R3. destruct R3 as [R3|R3]; [apply andb_false_iff in R3; destruct R3 as [R3|R3]|].
    - apply ingr_neq in R3. destruct R3 as (k & Hk & Hne).
      destruct (oN_dec (fs y1 k) (fs y k)) as [Heq|Hne1].
      + right. right. right.
        assert (Hne2 : fs y' k <> fs y1 k) by congruence.
        destruct (I3 k Hne2) as (q & Hq & Hko & Hql).
        pose proof (Hransucc q Hql) as Hqs.
        exists k, q. split; [exact Hk|]. split; [apply Hd; exact Hq|]. split; [exact Hko|].
        split; [intros E; rewrite E in Hqs; congruence|]. split; [apply Hlog; exact Hql|].
        assert (Hfin : fs (build_from proj sched y1) k = fs y' k).
        { rewrite Hp, build_from_app. apply fs_stable_succ. intros q' Hq' Hk'.
          assert (Hq'p : In q' proj) by (apply Hsub; rewrite Hp; apply in_or_app; right; exact Hq').
          rewrite (out_unique proj q' q k Hnd Hq'p (Hd q Hq) Hk' Hko). exact Hqs. }
        rewrite Hfin. congruence.
      + right. left. exists k. split; [exact Hk|]. split; [|exact Hne1].
        destruct (is_output proj k) eqn:E; [|reflexivity].
        exfalso. apply Hne1. apply Hout. apply memN_In. exact E.
    - apply ingr_neq in R3. destruct R3 as (n & Hn & Hne). right. right. left.
      exists n. split; [exact Hn|]. rewrite <- (I2 n). congruence.
    - apply ingr_neq in R3. destruct R3 as (k & Hk & Hne). exfalso.
      assert (Hko : In k (outs proj)) by (apply in_outs; eauto).
      assert (Hne2 : fs y' k <> fs y1 k) by (rewrite (Hout k Hko); congruence).
      destruct (I3 k Hne2) as (q & Hq & Hkq & Hql).
      pose proof (Hransucc q Hql) as Hqs.
      rewrite (out_unique proj q s k Hnd (Hd q Hq) Hs Hkq Hk) in Hqs. congruence.
  Qed.

  Theorem exec_cone_schedules : C04_exec_cone_schedules run.
  Proof.
    intros P P' sched y w s Hwf HPre Hs Hsub y1 Hran. apply wf_WF in Hwf. pose proof Hwf as (Hid' & Hnd' & _).
    destruct (kept P P' (sid s)) eqn:Ek; [right|left; reflexivity].
    destruct (stt_cases y (sid s)) as [Hst|Hst]; [left; exact Hst|].
    destruct (in_log_true P' (sid s) sched y1 Hran) as (d & s' & r & Hp & He & Hr).
    assert (Hs' : In s' P') by (apply Hsub; rewrite Hp; apply in_or_app; right; left; reflexivity).
    rewrite (sid_unique P' s' s Hid' Hs' Hs He) in *.
    apply (exec_core_s P' sched y y1 s d r Hid' Hnd' Hsub Hp Hr); [| |exact Hst|].
    - unfold y1. cbn. rewrite Ek. reflexivity.
    - destruct HPre as (_ & HK & _). apply HK. apply (kept_in_old P P' s Hid' Hs Ek).
    - intros p Hpo. unfold y1. rewrite resync_out by exact Hpo. reflexivity.
  Qed.
  (* ---------------------------------------------------------------------------------------- *)
  (* Optional steps                                                                           *)
  (* ---------------------------------------------------------------------------------------- *)
  Lemma build_opt_filter mand proj : forall todo y,
    fold_left (fun y s => step_build_opt run mand proj s y) todo y =
    build_from proj (filter (is_required mand proj) todo) y.
  Proof.
    induction todo as [|s r IH]; intros y; [reflexivity|]. cbn [fold_left filter]. unfold step_build_opt at 2.
    destruct (is_required mand proj s); [rewrite build_from_cons|]; apply IH.
  Qed.

  Lemma required_ids_sub mand : forall proj id, In id (required_ids mand proj) -> exists s, In s proj /\ sid s = id.
  Proof.
    induction proj as [|s rest IH]; intros id H; [contradiction|]. cbn [required_ids] in H.
    destruct (mand (sid s) || existsb (fun c => memN (sid c) (required_ids mand rest) && consumes_output_of c s) rest).
    - destruct H as [<-|H]; [exists s; split; [left|]; reflexivity|].
      destruct (IH id H) as (x & Hx & Hid). exists x. split; [right; exact Hx|exact Hid].
    - destruct (IH id H) as (x & Hx & Hid). exists x. split; [right; exact Hx|exact Hid].
  Qed.

  (* with unique ids: a required step is mandatory, or a required step of the plan consumes one of its outputs *)
  Lemma required_spec mand : forall proj s,
    NoDup (map sid proj) -> In s proj -> memN (sid s) (required_ids mand proj) = true ->
    mand (sid s) = true \/
    exists c, In c proj /\ memN (sid c) (required_ids mand proj) = true /\ consumes_output_of c s = true.
  Proof.
    induction proj as [|x rest IH]; intros s Hnd Hs H; [contradiction|].
    cbn [map] in Hnd. inversion Hnd as [|? ? Hnin Hnd']; subst.
    cbn [required_ids] in *.
    destruct (mand (sid x) || existsb (fun c => memN (sid c) (required_ids mand rest) && consumes_output_of c x) rest) eqn:E.
    - destruct Hs as [->|Hs].
      + apply orb_true_iff in E. destruct E as [E|E]; [left; exact E|right].
        apply existsb_exists in E. destruct E as (c & Hc & Hcc). apply andb_true_iff in Hcc. destruct Hcc as [H1 H2].
        exists c. split; [right; exact Hc|]. split; [|exact H2]. unfold memN in H1 |- *. cbn [existsb]. rewrite H1. apply orb_true_r.
      + assert (Hne : sid s <> sid x) by (intros He; apply Hnin; rewrite <- He; apply in_map; exact Hs).
        unfold memN in H. cbn [existsb] in H. apply orb_true_iff in H. destruct H as [H|H]; [apply N.eqb_eq in H; congruence|].
        change (existsb (N.eqb (sid s)) (required_ids mand rest)) with (memN (sid s) (required_ids mand rest)) in H.
        destruct (IH s Hnd' Hs H) as [Hm|(c & Hc & H1 & H2)]; [left; exact Hm|right].
        exists c. split; [right; exact Hc|]. split; [|exact H2]. unfold memN in H1 |- *. cbn [existsb]. rewrite H1. apply orb_true_r.
    - destruct Hs as [->|Hs].
      + exfalso. apply memN_In in H. destruct (required_ids_sub mand rest _ H) as (z & Hz & Hid).
        apply Hnin. rewrite <- Hid. apply in_map. exact Hz.
      + destruct (IH s Hnd' Hs H) as [Hm|(c & Hc & H1 & H2)]; [left; exact Hm|right].
        exists c. split; [right; exact Hc|]. split; [exact H1|exact H2].
  Qed.

  Theorem exec_cone_optional : C04_exec_cone_optional run.
  Proof.
    intros mand P P' y w s Hwf HPre Hs y1.
    assert (Hb : build_opt run mand P' y1 = build_from P' (filter (is_required mand P') P') y1)
      by (unfold build_opt; apply build_opt_filter).
    split; [exact Hb|]. intros Hran. pose proof (wf_WF _ Hwf) as (Hid & _ & _).
    assert (Hsub : forall q, In q (filter (is_required mand P') P') -> In q P') by (intros q Hq; apply filter_In in Hq; tauto).
    split.
    - unfold ran_opt, ran_s in Hran.
      destruct (in_log_true P' (sid s) _ y1 Hran) as (d & s' & r & Hp & He & _).
      assert (Hin : In s' (filter (is_required mand P') P')) by (rewrite Hp; apply in_or_app; right; left; reflexivity).
      apply filter_In in Hin. destruct Hin as [Hs' Hreq].
      rewrite (sid_unique P' s' s Hid Hs' Hs He) in Hreq.
      destruct (required_spec mand P' s Hid Hs Hreq) as [Hm|(c & Hc & H1 & H2)]; [left; exact Hm|right].
      exists c. auto.
    - rewrite Hb. exact (exec_cone_schedules P P' _ y w s Hwf HPre Hs Hsub Hran).
  Qed.
End ExecConeProofs.

(* ------------------------------------------------------------------------------------------ *)
(* Amended inputs, deferral, failing steps (the gated engine, as the code)                      *)
(* ------------------------------------------------------------------------------------------ *)
Lemma all_avail_false proj b ps :
  all_avail proj b ps = false -> exists p, In p ps /\ avail proj b p = None.
Proof.
  induction ps as [|a ps IH]; cbn; [discriminate|].
  destruct (avail proj b a) eqn:E; cbn.
  - intros H. destruct (IH H) as (p & Hp & Hn). exists p. auto.
  - intros _. exists a. auto.
Qed.

Section ExecConeAmendProofs.
  Variable run : N -> list (option N) -> list (option N) -> N -> N.
  Variable amend : N -> list (option N) -> list N.
  Variable fails : N -> list (option N) -> list (option N) -> bool.
  Notation a_step := (a_step_build run amend fails true).
  Notation a_from := (a_build_from run amend fails).
  Notation a_log := (a_build_log run amend fails true).
  Notation dec := (decide amend fails true).

  Lemma a_from_app proj a b y : a_from proj (a ++ b) y = a_from proj b (a_from proj a y).
  Proof. unfold a_build_from. apply fold_left_app. Qed.
  Lemma a_from_cons proj s r y : a_from proj (s :: r) y = a_from proj r (a_step proj s y).
  Proof. reflexivity. Qed.

  Definition executes_at (proj : project) (s : step) (y : asys) : Prop :=
    match dec proj s y with DRun | DDefer | DFail => True | _ => False end.

  Lemma a_log_head proj s r y :
    a_log proj (s :: r) y =
    match dec proj s y with DNone => [] | DSkip => [(sid s, false)] | _ => [(sid s, true)] end
      ++ a_log proj r (a_step proj s y).
  Proof. cbn [Engine.a_build_log]. destruct (dec proj s y); reflexivity. Qed.

  Lemma a_log_app proj a : forall b y, a_log proj (a ++ b) y = a_log proj a y ++ a_log proj b (a_from proj a y).
  Proof.
    induction a as [|s a IH]; intros b y; [reflexivity|].
    rewrite <- app_comm_cons. rewrite !a_log_head, a_from_cons, IH, app_assoc. reflexivity.
  Qed.

  Lemma in_a_log_true proj id : forall todo y,
    In (id, true) (a_log proj todo y) ->
    exists d s r, todo = d ++ s :: r /\ sid s = id /\ executes_at proj s (a_from proj d y).
  Proof.
    induction todo as [|s r IH]; intros y H; [contradiction|].
    rewrite a_log_head in H. apply in_app_or in H. destruct H as [H|H].
    - exists [], s, r. unfold executes_at. cbn [a_build_from fold_left app].
      destruct (dec proj s y); cbn in H; try contradiction;
        destruct H as [H|[]]; inversion H; subst; repeat split; auto.
    - destruct (IH _ H) as (d & s' & r' & Ht & Hid & Hr).
      exists (s :: d), s', r'. split; [rewrite Ht; reflexivity|]. split; [exact Hid|].
      rewrite a_from_cons. exact Hr.
  Qed.

  Lemma executes_in_a_log proj d s r y :
    executes_at proj s (a_from proj d y) -> In (sid s, true) (a_log proj (d ++ s :: r) y).
  Proof.
    unfold executes_at. intros H. rewrite a_log_app. apply in_or_app. right. rewrite a_log_head.
    destruct (dec proj s (a_from proj d y)); try contradiction; left; reflexivity.
  Qed.

  (* one dispatch decision: a file changes only as an output of a step whose command ran; traces,
     states and remembered amended inputs of the other steps and the environment stay *)
  Lemma a_step_frame proj s y :
    (forall p, fs (abase (a_step proj s y)) p <> fs (abase y) p -> In p (out s) /\ executes_at proj s y) /\
    (forall n, ev (abase (a_step proj s y)) n = ev (abase y) n) /\
    (forall id, id <> sid s ->
                tr (abase (a_step proj s y)) id = tr (abase y) id /\
                stt (abase (a_step proj s y)) id = stt (abase y) id /\
                adyn (a_step proj s y) id = adyn y id).
  Proof.
    unfold executes_at, Engine.a_step_build. destruct (dec proj s y) eqn:D; cbn.
    - split; [congruence|]. split; auto.
    - split; [congruence|]. split; [auto|]. intros id Hid. rewrite upd_other by exact Hid. auto.
    - split; [|split; [auto|]].
      + intros p Hp. split; [|exact I]. destruct (in_dec N.eq_dec p (out s)) as [Hi|Hn]; [exact Hi|].
        exfalso. apply Hp. apply (fs_do_run_other run (eff amend (abase y) s) (abase y) p). exact Hn.
      + intros id Hid. rewrite !upd_other by exact Hid. auto.
    - split; [congruence|]. split; [auto|]. intros id Hid. rewrite !upd_other by exact Hid. auto.
    - split; [congruence|]. split; [auto|]. intros id Hid. rewrite !upd_other by exact Hid. auto.
  Qed.

  Lemma a_from_fs_other proj p : forall todo y,
    (forall q, In q todo -> ~ In p (out q)) -> fs (abase (a_from proj todo y)) p = fs (abase y) p.
  Proof.
    induction todo as [|s r IH]; intros y H; [reflexivity|].
    rewrite a_from_cons, IH; [|intros q Hq; apply H; right; exact Hq].
    destruct (oN_dec (fs (abase (a_step proj s y)) p) (fs (abase y) p)) as [He|Hne]; [exact He|].
    apply (proj1 (a_step_frame proj s y)) in Hne. exfalso. apply (H s); [left; reflexivity|apply Hne].
  Qed.

  Lemma a_prefix_inv proj y1 : forall d,
    (forall id, (forall q, In q d -> sid q <> id) ->
                tr (abase (a_from proj d y1)) id = tr (abase y1) id /\
                stt (abase (a_from proj d y1)) id = stt (abase y1) id /\
                adyn (a_from proj d y1) id = adyn y1 id) /\
    (forall n, ev (abase (a_from proj d y1)) n = ev (abase y1) n) /\
    (forall p, fs (abase (a_from proj d y1)) p <> fs (abase y1) p ->
               exists q, In q d /\ In p (out q) /\ In (sid q, true) (a_log proj d y1)).
  Proof.
    induction d as [|s d IH] using rev_ind.
    - cbn. split; [auto|]. split; [auto|]. intros p H. congruence.
    - destruct IH as (I1 & I2 & I3). rewrite a_from_app.
      change (a_from proj [s] (a_from proj d y1)) with (a_step proj s (a_from proj d y1)).
      set (y' := a_from proj d y1) in *.
      destruct (a_step_frame proj s y') as (F1 & F2 & F3).
      split; [|split].
      + intros id Hid. assert (Hne : id <> sid s).
        { intros ->. apply (Hid s); [apply in_or_app; right; left; reflexivity|reflexivity]. }
        destruct (F3 id Hne) as (E1 & E2 & E3). rewrite E1, E2, E3. apply I1.
        intros q Hq. apply Hid. apply in_or_app. left. exact Hq.
      + intros n. rewrite F2. apply I2.
      + intros p Hp. destruct (oN_dec (fs (abase (a_step proj s y')) p) (fs (abase y') p)) as [He|Hne].
        * rewrite He in Hp. destruct (I3 p Hp) as (q & Hq & Hpo & Hlog). exists q.
          split; [apply in_or_app; left; exact Hq|]. split; [exact Hpo|].
          rewrite a_log_app. apply in_or_app. left. exact Hlog.
        * apply F1 in Hne. destruct Hne as [Hpo Hr]. exists s.
          split; [apply in_or_app; right; left; reflexivity|]. split; [exact Hpo|].
          apply executes_in_a_log. exact Hr.
  Qed.

  (* a step whose command is executed did not pass the check *)
  Lemma executes_at_inv proj s y :
    executes_at proj s y ->
    all_avail proj (abase y) (adyn y (sid s)) && can_skip (remb y s) (abase y) = false.
  Proof.
    unfold executes_at, Engine.decide.
    destruct (is_succ (stt (abase y) (sid s))); [contradiction|].
    destruct (negb (ready proj (abase y) s) || dyn_blocked true proj y s); [contradiction|].
    destruct (all_avail proj (abase y) (adyn y (sid s)) && can_skip (remb y s) (abase y)); [contradiction|].
    reflexivity.
  Qed.

  Theorem exec_cone_amend : C04_exec_cone_amend run amend fails.
  Proof.
    intros proj y w s Hid Hnd Hs HK Hran.
    destruct (stt_cases (abase y) (sid s)) as [Hst|Hst]; [left; exact Hst|].
    set (y1 := resync_a proj y w) in *.
    destruct (in_a_log_true proj (sid s) proj y1 Hran) as (d & s' & r & Hp & He & Hr).
    assert (Hs' : In s' proj) by (rewrite Hp; apply in_or_app; right; left; reflexivity).
    rewrite (sid_unique proj s' s Hid Hs' Hs He) in *. clear s' Hs' He.
    destruct (a_prefix_inv proj y1 d) as (I1 & I2 & I3).
    set (y' := a_from proj d y1) in *.
    assert (Hfresh : forall q, In q d -> sid q <> sid s).
    { intros q Hq. apply (sid_before d r s q); [rewrite <- Hp; exact Hid|exact Hq]. }
    destruct (I1 (sid s) Hfresh) as (Htr' & _ & Hdyn').
    assert (Hdyn : adyn y' (sid s) = adyn y (sid s)) by (rewrite Hdyn'; reflexivity).
    assert (Htr : tr (abase y') (sid s) = tr (abase y) (sid s)) by (rewrite Htr'; reflexivity).
    assert (Hout : forall p, In p (outs proj) -> fs (abase y1) p = fs (abase y) p).
    { intros p Hpo. cbn. assert (E : is_output proj p = true) by (apply memN_In; exact Hpo). rewrite E. reflexivity. }
    assert (Hlater : forall p q, In q d -> In p (out q) ->
                                 fs (abase (build_world_a run amend fails true proj w y)) p = fs (abase y') p).
    { intros p q Hq Hpo. unfold build_world_a, Engine.a_build. fold y1.
      change (fold_left (fun y0 s0 => a_step proj s0 y0) proj y1) with (a_from proj proj y1).
      rewrite Hp at 2. rewrite a_from_app. apply a_from_fs_other. intros q' Hq' Hpo'.
      rewrite Hp, outs_app in Hnd. apply (NoDup_app_disjoint _ _ p Hnd); apply in_outs; eauto. }
    assert (Hlog : forall id, In (id, true) (a_log proj d y1) -> a_ran run amend fails proj y1 id).
    { intros id H. unfold a_ran. rewrite Hp at 2. rewrite a_log_app. apply in_or_app. left. exact H. }
    pose proof (executes_at_inv proj s y' Hr) as R.
    apply andb_false_iff in R. destruct R as [R|R].
    - (* a remembered amended input is not available *)
      apply all_avail_false in R. destruct R as (p & Hpi & Hn). rewrite Hdyn in Hpi.
      right. right. right. right. exists p, d, r. auto.
    - destruct (HK s Hs Hst) as (t & Ht & Hi & Hev & Ho). cbn [remb sid inp envn out] in Ht, Hi, Hev, Ho.
      unfold can_skip in R. cbn [remb sid inp envn out] in R. rewrite Htr, Ht, Hi, Hev, Ho, Hdyn in R.
      apply andb_false_iff in R. destruct R as [R|R]; [apply andb_false_iff in R; destruct R as [R|R]|].
      + apply ingr_neq in R. destruct R as (k & Hk & Hne).
        destruct (oN_dec (fs (abase y1) k) (fs (abase y) k)) as [Heq|Hne1].
        * right. right. right. left.
          assert (Hne2 : fs (abase y') k <> fs (abase y1) k) by congruence.
          destruct (I3 k Hne2) as (q & Hq & Hko & Hql).
          exists k, q. split; [exact Hk|]. split; [rewrite Hp; apply in_or_app; left; exact Hq|].
          split; [exact Hko|]. split; [apply Hfresh; exact Hq|]. split; [apply Hlog; exact Hql|].
          rewrite (Hlater k q Hq Hko). congruence.
        * right. left. exists k. split; [exact Hk|]. split; [|exact Hne1].
          destruct (is_output proj k) eqn:E; [|reflexivity].
          exfalso. apply Hne1. apply Hout. apply memN_In. exact E.
      + apply ingr_neq in R. destruct R as (n & Hn & Hne). right. right. left.
        exists n. split; [exact Hn|]. rewrite <- (I2 n). congruence.
      + apply ingr_neq in R. destruct R as (k & Hk & Hne). exfalso.
        assert (Hko : In k (outs proj)) by (apply in_outs; eauto).
        assert (Hne2 : fs (abase y') k <> fs (abase y1) k) by (rewrite (Hout k Hko); congruence).
        destruct (I3 k Hne2) as (q & Hq & Hkq & _).
        rewrite Hp, outs_app in Hnd.
        apply (NoDup_app_disjoint _ _ k Hnd); apply in_outs; [exists q; auto|exists s; split; [left; reflexivity|exact Hk]].
  Qed.
End ExecConeAmendProofs.

(* ------------------------------------------------------------------------------------------ *)
(* K_a for ALL histories of the gated engine                                                    *)
(* ------------------------------------------------------------------------------------------ *)
(* One dispatch decision of the gated engine (the code) is either nothing (the step is blocked by
   its deferred flag or by a remembered amended input that is not built) or the decision of the
   ungated engine.  C01 proves that the ungated decision keeps the invariant InvA of the states
   between builds (proofs/EngineAmendFull.v, a_step_ok); hence every build of the gated engine
   keeps it too, and its clause ia_K is the hypothesis K_a of exec_cone_amend. *)
From SV Require proofs.EngineAmendProofs proofs.EngineAmendFull.

Section ExecConeAmendFull.
  Variable run : N -> list (option N) -> list (option N) -> N -> N.
  Variable amend : N -> list (option N) -> list N.
  Variable fails : N -> list (option N) -> list (option N) -> bool.
  Notation InvA := (EngineAmendFull.InvA run amend fails).

  Lemma gated_step_cases proj s y :
    a_step_build run amend fails true proj s y = y \/
    a_step_build run amend fails true proj s y = a_step_build run amend fails false proj s y.
  Proof.
    unfold Engine.a_step_build, Engine.decide, Engine.dyn_blocked.
    destruct (is_succ (stt (abase y) (sid s))); [left; reflexivity|].
    destruct (negb (ready proj (abase y) s)); cbn [orb andb]; [left; reflexivity|].
    destruct (adef y (sid s) || existsb (unbuilt_output proj (abase y)) (adyn y (sid s)));
      [left; reflexivity|right; reflexivity].
  Qed.

  Lemma gated_build_from_inv proj (Hwfa : wf_a amend proj) : forall todo done y,
    proj = done ++ todo -> InvA proj y -> (forall q, In q todo -> afail y (sid q) = false) ->
    InvA proj (a_build_from run amend fails proj todo y).
  Proof.
    pose proof (EngineAmendProofs.wf_a_WFA amend proj Hwfa) as (Hid & _ & _).
    induction todo as [|s rest IH]; intros done y Hp HI Hfl; [exact HI|].
    unfold a_build_from. cbn [fold_left].
    change (fold_left (fun y0 s0 => a_step_build run amend fails true proj s0 y0) rest
                      (a_step_build run amend fails true proj s y))
      with (a_build_from run amend fails proj rest (a_step_build run amend fails true proj s y)).
    assert (Hp' : proj = (done ++ [s]) ++ rest) by (rewrite <- app_assoc; exact Hp).
    destruct (gated_step_cases proj s y) as [E|E]; rewrite E.
    - apply (IH (done ++ [s]) y Hp' HI). intros q Hq. apply Hfl. right. exact Hq.
    - destruct (EngineAmendFull.a_step_ok run amend fails proj Hwfa done rest s y Hp HI
                                         (Hfl s (or_introl eq_refl))) as [HI1 _].
      apply (IH (done ++ [s]) _ Hp' HI1). intros q Hq.
      rewrite (EngineAmendFull.a_step_afail run amend fails proj s y (sid q)); [apply Hfl; right; exact Hq|].
      apply (EngineAmendFull.sid_after done rest s q); [rewrite <- Hp; exact Hid|exact Hq].
  Qed.

  Lemma gated_world_inv proj (Hwfa : wf_a amend proj) w y :
    InvA proj y -> InvA proj (build_world_a run amend fails true proj w y).
  Proof.
    intros HI. destruct (EngineAmendFull.resync_a_inv run amend fails proj Hwfa y w HI) as (HI1 & _ & _ & Hfl).
    unfold build_world_a, Engine.a_build.
    apply (gated_build_from_inv proj Hwfa proj [] _ eq_refl HI1). intros q _. apply Hfl.
  Qed.

  Lemma gated_worlds_inv proj (Hwfa : wf_a amend proj) ws : forall y,
    InvA proj y -> InvA proj (fold_left (fun y x => build_world_a run amend fails true proj x y) ws y).
  Proof.
    induction ws as [|w ws IH]; intros y HI; [exact HI|]. cbn [fold_left]. apply IH.
    apply gated_world_inv; assumption.
  Qed.

  Theorem exec_cone_amend_full : C04_exec_cone_amend_full run amend fails.
  Proof.
    intros proj ws w s Hwfa Hs y Hran.
    pose proof (EngineAmendProofs.wf_a_WFA amend proj Hwfa) as (Hid & Hnd & _).
    pose proof (gated_worlds_inv proj Hwfa ws empty_asys (EngineAmendFull.empty_InvA run amend fails proj)) as HI.
    apply (exec_cone_amend run amend fails proj y w s Hid Hnd Hs); [|exact Hran].
    intros q Hq. apply (EngineAmendFull.ia_K run amend fails proj y HI q Hq).
  Qed.
End ExecConeAmendFull.
