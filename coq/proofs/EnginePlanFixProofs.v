(* C01: the repaired engine model/EnginePlanFix.v satisfies the full statement: after any history
   of worlds the last build has the result of a build from scratch.
   GInv (between builds and along the pass): recorded traces are valid, K (a SUCCEEDED step has a
   trace that matches the present) for EVERY stored step, attached or not, root-created steps are
   linked, the links of the children of a step with a trace are what its traced run defined.
   PInv done todo (along the pass) adds: a SUCCEEDED consumer with a PENDING producer is a step
   that has not had its turn whose producer has; a trusted step that had its turn is SUCCEEDED
   iff its inputs are available through trusted producers. *)
From Coq Require Import List NArith Bool Lia.
From SV Require Import model.Engine model.EnginePlan model.EnginePlanFix
     proofs.EngineProofs proofs.EnginePlanProofs.
Import ListNotations.
Open Scope N_scope.

(* a SUCCEEDED step whose valid trace matches the present has the outputs of its program *)
Lemma K_outputs run (s : step) (b : sys) (t : trace) :
  trace_valid run s t -> t_inp t = ingredients (fs b) (inp s) ->
  t_env t = ingredients (ev b) (envn s) -> t_out t = ingredients (fs b) (out s) ->
  forall p, In p (out s) ->
            fs b p = Some (run (sid s) (map (fs b) (inp s)) (map (ev b) (envn s)) p).
Proof.
  intros (_ & _ & Hv) Hi He Ho p Hp.
  assert (Hin : In (p, fs b p) (t_out t)).
  { rewrite Ho. unfold ingredients. apply in_map_iff. exists p. auto. }
  rewrite Hv, Hi, He in Hin. unfold produced in Hin. apply in_map_iff in Hin.
  destruct Hin as (p' & Heq & _). injection Heq as -> Hc. rewrite <- Hc.
  rewrite !map_snd_ingredients. reflexivity.
Qed.

(* pending propagation leaves a producer-closed set of clean SUCCEEDED steps alone *)
Lemma mark_keeps_set (S : N -> bool) (todo : project) (d de : N -> bool) (st : N -> sstate) :
  NoDup (map sid todo) ->
  (forall z, In z todo -> S (sid z) = true ->
             st (sid z) = Succeeded /\ existsb d (inp z) = false /\ existsb de (envn z) = false) ->
  (forall s z p, In s todo -> In z todo -> S (sid z) = true -> In p (inp z) -> In p (out s) ->
                 S (sid s) = true) ->
  forall z, In z todo -> S (sid z) = true -> mark todo d de st (sid z) = Succeeded.
Proof.
  revert d st. induction todo as [|x rest IH]; intros d st Hnd H1 H2 z Hz Sz; [contradiction|].
  pose proof (not_in_tail_ids x rest Hnd) as Hids.
  assert (Hnd' : NoDup (map sid rest)) by (cbn in Hnd; inversion Hnd; assumption).
  cbn [mark].
  destruct (existsb d (inp x) || existsb de (envn x) || negb (is_succ (st (sid x)))) eqn:Ec.
  - assert (Sx : S (sid x) = false).
    { destruct (S (sid x)) eqn:E; [|reflexivity]. exfalso.
      destruct (H1 x (or_introl eq_refl) E) as (Ha & Hb & Hc). rewrite Ha, Hb, Hc in Ec. discriminate. }
    destruct Hz as [->|Hz]; [congruence|].
    apply IH; auto.
    + intros q Hq Sq. destruct (H1 q (or_intror Hq) Sq) as (Ha & Hb & Hc).
      rewrite upd_other by (apply Hids; exact Hq). split; [exact Ha|]. split; [|exact Hc].
      apply not_true_is_false. intros Ht. apply existsb_exists in Ht. destruct Ht as (p & Hp & Hd).
      apply orb_true_iff in Hd. destruct Hd as [Hd|Hd].
      * pose proof (existsb_false_all _ _ Hb p Hp). congruence.
      * apply memN_In in Hd.
        pose proof (H2 x q p (or_introl eq_refl) (or_intror Hq) Sq Hp Hd). congruence.
    + intros s q p Hs Hq. apply H2; right; assumption.
  - destruct Hz as [<-|Hz].
    + rewrite mark_elsewhere; [|exact Hids]. apply (H1 x (or_introl eq_refl) Sz).
    + apply IH; auto.
      * intros q Hq. apply H1. right. exact Hq.
      * intros s q p Hs Hq. apply H2; right; assumption.
Qed.

Section Fix.
  Variable run : N -> list (option N) -> list (option N) -> N -> N.
  Variable plan : N -> list (option N) -> list (option N) -> list N.
  Variable U : universe.
  Hypothesis HW : WFU U.
  Hypothesis HS : ustat_later U.

  Notation defines := (EnginePlan.defines plan).
  Notation trace_valid := (trace_valid run).

  Record GInv (y : psys) : Prop := mkG {
    g_tv : forall u t, In u U -> tr (pbase y) (uid u) = Some t -> trace_valid (ust u) t;
    g_K : forall u, In u U -> K_step (pbase y) (ust u);
    g_root : forall u, In u U -> ucr u = 0 -> plk y (uid u) = true;
    g_lk : forall c u t, In c U -> In u U -> uid c = ucr u -> tr (pbase y) (uid c) = Some t ->
             plk y (uid u) = memN (uid u) (plan (uid c) (map snd (t_inp t)) (map snd (t_env t))) }.

  Record PInv (w : world) (done todo : universe) (y : psys) : Prop := mkPI {
    p_g : GInv y;
    p_w : has_world U w y;
    p_cl : forall z s p, In z U -> In s U -> In p (inp (ust z)) -> In p (out (ust s)) ->
             stt (pbase y) (uid z) = Succeeded -> stt (pbase y) (uid s) = Pending ->
             In s done /\ In z todo;
    p_loc : forall v, In v done -> trusted U y (uid v) = true ->
              if ready_t U y (ust v) then stt (pbase y) (uid v) = Succeeded
              else stt (pbase y) (uid v) = Pending }.

  (* trusted and readiness of a step that had its turn only look at what came before it *)
  Lemma state_frame (done rest : universe) (v : ustep) (y y' : psys) :
    U = done ++ rest -> In v done ->
    (forall x p, In x done -> In p (inp (ust x)) -> fs (pbase y') p = fs (pbase y) p) ->
    (forall x, In x done -> stt (pbase y') (uid x) = stt (pbase y) (uid x) /\
                            plk y' (uid x) = plk y (uid x)) ->
    trusted U y' (uid v) = trusted U y (uid v) /\ ready_t U y' (ust v) = ready_t U y (ust v).
  Proof.
    intros E Hv Hfs Hdone.
    assert (Htr : forall x, In x done -> trusted U y' (uid x) = trusted U y (uid x)).
    { intros x Hx. unfold trusted. apply (chain_done_frame U done rest _ _ _ _ x (Hid U HW) E Hx).
      intros z Hz. destruct (Hdone z Hz) as [H1 H2]. rewrite H1, H2. auto. }
    split; [apply Htr; exact Hv|]. apply ready_t_ext. intros p Hp. unfold avail_t.
    destruct (producer (uproj U) p) as [q|] eqn:Eq.
    - destruct (in_split v done Hv) as (d1 & m & Ed).
      assert (Ev : U = d1 ++ v :: (m ++ rest)). { rewrite E, Ed, <- app_assoc. reflexivity. }
      destruct (inp_producer_before U d1 _ v p q HW Ev Hp Eq) as (x & Hx & <- & _).
      assert (Hxd : In x done). { rewrite Ed. apply in_or_app. left. exact Hx. }
      rewrite (Htr x Hxd), (proj1 (Hdone x Hxd)), (Hfs v p Hv Hp). reflexivity.
    - apply (Hfs v p Hv Hp).
  Qed.
  (* ---------------------------------------------------------------------------------------- *)
  (* The startup rescan                                                                       *)
  (* ---------------------------------------------------------------------------------------- *)
  Lemma neg_oN_eqb_false (a b : option N) : negb (oN_eqb a b) = false -> a = b.
  Proof. intros H. apply negb_false_iff in H. apply oN_eqb_eq. exact H. Qed.

  Lemma WFproj : NoDup (map sid (uproj U)) /\ NoDup (outs (uproj U)) /\ topo (uproj U) = true.
  Proof. destruct HW as [H _]. exact H. Qed.

  Lemma resync_pinv (w : world) (y : psys) : GInv y -> PInv w [] U (p_resync U y w).
  Proof.
    intros G. destruct WFproj as (Hids & Hnds & Htopo).
    set (b := pbase y).
    set (f' := fun x => if is_output (uproj U) x then fs b x else fst w x).
    set (d := fun x => negb (oN_eqb (f' x) (fs b x))).
    set (de := fun n => negb (oN_eqb (snd w n) (ev b n))).
    assert (Hb : pbase (p_resync U y w) = mkSys f' (snd w) (tr b) (mark (uproj U) d de (stt b))) by reflexivity.
    constructor.
    - constructor.
      + intros u t Hu Ht. rewrite Hb in Ht. cbn [tr] in Ht. apply (g_tv _ G u t Hu Ht).
      + intros u Hu. rewrite Hb. unfold K_step. cbn [stt tr fs ev]. intros Hs.
        destruct (mark_unmarked (uproj U) d de (stt b) (ust u) Hids (in_map ust U u Hu) Hs) as (H1 & H2 & H3).
        destruct (g_K _ G u Hu H1) as (t & Ht & Hi & He & Ho). exists t. split; [exact Ht|].
        split; [|split].
        * rewrite Hi. apply ingredients_ext. intros k Hk. symmetry. apply neg_oN_eqb_false. apply (H2 k Hk).
        * rewrite He. apply ingredients_ext. intros k Hk. symmetry. apply neg_oN_eqb_false. apply (H3 k Hk).
        * rewrite Ho. apply ingredients_ext. intros k Hk. unfold f'.
          assert (Eo : is_output (uproj U) k = true).
          { apply memN_In. apply in_outs. exists (ust u). split; [apply in_map; exact Hu|exact Hk]. }
          rewrite Eo. reflexivity.
      + intros u Hu Hc. apply (g_root _ G u Hu Hc).
      + intros c u t Hc Hu He Ht. rewrite Hb in Ht. cbn [tr] in Ht. apply (g_lk _ G c u t Hc Hu He Ht).
    - split; [|reflexivity]. intros p Hp. rewrite Hb. cbn [fs]. unfold f'. rewrite Hp. reflexivity.
    - intros z s p Hz Hs Hpi Hpo Sz Ps. exfalso. rewrite Hb in Sz, Ps. cbn [stt] in Sz, Ps.
      pose proof (mark_closed (uproj U) d de (stt b) (ust z) (ust s) p Hids Htopo
                    (in_map ust U z Hz) (in_map ust U s Hs) Hpo Hpi Sz) as H.
      unfold uid in Ps. congruence.
    - intros v [].
  Qed.

  (* ---------------------------------------------------------------------------------------- *)
  (* Frames                                                                                   *)
  (* ---------------------------------------------------------------------------------------- *)
  Lemma split_facts (done todo : universe) (u : ustep) :
    U = done ++ u :: todo ->
    In u U /\ (forall x, In x done -> In x U) /\ (forall x, In x todo -> In x U) /\
    (forall x, In x done -> uid x <> uid u) /\ (forall x, In x todo -> uid x <> uid u) /\
    (forall x, In x done -> ucr x <> uid u) /\ ucr u <> uid u /\
    (forall x, In x U -> ~ In x done -> x <> u -> In x todo).
  Proof.
    intros E. pose proof (Hid U HW) as Hn. rewrite E, map_app in Hn. cbn [map] in Hn.
    assert (H4 : forall x, In x done -> uid x <> uid u).
    { intros x Hx He. apply (NoDup_app_disjoint _ _ (uid x) Hn); [apply in_map; exact Hx|left; symmetry; exact He]. }
    split; [rewrite E; apply in_or_app; right; left; reflexivity|].
    split; [intros x Hx; rewrite E; apply in_or_app; left; exact Hx|].
    split; [intros x Hx; rewrite E; apply in_or_app; right; right; exact Hx|].
    split; [exact H4|]. split.
    { intros x Hx He. apply NoDup_remove_2 in Hn. apply Hn. apply in_or_app. right.
      rewrite <- He. apply in_map. exact Hx. }
    destruct HW as [_ Hcf]. split; [|split].
    - intros x Hx Hc. destruct (in_split x done Hx) as (d1 & m & Ed).
      assert (Ex : U = d1 ++ x :: (m ++ u :: todo)). { rewrite E, Ed, <- app_assoc. reflexivity. }
      destruct (Hcf d1 x _ Ex) as [_ [H0|Hin]].
      + destruct (Hcf done u todo E) as [Hu0 _]. congruence.
      + rewrite Hc in Hin. apply in_map_iff in Hin. destruct Hin as (c & Hc1 & Hc2).
        apply (H4 c); [rewrite Ed; apply in_or_app; left; exact Hc2|exact Hc1].
    - intros Hc. destruct (Hcf done u todo E) as [Hu0 [H0|Hin]]; [congruence|].
      rewrite Hc in Hin. apply in_map_iff in Hin. destruct Hin as (c & Hc1 & Hc2). exact (H4 c Hc2 Hc1).
    - intros x Hx Hnd Hne. rewrite E in Hx. apply in_app_or in Hx.
      destruct Hx as [Hx|[Hx|Hx]]; [contradiction|congruence|exact Hx].
  Qed.

  Lemma trusted_next (done todo : universe) (u : ustep) (y y' : psys) :
    U = done ++ u :: todo ->
    (forall x, In x done -> stt (pbase y') (uid x) = stt (pbase y) (uid x) /\
                            plk y' (uid x) = plk y (uid x)) ->
    plk y' (uid u) = plk y (uid u) ->
    trusted U y' (uid u) = trusted U y (uid u).
  Proof.
    intros E Hdone Hl. unfold trusted.
    rewrite (chain_unfold U (plk y') _ done todo u HW E), (chain_unfold U (plk y) _ done todo u HW E), Hl.
    destruct HW as [_ Hcf]. destruct (Hcf done u todo E) as [_ [H0|Hin]].
    - rewrite H0. reflexivity.
    - apply in_map_iff in Hin. destruct Hin as (c & Hc1 & Hc2). rewrite <- Hc1.
      rewrite (proj1 (Hdone c Hc2)).
      assert (Et : chain_rev (rev U) (plk y') (fun c0 => is_succ (stt (pbase y') c0)) (uid c)
                   = chain_rev (rev U) (plk y) (fun c0 => is_succ (stt (pbase y) c0)) (uid c)).
      { apply (chain_done_frame U done (u :: todo) _ _ _ _ c (Hid U HW) E Hc2).
        intros z Hz. destruct (Hdone z Hz) as [H1 H2]. rewrite H1, H2. auto. }
      rewrite Et. reflexivity.
  Qed.

  Lemma ready_next (done todo : universe) (u : ustep) (y y' : psys) :
    U = done ++ u :: todo ->
    (forall p, In p (inp (ust u)) -> fs (pbase y') p = fs (pbase y) p) ->
    (forall x, In x done -> stt (pbase y') (uid x) = stt (pbase y) (uid x) /\
                            plk y' (uid x) = plk y (uid x)) ->
    ready_t U y' (ust u) = ready_t U y (ust u).
  Proof.
    intros E Hfs Hdone. apply ready_t_ext. intros p Hp. unfold avail_t.
    destruct (producer (uproj U) p) as [q|] eqn:Eq; [|apply Hfs; exact Hp].
    destruct (inp_producer_before U done todo u p q HW E Hp Eq) as (x & Hx & <- & _).
    assert (Et : trusted U y' (uid x) = trusted U y (uid x)).
    { unfold trusted. apply (chain_done_frame U done (u :: todo) _ _ _ _ x (Hid U HW) E Hx).
      intros z Hz. destruct (Hdone z Hz) as [H1 H2]. rewrite H1, H2. auto. }
    rewrite Et, (proj1 (Hdone x Hx)), (Hfs p Hp). reflexivity.
  Qed.

  (* a step whose inputs are available reads only outputs of SUCCEEDED steps *)
  Lemma ready_producers (y : psys) (u s : ustep) (p : N) :
    ready_t U y (ust u) = true -> In s U -> In p (inp (ust u)) -> In p (out (ust s)) ->
    stt (pbase y) (uid s) = Succeeded.
  Proof.
    intros Hr Hs Hp Hps. destruct (ready_t_inputs U y (ust u) p Hr Hp) as [a Ha].
    assert (Eprod : producer (uproj U) p = Some (uid s)).
    { apply (producer_of_out (uproj U) (ust s) p (Hnd U HW)); [apply in_map; exact Hs|exact Hps]. }
    apply (avail_t_prod U y p a (uid s) Ha Eprod).
  Qed.
  (* ---------------------------------------------------------------------------------------- *)
  (* One dispatch decision                                                                    *)
  (* ---------------------------------------------------------------------------------------- *)
  Definition LocS (y : psys) (u : ustep) : Prop :=
    trusted U y (uid u) = true ->
    if ready_t U y (ust u) then stt (pbase y) (uid u) = Succeeded
    else stt (pbase y) (uid u) = Pending.

  Lemma pinv_keep (w : world) (done todo : universe) (u : ustep) (y : psys) :
    U = done ++ u :: todo -> PInv w done (u :: todo) y ->
    (stt (pbase y) (uid u) = Succeeded -> ready_t U y (ust u) = true) -> LocS y u ->
    PInv w (done ++ [u]) todo y.
  Proof.
    intros E I H1 HL. constructor.
    - apply (p_g _ _ _ _ I).
    - apply (p_w _ _ _ _ I).
    - intros z s p Hz Hs Hpi Hpo Sz Ps. destruct (p_cl _ _ _ _ I z s p Hz Hs Hpi Hpo Sz Ps) as [Hsd Hzt].
      split; [apply in_or_app; left; exact Hsd|]. destruct Hzt as [<-|Hzt]; [|exact Hzt].
      exfalso. pose proof (ready_producers y u s p (H1 Sz) Hs Hpi Hpo). congruence.
    - intros v Hv. apply in_app_or in Hv. destruct Hv as [Hv|[<-|[]]]; [apply (p_loc _ _ _ _ I v Hv)|exact HL].
  Qed.

  (* a change of the state of [u] alone *)
  Lemma pinv_state (w : world) (done todo : universe) (u : ustep) (y : psys) (s' : sstate) :
    U = done ++ u :: todo -> PInv w done (u :: todo) y ->
    let y' := mkP (set_stt (pbase y) (upd (stt (pbase y)) (uid u) s')) (plk y) in
    K_step (pbase y') (ust u) ->
    (s' = Succeeded -> ready_t U y (ust u) = true) ->
    (trusted U y (uid u) = true -> if ready_t U y (ust u) then s' = Succeeded else s' = Pending) ->
    PInv w (done ++ [u]) todo y'.
  Proof.
    intros E I y' HK H1 HL.
    destruct (split_facts done todo u E) as (HuU & HdU & HtU & Hnd_ & Hnt & _ & _ & Hrest).
    pose proof (p_g _ _ _ _ I) as G.
    assert (Hst : forall id, stt (pbase y') id = upd (stt (pbase y)) (uid u) s' id) by reflexivity.
    assert (Hdone : forall x, In x done -> stt (pbase y') (uid x) = stt (pbase y) (uid x) /\
                                          plk y' (uid x) = plk y (uid x)).
    { intros x Hx. split; [|reflexivity]. rewrite Hst. apply upd_other. apply Hnd_. exact Hx. }
    constructor.
    - constructor.
      + intros v t Hv Ht. apply (g_tv _ G v t Hv Ht).
      + intros v Hv. destruct (N.eq_dec (uid v) (uid u)) as [He|Hne].
        * rewrite (uid_unique U v u (Hid U HW) Hv HuU He). exact HK.
        * pose proof (g_K _ G v Hv) as Kv. unfold K_step in *. cbn [pbase set_stt stt tr fs ev y'].
          fold (uid v). rewrite upd_other by exact Hne. exact Kv.
      + apply (g_root _ G).
      + apply (g_lk _ G).
    - apply (p_w _ _ _ _ I).
    - intros z s p Hz Hs Hpi Hpo Sz Ps. rewrite Hst in Sz, Ps.
      destruct (N.eq_dec (uid z) (uid u)) as [Hez|Hnz].
      + (* z = u, newly or still SUCCEEDED: its producers are SUCCEEDED *)
        exfalso. rewrite (uid_unique U z u (Hid U HW) Hz HuU Hez) in *. rewrite upd_same in Sz.
        pose proof (ready_producers y u s p (H1 Sz) Hs Hpi Hpo) as Hs1.
        destruct (N.eq_dec (uid s) (uid u)) as [Hes|Hns].
        * rewrite (uid_unique U s u (Hid U HW) Hs HuU Hes) in *.
          apply (inputs_before U HW done todo u u p E); [apply in_or_app; right; left; reflexivity|exact Hpi|exact Hpo].
        * rewrite upd_other in Ps by exact Hns. congruence.
      + rewrite upd_other in Sz by exact Hnz.
        assert (Hzt : In z done \/ In z todo).
        { pose proof Hz as Hz'. rewrite E in Hz'. apply in_app_or in Hz'.
          destruct Hz' as [Hd|[Hd|Hd]]; [left; exact Hd| |right; exact Hd].
          exfalso. apply Hnz. rewrite Hd. reflexivity. }
        destruct (N.eq_dec (uid s) (uid u)) as [Hes|Hns].
        * rewrite (uid_unique U s u (Hid U HW) Hs HuU Hes) in *.
          split; [apply in_or_app; right; left; reflexivity|].
          destruct Hzt as [Hzd|Hzt]; [|exact Hzt]. exfalso.
          apply (inputs_before U HW done todo u z p E); [apply in_or_app; left; exact Hzd|exact Hpi|exact Hpo].
        * rewrite upd_other in Ps by exact Hns.
          destruct (p_cl _ _ _ _ I z s p Hz Hs Hpi Hpo Sz Ps) as [Hsd Hzu].
          split; [apply in_or_app; left; exact Hsd|].
          destruct Hzu as [Hzu|Hzu]; [exfalso; apply Hnz; rewrite Hzu; reflexivity|exact Hzu].
    - intros v Hv Tv.
      assert (Hfs : forall x p, In x (done ++ [u]) -> In p (inp (ust x)) -> fs (pbase y') p = fs (pbase y) p)
        by reflexivity.
      apply in_app_or in Hv. destruct Hv as [Hv|[<-|[]]].
      + destruct (state_frame done (u :: todo) v y y' E Hv (fun x p _ _ => eq_refl) Hdone) as [Ht Hr].
        rewrite Hr, (proj1 (Hdone v Hv)). rewrite Ht in Tv. apply (p_loc _ _ _ _ I v Hv Tv).
      + rewrite (ready_next done todo u y y' E (fun p _ => eq_refl) Hdone).
        rewrite (trusted_next done todo u y y' E Hdone eq_refl) in Tv. rewrite Hst, upd_same.
        apply HL. exact Tv.
  Qed.
  (* [u] runs *)
  Lemma pinv_run (w : world) (done todo : universe) (u : ustep) (y : psys) :
    U = done ++ u :: todo -> PInv w done (u :: todo) y ->
    trusted U y (uid u) = true -> ready_t U y (ust u) = true ->
    stt (pbase y) (uid u) = Pending ->
    PInv w (done ++ [u]) todo (p_run run plan U u y).
  Proof.
    intros E I Et Er Pu. set (b := pbase y). set (y' := p_run run plan U u y).
    destruct (split_facts done todo u E) as (HuU & HdU & HtU & Hnd_ & Hnt & Hcr_done & Hcr_u & Hrest).
    destruct WFproj as (Hids & Hnds & Htopo).
    pose proof (p_g _ _ _ _ I) as G.
    assert (Hndu : NoDup (out (ust u))). { apply (out_nodup (uproj U) (ust u) Hnds). apply in_map. exact HuU. }
    set (st0 := upd (stt b) (uid u) Succeeded).
    set (dd := fun p => memN p (ustat u)).
    assert (Hst : forall id, stt (pbase y') id = mark (uproj U) dd (fun _ => false) st0 id) by reflexivity.
    assert (Hlow : forall id, stt (pbase y') id = Succeeded -> st0 id = Succeeded).
    { intros id H. rewrite Hst in H. apply mark_only_lowers in H. exact H. }
    (* no SUCCEEDED step reads an output of [u] *)
    assert (Hnoread : forall z p, In z U -> stt b (uid z) = Succeeded -> In p (inp (ust z)) ->
                                  ~ In p (out (ust u))).
    { intros z p Hz Sz Hp Hpo. destruct (p_cl _ _ _ _ I z u p Hz HuU Hp Hpo Sz Pu) as [Hud _].
      exact (Hnd_ u Hud eq_refl). }
    (* the steps that had their turn, and [u], keep their states *)
    assert (Hkeep : forall z, In z (done ++ [u]) -> st0 (uid z) = Succeeded ->
                              stt (pbase y') (uid z) = Succeeded).
    { intros z Hz Sz. rewrite Hst.
      set (S := fun id => memN id (map uid (done ++ [u])) && is_succ (st0 id)).
      apply (mark_keeps_set S (uproj U) dd (fun _ => false) st0 Hids).
      - intros q Hq Sq. unfold S in Sq. apply andb_true_iff in Sq. destruct Sq as [Sq1 Sq2].
        split; [destruct (st0 (sid q)); [discriminate|reflexivity]|]. split; [|apply existsb_const_false].
        apply in_uproj in Hq. destruct Hq as (q0 & Hq0 & <-). fold (uid q0) in Sq1.
        apply memN_In in Sq1. apply in_map_iff in Sq1. destruct Sq1 as (q1 & He & Hq1).
        assert (Hq1U : In q1 U). { rewrite E. apply in_app_or in Hq1. apply in_or_app. destruct Hq1 as [H|[<-|[]]]; [left; exact H|right; left; reflexivity]. }
        rewrite <- (uid_unique U q1 q0 (Hid U HW) Hq1U Hq0 He).
        apply not_true_is_false. intros Hex. apply existsb_exists in Hex. destruct Hex as (p & Hp & Hm).
        apply memN_In in Hm. exact (HS done u todo E q1 Hq1 p Hp Hm).
      - intros s q p Hs Hq Sq Hpi Hpo. unfold S in *. apply andb_true_iff in Sq. destruct Sq as [Sq1 Sq2].
        apply in_uproj in Hq. destruct Hq as (q0 & Hq0 & <-). apply in_uproj in Hs. destruct Hs as (s0 & Hs0 & <-).
        fold (uid q0) in *. fold (uid s0).
        apply memN_In in Sq1. apply in_map_iff in Sq1. destruct Sq1 as (q1 & He & Hq1).
        assert (Hq1U : In q1 U). { rewrite E. apply in_app_or in Hq1. apply in_or_app. destruct Hq1 as [H|[<-|[]]]; [left; exact H|right; left; reflexivity]. }
        pose proof (uid_unique U q1 q0 (Hid U HW) Hq1U Hq0 He) as Eq. subst q1.
        (* the producer comes before the consumer *)
        assert (Hs0d : In s0 done).
        { pose proof Hs0 as Hs0'. rewrite E in Hs0'. apply in_app_or in Hs0'. destruct Hs0' as [H|H]; [exact H|].
          exfalso. pose proof Htopo as Ht. rewrite E in Ht. unfold uproj in Ht. rewrite map_app in Ht. cbn [map] in Ht.
          apply in_app_or in Hq1. destruct Hq1 as [Hq1|[<-|[]]].
          - apply topo_app in Ht. destruct Ht as [_ Hd].
            apply (Hd (ust q0) p (ust s0)); [apply in_map; exact Hq1|exact Hpi| |exact Hpo].
            change (ust u :: map ust todo) with (map ust (u :: todo)). apply in_map. exact H.
          - apply topo_app in Ht. destruct Ht as [Ht _].
            apply (topo_head (ust u) (map ust todo) Ht p (ust s0) Hpi); [|exact Hpo].
            change (ust u :: map ust todo) with (map ust (u :: todo)). apply in_map. exact H. }
        assert (Hs0S : st0 (uid s0) = Succeeded).
        { unfold st0. rewrite upd_other by (apply Hnd_; exact Hs0d).
          destruct (stt b (uid s0)) eqn:Es; [|reflexivity]. exfalso.
          apply in_app_or in Hq1. destruct Hq1 as [Hq1|[<-|[]]].
          - assert (Sq0 : stt b (uid q0) = Succeeded).
            { unfold st0 in Sq2. rewrite upd_other in Sq2 by (apply Hnd_; exact Hq1).
              destruct (stt b (uid q0)); [discriminate|reflexivity]. }
            destruct (p_cl _ _ _ _ I q0 s0 p Hq0 Hs0 Hpi Hpo Sq0 Es) as [_ [Hq|Hq]].
            + apply (Hnd_ q0 Hq1). rewrite Hq. reflexivity.
            + apply (Hnt q0 Hq). pose proof (Hid U HW) as Hn. rewrite E, map_app in Hn. cbn [map] in Hn.
              exfalso. apply (NoDup_app_disjoint _ _ (uid q0) Hn); [apply in_map; exact Hq1|right; apply in_map; exact Hq].
          - pose proof (ready_producers y u s0 p Er Hs0 Hpi Hpo) as H. fold b in H. congruence. }
        rewrite Hs0S. rewrite andb_true_r. apply memN_In. apply in_map. apply in_or_app. left. exact Hs0d.
      - apply in_map. rewrite E. apply in_app_or in Hz. apply in_or_app. destruct Hz as [H|[<-|[]]]; [left; exact H|right; left; reflexivity].
      - unfold S. change (sid (ust z)) with (uid z). rewrite Sz. rewrite andb_true_r. apply memN_In. apply in_map. exact Hz. }
    assert (Hsu : stt (pbase y') (uid u) = Succeeded).
    { apply Hkeep; [apply in_or_app; right; left; reflexivity|]. unfold st0. apply upd_same. }
    assert (Hfs_o : forall p, ~ In p (out (ust u)) -> fs (pbase y') p = fs b p).
    { intros p Hp. unfold y', p_run. cbn [pbase set_stt fs]. apply (fs_do_run_other run). exact Hp. }
    assert (Hev : forall n, ev (pbase y') n = ev b n) by reflexivity.
    assert (Htr : forall id, tr (pbase y') id = upd (tr b) (uid u)
                   (Some (mkTrace (ingredients (fs b) (inp (ust u))) (ingredients (ev b) (envn (ust u)))
                                  (produced run (ust u) (ingredients (fs b) (inp (ust u)))
                                            (ingredients (ev b) (envn (ust u)))))) id) by reflexivity.
    assert (Hlk : forall v, In v U ->
                  plk y' (uid v) = if ucr v =? uid u then memN (uid v) (defines b (ust u)) else plk y (uid v)).
    { intros v Hv. unfold y', p_run. cbn [plk]. apply (relink_at U _ _ _ v (Hid U HW) Hv). }
    assert (Hinp_u : forall v, In v (done ++ [u]) -> forall p, In p (inp (ust v)) -> fs (pbase y') p = fs b p).
    { intros v Hv p Hp. apply Hfs_o. apply (inputs_before U HW done todo u v p E Hv Hp). }
    assert (Hdone : forall x, In x done -> stt (pbase y') (uid x) = stt b (uid x) /\ plk y' (uid x) = plk y (uid x)).
    { intros x Hx. split.
      - destruct (stt b (uid x)) eqn:Es.
        + destruct (stt (pbase y') (uid x)) eqn:Es'; [reflexivity|]. apply Hlow in Es'. unfold st0 in Es'.
          rewrite upd_other in Es' by (apply Hnd_; exact Hx). congruence.
        + apply Hkeep; [apply in_or_app; left; exact Hx|]. unfold st0. rewrite upd_other by (apply Hnd_; exact Hx). exact Es.
      - rewrite (Hlk x (HdU x Hx)). destruct (ucr x =? uid u) eqn:Ec; [|reflexivity].
        apply N.eqb_eq in Ec. exfalso. exact (Hcr_done x Hx Ec). }
    constructor.
    - constructor.
      + intros v t Hv Ht. rewrite Htr in Ht. destruct (N.eq_dec (uid v) (uid u)) as [He|Hne].
        * rewrite (uid_unique U v u (Hid U HW) Hv HuU He) in *. rewrite upd_same in Ht. injection Ht as <-.
          unfold Engine.trace_valid. cbn [t_inp t_env t_out]. rewrite !map_fst_ingredients. auto.
        * rewrite upd_other in Ht by exact Hne. apply (g_tv _ G v t Hv Ht).
      + intros v Hv Sv. fold (uid v) in Sv. pose proof (Hlow _ Sv) as S0.
        destruct (N.eq_dec (uid v) (uid u)) as [He|Hne].
        * rewrite (uid_unique U v u (Hid U HW) Hv HuU He) in *. eexists. rewrite Htr.
          change (sid (ust u)) with (uid u). rewrite upd_same. split; [reflexivity|]. cbn [t_inp t_env t_out].
          split; [|split].
          -- apply ingredients_ext. intros k Hk. symmetry.
             apply (Hinp_u u); [apply in_or_app; right; left; reflexivity|exact Hk].
          -- reflexivity.
          -- symmetry. apply (ingredients_do_run_out run (ust u) b Hndu).
        * unfold st0 in S0. rewrite upd_other in S0 by exact Hne.
          destruct (g_K _ G v Hv S0) as (t & Ht & Hi & He & Ho). exists t. rewrite Htr.
          change (sid (ust v)) with (uid v). rewrite upd_other by exact Hne. split; [exact Ht|].
          split; [|split].
          -- rewrite Hi. apply ingredients_ext. intros k Hk. symmetry. apply Hfs_o. apply (Hnoread v k Hv S0 Hk).
          -- exact He.
          -- rewrite Ho. apply ingredients_ext. intros k Hk. symmetry. apply Hfs_o.
             apply (outputs_disjoint U HW u v k HuU Hv Hne Hk).
      + intros v Hv Hc. rewrite (Hlk v Hv). destruct (ucr v =? uid u) eqn:Ec; [|apply (g_root _ G v Hv Hc)].
        apply N.eqb_eq in Ec. exfalso. destruct HW as [_ Hcf]. destruct (Hcf done u todo E) as [Hu0 _]. congruence.
      + intros c v t Hc Hv He Ht. rewrite Htr in Ht. rewrite (Hlk v Hv).
        destruct (N.eq_dec (uid c) (uid u)) as [Hec|Hnc].
        * rewrite Hec in *. rewrite upd_same in Ht. injection Ht as <-. cbn [t_inp t_env].
          rewrite <- He, N.eqb_refl. rewrite !map_snd_ingredients. reflexivity.
        * rewrite upd_other in Ht by exact Hnc.
          assert (Ec : ucr v =? uid u = false). { apply N.eqb_neq. rewrite <- He. exact Hnc. }
          rewrite Ec. apply (g_lk _ G c v t Hc Hv He Ht).
    - destruct (p_w _ _ _ _ I) as [W1 W2]. split; [|intros n; rewrite Hev; apply W2].
      intros p Hp. rewrite Hfs_o; [apply W1; exact Hp|]. intros Hin. apply is_output_false in Hp. apply Hp.
      apply in_outs. exists (ust u). split; [apply in_map; exact HuU|exact Hin].
    - intros z s p Hz Hs Hpi Hpo Sz Ps. pose proof (Hlow _ Sz) as Sz0.
      destruct (st0 (uid s)) eqn:Es0.
      + (* the producer was PENDING before the marking *)
        assert (Hns : uid s <> uid u). { intros He. unfold st0 in Es0. rewrite He, upd_same in Es0. discriminate. }
        unfold st0 in Es0. rewrite upd_other in Es0 by exact Hns.
        destruct (N.eq_dec (uid z) (uid u)) as [Hez|Hnz].
        * exfalso. rewrite (uid_unique U z u (Hid U HW) Hz HuU Hez) in *.
          pose proof (ready_producers y u s p Er Hs Hpi Hpo) as H. fold b in H. congruence.
        * unfold st0 in Sz0. rewrite upd_other in Sz0 by exact Hnz.
          destruct (p_cl _ _ _ _ I z s p Hz Hs Hpi Hpo Sz0 Es0) as [Hsd Hzu].
          split; [apply in_or_app; left; exact Hsd|].
          destruct Hzu as [Hzu|Hzu]; [exfalso; apply Hnz; rewrite Hzu; reflexivity|exact Hzu].
      + (* the producer was lowered by the marking: then so was its consumer *)
        exfalso. rewrite Hst in Sz, Ps.
        pose proof (mark_closed (uproj U) dd (fun _ => false) st0 (ust z) (ust s) p Hids Htopo
                      (in_map ust U z Hz) (in_map ust U s Hs) Hpo Hpi Sz) as H.
        unfold uid in Ps. congruence.
    - intros v Hv Tv. apply in_app_or in Hv. destruct Hv as [Hv|[<-|[]]].
      + destruct (state_frame done (u :: todo) v y y' E Hv
                    (fun x p Hx Hp => Hinp_u x (in_or_app _ _ _ (or_introl Hx)) p Hp) Hdone) as [Ht Hr].
        rewrite Hr, (proj1 (Hdone v Hv)). rewrite Ht in Tv. apply (p_loc _ _ _ _ I v Hv Tv).
      + assert (Hr : ready_t U y' (ust u) = ready_t U y (ust u)).
        { apply (ready_next done todo u y y' E); [|exact Hdone].
          intros p Hp. apply (Hinp_u u); [apply in_or_app; right; left; reflexivity|exact Hp]. }
        rewrite Hr, Er. exact Hsu.
  Qed.
  Lemma pinv_step (w : world) (done todo : universe) (u : ustep) (y : psys) :
    U = done ++ u :: todo -> PInv w done (u :: todo) y ->
    PInv w (done ++ [u]) todo (r_step_build run plan U u y).
  Proof.
    intros E I. unfold r_step_build, r_decide.
    destruct (ready_t U y (ust u)) eqn:Er; cbn [negb].
    - destruct (trusted U y (uid u)) eqn:Et; cbn [negb].
      2:{ apply pinv_keep; auto. intros H. congruence. }
      destruct (stt (pbase y) (uid u)) eqn:Es; cbn [is_succ].
      2:{ apply pinv_keep; auto. intros _. rewrite Er. exact Es. }
      destruct (can_skip (ust u) (pbase y)) eqn:Ec.
      + change (mkP (do_skip (ust u) (pbase y)) (plk y))
          with (mkP (set_stt (pbase y) (upd (stt (pbase y)) (uid u) Succeeded)) (plk y)).
        apply pinv_state; auto.
        * intros _. unfold can_skip in Ec. cbn [set_stt tr fs ev pbase].
          destruct (tr (pbase y) (sid (ust u))) as [t|]; [|discriminate].
          apply andb_true_iff in Ec. destruct Ec as [Ec Ho]. apply andb_true_iff in Ec. destruct Ec as [Hi He].
          apply ingr_eqb_eq in Hi, He, Ho. exists t. auto.
        * intros _. rewrite Er. reflexivity.
      + apply pinv_run; auto.
    - destruct (stt (pbase y) (uid u)) eqn:Es; cbn [is_succ].
      + apply pinv_keep; auto; [intros H; congruence|]. intros _. rewrite Er. exact Es.
      + apply pinv_state; auto.
        * intros H. cbn [pbase set_stt stt] in H. change (sid (ust u)) with (uid u) in H.
          rewrite upd_same in H. discriminate.
        * intros H. discriminate.
        * intros _. rewrite Er. reflexivity.
  Qed.

  Lemma pinv_pass (w : world) (todo : universe) : forall done y,
    U = done ++ todo -> PInv w done todo y ->
    PInv w U [] (fold_left (fun y u => r_step_build run plan U u y) todo y).
  Proof.
    induction todo as [|u todo IH]; intros done y E I.
    - rewrite app_nil_r in E. subst done. exact I.
    - cbn [fold_left]. apply (IH (done ++ [u])); [rewrite <- app_assoc; exact E|].
      apply pinv_step; assumption.
  Qed.

  Lemma pinv_finished (w : world) (y : psys) : PInv w U [] y -> Finished_p run plan U y.
  Proof.
    intros I u Hu. pose proof (p_g _ _ _ _ I) as G. unfold Local_p. cbv zeta. split; [|split].
    - apply (g_root _ G u Hu).
    - intros c Hc He _ Sc. destruct (g_K _ G c Hc Sc) as (t & Ht & Hi & Hev & _).
      rewrite (g_lk _ G c u t Hc Hu He Ht). rewrite Hi, Hev, !map_snd_ingredients. reflexivity.
    - intros Tu. pose proof (p_loc _ _ _ _ I u Hu Tu) as L.
      destruct (ready_t U y (ust u)); [|exact L]. split; [exact L|].
      destruct (g_K _ G u Hu L) as (t & Ht & Hi & Hev & Ho).
      apply (K_outputs run (ust u) (pbase y) t (g_tv _ G u t Hu Ht) Hi Hev Ho).
  Qed.

  Lemma empty_ginv : GInv (p_empty U).
  Proof.
    constructor.
    - intros u t _ H. discriminate.
    - intros u _ H. discriminate.
    - intros u Hu Hc. cbn. apply existsb_exists. exists u. split; [exact Hu|].
      rewrite N.eqb_refl, Hc. reflexivity.
    - intros c u t _ _ _ H. discriminate.
  Qed.

  Lemma build_world_r_ok (w : world) (y : psys) :
    GInv y ->
    GInv (build_world_r run plan U w y) /\ Finished_p run plan U (build_world_r run plan U w y) /\
    has_world U w (build_world_r run plan U w y).
  Proof.
    intros G. unfold build_world_r, r_pass.
    pose proof (pinv_pass w U [] _ eq_refl (resync_pinv w y G)) as I.
    split; [apply (p_g _ _ _ _ I)|]. split; [apply (pinv_finished w); exact I|apply (p_w _ _ _ _ I)].
  Qed.

  Lemma history_ginv (ws : list world) : forall y,
    GInv y -> GInv (fold_left (fun s x => build_world_r run plan U x s) ws y).
  Proof.
    induction ws as [|w ws IH]; intros y G; [exact G|]. cbn [fold_left]. apply IH.
    apply (build_world_r_ok w y G).
  Qed.
End Fix.

(* The full statement for the repaired engine: for ALL programs, plan behaviours, well-formed
   universes whose static declarations feed later steps only, and ALL finite histories of worlds:
   building the last world on what the earlier builds left gives the trusted region, the states
   and the outputs of building it on nothing. *)
Theorem repaired_plan_full run plan (U : universe) :
  wf_u U = true -> ustat_later_b U = true ->
  forall (ws : list world) (w : world),
    same_result_p U
      (build_world_r run plan U w (fold_left (fun s x => build_world_r run plan U x s) ws (p_empty U)))
      (build_world_r run plan U w (p_empty U)).
Proof.
  intros Hwf Hus ws w. pose proof (wf_u_WFU U Hwf) as HW. pose proof (ustat_later_b_ok U Hus) as HS.
  pose proof (empty_ginv run plan U) as G0.
  pose proof (history_ginv run plan U HW HS ws _ G0) as G1.
  destruct (build_world_r_ok run plan U HW HS w _ G1) as (_ & F1 & [S1 E1]).
  destruct (build_world_r_ok run plan U HW HS w _ G0) as (_ & F2 & [S2 E2]).
  apply (finished_p_unique run plan U _ _ Hwf F1 F2). split.
  - intros p Hp. rewrite (S1 p Hp), (S2 p Hp). reflexivity.
  - intros n. rewrite E1, E2. reflexivity.
Qed.
