(* C01, graph level: pending propagation (Workflow.mark_step_pending / mark_file_outdated, as
   modelled by Graph.mark_step_pending_f / mark_file_outdated_f) preserves K = NoStaleSuccess.

   Hypotheses: step labels are unique (conjunct inv_rows_b of C09's invariant) and every ATTACHED
   file has at most one producing step edge (single_producer).  Both follow from C09's invariant
   inv_core_b, which holds in every reachable state (proofs/NoStaleInv.v); a detached file may keep
   the output edge of a former producer, and K does not look at detached outputs.  Result: K_mark_step_pending,
   K_mark_consumers_pending, and from them K for OpMarkStepPending and for the startup rescan of
   static files (OpUpdateHashes with cause EXTERNAL / CONFIRMED on UNCONFIRMED, MISSING or
   CONFIRMED files). *)
From Coq Require Import List NArith Bool Lia.
From SV Require Import lib.Bytes model.Graph model.NoStale.
Import ListNotations.
Open Scope N_scope.

(* ------------------------------------------------------------------------------------------ *)
(* Labels                                                                                      *)
(* ------------------------------------------------------------------------------------------ *)
Lemma str_eqb_false a b : str_eqb a b = false <-> a <> b.
Proof.
  split.
  - intros H E. apply str_eqb_eq in E. congruence.
  - intros H. destruct (str_eqb a b) eqn:E; [|reflexivity]. apply str_eqb_eq in E. contradiction.
Qed.

Lemma str_eqb_sym a b : str_eqb a b = str_eqb b a.
Proof.
  destruct (str_eqb a b) eqn:E.
  - apply str_eqb_eq in E. subst. symmetry. apply str_eqb_refl.
  - symmetry. apply str_eqb_false. apply str_eqb_false in E. congruence.
Qed.

(* find in a list after a keyed update that keeps the key *)
Lemma find_map_upd {A} (lab : A -> str) (g : A -> A) (l l' : str) (xs : list A) :
  (forall r, lab (g r) = lab r) ->
  find (fun r => str_eqb (lab r) l') (map (fun r => if str_eqb (lab r) l then g r else r) xs)
  = if str_eqb l' l then option_map g (find (fun r => str_eqb (lab r) l') xs)
    else find (fun r => str_eqb (lab r) l') xs.
Proof.
  intros Hg. induction xs as [|a xs IH]; cbn [map find].
  - destruct (str_eqb l' l); reflexivity.
  - destruct (str_eqb (lab a) l) eqn:E1; [rewrite Hg|]; destruct (str_eqb (lab a) l') eqn:E2;
      try exact IH.
    + apply str_eqb_eq in E1, E2. assert (E : str_eqb l' l = true) by (apply str_eqb_eq; congruence).
      rewrite E. reflexivity.
    + apply str_eqb_eq in E2. assert (E : str_eqb l' l = false) by (rewrite <- E2; exact E1).
      rewrite E. reflexivity.
Qed.

(* ------------------------------------------------------------------------------------------ *)
(* The marking relation                                                                        *)
(* ------------------------------------------------------------------------------------------ *)
Definition same_graph (s s' : st) : Prop :=
  nodes s' = nodes s /\ deps s' = deps s /\ shash s' = shash s.

(* [s'] is [s] after some marking: some steps went to PENDING, some BUILT files to OUTDATED *)
Definition Mk (s s' : st) : Prop :=
  same_graph s s' /\ map sl (steps s') = map sl (steps s) /\
  (forall l, sstate_of l s' = sstate_of l s \/
             (sstate_of l s' = Some SPending /\ sstate_of l s <> None)) /\
  (forall f, fstate_of f s' = fstate_of f s \/
             (fstate_of f s = Some FBuilt /\ fstate_of f s' = Some FOutdated)).

Lemma Mk_refl s : Mk s s.
Proof. repeat split; auto. Qed.

Lemma Mk_trans s1 s2 s3 : Mk s1 s2 -> Mk s2 s3 -> Mk s1 s3.
Proof.
  intros ((N1 & D1 & H1) & L1 & S1 & F1) ((N2 & D2 & H2) & L2 & S2 & F2).
  split; [repeat split; congruence|]. split; [congruence|]. split.
  - intros l. destruct (S2 l) as [E2|[E2 Ne2]], (S1 l) as [E1|[E1 Ne1]].
    + left. congruence.
    + right. split; [congruence|exact Ne1].
    + right. split; [exact E2|congruence].
    + right. split; [exact E2|exact Ne1].
  - intros f. destruct (F2 f) as [E2|[B2 O2]], (F1 f) as [E1|[B1 O1]].
    + left. congruence.
    + right. split; [exact B1|congruence].
    + right. split; [congruence|exact O2].
    + congruence.
Qed.

Definition not_succ (s : st) (l : str) : Prop := sstate_of l s <> Some SSucceeded.

Lemma Mk_not_succ s s' l : Mk s s' -> not_succ s l -> not_succ s' l.
Proof.
  intros (_ & _ & S & _) H. unfold not_succ in *. destruct (S l) as [E|[E _]]; rewrite E; auto.
  discriminate.
Qed.

Lemma Mk_consumers s s' f : Mk s s' -> step_sinks_of_file f s' = step_sinks_of_file f s.
Proof. intros ((_ & D & _) & _). unfold step_sinks_of_file, sinks_of. rewrite D. reflexivity. Qed.

Lemma Mk_outputs s s' l : Mk s s' -> file_sinks_of_step l s' = file_sinks_of_step l s.
Proof. intros ((_ & D & _) & _). unfold file_sinks_of_step, sinks_of. rewrite D. reflexivity. Qed.

Lemma Mk_detached s s' k : Mk s s' -> is_detached k s' = is_detached k s.
Proof. intros ((N & _) & _). unfold is_detached, find_node. rewrite N. reflexivity. Qed.

(* every file that the marking outdated has only non-SUCCEEDED consumers and, when it is
   attached, only non-SUCCEEDED producers *)
Definition Cl (s s' : st) : Prop :=
  forall f, fstate_of f s = Some FBuilt -> fstate_of f s' = Some FOutdated ->
            (forall l, In l (step_sinks_of_file f s) -> not_succ s' l) /\
            (is_detached (KFile, f) s = false ->
             forall l, In f (file_sinks_of_step l s) -> not_succ s' l).

Lemma Cl_refl s : Cl s s.
Proof. intros f H1 H2. congruence. Qed.

Lemma Cl_trans s1 s2 s3 : Mk s1 s2 -> Mk s2 s3 -> Cl s1 s2 -> Cl s2 s3 -> Cl s1 s3.
Proof.
  intros M12 M23 C12 C23 f B1 O3.
  pose proof M12 as (_ & _ & _ & F12). destruct (F12 f) as [E|[_ O2]].
  - (* still BUILT in s2: outdated by the second part *)
    rewrite B1 in E. destruct (C23 f E O3) as [Hc Hp]. split.
    + intros l Hl. apply Hc. rewrite (Mk_consumers s1 s2 f M12). exact Hl.
    + intros Ha l Hl. apply Hp; [rewrite (Mk_detached s1 s2 _ M12); exact Ha|].
      rewrite (Mk_outputs s1 s2 l M12). exact Hl.
  - destruct (C12 f B1 O2) as [Hc Hp]. split.
    + intros l Hl. apply (Mk_not_succ s2 s3 l M23). apply Hc. exact Hl.
    + intros Ha l Hl. apply (Mk_not_succ s2 s3 l M23). apply Hp; assumption.
Qed.

(* ------------------------------------------------------------------------------------------ *)
(* The two primitive updates                                                                   *)
(* ------------------------------------------------------------------------------------------ *)
Lemma sstate_of_upd_step (l l' : str) (g : srow -> srow) (s : st) :
  (forall r, sl (g r) = sl r) ->
  sstate_of l' (upd_step l g s)
  = if str_eqb l' l then option_map (fun r => sst (g r)) (find_step l' s) else sstate_of l' s.
Proof.
  intros Hg. unfold sstate_of, find_step, upd_step. cbn [steps set_steps].
  rewrite (find_map_upd sl g l l' (steps s) Hg). destruct (str_eqb l' l); [|reflexivity].
  destruct (find (fun r => str_eqb (sl r) l') (steps s)); reflexivity.
Qed.

Lemma fstate_of_upd_file (f f' : str) (g : frow -> frow) (s : st) :
  (forall r, fl (g r) = fl r) ->
  fstate_of f' (upd_file f g s)
  = if str_eqb f' f then option_map (fun r => fstt (g r)) (find_file f' s) else fstate_of f' s.
Proof.
  intros Hg. unfold fstate_of, find_file, upd_file. cbn [files set_files].
  rewrite (find_map_upd fl g f f' (files s) Hg). destruct (str_eqb f' f); [|reflexivity].
  destruct (find (fun r => str_eqb (fl r) f') (files s)); reflexivity.
Qed.

Lemma map_sl_upd_step (l : str) (g : srow -> srow) (s : st) :
  (forall r, sl (g r) = sl r) -> map sl (steps (upd_step l g s)) = map sl (steps s).
Proof.
  intros Hg. unfold upd_step. cbn [steps set_steps]. rewrite map_map. apply map_ext.
  intros r. destruct (str_eqb (sl r) l); [apply Hg|reflexivity].
Qed.

Lemma set_pending_Mk (l : str) (s s1 : st) :
  set_sstate l SPending false s = Ok s1 ->
  Mk s s1 /\ (sstate_of l s <> None -> sstate_of l s1 = Some SPending) /\
  (forall f, fstate_of f s1 = fstate_of f s).
Proof.
  unfold set_sstate. destruct (find_step l s) as [r|] eqn:Ef.
  - cbn [andb]. intros H. cbv zeta in H. injection H as <-.
    match goal with |- context [upd_step l ?g0 s] => set (g := g0) end.
    assert (Hg : forall r0, sl (g r0) = sl r0) by reflexivity.
    assert (Hl : sstate_of l (upd_step l g s) = Some SPending).
    { rewrite (sstate_of_upd_step l l g s Hg), str_eqb_refl, Ef. reflexivity. }
    split; [|split; [intros _; exact Hl|reflexivity]].
    split; [repeat split|]. split; [apply (map_sl_upd_step l g s Hg)|]. split.
    + intros l'. rewrite (sstate_of_upd_step l l' g s Hg). destruct (str_eqb l' l) eqn:E.
      * apply str_eqb_eq in E. subst l'. right. rewrite Ef. split; [reflexivity|].
        unfold sstate_of. rewrite Ef. discriminate.
      * left. reflexivity.
    + intros f. left. reflexivity.
  - intros H. injection H as <-. split; [apply Mk_refl|]. split; [|reflexivity].
    intros Hne. exfalso. apply Hne. unfold sstate_of. rewrite Ef. reflexivity.
Qed.

Lemma Cl_no_file_change s s1 : (forall f, fstate_of f s1 = fstate_of f s) -> Cl s s1.
Proof. intros H f B O. rewrite H in O. congruence. Qed.

Lemma set_outdated_Mk (f : str) (s s1 : st) :
  fstate_of f s = Some FBuilt -> set_fstate f FOutdated s = Ok s1 ->
  Mk s s1 /\ fstate_of f s1 = Some FOutdated /\
  (forall f', f' <> f -> fstate_of f' s1 = fstate_of f' s) /\
  (forall l, sstate_of l s1 = sstate_of l s).
Proof.
  intros Hb. unfold set_fstate, set_fstate_hash. unfold fstate_of in Hb.
  destruct (find_file f s) as [r|] eqn:Ef; [|discriminate]. injection Hb as Hb.
  intros H. cbv zeta in H.
  repeat match type of H with (if ?c then _ else _) = _ => destruct c; try discriminate end.
  injection H as <-.
  match goal with |- context [upd_file f ?g0 s] => set (g := g0) end.
  assert (Hg : forall r0, fl (g r0) = fl r0) by reflexivity.
  assert (Hf : fstate_of f (upd_file f g s) = Some FOutdated).
  { rewrite (fstate_of_upd_file f f g s Hg), str_eqb_refl, Ef. reflexivity. }
  assert (Ho : forall f', f' <> f -> fstate_of f' (upd_file f g s) = fstate_of f' s).
  { intros f' Hne. rewrite (fstate_of_upd_file f f' g s Hg).
    apply str_eqb_false in Hne. rewrite Hne. reflexivity. }
  split; [|split; [exact Hf|split; [exact Ho|reflexivity]]].
  split; [repeat split|]. split; [reflexivity|]. split; [intros l; left; reflexivity|].
  intros f'. destruct (str_eqb f' f) eqn:E.
  - apply str_eqb_eq in E. subst f'. right. split; [|exact Hf].
    unfold fstate_of. rewrite Ef, Hb. reflexivity.
  - left. apply Ho. apply str_eqb_false. exact E.
Qed.

(* ------------------------------------------------------------------------------------------ *)
(* Folding a marking function over a list                                                      *)
(* ------------------------------------------------------------------------------------------ *)
Lemma foldM_marks {A} (fn : st -> A -> res st) (Q : st -> A -> Prop) (R : st -> A -> Prop) :
  (* each call, under its precondition Q, is a marking with closure and establishes R *)
  (forall s a s', Q s a -> fn s a = Ok s' -> Mk s s' /\ Cl s s' /\ R s' a) ->
  (* preconditions and postconditions survive further marking *)
  (forall s s' a, Mk s s' -> Q s a -> Q s' a) ->
  (forall s s' a, Mk s s' -> R s a -> R s' a) ->
  forall (l : list A) (s s' : st),
    (forall a, In a l -> Q s a) -> foldM fn l s = Ok s' ->
    Mk s s' /\ Cl s s' /\ (forall a, In a l -> R s' a).
Proof.
  intros Hstep HQ HR. induction l as [|a l IH]; intros s s' Hq H; cbn [foldM] in H.
  - injection H as <-. split; [apply Mk_refl|]. split; [apply Cl_refl|]. intros a [].
  - unfold bind in H. destruct (fn s a) as [s1| |] eqn:E; try discriminate.
    destruct (Hstep s a s1 (Hq a (or_introl eq_refl)) E) as (M1 & C1 & R1).
    destruct (IH s1 s') as (M2 & C2 & R2); [|exact H|].
    { intros b Hb. apply (HQ s s1 b M1). apply Hq. right. exact Hb. }
    split; [exact (Mk_trans _ _ _ M1 M2)|]. split; [exact (Cl_trans _ _ _ M1 M2 C1 C2)|].
    intros b [<-|Hb]; [exact (HR s1 s' a M2 R1)|exact (R2 b Hb)].
Qed.

(* ------------------------------------------------------------------------------------------ *)
(* The mutual recursion                                                                        *)
(* ------------------------------------------------------------------------------------------ *)
(* every attached file has at most one producing step edge *)
Definition single_producer (s : st) : Prop :=
  forall f l1 l2, is_detached (KFile, f) s = false ->
                  In f (file_sinks_of_step l1 s) -> In f (file_sinks_of_step l2 s) -> l1 = l2.

Lemma single_producer_Mk s s' : Mk s s' -> single_producer s -> single_producer s'.
Proof.
  intros M H f l1 l2 Ha H1 H2. rewrite (Mk_detached s s' _ M) in Ha.
  rewrite (Mk_outputs s s' l1 M) in H1. rewrite (Mk_outputs s s' l2 M) in H2.
  exact (H f l1 l2 Ha H1 H2).
Qed.

Lemma single_producer_same_graph s s' : same_graph s s' -> single_producer s -> single_producer s'.
Proof.
  intros (N & D & _) H f l1 l2 Ha H1 H2. unfold is_detached, find_node in Ha. rewrite N in Ha.
  unfold file_sinks_of_step, sinks_of in H1, H2. rewrite D in H1, H2. exact (H f l1 l2 Ha H1 H2).
Qed.

(* the producers of [f], when [f] is attached, are not SUCCEEDED *)
Definition producers_not_succ (s : st) (f : str) : Prop :=
  is_detached (KFile, f) s = false -> forall l, In f (file_sinks_of_step l s) -> not_succ s l.

Lemma producers_not_succ_Mk s s' f : Mk s s' -> producers_not_succ s f -> producers_not_succ s' f.
Proof.
  intros M H Ha l Hl. rewrite (Mk_detached s s' _ M) in Ha. rewrite (Mk_outputs s s' l M) in Hl.
  apply (Mk_not_succ s s' l M). apply H; assumption.
Qed.

Lemma mark_mutual (fuel : nat) :
  (forall l s s', single_producer s -> mark_step_pending_f fuel l s = Ok s' ->
                  Mk s s' /\ Cl s s' /\ not_succ s' l) /\
  (forall f s s', single_producer s -> producers_not_succ s f -> mark_file_outdated_f fuel f s = Ok s' ->
                  Mk s s' /\ Cl s s').
Proof.
  induction fuel as [|fuel [IHs IHf]]; [split; intros; discriminate|].
  split.
  - (* mark_step_pending_f *)
    intros l s s' Hsp H. cbn [mark_step_pending_f] in H.
    destruct (sstate_of l s) as [old|] eqn:Eo; [|discriminate].
    assert (Hrun : old = SRunning \/ old = SChecking -> Ok s = Ok s' ->
                   Mk s s' /\ Cl s s' /\ not_succ s' l).
    { intros Ho Hs. injection Hs as <-. split; [apply Mk_refl|]. split; [apply Cl_refl|].
      unfold not_succ. rewrite Eo. destruct Ho; subst; discriminate. }
    destruct old; try (apply Hrun; auto; fail).
    all: unfold bind in H; destruct (set_sstate l SPending false s) as [s1| |] eqn:E1; try discriminate.
    all: destruct (set_pending_Mk l s s1 E1) as (M1 & P1 & Fsame).
    all: assert (Hl1 : sstate_of l s1 = Some SPending) by (apply P1; rewrite Eo; discriminate).
    1:{ (* was PENDING *) injection H as <-. split; [exact M1|]. split.
        - apply Cl_no_file_change. exact Fsame.
        - unfold not_succ. rewrite Hl1. discriminate. }
    (* was SUCCEEDED or FAILED: the BUILT outputs are outdated *)
    all: set (fn := fun (s : st) (f : str) => match fstate_of f s with
                                               | Some FBuilt => mark_file_outdated_f fuel f s
                                               | _ => Ok s end) in H.
    all: destruct (foldM_marks fn
           (fun s f => single_producer s /\ In f (file_sinks_of_step l s) /\ sstate_of l s = Some SPending)
           (fun _ _ => True)) with (l := file_sinks_of_step l s1) (s := s1) (s' := s') as (M2 & C2 & _).
    all: try exact H.
    all: try (intros s0 s0' a M (Hq1 & Hq2 & Hq3); split; [exact (single_producer_Mk _ _ M Hq1)|];
              split; [rewrite (Mk_outputs s0 s0' l M); exact Hq2|];
              pose proof M as (_ & _ & S & _); destruct (S l) as [E|[E _]]; congruence).
    all: try (intros; exact I).
    all: try (intros f Hf; split; [exact (single_producer_Mk _ _ M1 Hsp)|]; split; [exact Hf|exact Hl1]).
    all: try (intros s0 f s0' (Hq1 & Hq2 & Hq3) Hcall; unfold fn in Hcall;
              destruct (fstate_of f s0) as [[]|] eqn:Ef;
              try (injection Hcall as <-; split; [apply Mk_refl|]; split; [apply Cl_refl|exact I]);
              destruct (IHf f s0 s0' Hq1) as [Ma Ca]; [|exact Hcall|split; [exact Ma|split; [exact Ca|exact I]]];
              intros Hatt l0 Hl0; rewrite (Hq1 f l0 l Hatt Hl0 Hq2); unfold not_succ; rewrite Hq3; discriminate).
    all: split; [exact (Mk_trans _ _ _ M1 M2)|]; split.
    all: try (apply (Cl_trans s s1 s' M1 M2); [|exact C2]; apply Cl_no_file_change; exact Fsame).
    all: apply (Mk_not_succ s1 s' l M2); unfold not_succ; rewrite Hl1; discriminate.
  - (* mark_file_outdated_f *)
    intros f s s' Hsp Hprod H. cbn [mark_file_outdated_f] in H.
    destruct (fstate_of f s) as [[]|] eqn:Ef; try discriminate.
    + (* BUILT *)
      unfold bind in H. destruct (set_fstate f FOutdated s) as [s1| |] eqn:E1; try discriminate.
      destruct (set_outdated_Mk f s s1 Ef E1) as (M1 & O1 & Oth & St1).
      destruct (foldM_marks (fun s l => mark_step_pending_f fuel l s)
                  (fun s _ => single_producer s) (fun s l => not_succ s l))
        with (l := step_sinks_of_file f s1) (s := s1) (s' := s') as (M2 & C2 & R2).
      * intros s0 a s0' Hq Hcall. exact (IHs a s0 s0' Hq Hcall).
      * intros s0 s0' a M Hq. exact (single_producer_Mk _ _ M Hq).
      * intros s0 s0' a M Hr. exact (Mk_not_succ _ _ a M Hr).
      * intros a _. exact (single_producer_Mk _ _ M1 Hsp).
      * exact H.
      * split; [exact (Mk_trans _ _ _ M1 M2)|].
        intros g Bg Og. destruct (str_eqb g f) eqn:Eg.
        -- apply str_eqb_eq in Eg. subst g. split.
           ++ intros l Hl. apply R2. rewrite (Mk_consumers s s1 f M1). exact Hl.
           ++ intros Ha l Hl. apply (Mk_not_succ s s' l (Mk_trans _ _ _ M1 M2)). apply Hprod; assumption.
        -- apply str_eqb_false in Eg. rewrite <- (Oth g Eg) in Bg.
           destruct (C2 g Bg Og) as [Hc Hp]. split.
           ++ intros l Hl. apply Hc. rewrite (Mk_consumers s s1 g M1). exact Hl.
           ++ intros Ha l Hl. apply Hp; [rewrite (Mk_detached s s1 _ M1); exact Ha|].
              rewrite (Mk_outputs s s1 l M1). exact Hl.
    + (* already OUTDATED *)
      injection H as <-. split; [apply Mk_refl|apply Cl_refl].
Qed.

(* ------------------------------------------------------------------------------------------ *)
(* K is preserved                                                                              *)
(* ------------------------------------------------------------------------------------------ *)
Definition unique_labels (s : st) : Prop := NoDup (map sl (steps s)).

Lemma find_step_in (s : st) (r : srow) :
  unique_labels s -> In r (steps s) -> find_step (sl r) s = Some r.
Proof.
  unfold unique_labels, find_step. induction (steps s) as [|a xs IH]; intros Hnd Hin; [contradiction|].
  cbn [map] in Hnd. inversion Hnd as [|? ? Hn Hnd']; subst. cbn [find].
  destruct Hin as [->|Hin]; [rewrite str_eqb_refl; reflexivity|].
  destruct (str_eqb (sl a) (sl r)) eqn:E; [|apply IH; assumption].
  exfalso. apply str_eqb_eq in E. apply Hn. rewrite E. apply in_map. exact Hin.
Qed.

Lemma K_Mk_Cl (s s' : st) : unique_labels s -> Mk s s' -> Cl s s' -> K_b s = true -> K_b s' = true.
Proof.
  intros Hu M C HK. pose proof M as ((Nn & Dd & Hh) & Ll & Ss & Ff).
  assert (Hu' : unique_labels s') by (unfold unique_labels; rewrite Ll; exact Hu).
  unfold K_b in *. rewrite forallb_forall in *. intros r' Hr'.
  unfold K_step_b. destruct (sstate_eqb (sst r') SSucceeded) eqn:Es; [|reflexivity].
  cbn [negb orb].
  assert (Hst' : sstate_of (sl r') s' = Some (sst r')).
  { unfold sstate_of. rewrite (find_step_in s' r' Hu' Hr'). reflexivity. }
  assert (Hsucc : sst r' = SSucceeded) by (destruct (sst r'); try discriminate; reflexivity).
  (* the row was SUCCEEDED before *)
  assert (Hst : sstate_of (sl r') s = Some SSucceeded).
  { destruct (Ss (sl r')) as [E|[E _]]; rewrite Hst', Hsucc in E; [symmetry; exact E|discriminate]. }
  unfold sstate_of in Hst. destruct (find_step (sl r') s) as [r|] eqn:Ef; [|discriminate].
  injection Hst as Hsr. unfold find_step in Ef. apply find_some in Ef. destruct Ef as [Hin Hlab].
  apply str_eqb_eq in Hlab. specialize (HK r Hin). unfold K_step_b in HK.
  rewrite Hsr in HK. cbn [sstate_eqb sstate_code N.eqb Pos.eqb negb orb] in HK.
  rewrite Hlab in HK.
  assert (Hdet : forall k, is_detached k s' = is_detached k s).
  { intros k. unfold is_detached, find_node. rewrite Nn. reflexivity. }
  rewrite Hdet. destruct (is_detached (KStep, sl r') s) eqn:Ed; [reflexivity|].
  cbn [orb] in HK. apply andb_true_iff in HK. destruct HK as [HK Hout].
  apply andb_true_iff in HK. destruct HK as [Hhash Hinp].
  assert (Hns : ~ not_succ s' (sl r')).
  { intros Hn. apply Hn. rewrite Hst', Hsucc. reflexivity. }
  apply andb_true_iff. split; [apply andb_true_iff; split|].
  - unfold has_hash in *. rewrite Hh. exact Hhash.
  - unfold file_inputs_of_step, sources_of in *. rewrite Dd. rewrite forallb_forall in *.
    intros k Hk. specialize (Hinp k Hk). unfold input_ok in *. rewrite Hdet.
    apply andb_true_iff in Hinp. destruct Hinp as [Ha Hb]. rewrite Ha. cbn [andb].
    destruct (Ff (snd k)) as [E|[B O]]; [rewrite E; exact Hb|].
    exfalso. apply Hns. destruct (C (snd k) B O) as [Hc _]. apply Hc.
    (* sl r' consumes the file snd k *)
    apply filter_In in Hk. destruct Hk as [Hk Hkind]. apply in_map_iff in Hk.
    destruct Hk as (d & Hd & Hdin). apply filter_In in Hdin. destruct Hdin as [Hdin Hsnk].
    unfold step_sinks_of_file, sinks_of. apply in_map_iff. exists (KStep, sl r'). split; [reflexivity|].
    apply filter_In. split; [|reflexivity]. apply in_map_iff. exists d. split.
    + unfold key_eqb in Hsnk. apply andb_true_iff in Hsnk. destruct Hsnk as [K1 K2].
      apply str_eqb_eq in K2. destruct (dsnk d) as [kk ll]. cbn in *. destruct kk; try discriminate.
      subst. reflexivity.
    + apply filter_In. split; [rewrite <- Dd; rewrite Dd; exact Hdin|].
      unfold key_eqb. subst k. destruct (dsrc d) as [kk ll]. cbn in *.
      destruct kk; try discriminate. cbn. apply str_eqb_refl.
  - rewrite (Mk_outputs s s' (sl r') M). rewrite forallb_forall in *. intros f Hf.
    specialize (Hout f Hf). unfold output_ok in *. rewrite Hdet.
    destruct (is_detached (KFile, f) s) eqn:Edf; [reflexivity|]. cbn [orb] in *.
    destruct (Ff f) as [E|[B O]]; [rewrite E; exact Hout|].
    exfalso. apply Hns. destruct (C f B O) as [_ Hp]. apply (Hp Edf). exact Hf.
Qed.

Lemma fuel_ok_unused : True. Proof. exact I. Qed.

(* Workflow.mark_step_pending preserves K *)
Lemma K_mark_step_pending (l : str) (s s' : st) :
  unique_labels s -> single_producer s ->
  mark_step_pending l s = Ok s' -> K_b s = true -> K_b s' = true.
Proof.
  intros Hu Hsp H HK. unfold mark_step_pending in H.
  destruct (mark_mutual (fuel_of s)) as [Hs _]. destruct (Hs l s s' Hsp H) as (M & C & _).
  exact (K_Mk_Cl s s' Hu M C HK).
Qed.

(* Workflow.mark_consuming_steps_pending preserves K (the file itself is untouched) *)
Lemma marks_consumers (f : str) (s s' : st) :
  single_producer s -> mark_consumers_pending f s = Ok s' ->
  Mk s s' /\ Cl s s' /\ (forall l, In l (step_sinks_of_file f s) -> not_succ s' l).
Proof.
  intros Hsp H. unfold mark_consumers_pending in H.
  destruct (foldM_marks (fun s l => mark_step_pending l s)
              (fun s _ => single_producer s) (fun s l => not_succ s l))
    with (l := step_sinks_of_file f s) (s := s) (s' := s') as (M & C & R); auto.
  - intros s0 a s0' Hq Hcall. unfold mark_step_pending in Hcall.
    destruct (mark_mutual (fuel_of s0)) as [Hs _]. exact (Hs a s0 s0' Hq Hcall).
  - intros s0 s0' a M Hq. exact (single_producer_Mk _ _ M Hq).
  - intros s0 s0' a M Hr. exact (Mk_not_succ _ _ a M Hr).
Qed.

Lemma K_mark_consumers_pending (f : str) (s s' : st) :
  unique_labels s -> single_producer s ->
  mark_consumers_pending f s = Ok s' -> K_b s = true -> K_b s' = true.
Proof.
  intros Hu Hsp H HK. destruct (marks_consumers f s s' Hsp H) as (M & C & _).
  exact (K_Mk_Cl s s' Hu M C HK).
Qed.

(* the transaction OpMarkStepPending (a changed environment variable at startup) *)
Lemma K_op_mark_step_pending (l : str) (s : st) :
  unique_labels s -> single_producer s -> K_b s = true ->
  K_b (apply_op s (OpMarkStepPending l)) = true.
Proof.
  intros Hu Hsp HK. unfold apply_op. cbn [step_op].
  destruct (mark_step_pending l s) as [s'| |] eqn:E; try exact HK.
  exact (K_mark_step_pending l s s' Hu Hsp E HK).
Qed.
